"""C05 — the artifacts used for a step are attested identically by a threshold of signers.

Correspondence on steps with 2-4 signers where exactly one validly signed link differs in ONE material or product
path or hash record (added / removed / renamed path, one changed hash nibble, an extra hash algorithm), the dissenter
first / middle / last in load order, with dissenting INVALID links mixed in; preceded by hand-built pinned cases with
the verdict (and representative link) the property demands."""
import os

from harness import keys as hk
from harness import vcore, vscen
from vlib import core

PROPS = ["Props/C05.v"]
C05_TAGS = ("c05_", "link_disagree_")


def _k(i):
    return hk.sslib_key("ed25519", i)


def _arts(p):
    return p.art("src/a.c", "src/b.c"), p.art("out/a.o", "out/b.o")


def _differ(d, how):
    d = dict(d)
    k = sorted(d)[0]
    if how == "add":
        d["extra"] = vscen.Pin.art("extra")["extra"]
    elif how == "remove":
        del d[k]
    elif how == "rename":
        d[k + ".renamed"] = d.pop(k)
    else:
        h = d[k]["sha256"]
        d[k] = {"sha256": h[:-1] + ("0" if h[-1] != "0" else "1")}
    return d


def pin_dissent(kind, pos, how, broken, dsse=False, params=None):
    """3 signers, threshold 2, the signer at [pos] in load order reports one different material / product"""
    def fn(env, wd):
        p = vscen.Pin(env)
        ks = [_k(0), _k(1), _k(2)]
        M, P = _arts(p)
        p.store({k.keyid: k.pub for k in ks})
        p.step("build", [k.keyid for k in ks], threshold=2)
        idx = {"first": 0, "middle": 1, "last": 2}[pos]
        for i, k in enumerate(ks):
            m2, p2 = M, P
            if i == idx:
                m2, p2 = (_differ(M, how), P) if kind == "mat" else (M, _differ(P, how))
            p.link("build", k.keyid, k, m2, p2, dsse=dsse, tamper="sig_nibble" if (broken and i == idx) else None)
        tags = ["c05_dissent:%s:%s:%s:n3:t2" % (kind, pos, how)] if not broken else ["c05_invalid_dissent:sig_nibble:%s" % pos]
        sc = p.scenario(_k(5), wd, tags=tags, expect="accept" if broken else "ThresholdVerificationError")
        if params is not None:
            sc["params"] = dict(params)
            sc["tags"].append("c05_params_supplied")
        if broken:
            sc["expect_summary"] = {"materials": M, "products": P}
        return sc
    return fn


def pin_threshold_one(observe, second_first):
    """threshold 1, two valid links that differ in products: the representative is the first in load order.
    observe 'summary': single step, the summary link shows it; observe 'match': the next step's MATCH rule sees it."""
    def fn(env, wd):
        p = vscen.Pin(env)
        k0, k1, k2 = _k(0), _k(1), _k(2)
        M, P = _arts(p)
        P2 = _differ(P, "nibble")
        p.store({k.keyid: k.pub for k in (k0, k1, k2)})
        order = [k1, k0] if second_first else [k0, k1]          # load order = order of step.pubkeys
        p.step("build", [k.keyid for k in order], threshold=1)
        p.link("build", k0.keyid, k0, M, P)
        p.link("build", k1.keyid, k1, M, P2)
        rep = P2 if second_first else P
        tags = ["c05_threshold_one:%s:%s" % (observe, "k1_first" if second_first else "k0_first")]
        if observe == "summary":
            sc = p.scenario(_k(5), wd, tags=tags, expect="accept")
            sc["expect_summary"] = {"materials": M, "products": rep}
            return sc
        # the packaging step consumed k0's products: accepted iff k0's link is the representative of 'build'
        p.step("package", [k2.keyid], threshold=1,
               em=[["MATCH", "*", "WITH", "PRODUCTS", "FROM", "build"], ["DISALLOW", "*"]])
        p.link("package", k2.keyid, k2, P, p.art("pkg.tar"))
        return p.scenario(_k(5), wd, tags=tags, expect="RuleVerificationError" if second_first else "accept")
    return fn


def pin_agree(n, thr, dsse_mix):
    """n signers agreeing exactly (artifact dicts built in different insertion orders), threshold thr: accepted"""
    def fn(env, wd):
        p = vscen.Pin(env)
        ks = [_k(i) for i in range(n)]
        M, P = _arts(p)
        p.store({k.keyid: k.pub for k in ks})
        p.step("build", [k.keyid for k in ks], threshold=thr)
        for i, k in enumerate(ks):
            m2 = dict(reversed(list(M.items()))) if i % 2 else M
            p.link("build", k.keyid, k, m2, P, dsse=bool(dsse_mix and i % 2))
        sc = p.scenario(_k(5), wd, tags=["c05_agree:n%d:t%d" % (n, thr)], expect="accept")
        sc["expect_summary"] = {"materials": M, "products": P}
        return sc
    return fn


def pin_one_functionary(case):
    from harness import c02
    return c02.pin_counting(case)


PINNED = (
    [("dissent:%s:%s:%s" % (kind, pos, how), pin_dissent(kind, pos, how, False, dsse=(pos == "middle")))
     for kind, how in (("mat", "nibble"), ("prod", "add")) for pos in ("first", "middle", "last")]
    + [("dissent:prod:last:nibble:empty_params", pin_dissent("prod", "last", "nibble", False, params={})),
       ("dissent:mat:first:add:unused_param", pin_dissent("mat", "first", "add", False, dsse=True, params={"UNUSED": "x"})),
       ("dissent:prod:last:remove", pin_dissent("prod", "last", "remove", False)),
       ("dissent:mat:last:rename", pin_dissent("mat", "last", "rename", False))]
    + [("broken_dissent:%s:%s" % (kind, pos), pin_dissent(kind, pos, "nibble", True))
       for kind in ("mat", "prod") for pos in ("first", "middle", "last")]
    + [("threshold_one:summary:k0_first", pin_threshold_one("summary", False)),
       ("threshold_one:summary:k1_first", pin_threshold_one("summary", True)),
       ("threshold_one:match:k0_first", pin_threshold_one("match", False)),
       ("threshold_one:match:k1_first", pin_threshold_one("match", True)),
       ("agree:n3:t3", pin_agree(3, 3, False)), ("agree:n4:t2:mixed_formats", pin_agree(4, 2, True))]
    # distinct functionaries: agreeing links made with several (sub)keys of ONE gpg key are one attestation
    + [("one_functionary:" + c, pin_one_functionary(c)) for c in
       ("two_subkeys_authorised_alone", "master_and_subkey_authorised", "subkeys_count_once", "subkeys_count_once_enough",
        "same_key_filed_twice")]
)


def c05_cov(recs, summary):
    full, gpg = {}, 0
    for r in recs:
        if any(t.startswith("gpg_") for t in r["scen"]["tags"]):
            gpg += 1
        for t in r["scen"]["tags"]:
            if t.startswith("c05_"):
                key = ":".join(t.split(":")[:4])      # c05_dissent:<mat|prod>:<position>:<how>
                full[key] = full.get(key, 0) + 1
    return {"c05_tag_distribution": dict(sorted(full.items())), "scenarios_with_gpg_functionaries": gpg, "pinned": summary}


def run(ctx):
    n = 2000 if ctx.thorough() else 300
    families = ("ed25519", "rsa", "ecdsa") if ctx.thorough() else ("ed25519",)
    core.check_props(ctx, PROPS)
    from vlib import ties2
    ties2.run_thresholds(ctx)
    # root layout in the traditional format: the model's JSON reader is quadratic in the length of one string and a
    # DSSE layout puts four layout-sized strings into the request (payload, decoded payload, loads table, PAE message)
    base = {"c05": True, "link_variants": ["honest"], "root_variant": "honest", "vary_keys": False, "p_sub": 0.06,
            "root_dsse": False, "nsteps": [1, 1, 1, 2, 2, 3]}
    opt_sets = [
        dict(base),
        dict(base, format="mb"),
        dict(base, gpg=0.25),
        dict(base, format="dsse", p_sub=0.12, root_dsse=None),
        dict(base, link_variants=["honest"] * 6 + ["unsigned", "wrong_signer", "missing", "disagree_mat", "disagree_prod"]),
        {"threshold_heavy": True, "p_sub": 0.1},
        # a parameter set is supplied although the layout has no placeholders: thresholds are what they were
        dict(base, params_fixed={}),
        {"threshold_heavy": True, "p_sub": 0.1, "params_fixed": {"UNUSED": "x"}},
    ]
    pinned, recs, model = vscen.run_all(ctx, opt_sets, n, families=families, use_gpg=True, pinned=PINNED)
    summary = vscen.check_expectations(ctx, pinned, vcore.replay_file)
    return vcore.report(ctx, "C05", pinned + recs, model, PROPS,
                        "verification core disagrees with the model (threshold agreement on artifacts)",
                        relevant=lambda r: any(t.startswith(C05_TAGS) for t in r["scen"]["tags"]),
                        extra_cov=c05_cov(recs, summary),
                        assumptions=["theorems about Model/Verify.v; tie: differential run of in_toto_verify on generated supply chains "
                                     "with 2-4 signers per step, one dissenting link (one path or hash record of materials or products; "
                                     "first / middle / last in load order), dissenting invalid links mixed in; pinned cases with the "
                                     "verdict and representative link the property demands"])


def replay(ctx, obj):
    return vscen.replay(ctx, "C05", obj)     # vcore.replay rewrites the inspection log path inside signed content
