"""C06 — delegated steps (sublayouts) are verified completely and recursively.

Correspondence: the real in_toto_verify against the extracted model on supply chains with nested
delegations (depth 1-3, several delegating functionaries of one step, thresholds over a mix of links
and sublayouts) and every way a sublayout can be bad that the property's quantifier names."""
import os

from harness import sublay_tie, vcore, vscen
from vlib import core

PROPS = ["Props/C06.v"]

SUB_BAD = ["honest"] * 6 + ["expired", "unsigned", "edited", "wrong_signer", "sig_nibble", "auth_other_signer"]


def opt_sets():
    return [
        # honest deep trees, both formats mixed: accepts with summaries propagated upwards
        {"deviate": False, "p_sub": 0.6, "max_depth": 3, "vary_keys": False},
        # every bad-sublayout kind, one level
        {"p_sub": 0.7, "max_depth": 1, "sub_variants": SUB_BAD, "link_variants": ["honest"] * 5 + ["edited", "missing", "wrong_signer"],
         "vary_keys": False},
        # two levels, thresholds over links and sublayouts, several delegating functionaries
        {"p_sub": 0.5, "max_depth": 2, "threshold_heavy": True, "sub_variants": SUB_BAD, "vary_keys": False,
         "link_variants": ["honest"] * 6 + ["disagree_prod", "disagree_mat", "sig_nibble", "unsigned"]},
        # thresholds over a mix of links and honest sublayouts where one plain link dissents in its PRODUCTS only
        # (the sublayout's summary and the other links agree): agreement is checked on summaries, on both maps
        {"p_sub": 0.5, "max_depth": 1, "threshold_heavy": True, "vary_keys": False, "sub_variants": ["honest"],
         "link_variants": ["honest", "honest", "disagree_prod"]},
        # three levels, default deviation catalogue everywhere (sub-links tampered / missing / misplaced)
        {"p_sub": 0.45, "max_depth": 3},
        # sub-rules violated, sub-inspections failing
        {"p_sub": 0.6, "max_depth": 2, "rule_violation": True, "insp_fail": True, "vary_keys": False,
         "link_variants": ["honest"], "sub_variants": ["honest"]},
        # ... with the API-only option persist_inspection_links=False at the top: what is checked below does not depend on it
        {"p_sub": 0.7, "max_depth": 2, "insp_fail": True, "vary_keys": False, "deviate": False, "persist": False,
         "link_variants": ["honest"], "sub_variants": ["honest"]},
        # sublayouts whose expiry lies within a day of the (fixed) clock, either side, verified in varying process time zones
        {"p_sub": 0.7, "max_depth": 2, "near_expiry": True, "vary_keys": False, "deviate": False,
         "link_variants": ["honest"], "sub_variants": ["honest"]},
        {"p_sub": 0.6, "max_depth": 2, "format": "mb", "sub_variants": SUB_BAD, "insp_fail": True},
        {"p_sub": 0.6, "max_depth": 2, "format": "dsse", "sub_variants": SUB_BAD, "rule_violation": True},
        # empty sublayouts (no steps): the empty summary link
        {"p_sub": 0.6, "max_depth": 2, "allow_empty": True, "link_variants": ["honest"], "vary_keys": False},
    ]


def tree_depth(t):
    return 1 + max([tree_depth(s) for s in t["dirs"].values()] + [0])


def count_sublayouts(scen):
    return sum(1 for t in scen["tags"] if t.startswith("sublayout:"))


def relevant(r):
    return count_sublayouts(r["scen"]) > 0


def dist(recs):
    """measured input distribution of the delegation dimension"""
    d = {"with_sublayout": 0, "max_nesting": {}, "sublayouts_per_scenario": {}, "deviation_at_depth": {},
         "accepted_with_sublayout": 0, "rejected_below_root": 0, "bad_sublayout_kinds": {}}
    for r in recs:
        sc = r["scen"]
        n = count_sublayouts(sc)
        if not n:
            continue
        d["with_sublayout"] += 1
        depth = max([dp for dp, t in sc.get("depth_tags", []) if t.startswith("sublayout:")] + [0]) + 1
        d["max_nesting"][depth] = d["max_nesting"].get(depth, 0) + 1
        k = min(n, 6)
        d["sublayouts_per_scenario"][k] = d["sublayouts_per_scenario"].get(k, 0) + 1
        if "ok" in r["impl"][0]:
            d["accepted_with_sublayout"] += 1
        deep_dev = False
        for dp, t in sc.get("depth_tags", []):
            if t.startswith("sublayout:"):
                kind = t.split(":", 1)[1]
                if kind != "honest":
                    d["bad_sublayout_kinds"][kind] = d["bad_sublayout_kinds"].get(kind, 0) + 1
                continue
            if t in ("sublinks_in_parent", "subdir_missing", "sublayout_auth_other_signer"):
                d["bad_sublayout_kinds"][t] = d["bad_sublayout_kinds"].get(t, 0) + 1
            if dp >= 1:
                deep_dev = True
                key = "%d:%s" % (dp, t.split(":")[0])
                d["deviation_at_depth"][key] = d["deviation_at_depth"].get(key, 0) + 1
        if deep_dev and "ok" not in r["impl"][0]:
            d["rejected_below_root"] += 1
    d["max_nesting"] = {str(k): v for k, v in sorted(d["max_nesting"].items())}
    d["sublayouts_per_scenario"] = {str(k): v for k, v in sorted(d["sublayouts_per_scenario"].items())}
    return d


class CallSpy:
    """records the recursive calls of the real in_toto_verify and checks what C06_sub_call_is / C06_summary_name say
    about them (the intermediate summaries are not visible in the root's result): exactly one key = the file-name key
    id, directory <parent>/<step>.<keyid[:8]>, no parameters, the step's name handed down and carried by the summary"""

    def __init__(self):
        self.stack, self.roots, self.nested, self.problems = [], 0, 0, []

    def __enter__(self):
        import in_toto.verifylib as vl
        self.vl, self.orig = vl, vl.in_toto_verify
        spy = self

        def wrapped(metadata, layout_key_dict, link_dir_path=".", substitution_parameters=None, step_name="", **kw):
            if not spy.stack:
                spy.roots += 1
            else:
                spy.nested += 1
                parent = spy.stack[-1]
                kids = list(layout_key_dict)
                bad = []
                if len(kids) != 1:
                    bad.append("key dict has %d keys" % len(kids))
                elif os.path.basename(link_dir_path) != "%s.%s" % (step_name, kids[0][:8]):
                    bad.append("directory %r for step %r key %s" % (os.path.basename(link_dir_path), step_name, kids[0][:8]))
                if os.path.dirname(link_dir_path) != parent:
                    bad.append("directory is not a sub-directory of the parent's")
                if substitution_parameters is not None:
                    bad.append("parameters handed down")
                if not step_name:
                    bad.append("no step name handed down")
                if bad:
                    spy.problems.append((spy.roots - 1, "; ".join(bad)))
            spy.stack.append(link_dir_path)
            try:
                res = spy.orig(metadata, layout_key_dict, link_dir_path=link_dir_path,
                               substitution_parameters=substitution_parameters, step_name=step_name, **kw)
            finally:
                spy.stack.pop()
            if spy.stack and res.name != step_name and (res.materials or res.products or metadata.get_payload().steps):
                spy.problems.append((spy.roots - 1, "summary of step %r is named %r" % (step_name, res.name)))
            return res
        vl.in_toto_verify = wrapped
        return self

    def __exit__(self, *a):
        self.vl.in_toto_verify = self.orig


def _k(i):
    from harness import keys as hk
    return hk.sslib_key("ed25519", i)


def pin_twin(bad, dsse):
    """two functionaries of ONE step delegate with byte-identical sublayout content (each signs its own copy); the first
    one's sub-directory is complete, the second one's is [bad]: every delegation is verified against its own directory"""
    def fn(env, wd):
        import copy as _copy
        p, sub = vscen.Pin(env), vscen.Pin(env)
        kA, kB, kC = _k(0), _k(1), _k(2)
        M, P = sub.art("src/a.c"), sub.art("out/a.o")
        sub.store({kC.keyid: kC.pub})
        sub.step("compile", [kC.keyid], ep=[["ALLOW", "out/a.o"], ["DISALLOW", "*"]])
        sub.link("compile", kC.keyid, kC, M, P, dsse=dsse)
        p.store({kA.keyid: kA.pub, kB.keyid: kB.pub})
        p.step("build", [kA.keyid, kB.keyid], threshold=2)
        p.sublayout("build", kA.keyid, sub, kA, dsse=dsse)
        good_dir = _copy.deepcopy(p.dirs["build.%s" % kA.keyid[:8]])
        p.sublayout("build", kB.keyid, sub, kB, dsse=dsse, with_dir=False)
        dB = "build.%s" % kB.keyid[:8]
        expect = "accept"
        if bad == "complete":
            p.dirs[dB] = good_dir
        elif bad == "missing_dir":
            expect = "LinkNotFoundError"
        elif bad == "links_in_parent":
            for fn_, v in good_dir["files"].items():
                p.files[fn_] = v
            expect = "LinkNotFoundError"
        elif bad == "other_products":
            sub2 = vscen.Pin(env)
            sub2.link("compile", kC.keyid, kC, M, sub2.art("out/a.o", "out/evil.o"), dsse=dsse)
            p.dirs[dB] = sub2.tree()
            expect = "RuleVerificationError"
        return p.scenario(_k(5), wd, tags=["sublayout:honest", "twin_sublayouts:" + bad], dsse=dsse, expect=expect)
    return fn


PINNED = [("twin:%s:%s" % (bad, "dsse" if d else "metablock"), pin_twin(bad, d))
          for d in (False, True) for bad in ("complete", "missing_dir", "links_in_parent", "other_products")]


def run(ctx):
    n = 3500 if ctx.thorough() else 330
    core.check_props(ctx, PROPS)
    sublay_tie.run(ctx, 'Tie/C06.v')
    fams = ("ed25519", "rsa", "ecdsa") if ctx.thorough() else ("ed25519",)
    pinned, _, _pm = vscen.run_all(ctx, [], 0, pinned=PINNED)
    pin_summary = vscen.check_expectations(ctx, pinned, vcore.replay_file)
    with CallSpy() as spy:
        recs, model = vcore.run_scenarios(ctx, opt_sets(), n, families=fams)
    for idx, what in spy.problems[:3]:
        ctx.violation("recursive call of in_toto_verify: " + what,
                      vcore.replay_file(recs[idx]) if 0 <= idx < len(recs) else {"scenario_index": idx})
    ctx.notes.append("recursive calls observed on the real code: %d in %d root calls" % (spy.nested, spy.roots))
    return vcore.report(
        ctx, "C06", recs, model, PROPS,
        "in_toto_verify disagrees with the model on a scenario with delegated steps",
        relevant=relevant, extra_cov={"delegation": dist(recs), "pinned": pin_summary, "recursive_calls_observed": spy.nested,
                                      "recursive_call_argument_problems": len(spy.problems)},
        assumptions=["theorems about Model/Verify.v (verify = structural fixpoint over the link-directory tree); "
                     "tie: differential run of in_toto_verify on generated nested supply chains with bad sublayouts of every "
                     "kind named by the property; compared: verdict class, summary link, ordered inspection log"])


def replay(ctx, obj):
    with CallSpy() as spy:
        rc = vcore.replay(ctx, "C06", obj)
    for _, what in spy.problems[:3]:
        print("  -> recursive call of in_toto_verify: " + what)
    if spy.problems and not rc:
        print("VIOLATION property=C06 replay=%s" % obj.get("rerun", "").split()[-1])
        return 1
    return rc
