#!/usr/bin/env python3
"""print a python file without docstrings/blank lines, with line numbers"""
import ast,sys
for f in sys.argv[1:]:
    src=open(f).read(); t=ast.parse(src); lines=src.split('\n'); skip=set()
    for n in ast.walk(t):
        if isinstance(n,(ast.FunctionDef,ast.ClassDef,ast.Module)):
            b=n.body
            if b and isinstance(b[0],ast.Expr) and isinstance(getattr(b[0],'value',None),ast.Constant) and isinstance(b[0].value.value,str):
                for i in range(b[0].lineno,b[0].end_lineno+1): skip.add(i)
    print("#####",f)
    for i,l in enumerate(lines,1):
        if i not in skip and l.strip() and not l.strip().startswith('#'): print(f"{i}\t{l}")
