#!/usr/bin/env python3
"""pytrans2.py — further targets of the shallow ("Fun") back end of tools/pytrans.py:
the six simple artifact-rule functions of in_toto/verifylib.py (C03) and the set algebra of
in_toto_match_products (C19).  Fail closed.  Usage: pytrans2.py <repo> <outdir>   writes <outdir>/Fun2.v
"""
import ast
import os
import sys

sys.path.insert(0, os.path.dirname(os.path.abspath(__file__)))
import pytrans  # noqa: E402
from pytrans import Unsupported, ident  # noqa: E402


class Fun2(pytrans.Fun):
    """Fun + attribute reads of parameters (`link.products` -> parameter link_products),
    getattr(o, n), `continue` in for loops, and `try: x = e  except Exc: <block>`"""

    def __init__(self, known, consts, attr_params=()):
        super().__init__(known, consts)
        self.attr_params = set(attr_params)
        self.loop_tups = []

    def call(self, e, locals_):
        if isinstance(e.func, ast.Name) and e.func.id == "getattr" and len(e.args) == 2 and not e.keywords:
            args = [self.expr(a, locals_) for a in e.args]
            return self.with_args(args, lambda a: ("(py_getattr %s %s)" % (a[0], a[1]), False))
        if isinstance(e.func, ast.Attribute) and e.func.attr == "join" and len(e.args) == 1 and not e.keywords:
            args = [self.expr(e.func.value, locals_), self.expr(e.args[0], locals_)]
            return self.with_args(args, lambda a: ("(py_join %s %s)" % (a[0], a[1]), False))
        if isinstance(e.func, ast.Name) and (e.func.id, len(e.args)) in getattr(self, "oracle_functions", {}) and not e.keywords:
            args = [self.expr(a, locals_) for a in e.args]
            fn = self.oracle_functions[(e.func.id, len(e.args))]
            return self.with_args(args, lambda a: ("(%s %s)" % (fn, " ".join(a)), False))
        if isinstance(e.func, ast.Attribute) and (e.func.attr, len(e.args)) in getattr(self, "oracle_methods", {}) and not e.keywords:
            args = [self.expr(e.func.value, locals_)] + [self.expr(a, locals_) for a in e.args]
            fn = self.oracle_methods[(e.func.attr, len(e.args))]
            return self.with_args(args, lambda a: ("(%s %s)" % (fn, " ".join(a)), False))
        if isinstance(e.func, ast.Attribute) and e.func.attr == "values" and not e.args and not e.keywords:
            return self.with_args([self.expr(e.func.value, locals_)], lambda a: ("(py_values %s)" % a[0], False))
        return super().call(e, locals_)

    def assigned(self, stmts):
        names = super().assigned(stmts)
        for s in stmts:
            for node in ast.walk(s):
                if isinstance(node, ast.Call) and isinstance(node.func, ast.Attribute) and node.func.attr == "sort" \
                        and isinstance(node.func.value, ast.Name) and node.func.value.id not in names:
                    names.append(node.func.value.id)
                # d[k] = v rebinds d (the value is immutable in the model)
                if isinstance(node, ast.Assign) and len(node.targets) == 1 and isinstance(node.targets[0], ast.Subscript) \
                        and isinstance(node.targets[0].value, ast.Name) and node.targets[0].value.id not in names:
                    names.append(node.targets[0].value.id)
        return names

    def block(self, stmts, locals_, k):
        if not stmts:
            return k(locals_)
        s, rest = stmts[0], stmts[1:]
        cont = lambda loc: self.block(rest, loc, k)
        if isinstance(s, ast.Assign) and len(s.targets) == 1 and isinstance(s.targets[0], ast.Subscript) \
                and isinstance(s.targets[0].value, ast.Name) and s.targets[0].value.id in locals_ \
                and not isinstance(s.targets[0].slice, ast.Slice):
            # d[k] = v
            d = s.targets[0].value.id
            args = [self.expr(s.targets[0].slice, locals_), self.expr(s.value, locals_)]
            code = self.lift(self.with_args(args, lambda a: ("(py_setitem %s %s %s)" % (ident(d), a[0], a[1]), False)))
            return "(do %s <- %s; %s)" % (ident(d), code, cont(locals_))
        if isinstance(s, ast.Expr) and isinstance(s.value, ast.Call) and isinstance(s.value.func, ast.Attribute) \
                and s.value.func.attr == "sort" and isinstance(s.value.func.value, ast.Name) \
                and s.value.func.value.id in locals_ and not s.value.args and not s.value.keywords:
            # l.sort() rebinds l
            n = s.value.func.value.id
            return "(do %s <- (py_sort %s); %s)" % (ident(n), ident(n), cont(locals_))
        if isinstance(s, ast.Continue):
            if not self.loop_tups:
                raise Unsupported("continue outside a loop")
            return "(Ok %s)" % self.loop_tups[-1][0]
        if isinstance(s, ast.Break):
            if not self.loop_tups or self.loop_tups[-1][1] is None:
                raise Unsupported("break outside a translated loop")
            return "(Ok %s)" % self.loop_tups[-1][1]
        if isinstance(s, ast.Try):
            # try: <name> = <expr>  |  <call>     except <Exc> [as e]: <block>   (no else / finally, one or two handlers;
            # a bound exception may only be mentioned in logging calls, which are dropped)
            if s.orelse or s.finalbody or len(s.handlers) not in (1, 2) or len(s.body) != 1:
                raise Unsupported("try shape")
            a = s.body[0]
            for h in s.handlers:
                if h.type is None:
                    raise Unsupported("try handler shape")
                if h.name is not None:
                    for st in h.body:
                        ignored = isinstance(st, ast.Expr) and isinstance(st.value, ast.Call) and \
                            (pytrans.dotted(st.value.func) or "").startswith(pytrans.IGNORED_CALL_PREFIXES)
                        if not ignored and any(isinstance(x, ast.Name) and x.id == h.name for x in ast.walk(st)):
                            raise Unsupported("the bound exception is used outside logging")
            if isinstance(a, ast.Assign) and len(a.targets) == 1 and isinstance(a.targets[0], ast.Name):
                n, val = a.targets[0].id, a.value
            elif isinstance(a, ast.Expr) and isinstance(a.value, ast.Call):
                n, val = None, a.value
            else:
                raise Unsupported("try body shape")
            code = self.lift(self.expr(val, locals_))
            loc = set(locals_) | ({n} if n else set())
            binder = ident(n) if n else "_"
            if len(s.handlers) == 1:
                h = s.handlers[0]
                return "(py_catch %s %s (fun _ => %s) (fun %s => %s))" % (
                    code, self.exc_of(h.type), self.block(h.body, locals_, cont), binder, cont(loc))
            h1, h2 = s.handlers
            return "(py_catch2 %s %s %s (fun _ => %s) (fun _ => %s) (fun %s => %s))" % (
                code, self.exc_of(h1.type), self.exc_of(h2.type), self.block(h1.body, locals_, cont),
                self.block(h2.body, locals_, cont), binder, cont(loc))
        if isinstance(s, ast.For):
            # as Fun.block, but `continue` is allowed in the body (break / return are not);
            # `for k, v in d.items()` binds both names
            pair = None
            if isinstance(s.target, ast.Tuple) and len(s.target.elts) == 2 and all(isinstance(x, ast.Name) for x in s.target.elts) \
                    and isinstance(s.iter, ast.Call) and isinstance(s.iter.func, ast.Attribute) and s.iter.func.attr == "items" \
                    and not s.iter.args and not s.iter.keywords:
                pair = (s.target.elts[0].id, s.target.elts[1].id)
            if s.orelse or not (isinstance(s.target, ast.Name) or pair):
                raise Unsupported("for shape")
            for node in ast.walk(s):
                if isinstance(node, ast.Return):
                    raise Unsupported("return in for")
            def own(nodes):      # statements of this loop, not of a loop nested in it
                for st in nodes:
                    yield st
                    if isinstance(st, (ast.For, ast.While)):
                        continue
                    for field in ("body", "orelse", "handlers", "finalbody"):
                        sub = getattr(st, field, None)
                        if isinstance(sub, list):
                            yield from own([x for x in sub if isinstance(x, (ast.stmt, ast.ExceptHandler))])
            has_break = any(isinstance(node, ast.Break) for node in own(s.body))
            it = self.expr(s.iter.func.value if pair else s.iter, locals_)
            state = [n for n in self.assigned(s.body) if n in locals_]
            tup = "(" + ", ".join(ident(n) for n in state) + ")" if len(state) != 1 else ident(state[0])
            if not state:
                tup = "tt"
            pat = "'" + tup if len(state) > 1 else ("_" if not state else tup)
            inner_loc = set(locals_) | (set(pair) if pair else {s.target.id})
            if has_break:
                # the loop state carries a flag: once set, the remaining iterations do nothing
                self.loop_tups.append(("(false, %s)" % tup, "(true, %s)" % tup))
                try:
                    inner = self.block(s.body, inner_loc, lambda loc: "(Ok (false, %s))" % tup)
                finally:
                    self.loop_tups.pop()
                if pair:
                    raise Unsupported("break in a loop over items()")
                loopb = lambda c: "(py_for %s (false, %s) (fun %s '(brk, %s) => if (brk : bool) then (Ok (true, %s)) else %s))" % (
                    c, tup, ident(s.target.id), tup, tup, inner)
                after = cont(locals_)
                code, pure = it
                bpat = "(_, %s)" % tup
                if pure:
                    return "(do' %s <- %s; %s)" % (bpat, loopb(code), after)
                itc = self.tmp()
                return "(do %s <- %s; do' %s <- %s; %s)" % (itc, code, bpat, loopb(itc), after)
            self.loop_tups.append(("%s" % tup, None))
            try:
                body = self.block(s.body, inner_loc, lambda loc: "(Ok %s)" % tup)
            finally:
                self.loop_tups.pop()
            if pair:
                loop = lambda c: "(py_for_items %s %s (fun %s %s %s => %s))" % (c, tup, ident(pair[0]), ident(pair[1]), pat if state else "_", body)
            else:
                loop = lambda c: "(py_for %s %s (fun %s %s => %s))" % (c, tup, ident(s.target.id), pat if state else "_", body)
            after = cont(locals_)
            code, pure = it
            bind_state = ("do' %s <-" % tup) if len(state) > 1 else ("do %s <-" % (tup if state else "_"))
            if pure:
                return "(%s %s; %s)" % (bind_state, loop(code), after)
            itc = self.tmp()
            return "(do %s <- %s; %s %s; %s)" % (itc, code, bind_state, loop(itc), after)
        return super().block(stmts, locals_, k)

    def expr(self, e, locals_):
        if isinstance(e, ast.Attribute) and not isinstance(e.ctx, ast.Store):
            d = pytrans.dotted(e)
            if d in self.attr_params:
                return ident(d.replace(".", "_")), True
            if e.attr in self.data_attrs:
                # a data attribute of an object rendered as a dict attribute name -> value
                return self.with_args([self.expr(e.value, locals_)],
                                      lambda a: ("(py_getattr %s %s)" % (a[0], pytrans.vstr(e.attr)), False))
        return super().expr(e, locals_)

    data_attrs = ()


RULE_FUNS = ["verify_match_rule", "verify_create_rule", "verify_delete_rule", "verify_modify_rule", "verify_allow_rule",
             "verify_disallow_rule", "verify_require_rule"]


def gen(repo):
    out = ["(* generated by tools/pytrans2.py from %s — do not edit *)" % repo,
           "From InToto.Model Require Import Base Json PyLib Glob PyLibGlob.", ""]
    vt = pytrans.load(repo, "in_toto/verifylib.py")
    for name in RULE_FUNS:
        fn = pytrans.find_function(vt, name)
        code, _ = Fun2({}, {}).function(fn)
        out.append("(* in_toto/verifylib.py : %s, line %d *)" % (name, fn.lineno))
        out.append(code)
    # in_toto_match_products: everything after the recording call, as a function of (artifacts, link.products)
    rt = pytrans.load(repo, "in_toto/runlib.py")
    fn = pytrans.find_function(rt, "in_toto_match_products")
    body = [s for s in fn.body if not (isinstance(s, ast.Expr) and isinstance(s.value, ast.Constant))]
    # leading statements allowed before the tail: argument normalisation and the recording call
    k = None
    for i, s in enumerate(body):
        if isinstance(s, ast.Assign) and len(s.targets) == 1 and isinstance(s.targets[0], ast.Name) \
                and s.targets[0].id == "artifacts" and isinstance(s.value, ast.Call) \
                and pytrans.dotted(s.value.func) == "record_artifacts_as_dict":
            k = i
            call = s.value
    if k is None:
        raise Unsupported("in_toto_match_products: recording call `artifacts = record_artifacts_as_dict(...)` not found")
    for s in body[:k]:
        if not isinstance(s, ast.If):
            raise Unsupported("in_toto_match_products: unexpected statement before the recording call")
    kw = {a.arg: ast.unparse(a.value) for a in call.keywords}
    want = {"exclude_patterns": "exclude_patterns", "lstrip_paths": "lstrip_paths"}
    if [ast.unparse(a) for a in call.args] != ["paths"] or kw != want:
        raise Unsupported("in_toto_match_products: recording call arguments changed: %s" % ast.unparse(call))
    tail = ast.FunctionDef(name="match_products_tail",
                           args=ast.arguments(posonlyargs=[], args=[ast.arg("artifacts"), ast.arg("link_products")],
                                              vararg=None, kwonlyargs=[], kw_defaults=[], kwarg=None, defaults=[]),
                           body=body[k + 1:], decorator_list=[], lineno=fn.lineno)
    # `return a, b, c` -> a list
    for node in ast.walk(tail):
        if isinstance(node, ast.Return) and isinstance(node.value, ast.Tuple):
            node.value = ast.List(elts=node.value.elts, ctx=ast.Load())
    code, _ = Fun2({}, {}, attr_params=["link.products"]).function(tail)
    out.append("(* in_toto/runlib.py : in_toto_match_products (after the recording call), line %d *)" % fn.lineno)
    out.append(code)
    return "\n".join(out) + "\n"


TRACE = "RULE_TRACE"


def _mentions_trace(node):
    return any(isinstance(n, ast.Name) and n.id == TRACE for n in ast.walk(node))


def _pure_trace_value(node):
    """the value written into the trace may only read names, build literals and copy with list(<name>)"""
    for n in ast.walk(node):
        if isinstance(n, ast.Call):
            if not (isinstance(n.func, ast.Name) and n.func.id == "list" and len(n.args) == 1
                    and isinstance(n.args[0], ast.Name) and not n.keywords):
                return False
        elif not isinstance(n, (ast.Name, ast.Constant, ast.Dict, ast.List, ast.Load, ast.Subscript, ast.Attribute)):
            return False
    return True


def strip_trace(fn):
    """drop the statements that only write the diagnostic RULE_TRACE dictionary (fail closed on any other use)"""
    def keep(stmts):
        out = []
        for s in stmts:
            if isinstance(s, (ast.For, ast.If)) and not _mentions_trace(getattr(s, "test", None) or s.iter):
                s.body = keep(s.body) or [ast.Pass()]
                s.orelse = keep(s.orelse)
                out.append(s)
                continue
            if _mentions_trace(s):
                ok = False
                if isinstance(s, ast.Expr) and isinstance(s.value, ast.Call) and isinstance(s.value.func, ast.Attribute) \
                        and s.value.func.attr in ("clear", "append") and _mentions_trace(s.value.func.value) \
                        and all(_pure_trace_value(a) for a in s.value.args) and not s.value.keywords:
                    ok = True
                if isinstance(s, ast.Assign) and len(s.targets) == 1 and isinstance(s.targets[0], ast.Subscript) \
                        and isinstance(s.targets[0].value, ast.Name) and s.targets[0].value.id == TRACE \
                        and _pure_trace_value(s.value):
                    ok = True
                if not ok:
                    raise Unsupported("%s: RULE_TRACE used other than written: %s" % (fn.name, ast.unparse(s)[:80]))
                continue
            out.append(s)
        return out
    fn.body = keep(fn.body)
    return fn


def trace_readers(tree):
    """functions that read RULE_TRACE"""
    out = []
    for n in tree.body:
        if isinstance(n, ast.FunctionDef) and _mentions_trace(n):
            out.append(n.name)
    return out


def gen3(repo):
    """verify_item_rules / verify_all_item_rules on top of Fun.v (unpack_rule) and Fun2.v (the rule functions)"""
    out = ["(* generated by tools/pytrans2.py from %s — do not edit *)" % repo,
           "From InToto.Model Require Import Base Json PyLib Glob PyLibGlob.",
           "From InToto.Gen Require Import Fun Fun2.", ""]
    vt = pytrans.load(repo, "in_toto/verifylib.py")
    readers = sorted(trace_readers(vt))
    if readers != ["_get_artifact_rule_traceback", "verify_item_rules"]:
        raise Unsupported("RULE_TRACE is used by %s (expected: written by verify_item_rules, read by _get_artifact_rule_traceback)" % readers)
    known = {"unpack_rule": 1, "verify_match_rule": 4, "verify_create_rule": 4, "verify_delete_rule": 4,
             "verify_modify_rule": 4, "verify_allow_rule": 2, "verify_disallow_rule": 2, "verify_require_rule": 2}
    for name in ("verify_item_rules", "verify_all_item_rules"):
        fn = strip_trace(pytrans.find_function(vt, name))
        tr = Fun2(dict(known), {})
        tr.data_attrs = ("materials", "products", "name", "expected_materials", "expected_products")
        code, ar = tr.function(fn)
        known[name] = ar
        out.append("(* in_toto/verifylib.py : %s, line %d *)" % (name, fn.lineno))
        out.append(code)
    return "\n".join(out) + "\n"


def gen5(repo):
    """verify_threshold_constraints and reduce_chain_links (C05)"""
    out = ["(* generated by tools/pytrans2.py from %s — do not edit *)" % repo,
           "From InToto.Model Require Import Base Json PyLib Glob PyLibGlob.", ""]
    vt = pytrans.load(repo, "in_toto/verifylib.py")
    for name in ("verify_threshold_constraints", "reduce_chain_links"):
        fn = pytrans.find_function(vt, name)
        tr = Fun2({}, {})
        tr.data_attrs = ("steps", "threshold", "name", "materials", "products")
        code, _ = tr.function(fn)
        out.append("(* in_toto/verifylib.py : %s, line %d *)" % (name, fn.lineno))
        out.append(code)
    return "\n".join(out) + "\n"


def _method_as_function(cls_tree, qual, newname, extra_params):
    fn = pytrans.find_function(cls_tree, qual)
    args = [a.arg for a in fn.args.args if a.arg not in ("self", "cls")] + [p.replace(".", "_") for p in extra_params]
    out = ast.FunctionDef(name=newname,
                          args=ast.arguments(posonlyargs=[], args=[ast.arg(a) for a in args], vararg=None, kwonlyargs=[],
                                             kw_defaults=[], kwarg=None, defaults=[]),
                          body=fn.body, decorator_list=[], lineno=fn.lineno)
    for node in ast.walk(out):
        if isinstance(node, ast.Return) and isinstance(node.value, ast.Tuple):
            node.value = ast.List(elts=node.value.elts, ctx=ast.Load())
    return out, fn.lineno


def gen10(repo):
    """FileResolver._mangle and FileResolver._strip_scheme_prefix (C10): the naming of recorded files"""
    out = ["(* generated by tools/pytrans2.py from %s — do not edit *)" % repo,
           "From InToto.Model Require Import Base Json PyLib Glob PyLibGlob.", ""]
    rt = pytrans.load(repo, "in_toto/resolver/_resolver.py")
    for qual, name, extra in (("FileResolver._mangle", "file_mangle", ["self._lstrip_paths"]),
                              ("FileResolver._strip_scheme_prefix", "file_strip_scheme_prefix", ["self.SCHEME"])):
        fn, line = _method_as_function(rt, qual, name, extra)
        code, _ = Fun2({}, {}, attr_params=extra).function(fn, drop_self=False)
        out.append("(* in_toto/resolver/_resolver.py : %s, line %d *)" % (qual, line))
        out.append(code)
    # the class constant the second function reads
    cls = [n for n in rt.body if isinstance(n, ast.ClassDef) and n.name == "FileResolver"][0]
    scheme = [n for n in cls.body if isinstance(n, ast.Assign) and len(n.targets) == 1 and isinstance(n.targets[0], ast.Name)
              and n.targets[0].id == "SCHEME" and isinstance(n.value, ast.Constant) and isinstance(n.value.value, str)]
    if len(scheme) != 1:
        raise Unsupported("FileResolver.SCHEME is not a string constant")
    out.append("Definition c_FileResolver_SCHEME : pyval := %s.\n" % pytrans.vstr(scheme[0].value.value))
    return "\n".join(out) + "\n"


def gen20(repo):
    """DirectoryResolver._hash (C20): the text that gets hashed, as a function of the per-file hash dictionary.
    The three statements after it are checked for their shape: sha256 over the UTF-8 bytes of that text."""
    out = ["(* generated by tools/pytrans2.py from %s — do not edit *)" % repo,
           "From InToto.Model Require Import Base Json PyLib Glob PyLibGlob.", ""]
    rt = pytrans.load(repo, "in_toto/resolver/_resolver.py")
    alg = [n for n in rt.body if isinstance(n, ast.Assign) and len(n.targets) == 1 and isinstance(n.targets[0], ast.Name)
           and n.targets[0].id == "_HASH_ALGORITHM"]
    if len(alg) != 1 or not isinstance(alg[0].value, ast.Constant) or alg[0].value.value != "sha256":
        raise Unsupported("_HASH_ALGORITHM is not the constant 'sha256'")
    fn = pytrans.find_function(rt, "DirectoryResolver._hash")
    body = [s for s in fn.body if not (isinstance(s, ast.Expr) and isinstance(s.value, ast.Constant))]
    tail = [ast.unparse(s) for s in body[-3:]]
    want = ["digest_obj = digest(_HASH_ALGORITHM)", "digest_obj.update(text_repr.encode('utf-8'))",
            "return {_HASH_ALGORITHM: digest_obj.hexdigest()}"]
    if tail != want:
        raise Unsupported("DirectoryResolver._hash: the hashing tail changed: %r" % (tail,))
    imp = [n for n in rt.body if isinstance(n, ast.ImportFrom) and n.module == "securesystemslib.hash"
           and any(a.name == "digest" and a.asname is None for a in n.names)]
    if not imp:
        raise Unsupported("`digest` is not securesystemslib.hash.digest")
    head = ast.FunctionDef(name="dir_text",
                           args=ast.arguments(posonlyargs=[], args=[ast.arg("file_hashes")], vararg=None, kwonlyargs=[],
                                              kw_defaults=[], kwarg=None, defaults=[]),
                           body=body[:-3] + [ast.Return(value=ast.Name(id="text_repr", ctx=ast.Load()))],
                           decorator_list=[], lineno=fn.lineno)
    code, _ = Fun2({}, {"_HASH_ALGORITHM": pytrans.vstr("sha256")}).function(head, drop_self=False)
    out.append("(* in_toto/resolver/_resolver.py : DirectoryResolver._hash (up to the hashing of text_repr), line %d *)" % fn.lineno)
    out.append(code)
    return "\n".join(out) + "\n"


def _fundef(name, params, body, lineno):
    return ast.FunctionDef(name=name,
                           args=ast.arguments(posonlyargs=[], args=[ast.arg(a) for a in params], vararg=None, kwonlyargs=[],
                                              kw_defaults=[], kwarg=None, defaults=[]),
                           body=body, decorator_list=[], lineno=lineno)


def gen02(repo):
    """verify_link_signature_thresholds (C02), the two parts that decide WHO may sign a step's link:
      * the inverse subkey dictionary built at the top of the function, and
      * the `for authorized_keyid in step.pubkeys: ... else: continue` search for the verification key.
    The for/else is rendered as a function returning [found, verification_key, main_keyid]: `found = True` is put
    before each `break` (the else branch runs exactly when no break was taken); the else branch itself must be
    a logging call followed by `continue`.  The position of the two parts in the function is checked (fail closed)."""
    out = ["(* generated by tools/pytrans2.py from %s — do not edit *)" % repo,
           "From InToto.Model Require Import Base Json PyLib Glob PyLibGlob.", ""]
    vt = pytrans.load(repo, "in_toto/verifylib.py")
    fn = pytrans.find_function(vt, "verify_link_signature_thresholds")
    body = [s for s in fn.body if not (isinstance(s, ast.Expr) and isinstance(s.value, ast.Constant))]
    if [a.arg for a in fn.args.args] != ["layout", "steps_metadata"]:
        raise Unsupported("verify_link_signature_thresholds: parameters changed")
    # part 1: statements before `verified_steps_metadata = {}`
    cut = [i for i, s in enumerate(body) if ast.unparse(s) == "verified_steps_metadata = {}"]
    if len(cut) != 1 or cut[0] == 0:
        raise Unsupported("verify_link_signature_thresholds: `verified_steps_metadata = {}` not found once")
    head = body[:cut[0]]
    if ast.unparse(head[0]) != "main_keys_for_subkeys = {}":
        raise Unsupported("verify_link_signature_thresholds: the inverse subkey dictionary is not built first")
    f1 = _fundef("main_keys_for_subkeys", ["layout_keys"],
                 head + [ast.Return(value=ast.Name(id="main_keys_for_subkeys", ctx=ast.Load()))], fn.lineno)
    code, _ = Fun2({}, {}, attr_params=["layout.keys"]).function(f1, drop_self=False)
    out.append("(* in_toto/verifylib.py : verify_link_signature_thresholds, the inverse subkey dictionary, line %d *)" % fn.lineno)
    out.append(code)
    # nothing after part 1 may assign the dictionary or the key store again
    for s in body[cut[0]:]:
        for node in ast.walk(s):
            tg = []
            if isinstance(node, ast.Assign):
                tg = node.targets
            elif isinstance(node, (ast.AugAssign, ast.AnnAssign)):
                tg = [node.target]
            elif isinstance(node, ast.Call) and isinstance(node.func, ast.Attribute) and \
                    node.func.attr in ("update", "pop", "clear", "setdefault", "popitem", "__setitem__", "__delitem__"):
                tg = [node.func.value]
            elif isinstance(node, ast.Delete):
                tg = node.targets
            for t in tg:
                base = t
                while isinstance(base, (ast.Subscript, ast.Attribute)) and not (
                        isinstance(base, ast.Attribute) and pytrans.dotted(base) == "layout.keys"):
                    base = base.value
                d = pytrans.dotted(base) if isinstance(base, (ast.Name, ast.Attribute)) else None
                if d in ("main_keys_for_subkeys", "layout.keys", "layout"):
                    raise Unsupported("verify_link_signature_thresholds: %s is modified after it was built" % d)
    # part 2: the search for the verification key
    loops = [s for s in body[cut[0]:] if isinstance(s, ast.For)]
    if len(loops) != 1 or ast.unparse(loops[0].target) != "step" or ast.unparse(loops[0].iter) != "layout.steps":
        raise Unsupported("verify_link_signature_thresholds: `for step in layout.steps` not found once")
    inner = [s for s in loops[0].body if isinstance(s, ast.For)]
    if len(inner) != 1 or ast.unparse(inner[0].target) != "(link_keyid, link)" or \
            ast.unparse(inner[0].iter) != "steps_metadata.get(step.name, {}).items()":
        raise Unsupported("verify_link_signature_thresholds: the loop over a step's links changed: %s" %
                          (ast.unparse(inner[0].iter) if inner else "absent"))
    search = inner[0].body[0]
    if not (isinstance(search, ast.For) and ast.unparse(search.target) == "authorized_keyid"
            and ast.unparse(search.iter) == "step.pubkeys"):
        raise Unsupported("verify_link_signature_thresholds: the first statement per link is not the search over step.pubkeys")
    els = search.orelse
    if not (len(els) == 2 and isinstance(els[1], ast.Continue) and isinstance(els[0], ast.Expr)
            and isinstance(els[0].value, ast.Call) and pytrans.dotted(els[0].value.func).startswith("LOG.")):
        raise Unsupported("verify_link_signature_thresholds: the else branch of the search is not `log; continue`")
    # the names the search leaves behind are read afterwards, nothing else assigns them
    for s in inner[0].body[1:]:
        for node in ast.walk(s):
            if isinstance(node, ast.Name) and isinstance(node.ctx, ast.Store) and node.id in ("verification_key", "main_keyid", "link_keyid"):
                raise Unsupported("verify_link_signature_thresholds: %s is assigned after the search" % node.id)

    class MarkBreak(ast.NodeTransformer):
        def visit_For(self, node):      # a nested loop's break is its own
            return node

        def visit_While(self, node):
            return node

        def visit_Break(self, node):
            return [ast.Assign(targets=[ast.Name(id="found", ctx=ast.Store())], value=ast.Constant(value=True), lineno=node.lineno), node]

    import copy
    loop = copy.deepcopy(search)
    loop.orelse = []
    loop.body = [x for st in loop.body for x in (lambda r: r if isinstance(r, list) else [r])(MarkBreak().visit(st))]
    ast.fix_missing_locations(loop)
    pre = [ast.Assign(targets=[ast.Name(id=n, ctx=ast.Store())], value=ast.Constant(value=v), lineno=search.lineno)
           for n, v in (("found", False), ("verification_key", None), ("main_keyid", None))]
    ret = ast.Return(value=ast.List(elts=[ast.Name(id=n, ctx=ast.Load()) for n in ("found", "verification_key", "main_keyid")],
                                    ctx=ast.Load()))
    f2 = _fundef("authorise", ["layout_keys", "main_keys_for_subkeys", "step_pubkeys", "link_keyid"], pre + [loop, ret], search.lineno)
    code, _ = Fun2({}, {}, attr_params=["layout.keys", "step.pubkeys"]).function(f2, drop_self=False)
    out.append("(* in_toto/verifylib.py : verify_link_signature_thresholds, the search for the verification key, line %d *)" % search.lineno)
    out.append(code)
    return "\n".join(out) + "\n"


def gen02full(repo, parts_code):
    """verify_link_signature_thresholds (C02, C08) as a whole, on top of the two parts of gen02: the statements that build
    the inverse subkey dictionary become a call of f_main_keys_for_subkeys, the for/else search becomes
        r = authorise(layout.keys, main_keys_for_subkeys, step.pubkeys, link_keyid)
        found = r[0]; verification_key = r[1]; main_keyid = r[2]
        if not found: <else body>
    (f_authorise is generated from that very loop; the other names the loop assigns are checked not to be read after it).
    Calls of methods of metadata objects become oracle applications (o_verify_signature link key, o_get_payload link):
    Section variables of the generated file."""
    import copy
    vt = pytrans.load(repo, "in_toto/verifylib.py")
    fn = copy.deepcopy(pytrans.find_function(vt, "verify_link_signature_thresholds"))
    body = [s for s in fn.body if not (isinstance(s, ast.Expr) and isinstance(s.value, ast.Constant))]
    cut = [i for i, s in enumerate(body) if ast.unparse(s) == "verified_steps_metadata = {}"][0]     # (checked by gen02)
    call = lambda f, args: ast.Call(func=ast.Name(id=f, ctx=ast.Load()), args=args, keywords=[])
    name = lambda n: ast.Name(id=n, ctx=ast.Load())
    head = [ast.Assign(targets=[ast.Name(id="main_keys_for_subkeys", ctx=ast.Store())],
                       value=call("main_keys_for_subkeys_of", [ast.Attribute(value=name("layout"), attr="keys", ctx=ast.Load())]),
                       lineno=fn.lineno)]
    rest = body[cut:]
    outer = [s for s in rest if isinstance(s, ast.For)][0]
    middle = [s for s in outer.body if isinstance(s, ast.For)][0]
    search = middle.body[0]
    temps = set()
    for st in search.body:
        for x in ast.walk(st):
            if isinstance(x, ast.Name) and isinstance(x.ctx, ast.Store):
                temps.add(x.id)
    temps |= {search.target.id}
    temps -= {"verification_key", "main_keyid"}
    for st in middle.body[1:] + search.orelse:
        for x in ast.walk(st):
            if isinstance(x, ast.Name) and isinstance(x.ctx, ast.Load) and x.id in temps:
                raise Unsupported("verify_link_signature_thresholds: %s, a temporary of the search, is read after it" % x.id)
    ln = search.lineno
    asg = lambda n, v: ast.Assign(targets=[ast.Name(id=n, ctx=ast.Store())], value=v, lineno=ln)
    idx = lambda i: ast.Subscript(value=name("r_search"), slice=ast.Constant(value=i), ctx=ast.Load())
    repl = [asg("r_search", call("authorise", [ast.Attribute(value=name("layout"), attr="keys", ctx=ast.Load()),
                                                 name("main_keys_for_subkeys"),
                                                 ast.Attribute(value=name("step"), attr="pubkeys", ctx=ast.Load()),
                                                 name("link_keyid")])),
            asg("found", idx(0)), asg("verification_key", idx(1)), asg("main_keyid", idx(2)),
            ast.If(test=ast.UnaryOp(op=ast.Not(), operand=name("found")), body=search.orelse, orelse=[], lineno=ln)]
    middle.body = repl + middle.body[1:]
    fn.body = head + rest
    fn.args.args = [ast.arg("layout_keys"), ast.arg("layout_steps"), ast.arg("steps_metadata")]
    ast.fix_missing_locations(fn)
    tr = Fun2({"authorise": 4, "main_keys_for_subkeys_of": 1}, {}, attr_params=["layout.keys", "layout.steps"])
    tr.data_attrs = ("name", "pubkeys", "threshold", "type_")
    tr.oracle_methods = {("verify_signature", 1): "o_verify_signature", ("get_payload", 0): "o_get_payload"}
    code, _ = tr.function(fn, drop_self=False)
    code = code.replace("f_main_keys_for_subkeys_of", "f_main_keys_for_subkeys")
    out = [parts_code,
           "(** try / except with two handlers *)",
           "Definition py_catch2 {A B} (r : res A) (e1 e2 : err) (h1 h2 : unit -> res B) (k : A -> res B) : res B :=",
           "  match r with Ok a => k a | Err e' => if err_eqb e' e1 then h1 tt else if err_eqb e' e2 then h2 tt else Err e' end.", "",
           "Section Oracles.",
           "  (** link.verify_signature(key) and link.get_payload() of a metadata object *)",
           "  Variable o_verify_signature : pyval -> pyval -> res pyval.",
           "  Variable o_get_payload : pyval -> res pyval.", "",
           "(* in_toto/verifylib.py : verify_link_signature_thresholds, line %d *)" % fn.lineno,
           code, "End Oracles."]
    return "\n".join(out) + "\n"


def gen01(repo):
    """verify_metadata_signatures (C01): every supplied key must verify, an empty key set is refused.
    `_check_public_keys(keys_dict)` and `metadata.verify_signature(key)` are oracles (Section variables)."""
    vt = pytrans.load(repo, "in_toto/verifylib.py")
    fn = pytrans.find_function(vt, "verify_metadata_signatures")
    if [a.arg for a in fn.args.args] != ["metadata", "keys_dict"]:
        raise Unsupported("verify_metadata_signatures: parameters changed")
    imp = [n for n in vt.body if isinstance(n, ast.ImportFrom) and n.module == "in_toto.formats"
           and any(a.name == "_check_public_keys" and a.asname is None for a in n.names)]
    if not imp:
        raise Unsupported("`_check_public_keys` is not in_toto.formats._check_public_keys")
    tr = Fun2({}, {})
    tr.oracle_methods = {("verify_signature", 1): "o_verify_signature"}
    tr.oracle_functions = {("_check_public_keys", 1): "o_check_public_keys"}
    code, _ = tr.function(fn, drop_self=False)
    out = ["(* generated by tools/pytrans2.py from %s — do not edit *)" % repo,
           "From InToto.Model Require Import Base Json PyLib Glob PyLibGlob.", "",
           "Section Oracles.",
           "  (** metadata.verify_signature(key) of a metadata object; in_toto.formats._check_public_keys(keys) *)",
           "  Variable o_verify_signature : pyval -> pyval -> res pyval.",
           "  Variable o_check_public_keys : pyval -> res pyval.", "",
           "(* in_toto/verifylib.py : verify_metadata_signatures, line %d *)" % fn.lineno,
           code, "End Oracles."]
    return "\n".join(out) + "\n"


def gen16(repo):
    """substitute_parameters (C16) as a FUNCTION of the layout's steps, inspections and the parameter dictionary.
    The source mutates the Step / Inspection objects: each loop over `layout.steps` / `layout.inspect` ends with three
    attribute assignments to the loop variable.  Rewriting (fail closed on the shape): the three assigned values of every
    element are collected, in the order of the assignments, into a list that the function returns -
        [[[v1, v2, v3] per step], [[v1, v2, v3] per inspection]]
    - and the names of the assigned attributes are emitted as constants for the tie to check.  `s.format(**parameter_dictionary)`
    and `_check_parameter_dict(parameter_dictionary)` are oracles (Section variables)."""
    import copy
    vt = pytrans.load(repo, "in_toto/verifylib.py")
    fn = copy.deepcopy(pytrans.find_function(vt, "substitute_parameters"))
    if [a.arg for a in fn.args.args] != ["layout", "parameter_dictionary"]:
        raise Unsupported("substitute_parameters: parameters changed")
    body = [s for s in fn.body if not (isinstance(s, ast.Expr) and isinstance(s.value, ast.Constant))]
    if len(body) != 3 or ast.unparse(body[0]) != "_check_parameter_dict(parameter_dictionary)":
        raise Unsupported("substitute_parameters: expected the parameter check followed by two loops")
    name = lambda n: ast.Name(id=n, ctx=ast.Load())
    attrs_out = []

    class Fmt(ast.NodeTransformer):
        def visit_Call(self, node):
            self.generic_visit(node)
            if isinstance(node.func, ast.Attribute) and node.func.attr == "format":
                if node.args or len(node.keywords) != 1 or node.keywords[0].arg is not None or \
                        ast.unparse(node.keywords[0].value) != "parameter_dictionary":
                    raise Unsupported("substitute_parameters: a format call that is not .format(**parameter_dictionary)")
                return ast.Call(func=name("format_with"), args=[node.func.value, name("parameter_dictionary")], keywords=[])
            return node

    new_body = [body[0]]
    results = []
    for loop, coll, over in ((body[1], "new_steps", "layout.steps"), (body[2], "new_inspections", "layout.inspect")):
        if not (isinstance(loop, ast.For) and isinstance(loop.target, ast.Name) and ast.unparse(loop.iter) == over and not loop.orelse):
            raise Unsupported("substitute_parameters: expected `for x in %s`" % over)
        var = loop.target.id
        tail = loop.body[-3:]
        names, vals = [], []
        for st in tail:
            if not (isinstance(st, ast.Assign) and len(st.targets) == 1 and isinstance(st.targets[0], ast.Attribute)
                    and isinstance(st.targets[0].value, ast.Name) and st.targets[0].value.id == var
                    and isinstance(st.value, ast.Name)):
                raise Unsupported("substitute_parameters: the loop over %s does not end with three attribute assignments" % over)
            names.append(st.targets[0].attr)
            vals.append(st.value.id)
        for st in loop.body[:-3]:
            for x in ast.walk(st):
                if isinstance(x, ast.Attribute) and isinstance(x.ctx, ast.Store):
                    raise Unsupported("substitute_parameters: an attribute is assigned before the end of the loop body")
        attrs_out.append(names)
        lb = [Fmt().visit(st) for st in loop.body[:-3]]
        lb.append(ast.Expr(value=ast.Call(func=ast.Attribute(value=name(coll), attr="append", ctx=ast.Load()),
                                          args=[ast.List(elts=[name(v) for v in vals], ctx=ast.Load())], keywords=[])))
        new_body.append(ast.Assign(targets=[ast.Name(id=coll, ctx=ast.Store())], value=ast.List(elts=[], ctx=ast.Load()), lineno=loop.lineno))
        new_body.append(ast.For(target=loop.target, iter=loop.iter, body=lb, orelse=[], lineno=loop.lineno))
        results.append(coll)
    new_body.append(ast.Return(value=ast.List(elts=[name(r) for r in results], ctx=ast.Load())))
    fn.body = new_body
    fn.args.args = [ast.arg("layout_steps"), ast.arg("layout_inspect"), ast.arg("parameter_dictionary")]
    ast.fix_missing_locations(fn)
    tr = Fun2({}, {}, attr_params=["layout.steps", "layout.inspect"])
    tr.data_attrs = ("expected_materials", "expected_products", "expected_command", "run")
    tr.oracle_functions = {("_check_parameter_dict", 1): "o_check_parameter_dict", ("format_with", 2): "o_format"}
    code, _ = tr.function(fn, drop_self=False)
    out = ["(* generated by tools/pytrans2.py from %s — do not edit *)" % repo,
           "From InToto.Model Require Import Base Json PyLib Glob PyLibGlob.", "",
           "(** the attributes the two loops assign, in the order of the assignments *)",
           "Definition c_step_attrs : list str := [%s]." % "; ".join(pytrans.coq_str(a) for a in attrs_out[0]),
           "Definition c_inspection_attrs : list str := [%s]." % "; ".join(pytrans.coq_str(a) for a in attrs_out[1]), "",
           "Section Oracles.",
           "  (** str.format with the parameter dictionary as keyword arguments; in_toto.formats._check_parameter_dict *)",
           "  Variable o_format : pyval -> pyval -> res pyval.",
           "  Variable o_check_parameter_dict : pyval -> res pyval.", "",
           "(* in_toto/verifylib.py : substitute_parameters, line %d *)" % fn.lineno,
           code, "End Oracles."]
    return "\n".join(out) + "\n"


def main():
    repo, outdir = sys.argv[1], sys.argv[2]
    os.makedirs(outdir, exist_ok=True)
    try:
        text = gen(repo)
    except (Unsupported, SyntaxError, OSError) as e:
        print("TRANSLATOR-ERROR Fun2.v: %s" % e)
        sys.exit(1)
    with open(os.path.join(outdir, "Fun2.v"), "w") as f:
        f.write(text)
    if "--thresholds" in sys.argv[3:]:
        try:
            text5 = gen5(repo)
        except (Unsupported, SyntaxError, OSError) as e:
            print("TRANSLATOR-ERROR Fun5.v: %s" % e)
            sys.exit(1)
        with open(os.path.join(outdir, "Fun5.v"), "w") as f:
            f.write(text5)
    if "--dirtext" in sys.argv[3:]:
        try:
            text20 = gen20(repo)
        except (Unsupported, SyntaxError, OSError) as e:
            print("TRANSLATOR-ERROR Fun20.v: %s" % e)
            sys.exit(1)
        with open(os.path.join(outdir, "Fun20.v"), "w") as f:
            f.write(text20)
    if "--mangle" in sys.argv[3:]:
        try:
            text10 = gen10(repo)
        except (Unsupported, SyntaxError, OSError) as e:
            print("TRANSLATOR-ERROR Fun10.v: %s" % e)
            sys.exit(1)
        with open(os.path.join(outdir, "Fun10.v"), "w") as f:
            f.write(text10)
    if "--authorise" in sys.argv[3:]:
        try:
            text02 = gen02full(repo, gen02(repo))
        except (Unsupported, SyntaxError, OSError) as e:
            print("TRANSLATOR-ERROR Fun02.v: %s" % e)
            sys.exit(1)
        with open(os.path.join(outdir, "Fun02.v"), "w") as f:
            f.write(text02)
    if "--layout-signatures" in sys.argv[3:]:
        try:
            text01 = gen01(repo)
        except (Unsupported, SyntaxError, OSError) as e:
            print("TRANSLATOR-ERROR Fun01.v: %s" % e)
            sys.exit(1)
        with open(os.path.join(outdir, "Fun01.v"), "w") as f:
            f.write(text01)
    if "--substitute" in sys.argv[3:]:
        try:
            text16 = gen16(repo)
        except (Unsupported, SyntaxError, OSError) as e:
            print("TRANSLATOR-ERROR Fun16.v: %s" % e)
            sys.exit(1)
        with open(os.path.join(outdir, "Fun16.v"), "w") as f:
            f.write(text16)
    if "--items" in sys.argv[3:]:
        try:
            text3 = gen3(repo)
        except (Unsupported, SyntaxError, OSError) as e:
            print("TRANSLATOR-ERROR Fun3.v: %s" % e)
            sys.exit(1)
        with open(os.path.join(outdir, "Fun3.v"), "w") as f:
            f.write(text3)


if __name__ == "__main__":
    main()
