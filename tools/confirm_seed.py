#!/usr/bin/env python3
"""confirm_seed.py <property-id> <src-dir> <name> [--check CXX[,CYY]]

Confirm a seeded change delivered by an independent mutation agent (src-dir holds patch.diff, demo.py,
notes.md) in a scratch worktree of /repo, then keep it under /verif/seeded/<name>/ and run the named
checks against it (patch applied to /repo, undone straight afterwards).  Prints one summary line per step.
"""
import json
import os
import re
import shutil
import subprocess
import sys
import time

ROOT = os.path.dirname(os.path.dirname(os.path.abspath(__file__)))
REPO = "/repo"
PY = "/venv/bin/python"


def sh(cmd, cwd=None, timeout=1800):
    p = subprocess.run(cmd, shell=True, cwd=cwd, capture_output=True, text=True, timeout=timeout)
    return p.returncode, p.stdout + p.stderr


def main():
    pid, src, name = sys.argv[1], sys.argv[2], sys.argv[3]
    checks = [pid]
    if "--check" in sys.argv:
        checks = sys.argv[sys.argv.index("--check") + 1].split(",")
    skip_confirm = "--skip-confirm" in sys.argv
    patch = os.path.join(src, "patch.diff")
    demo = os.path.join(src, "demo.py")
    meta = {"property": pid, "source": "independent sub-agent given only the property text and a scratch worktree of /repo",
            "confirmed_at": time.strftime("%Y-%m-%dT%H:%M:%SZ", time.gmtime())}
    wt = "/tmp/seedchk_%s" % name
    if not skip_confirm:
        sh("git -C %s worktree remove --force %s" % (REPO, wt))
        rc, out = sh("git -C %s worktree add --detach %s HEAD" % (REPO, wt))
        assert rc == 0, out
        try:
            rc, out = sh("git apply --check %s && git apply %s" % (patch, patch), cwd=wt)
            meta["patch_applies_to_repo_head"] = rc == 0
            print("patch applies:", rc == 0, out[-300:] if rc else "")
            if rc != 0:
                return 2
            rc, out = sh("%s -m pytest -q -p no:cacheprovider --timeout=900 --continue-on-collection-errors 2>&1 | tail -3" % PY, cwd=wt)
            m = re.search(r"(\d+) failed, (\d+) passed.*?(\d+) errors", out)
            meta["suite_with_change"] = m.group(0) if m else out[-200:]
            print("suite with change:", meta["suite_with_change"])
            rc1, out1 = sh("%s %s %s" % (PY, demo, wt), cwd="/tmp")
            meta["demo_with_change_exit"] = rc1
            print("demo with change: exit", rc1)
            sh("git checkout -- .", cwd=wt)
            rc0, out0 = sh("%s %s %s" % (PY, demo, wt), cwd="/tmp")
            meta["demo_without_change_exit"] = rc0
            print("demo without change: exit", rc0)
            meta["confirmed"] = bool(m and int(m.group(2)) >= 259 and rc1 == 1 and rc0 == 0)
        finally:
            sh("git -C %s worktree remove --force %s" % (REPO, wt))
            shutil.rmtree(wt, ignore_errors=True)
        if not meta["confirmed"]:
            print("NOT CONFIRMED", json.dumps(meta))
            return 3
    dst = os.path.join(ROOT, "seeded", name)
    os.makedirs(dst, exist_ok=True)
    if os.path.abspath(src) != os.path.abspath(dst):
        shutil.copy(patch, os.path.join(dst, "patch.diff"))
        shutil.copy(demo, os.path.join(dst, "demo.py"))
    notes = os.path.join(src, "notes.md")
    if os.path.exists(notes):
        if os.path.abspath(src) != os.path.abspath(dst):
            shutil.copy(notes, os.path.join(dst, "notes.md"))
        meta["needs_to_manifest"] = open(notes).read()[:1500]
    old = {}
    if os.path.exists(os.path.join(dst, "meta.json")):
        old = json.load(open(os.path.join(dst, "meta.json")))
    old.update(meta)
    meta = old
    # run the checks against it: either in /repo itself (apply, check, undo) or — while other work is going on
    # against /repo — in a scratch worktree handed to the checks through VERIF_REPO
    results = meta.setdefault("checks_run", {})
    in_repo = "--in-repo" in sys.argv
    if in_repo:
        st = subprocess.run(["git", "-C", REPO, "status", "--porcelain"], capture_output=True, text=True).stdout
        assert st.strip() == "", "/repo not clean: " + st
        target = REPO
        rc, out = sh("git -C %s apply %s" % (REPO, os.path.join(dst, "patch.diff")))
        assert rc == 0, out
    else:
        target = "/tmp/seedrun_%s" % name
        sh("git -C %s worktree remove --force %s" % (REPO, target))
        rc, out = sh("git -C %s worktree add --detach %s HEAD" % (REPO, target))
        assert rc == 0, out
        rc, out = sh("git apply %s" % os.path.join(dst, "patch.diff"), cwd=target)
        assert rc == 0, out
    try:
        for c in checks:
            t0 = time.time()
            # the evidence file describes runs on /repo itself: keep it out of the way of this run
            ev = os.path.join(ROOT, "evidence", c + ".json")
            keep = open(ev).read() if os.path.exists(ev) else None
            try:
                rc, out = sh("VERIF_REPO=%s ./check %s --tier quick" % (target, c), cwd=ROOT, timeout=3600)
            finally:
                if keep is not None:
                    open(ev, "w").write(keep)
            viol = [l for l in out.splitlines() if l.startswith("VIOLATION")]
            results[c] = {"exit": rc, "caught": rc == 1 and bool(viol), "violation_lines": viol[:3],
                          "first_detail": next((l.strip()[:300] for l in out.splitlines() if l.strip().startswith("->")), ""),
                          "wall_s": round(time.time() - t0, 1), "against": "/repo (patched, then reverted)" if in_repo else "scratch worktree of /repo via VERIF_REPO",
                          "verif_commit": subprocess.run(["git", "-C", ROOT, "rev-parse", "--short", "HEAD"], capture_output=True, text=True).stdout.strip()}
            print("check %s: exit %d caught=%s %s" % (c, rc, results[c]["caught"], viol[:1]))
    finally:
        if in_repo:
            sh("git -C %s checkout -- ." % REPO)
        else:
            sh("git -C %s worktree remove --force %s" % (REPO, target))
            shutil.rmtree(target, ignore_errors=True)
    meta["what_ran"] = ("scratch worktree of /repo: git apply, full pinned test suite, demo.py with and without the change; "
                        "then patch applied to /repo, ./check <id> --tier quick, git checkout -- .")
    json.dump(meta, open(os.path.join(dst, "meta.json"), "w"), indent=1, ensure_ascii=False)
    return 0


if __name__ == "__main__":
    sys.exit(main())
