#!/bin/bash
# tools/allchecks.sh [seed] [tier]  — run every claimed check once; print one line per check
cd "$(dirname "$0")/.."
SEED=${1:-1}; TIER=${2:-quick}
for p in $(python3 -c "import json; print(' '.join(c['property_id'] for c in json.load(open('MANIFEST.json'))['checks']))"); do
  t0=$(date +%s)
  out=$(VERIF_SEED=$SEED ./check $p --tier $TIER 2>&1); rc=$?
  t1=$(date +%s)
  echo "$p seed=$SEED rc=$rc $((t1-t0))s $(echo "$out" | grep -c '^VIOLATION') violations; $(echo "$out" | grep '^OK\|^VIOLATION' | head -2 | tr '\n' ' ')"
  if [ $rc -ne 0 ]; then echo "$out" | grep -- '->' | head -3 | cut -c1-400; fi
done
