#!/usr/bin/env python3
"""regenerate /verif/MANIFEST.json from the claims table below"""
import json
import os
ROOT = os.path.dirname(os.path.dirname(os.path.abspath(__file__)))
props = [json.loads(l) for l in open(os.path.join(ROOT, "properties.jsonl"))]
TB = ("Trusted: Coq 8.16.1 kernel (vm_compute, no native_compute), no axioms (Print Assumptions: closed); "
      "extraction (ExtrOcamlBasic only) + ocaml/driver.ml for the differential run, a sample re-evaluated by vm_compute inside coqc; ")
CLAIMS = {
 "C03": dict(text="Theorems (Props/C03.v, for an arbitrary glob matcher): every consuming rule removes exactly the artifacts its documented definition consumes; DISALLOW/REQUIRE fail exactly as documented; whole rule lists realise the documented ordered filter (big-step relation), deterministically and independently of storage order; both rule lists of every item are checked. Tie: the real verify_item_rules is run against the extracted model on generated worlds/rule lists comparing the queue after every rule; the glob model is compared with fnmatch.filter.",
             note=TB + "hand model of fnmatch (Glob.v) validated by correspondence only; guards: patterns in the modelled glob fragment, artifact paths without backslash and '//'.",
             tech="Coq proof (model = declarative filter semantics) + differential correspondence"),
 "C04": dict(text="Theorems (Props/C04.v over Proofs/ChainProofs.v + VerifyChain.v, corollaries of the C03 theorems for the glob model): a closed rule list [REQUIRE f..; MATCH * WITH PRODUCTS FROM prev; DISALLOW *] accepts iff the item's artifact map equals the referenced link's map (path -> hash record), any difference fails with a rule error; lifted through in_toto_verify's stages: acceptance implies the equality at every closed step boundary and for the closing inspection of the final product; a boundary whose maps differ is never accepted. That the maps are the recorded trees is C10/C11, that links are authentic C02. Tie: chains recorded with the real in_toto_run/record tools under derived closed layouts, one tamper event per re-run (file edit/add/delete/rename/same-content rewrite/uncovered file at every boundary and the final product; link edit/removal/exchange), real in_toto_verify vs the property oracle and vs the extracted Verify model.",
             note=TB + "closed chain layouts are the two families of DESIGN C04 (harness/chain.py derive_layout); SHA-256/recording are oracles; the completeness direction through signatures/thresholds is covered by correspondence only.",
             tech="Coq proof (closed rule list <-> map equality, lifted through the verification stages) + end-to-end differential runs with tamper events"),
 "C11": dict(text="Theorems (Props/C11.v over Model/Run.v, Proofs/HonestChain.v): in_toto_run takes the materials snapshot before and the products snapshot after the command, records command line, exit status and (iff requested) output, names the file after the signature's key id, and yields no link if recording or the command fails; completeness on the executable model of in_toto_verify: for every chain length n >= 1 an honest scenario (authentic fresh layout, derived closed-chain layout, functionaries' keys in the store, each step's signed link present, materials(i+1) = products(i) as maps, optional closing inspection) is accepted with the expected summary link and trace, independent of other files and sub-directories (C11_honest_verifies, C11_honest_verifies_inspection). Tie: the real in_toto_run and in_toto_record_start/stop are run on scratch trees with scripted commands that create/modify/delete/rename files, with four independent snapshots (materials/products x before/after) taken by the harness, against the extracted model; every honest chain is verified with the real in_toto_verify (must accept) and the Verify model.",
             note=TB + "recording (C10) and the child process are oracles of the run model; layout authenticity and link signature validity are hypotheses of the honest-chain theorem (C01/C02); py_eqb symmetry proved for hash records with unique keys.",
             tech="Coq proof (order of observations, link assembly, whole-pipeline completeness by stage lemmas and list induction) + differential runs of the real recording tools and verifier"),
 "C17": dict(text="Theorems (Props/C17.v): the rule parser accepts exactly the documented grammar with one meaning, is total (meaning or FormatError for every JSON value), round-trips through pack_rule. Tied to the source on every run two ways: rulelib.unpack_rule/pack_rule and the formats._check_* helpers are regenerated into Gallina by tools/pytrans.py and proved extensionally equal to the model (Tie/C17.v), and the real functions are run against the extracted model on generated token lists.",
             note=TB + "translator + PyLib.v semantics of the translated Python fragment; non-ASCII str.lower() treated as oracle, swept over all code points at run time.",
             tech="Coq proof (grammar = parser, totality, round trip) + regenerated-source tie theorem + differential correspondence"),
 "C19": dict(text="Theorems (Props/C19.v): the three reports are exactly dom P \\ dom A, dom A \\ dom P and the common names with different hash records; pairwise disjoint; all empty iff the two maps are equal. Tie: the real in_toto_match_products is run on real file trees (record, edit, compare) against the extracted model.",
             note=TB + "the fresh local record is taken from the real record_artifacts_as_dict (recording is C10).",
             tech="Coq proof (partition theorem) + differential correspondence on real trees"),
 "C20": dict(text="Theorems (Props/C20.v, SHA-256 an arbitrary function H): digest = H(utf8(sorted sha256sum lines)), empty dir = H(''), sort = code-point order = UTF-8 byte order, independence of listing order, sensitivity to any change of content/name/membership up to an explicit H-collision disjunct; refutation witness for names containing a newline (known finding D20). Tie: real record_artifacts_as_dict(['dir:..'],['ostree:..']) on generated trees/repositories vs the extracted model's text hashed with real SHA-256.",
             note=TB + "SHA-256 and pathspec are oracles; file enumeration by an independent walk in the harness.",
             tech="Coq proof (construction, order-freeness, injectivity up to collision) + differential correspondence"),
}
ORDER = [p["id"] for p in props]
man = {
 "version": 1,
 "setup_cmd": "cd /verif && ./build.sh",
 "hooks": {"guard": "IN_TOTO_VERIF",
           "enable": "no hooks are compiled into /repo; checks run /repo's working tree in-process (PYTHONPATH=/repo) and intercept from the harness side",
           "baseline_off_cmd": "cd /repo && /venv/bin/python -m pytest -ra -q -p no:cacheprovider --timeout=900 --continue-on-collection-errors",
           "source_commits": [], "add_only": True},
 "engines": [
  {"name": "coq-model", "path": "/verif/coq", "serves_properties": sorted(CLAIMS),
   "kind_free_text": "Coq 8.16.1 development: executable Gallina model (Model/), lemmas (Proofs/), property statements (Props/), tie theorems over code regenerated from /repo by tools/pytrans.py (Tie/)"},
  {"name": "correspondence", "path": "/verif/harness", "serves_properties": sorted(CLAIMS),
   "kind_free_text": "differential run of /repo (in-process, real files/keys) against the extracted model (ocaml/driver); sample re-evaluated by vm_compute inside coqc"}],
 "checks": [], "not_applicable": [],
 "notes": "See DESIGN.md. Every check: ./check <id> [--tier quick|thorough]; replay: ./check <id> --replay <file>. known_findings.json lists recorded/fixed defects.",
}
for pid in ORDER:
    if pid in CLAIMS:
        c = CLAIMS[pid]
        man["checks"].append({
            "property_id": pid, "quick_cmd": "./check %s --tier quick" % pid, "thorough_cmd": "./check %s --tier thorough" % pid,
            "evidence_file": "/verif/evidence/%s.json" % pid, "replay_cmd_template": "./check %s --replay {path}" % pid,
            "engine": "coq-model",
            "level_claimed": {"category": "proof", "text": c["text"], "design_ref": "DESIGN.md §7 " + pid},
            "level_note": c["note"], "technique": c["tech"]})
    else:
        man["not_applicable"].append({"property_id": pid, "reason": "not yet built (planned: Coq model + proof + correspondence, DESIGN.md §7); not claimed until its check exists and passes"})
json.dump(man, open(os.path.join(ROOT, "MANIFEST.json"), "w"), indent=1)
print("claimed:", sorted(CLAIMS))
