#!/usr/bin/env python3
"""sublay_ties — regenerate from /repo the syntax that carries properties C06 / C14 (fail-closed):

  * file / directory name formats and the DSSE payload type          -> Gallina functions / constants
  * the field selection of verifylib.get_summary_link                -> a Gallina function on links
  * a normalised skeleton of verifylib.verify_sublayouts             -> list of fact strings
  * where verifylib reads a metadata object (accessor discipline)    -> list of fact strings

usage: sublay_ties.py <repo> <outdir>      writes <outdir>/Sublay.v ; exit status 1 + TRANSLATOR-ERROR on
anything outside the supported shapes."""
import ast
import os
import string
import sys


class Unsupported(Exception):
    pass


def coq_str(s):
    return "[" + ";".join(str(ord(c)) for c in s) + "]%N"


def load(repo, rel):
    with open(os.path.join(repo, rel)) as f:
        return ast.parse(f.read(), rel)


def module_str_const(tree, name):
    for n in tree.body:
        if isinstance(n, ast.Assign) and len(n.targets) == 1 and isinstance(n.targets[0], ast.Name) \
                and n.targets[0].id == name:
            if isinstance(n.value, ast.Constant) and isinstance(n.value.value, str):
                return n.value.value
            raise Unsupported("%s is not a string literal" % name)
    raise Unsupported("constant %s not found" % name)


def format_fun(coq_name, fmt, fields):
    """str.format with named fields and optional '.N' precision -> Gallina function of the fields (in the given order)"""
    parts = []
    used = set()
    for lit, field, spec, conv in string.Formatter().parse(fmt):
        if lit:
            parts.append(coq_str(lit))
        if field is None:
            continue
        if conv or field not in fields:
            raise Unsupported("format field %r of %s" % (field, coq_name))
        used.add(field)
        if not spec:
            parts.append(field)
        elif spec.startswith(".") and spec[1:].isdigit():
            parts.append("(take %s %s)" % (spec[1:], field))
        else:
            raise Unsupported("format spec %r of %s" % (spec, coq_name))
    if used != set(fields):
        raise Unsupported("format %s does not use exactly the fields %s" % (coq_name, fields))
    return "Definition %s (%s : str) : str := %s." % (coq_name, " ".join(fields), " ++ ".join(parts) or "[]")


def find_function(tree, name):
    for n in tree.body:
        if isinstance(n, ast.FunctionDef) and n.name == name:
            return n
    raise Unsupported("function %s not found" % name)


def strip(stmts):
    """drop docstrings and logging calls"""
    out = []
    for s in stmts:
        if isinstance(s, ast.Expr) and isinstance(s.value, ast.Constant) and isinstance(s.value.value, str):
            continue
        if isinstance(s, ast.Expr) and isinstance(s.value, ast.Call) and ast.unparse(s.value.func).startswith(("LOG.", "logging.")):
            continue
        out.append(s)
    return out


# ---- get_summary_link -------------------------------------------------------------------------------
def gen_summary(vtree):
    fn = find_function(vtree, "get_summary_link")
    args = [a.arg for a in fn.args.args]
    if args != ["layout", "reduced_chain_link_dict", "name"]:
        raise Unsupported("get_summary_link signature %s" % args)
    body = strip(fn.body)
    # summary_link = Link() ; if len(layout.steps) > 0: ... ; return summary_link
    if len(body) != 3 or ast.unparse(body[0]) != "summary_link = in_toto.models.link.Link()" \
            or not isinstance(body[1], ast.If) or ast.unparse(body[2]) != "return summary_link":
        raise Unsupported("get_summary_link: unexpected statement structure")
    iff = body[1]
    if ast.unparse(iff.test) != "len(layout.steps) > 0" or iff.orelse:
        raise Unsupported("get_summary_link: guard %s" % ast.unparse(iff.test))
    src = {}      # local name -> 'first' | 'last'
    sel = {}      # summary field -> Gallina expression
    for s in strip(iff.body):
        txt = ast.unparse(s)
        if txt == "first_step_link = reduced_chain_link_dict[layout.steps[0].name]":
            src["first_step_link"] = "first"
        elif txt == "last_step_link = reduced_chain_link_dict[layout.steps[-1].name]":
            src["last_step_link"] = "last"
        elif isinstance(s, ast.Assign) and len(s.targets) == 1 and isinstance(s.targets[0], ast.Attribute) \
                and ast.unparse(s.targets[0].value) == "summary_link":
            field = s.targets[0].attr
            if field in sel:
                raise Unsupported("get_summary_link assigns %s twice" % field)
            v = s.value
            if isinstance(v, ast.Name) and v.id == "name":
                sel[field] = "name"
            elif isinstance(v, ast.Attribute) and isinstance(v.value, ast.Name) and v.value.id in src:
                sel[field] = "(l_%s %s)" % (v.attr, src[v.value.id])
            else:
                raise Unsupported("get_summary_link: %s" % txt)
        else:
            raise Unsupported("get_summary_link: %s" % txt)
    if set(src.values()) != {"first", "last"}:
        raise Unsupported("get_summary_link: first/last step links")
    fields = ["name", "materials", "products", "byproducts", "command", "environment"]
    if not set(sel) <= set(fields):
        raise Unsupported("get_summary_link assigns unknown fields %s" % sorted(set(sel) - set(fields)))
    defaults = {"environment": "(JDict [])"}           # Link(): fields not assigned keep the constructor's default
    exprs = []
    for f in fields:
        if f in sel:
            exprs.append(sel[f])
        elif f in defaults:
            exprs.append(defaults[f])
        else:
            raise Unsupported("get_summary_link does not set %s" % f)
    return ("Definition g_summary_link (first last : link) (name : json) : link :=\n  mkLink %s." % " ".join(exprs))


# ---- verify_sublayouts ------------------------------------------------------------------------------
def facts_verify_sublayouts(vtree):
    fn = find_function(vtree, "verify_sublayouts")
    facts = ["args:" + ",".join(a.arg for a in fn.args.args)]

    def walk(stmts, ctx):
        for s in strip(stmts):
            if isinstance(s, ast.For):
                facts.append("%sfor %s in %s" % (ctx, ast.unparse(s.target), ast.unparse(s.iter)))
                if s.orelse:
                    raise Unsupported("verify_sublayouts: for-else")
                walk(s.body, ctx + "  ")
            elif isinstance(s, ast.If):
                facts.append("%sif %s" % (ctx, ast.unparse(s.test)))
                walk(s.body, ctx + "  ")
                if s.orelse:
                    facts.append("%selse" % ctx)
                    walk(s.orelse, ctx + "  ")
            elif isinstance(s, (ast.Assign, ast.Return, ast.Expr, ast.Raise)):
                facts.append(ctx + " ".join(ast.unparse(s).split()))
            else:   # try / with / while / nested def ...: not the shape the model describes
                facts.append("%s<%s>" % (ctx, type(s).__name__))
                raise Unsupported("verify_sublayouts contains a %s statement" % type(s).__name__)
    walk(fn.body, "")
    return facts


# ---- accessor discipline ----------------------------------------------------------------------------
def facts_accessors(vtree):
    """every place where in_toto_verify's pipeline reads a metadata CONTAINER: attribute accesses on names that hold
    metadata objects must be get_payload / verify_signature only (never .signed / .payload / .signatures)"""
    facts = []
    watched = {"verify_sublayouts": {"metadata"}, "in_toto_verify": {"metadata"},
               "verify_link_signature_thresholds": {"link"}, "verify_metadata_signatures": {"metadata"}}
    for fname, names in sorted(watched.items()):
        fn = find_function(vtree, fname)
        seen = set()
        for node in ast.walk(fn):
            if isinstance(node, ast.Attribute) and isinstance(node.value, ast.Name) and node.value.id in names:
                seen.add(node.attr)
        facts.append("%s:%s" % (fname, ",".join(sorted(seen))))
    return facts


def gen(repo):
    ltree = load(repo, "in_toto/models/layout.py")
    ktree = load(repo, "in_toto/models/link.py")
    mtree = load(repo, "in_toto/models/metadata.py")
    vtree = load(repo, "in_toto/verifylib.py")
    out = ["(* generated by tools/sublay_ties.py from %s — do not edit *)" % repo,
           "From InToto.Model Require Import Base Json Rules.", ""]
    out.append(format_fun("g_sublayout_dirname", module_str_const(ltree, "SUBLAYOUT_LINK_DIR_FORMAT"), ["name", "keyid"]))
    out.append(format_fun("g_link_filename", module_str_const(ktree, "FILENAME_FORMAT"), ["step_name", "keyid"]))
    out.append("Definition g_envelope_payload_type : str := %s." % coq_str(module_str_const(mtree, "ENVELOPE_PAYLOAD_TYPE")))
    out.append(gen_summary(vtree))
    out.append("Definition g_verify_sublayouts : list str := [\n  %s]." %
               ";\n  ".join(coq_str(f) for f in facts_verify_sublayouts(vtree)))
    out.append("Definition g_accessors : list str := [\n  %s]." % ";\n  ".join(coq_str(f) for f in facts_accessors(vtree)))
    return "\n".join(out) + "\n"


def main():
    repo, outdir = sys.argv[1], sys.argv[2]
    os.makedirs(outdir, exist_ok=True)
    try:
        text = gen(repo)
    except (Unsupported, SyntaxError, OSError) as e:
        print("TRANSLATOR-ERROR Sublay.v: %s" % e)
        sys.exit(1)
    with open(os.path.join(outdir, "Sublay.v"), "w") as f:
        f.write(text)


if __name__ == "__main__":
    main()
