#!/bin/bash
# tools/seedbatch.sh <pid> [extra checks comma-separated]  — confirm and run round-2 seeds of one property
cd "$(dirname "$0")/.."
P=$1; EXTRA=${2:+,$2}
for k in 1 2 3; do
  d=/tmp/mut2/$P/out/$k
  [ -f $d/patch.diff ] || continue
  echo "== $P-r2-$k"
  python3 tools/confirm_seed.py $P $d $P-r2-$k --check $P$EXTRA 2>&1 | grep "check\|NOT\|suite\|demo with\|demo without\|applies: False"
done
