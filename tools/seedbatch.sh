#!/bin/bash
# tools/seedbatch.sh <pid> [extra checks comma-separated] [round dir] [round tag]
#   confirm and run the seeds of one property delivered under <round dir>/<pid>/out/<k>/ (default: round 3)
cd "$(dirname "$0")/.."
P=$1; EXTRA=${2:+,$2}; RD=${3:-/tmp/mut3}; TAG=${4:-r3}
for k in 1 2 3; do
  d=$RD/$P/out/$k
  [ -f $d/patch.diff ] || continue
  echo "== $P-$TAG-$k"
  python3 tools/confirm_seed.py $P $d $P-$TAG-$k --check $P$EXTRA 2>&1 | grep "check\|NOT\|suite\|demo with\|demo without\|applies: False"
done
