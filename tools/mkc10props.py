#!/usr/bin/env python3
"""expand «text» literals in coq/Props/C10.v.in into code-point lists -> coq/Props/C10.v"""
import os, re
ROOT = os.path.dirname(os.path.dirname(os.path.abspath(__file__)))
src = open(os.path.join(ROOT, "coq", "Props", "C10.v.in"), encoding="utf-8").read()
def lit(m):
    t = m.group(1).encode("utf-8").decode("unicode_escape") if "\\" in m.group(1) else m.group(1)
    return "[" + ";".join(str(ord(c)) for c in t) + "]%N" if t else "[]"
out = re.sub(r"«([^»]*)»", lit, src)
open(os.path.join(ROOT, "coq", "Props", "C10.v"), "w").write(
    "(* generated from C10.v.in by tools/mkc10props.py (only the string literals are expanded) *)\n" + out)
