#!/usr/bin/env python3
"""pytrans.py — Python-ast -> Coq translator (fail closed).

Back ends
  consts : module-level literal constants, attr.ib() field lists, comparison-operator pins
  fun    : shallow monadic translation of expression-level functions over PyLib.pyval
  skel   : effect skeletons of orchestration functions (Model/Skel.v datatype)

Anything outside the supported subset raises Unsupported; the caller reports a broken tie.
Usage:  pytrans.py <repo> <outdir>      writes <outdir>/Consts.v Fun.v Skel.v
"""
import ast
import os
import sys


class Unsupported(Exception):
    pass


def coq_str(s):
    return "[" + ";".join(str(ord(c)) for c in s) + "]%N"


def vstr(s):
    return "(VStr %s)" % coq_str(s)


EXC = {
    "FormatError": "EFormat", "_err": "EFormat", "RuleVerificationError": "ERule",
    "BadReturnValueError": "EBadRetval", "SignatureVerificationError": "ESignature",
    "ThresholdVerificationError": "EThreshold", "LayoutExpiredError": "EExpired",
    "LinkNotFoundError": "ELinkNotFound", "PrefixError": "EPrefix", "ValueError": "EValueError",
    "KeyError": "EKeyError", "InvalidMetadata": "EInvalidMetadata", "TypeError": "ETypeError",
    "NotImplementedError": "ENotImplemented", "KeyExpirationError": "EKeyExpired",
}
TYPES = {"str": "TStr", "int": "TInt", "list": "TList", "dict": "TDict", "bool": "TBool"}
IGNORED_CALL_PREFIXES = ("LOG.", "logger.", "logging.")


def dotted(node):
    if isinstance(node, ast.Name):
        return node.id
    if isinstance(node, ast.Attribute):
        b = dotted(node.value)
        return None if b is None else b + "." + node.attr
    return None


def ident(name):
    return "v_" + name.replace("__", "_u_")


class Fun:
    """shallow translation of one function"""

    def __init__(self, known_funs, consts):
        self.known = known_funs      # bare name -> arity
        self.consts = consts         # bare name -> coq ident (pyval)
        self.fresh = 0

    def tmp(self):
        self.fresh += 1
        return "t%d" % self.fresh

    # ---- expressions: returns (code, pure) ; pure code : pyval, else : res pyval
    def lift(self, cp):
        code, pure = cp
        return "(Ok %s)" % code if pure else code

    def with_args(self, args, build):
        """args: list of (code, pure); build(list of pure codes) -> (code, pure)"""
        binds, pure_codes = [], []
        for code, pure in args:
            if pure:
                pure_codes.append(code)
            else:
                t = self.tmp()
                binds.append((t, code))
                pure_codes.append(t)
        rcode, rpure = build(pure_codes)
        if not binds:
            return rcode, rpure
        body = "(Ok %s)" % rcode if rpure else rcode
        for t, code in reversed(binds):
            body = "(do %s <- %s; %s)" % (t, code, body)
        return body, False

    def expr(self, e, locals_):
        if isinstance(e, ast.Constant):
            v = e.value
            if v is None:
                return "VNone", True
            if isinstance(v, bool):
                return "(VBool %s)" % ("true" if v else "false"), True
            if isinstance(v, int):
                return "(VInt (%d)%%Z)" % v, True
            if isinstance(v, str):
                return vstr(v), True
            raise Unsupported("constant %r" % (v,))
        if isinstance(e, ast.Name):
            if e.id in locals_:
                return ident(e.id), True
            if e.id in self.consts:
                return self.consts[e.id], True
            raise Unsupported("free name %s" % e.id)
        if isinstance(e, ast.List):
            return self.with_args([self.expr(x, locals_) for x in e.elts],
                                  lambda a: ("(VList [%s])" % "; ".join(a), True))
        if isinstance(e, ast.Set):
            return self.with_args([self.expr(x, locals_) for x in e.elts],
                                  lambda a: ("(VSet (pv_dedup [%s]))" % "; ".join(a), True))
        if isinstance(e, ast.Dict):
            ks = [self.expr(x, locals_) for x in e.keys]
            vs = [self.expr(x, locals_) for x in e.values]
            n = len(ks)
            return self.with_args(ks + vs, lambda a: (
                "(VDict [%s])" % "; ".join("(%s, %s)" % (a[i], a[n + i]) for i in range(n)), True))
        if isinstance(e, ast.UnaryOp) and isinstance(e.op, ast.Not):
            return self.with_args([self.expr(e.operand, locals_)], lambda a: ("(py_not %s)" % a[0], True))
        if isinstance(e, ast.BoolOp):
            op = "py_and" if isinstance(e.op, ast.And) else "py_or"
            parts = [self.lift(self.expr(x, locals_)) for x in e.values]
            code = parts[-1]
            for p in reversed(parts[:-1]):
                code = "(%s %s (fun _ => %s))" % (op, p, code)
            return code, False
        if isinstance(e, ast.Compare):
            if len(e.ops) != 1:
                raise Unsupported("chained comparison")
            op = e.ops[0]
            l, r = self.expr(e.left, locals_), self.expr(e.comparators[0], locals_)
            table = {ast.Eq: "py_eq", ast.NotEq: "py_ne", ast.Lt: "py_lt", ast.LtE: "py_le",
                     ast.Gt: "py_gt", ast.GtE: "py_ge", ast.In: "py_in", ast.NotIn: "py_not_in"}
            if type(op) in table:
                return self.with_args([l, r], lambda a: ("(%s %s %s)" % (table[type(op)], a[0], a[1]), False))
            if isinstance(op, (ast.Is, ast.IsNot)):
                neg = isinstance(op, ast.IsNot)
                return self.with_args([l, r], lambda a: (
                    "(vb (%s(pv_is %s %s)))" % ("negb " if neg else "", a[0], a[1]), True))
            raise Unsupported("comparison %s" % type(op).__name__)
        if isinstance(e, ast.BinOp):
            table = {ast.Add: "py_add", ast.BitAnd: "py_and_set", ast.BitOr: "py_or_set", ast.Sub: "py_sub"}
            if type(e.op) not in table:
                raise Unsupported("binop %s" % type(e.op).__name__)
            return self.with_args([self.expr(e.left, locals_), self.expr(e.right, locals_)],
                                  lambda a: ("(%s %s %s)" % (table[type(e.op)], a[0], a[1]), False))
        if isinstance(e, ast.Subscript):
            c = self.expr(e.value, locals_)
            if isinstance(e.slice, ast.Slice):
                s = e.slice
                if s.upper is None and s.step is None and s.lower is not None:
                    lo = self.expr(s.lower, locals_)
                    return self.with_args([c, lo], lambda a: ("(py_slice_from %s %s)" % (a[0], a[1]), False))
                raise Unsupported("slice form")
            i = self.expr(e.slice, locals_)
            return self.with_args([c, i], lambda a: ("(py_index %s %s)" % (a[0], a[1]), False))
        if isinstance(e, ast.IfExp):
            t = self.lift(self.expr(e.test, locals_))
            a = self.lift(self.expr(e.body, locals_))
            b = self.lift(self.expr(e.orelse, locals_))
            x = self.tmp()
            return "(do %s <- %s; if truthy %s then %s else %s)" % (x, t, x, a, b), False
        if isinstance(e, ast.SetComp) or isinstance(e, ast.ListComp):
            if len(e.generators) != 1 or e.generators[0].is_async:
                raise Unsupported("comprehension shape")
            g = e.generators[0]
            if not isinstance(g.target, ast.Name):
                raise Unsupported("comprehension target")
            it = self.expr(g.iter, locals_)
            inner = set(locals_) | {g.target.id}
            elt = self.lift(self.expr(e.elt, inner))
            cond = "(Ok (VBool true))"
            for c in g.ifs:
                cc = self.lift(self.expr(c, inner))
                cond = "(py_and %s (fun _ => %s))" % (cond, cc)
            kind = "py_setcomp" if isinstance(e, ast.SetComp) else "py_listcomp"
            return self.with_args([it], lambda a: (
                "(%s %s (fun %s => %s) (fun %s => %s))" % (kind, a[0], ident(g.target.id), cond,
                                                         ident(g.target.id), elt), False))
        if isinstance(e, ast.JoinedStr):
            parts = []
            for v in e.values:
                if isinstance(v, ast.Constant):
                    parts.append((vstr(v.value), True))
                elif isinstance(v, ast.FormattedValue) and v.conversion == -1 and v.format_spec is None:
                    parts.append(self.expr(v.value, locals_))
                else:
                    raise Unsupported("f-string part")
            return self.with_args(parts, lambda a: ("(py_fstring [%s])" % "; ".join(a), False))
        if isinstance(e, ast.Call):
            return self.call(e, locals_)
        raise Unsupported("expression %s" % type(e).__name__)

    def call(self, e, locals_):
        if e.keywords:
            raise Unsupported("keyword arguments in call %s" % ast.dump(e.func)[:60])
        f = e.func
        name = dotted(f)
        if isinstance(f, ast.Name) and f.id == "isinstance" and len(e.args) == 2:
            tn = e.args[1]
            if isinstance(tn, ast.Name) and tn.id in TYPES:
                return self.with_args([self.expr(e.args[0], locals_)],
                                      lambda a: ("(py_isinstance %s %s)" % (a[0], TYPES[tn.id]), True))
            raise Unsupported("isinstance type")
        args = [self.expr(a, locals_) for a in e.args]
        if isinstance(f, ast.Name):
            if f.id == "len" and len(args) == 1:
                return self.with_args(args, lambda a: ("(py_len %s)" % a[0], False))
            if f.id == "isinstance" and len(e.args) == 2:
                tn = e.args[1]
                if isinstance(tn, ast.Name) and tn.id in TYPES:
                    return self.with_args(args[:1], lambda a: ("(py_isinstance %s %s)" % (a[0], TYPES[tn.id]), True))
                raise Unsupported("isinstance type")
            if f.id == "set":
                if not args:
                    return "(VSet [])", True
                return self.with_args(args, lambda a: ("(py_set %s)" % a[0], False))
            if f.id == "list" and len(args) == 1:
                return self.with_args(args, lambda a: ("(py_list %s)" % a[0], False))
        if name in ("fnmatch.filter",) and len(args) == 2:
            return self.with_args(args, lambda a: ("(py_fnmatch_filter %s %s)" % (a[0], a[1]), False))
        if name in ("os.path.join", "join") and len(args) == 2:
            return self.with_args(args, lambda a: ("(py_path_join %s %s)" % (a[0], a[1]), False))
        bare = name.split(".")[-1] if name else None
        if name and bare in self.known and (isinstance(f, ast.Name) or name.startswith("in_toto.")
                                            or name.startswith("self.")):
            if self.known[bare] != len(args):
                raise Unsupported("arity of %s" % bare)
            return self.with_args(args, lambda a: ("(f_%s %s)" % (bare, " ".join(a)), False))
        if isinstance(f, ast.Attribute):
            recv = self.expr(f.value, locals_)
            m = f.attr
            table = {("lower", 0): "py_lower", ("upper", 0): "py_upper", ("startswith", 1): "py_startswith",
                     ("replace", 2): "py_replace1", ("keys", 0): "py_keys", ("get", 2): "py_get"}
            if (m, len(args)) in table:
                fn = table[(m, len(args))]
                return self.with_args([recv] + args, lambda a: ("(%s %s)" % (fn, " ".join(a)), False))
            if m == "get" and len(args) == 1:
                return self.with_args([recv] + args, lambda a: ("(py_get %s %s VNone)" % (a[0], a[1]), False))
        raise Unsupported("call %s" % (name or ast.dump(f)[:60]))

    # ---- statements -------------------------------------------------------------------
    def assigned(self, stmts):
        names = []

        def add(n):
            if n not in names:
                names.append(n)
        for s in stmts:
            for node in ast.walk(s):
                if isinstance(node, ast.Name) and isinstance(node.ctx, ast.Store):
                    add(node.id)
                if isinstance(node, ast.Call) and isinstance(node.func, ast.Attribute) and \
                        node.func.attr in ("append", "add") and isinstance(node.func.value, ast.Name):
                    add(node.func.value.id)
        return names

    def exc_of(self, node):
        target = node.func if isinstance(node, ast.Call) else node
        n = dotted(target)
        bare = n.split(".")[-1] if n else None
        if bare in EXC:
            return EXC[bare]
        raise Unsupported("exception %s" % n)

    def block(self, stmts, locals_, k):
        """k: function(locals) -> code of type res T for what follows the block"""
        if not stmts:
            return k(locals_)
        s, rest = stmts[0], stmts[1:]
        cont = lambda loc: self.block(rest, loc, k)
        if isinstance(s, ast.Expr):
            v = s.value
            if isinstance(v, ast.Constant):
                return cont(locals_)          # docstring
            if isinstance(v, ast.Call):
                name = dotted(v.func) or ""
                if name.startswith(IGNORED_CALL_PREFIXES):
                    return cont(locals_)
                if isinstance(v.func, ast.Attribute) and v.func.attr in ("append", "add") and \
                        isinstance(v.func.value, ast.Name) and v.func.value.id in locals_ and len(v.args) == 1:
                    tgt = v.func.value.id
                    fn = "py_append" if v.func.attr == "append" else "py_set_add"
                    a = self.expr(v.args[0], locals_)
                    code = self.lift(self.with_args([a], lambda x: ("(%s %s %s)" % (fn, ident(tgt), x[0]), False)))
                    return "(do %s <- %s; %s)" % (ident(tgt), code, cont(locals_))
                code = self.lift(self.expr(v, locals_))
                return "(do _ <- %s; %s)" % (code, cont(locals_))
            raise Unsupported("expression statement")
        if isinstance(s, ast.Assign):
            if len(s.targets) != 1 or not isinstance(s.targets[0], ast.Name):
                raise Unsupported("assignment target")
            n = s.targets[0].id
            code, pure = self.expr(s.value, locals_)
            loc = set(locals_) | {n}
            if pure:
                return "(let %s := %s in %s)" % (ident(n), code, cont(loc))
            return "(do %s <- %s; %s)" % (ident(n), code, cont(loc))
        if isinstance(s, ast.AugAssign):
            if not isinstance(s.target, ast.Name) or s.target.id not in locals_:
                raise Unsupported("augassign target")
            n = s.target.id
            table = {ast.Add: "py_add", ast.Sub: "py_sub", ast.BitAnd: "py_and_set", ast.BitOr: "py_or_set"}
            if type(s.op) not in table:
                raise Unsupported("augassign op")
            a = self.expr(s.value, locals_)
            code = self.lift(self.with_args([a], lambda x: ("(%s %s %s)" % (table[type(s.op)], ident(n), x[0]), False)))
            return "(do %s <- %s; %s)" % (ident(n), code, cont(locals_))
        if isinstance(s, ast.If):
            t = self.lift(self.expr(s.test, locals_))
            x = self.tmp()
            # the continuation is duplicated into both branches, so each copy sees exactly the
            # names bound on its own path (a use of a possibly-unbound name fails closed)
            return "(do %s <- %s; if truthy %s then %s else %s)" % (
                x, t, x,
                self.block(s.body, locals_, cont),
                self.block(s.orelse, locals_, cont))
        if isinstance(s, ast.Return):
            if s.value is None:
                return "(Ok VNone)"
            return self.lift(self.expr(s.value, locals_))
        if isinstance(s, ast.Raise):
            return "(Err %s)" % self.exc_of(s.exc)
        if isinstance(s, ast.For):
            if s.orelse or not isinstance(s.target, ast.Name):
                raise Unsupported("for shape")
            for node in ast.walk(s):
                if isinstance(node, (ast.Break, ast.Continue, ast.Return)):
                    raise Unsupported("break/continue/return in for")
            it = self.expr(s.iter, locals_)
            state = [n for n in self.assigned(s.body) if n in locals_]
            for n in self.assigned(s.body):
                if n not in locals_ and n != s.target.id:
                    # loop-local temporaries are fine as long as nothing after the loop reads them
                    pass
            tup = "(" + ", ".join(ident(n) for n in state) + ")" if len(state) != 1 else ident(state[0])
            if not state:
                tup = "tt"
            pat = "'" + tup if len(state) > 1 else ("_" if not state else tup)
            inner_loc = set(locals_) | {s.target.id}
            body = self.block(s.body, inner_loc, lambda loc: "(Ok %s)" % tup)
            itc = self.tmp()
            st = self.tmp()
            loop = "(py_for %s %s (fun %s %s => %s))" % (
                "%s", tup, ident(s.target.id), pat if state else "_", body)
            after = cont(locals_)
            code, pure = it
            if pure:
                loopc = loop % code
                return "(do %s <- %s; %s)" % (pat if state else "_", loopc, after)
            return "(do %s <- %s; do %s <- %s; %s)" % (itc, code, pat if state else "_", loop % itc, after)
        if isinstance(s, ast.Pass):
            return cont(locals_)
        raise Unsupported("statement %s" % type(s).__name__)

    def function(self, fn, name=None, drop_self=True):
        params = [a.arg for a in fn.args.args]
        if drop_self and params and params[0] in ("self", "cls"):
            params = params[1:]
        if fn.args.vararg or fn.args.kwarg or fn.args.kwonlyargs:
            raise Unsupported("varargs in %s" % fn.name)
        body = self.block(fn.body, set(params), lambda loc: "(Ok VNone)")
        return "Definition f_%s %s : res pyval :=\n  %s.\n" % (
            name or fn.name, " ".join("(%s : pyval)" % ident(p) for p in params), body), len(params)


# ---------------------------------------------------------------------------------------
def const_value(node, env):
    """module-level literal -> coq pyval code, or None"""
    if isinstance(node, ast.Constant):
        if isinstance(node.value, str):
            return vstr(node.value)
        if isinstance(node.value, bool):
            return "(VBool %s)" % ("true" if node.value else "false")
        if isinstance(node.value, int):
            return "(VInt (%d)%%Z)" % node.value
        if node.value is None:
            return "VNone"
        return None
    if isinstance(node, (ast.Set, ast.List, ast.Tuple)):
        elts = [const_value(x, env) for x in node.elts]
        if any(x is None for x in elts):
            return None
        if isinstance(node, ast.Set):
            return "(VSet (pv_dedup [%s]))" % "; ".join(elts)
        return "(VList [%s])" % "; ".join(elts)
    if isinstance(node, ast.Name) and node.id in env:
        return env[node.id]
    if isinstance(node, ast.BinOp) and isinstance(node.op, ast.BitOr):
        a, b = const_value(node.left, env), const_value(node.right, env)
        if a and b:
            return "(match py_or_set %s %s with Ok v => v | Err _ => VNone end)" % (a, b)
    return None


def load(repo, rel):
    path = os.path.join(repo, rel)
    return ast.parse(open(path).read(), filename=path)


def find_function(tree, qual):
    parts = qual.split(".")
    body = tree.body
    node = None
    for p in parts:
        node = None
        for n in body:
            if isinstance(n, (ast.FunctionDef, ast.ClassDef)) and n.name == p:
                node = n
                break
        if node is None:
            raise Unsupported("function %s not found" % qual)
        body = node.body
    if not isinstance(node, ast.FunctionDef):
        raise Unsupported("%s is not a function" % qual)
    return node


# (module, qualified function, emitted name)
FUN_TARGETS = [
    ("in_toto/formats.py", "_check_str", None),
    ("in_toto/formats.py", "_check_list", None),
    ("in_toto/formats.py", "_check_str_list", None),
    ("in_toto/rulelib.py", "unpack_rule", None),
    ("in_toto/rulelib.py", "pack_rule", None),
]

CONST_MODULES = ["in_toto/rulelib.py", "in_toto/models/link.py", "in_toto/models/layout.py",
                 "in_toto/models/metadata.py", "in_toto/resolver/_resolver.py", "in_toto/settings.py"]


def gen_fun(repo, targets=None):
    targets = targets or FUN_TARGETS
    out = ["(* generated by tools/pytrans.py from %s — do not edit *)" % repo,
           "From InToto.Model Require Import Base Json PyLib.", ""]
    trees = {}
    known = {}
    consts = {}
    # constants of every module that hosts a target
    for rel, _, _ in targets:
        if rel in trees:
            continue
        trees[rel] = load(repo, rel)
        env = {}
        for n in trees[rel].body:
            if isinstance(n, ast.Assign) and len(n.targets) == 1 and isinstance(n.targets[0], ast.Name):
                v = const_value(n.value, env)
                if v is not None:
                    nm = n.targets[0].id
                    cid = "c_" + nm
                    env[nm] = cid
                    if nm not in consts:
                        consts[nm] = cid
                        out.append("Definition %s : pyval := %s." % (cid, v))
    out.append("")
    for rel, qual, name in targets:
        fn = find_function(trees[rel], qual)
        tr = Fun(dict(known), consts)
        code, arity = tr.function(fn, name)
        out.append("(* %s : %s, line %d *)" % (rel, qual, fn.lineno))
        out.append(code)
        known[name or fn.name] = arity
    return "\n".join(out) + "\n"



# =======================================================================================
# back end 3: effect skeletons (Model/Skel.v)
# =======================================================================================
# Trusted choices of this back end (DESIGN 5.1, design/C15.md):
#   * calls whose dotted name starts with one of IGNORED_CALL_PREFIXES (logging) are dropped;
#   * PURE_BUILTINS / PURE_METHODS are data operations: they are not kept as named calls, but a
#     statement that contains one (or a subscript, arithmetic, ...) gets an anonymous
#     "<expr>" call, i.e. a point where an exception may be raised;
#   * EFFECT_CALLS keep their full source text (arguments and assignment target) as name;
#   * a store to / a read from a dotted global under GLOBAL_PREFIXES is kept as a named event;
#   * an `if` condition is *stable* when it contains no call other than pure builtins and every
#     assignment to a name it mentions happens, outside any loop, in a top-level statement of the
#     function that precedes the first top-level statement testing that condition.
PURE_BUILTINS = {"len", "bool", "isinstance", "sum", "any", "all", "str", "int", "list", "dict", "set",
                 "tuple", "hasattr", "repr", "sorted", "min", "max", "type", "defaultdict", "getattr"}
PURE_METHODS = {"format", "join", "replace", "encode", "decode", "strip", "startswith", "endswith", "keys",
                "items", "values", "get", "copy", "update", "append", "add", "clear", "lower", "upper",
                "split", "extend", "sort", "to_dict"}
EFFECT_CALLS = {"os.chdir", "os.getcwd", "os.remove", "os.close", "tempfile.mkstemp", "os.unlink"}
GLOBAL_PREFIXES = ("in_toto.settings.",)
CATCH_ALL = {"Exception", "BaseException"}
ARGPARSE_ERROR = ("parser.error",)
ARGPARSE_PARSE = ("parser.parse_args",)
MAX_INLINE_DEPTH = 4
MAX_UNROLL = 4


def _ascii(s):
    return "".join(c if 32 <= ord(c) < 127 else "?" for c in s)


class _Subst(ast.NodeTransformer):
    def __init__(self, mapping):
        self.mapping = mapping

    def visit_Name(self, node):
        if node.id in self.mapping and isinstance(node.ctx, ast.Load):
            return ast.copy_location(_copy(self.mapping[node.id]), node)
        return node


def _copy(node):
    import copy
    return copy.deepcopy(node)


def _root_name(node):
    while isinstance(node, (ast.Attribute, ast.Subscript, ast.Starred)):
        node = node.value
    return node.id if isinstance(node, ast.Name) else None


def _store_roots(target):
    """names (roots) assigned by a store to this target expression"""
    if isinstance(target, (ast.Tuple, ast.List)):
        out = []
        for e in target.elts:
            out += _store_roots(e)
        return out
    r = _root_name(target)
    return [r] if r else []


def _contains_exit(t):
    if not isinstance(t, tuple):
        return False
    if t and t[0] == "Exit":
        return True
    for x in t[1:]:
        if isinstance(x, tuple) and _contains_exit(x):
            return True
        if isinstance(x, list) and any(_contains_exit(y) for y in x):
            return True
    return False


class Stability:
    """assignment sites of one function body: name -> [(top_index, in_loop)]"""

    def __init__(self, fn):
        self.sites = {}
        self.first_use = {}
        for i, st in enumerate(fn.body):
            self._stmt(st, i, False, False)
        for i, st in enumerate(fn.body):
            self._uses(st, i)

    def _add(self, name, i, loop):
        self.sites.setdefault(name, []).append((i, loop))

    def _stmt(self, node, i, loop, nested):
        for ch in ast.iter_child_nodes(node):
            self._stmt(ch, i, loop or isinstance(node, (ast.For, ast.While, ast.ListComp, ast.SetComp,
                                                         ast.DictComp, ast.GeneratorExp)),
                       nested or isinstance(node, (ast.FunctionDef, ast.Lambda)))
        if isinstance(node, (ast.Assign, ast.AnnAssign, ast.AugAssign)):
            targets = node.targets if isinstance(node, ast.Assign) else [node.target]
            for t in targets:
                for r in _store_roots(t):
                    # inside a nested def a plain Name store is local to it; stores through
                    # subscripts/attributes reach the outer object at an unknown time
                    if nested and isinstance(t, ast.Name):
                        continue
                    self._add(r, i, loop or nested)
        elif isinstance(node, (ast.For, ast.comprehension)):
            for r in _store_roots(node.target):
                self._add(r, i, True)
        elif isinstance(node, ast.With):
            for it in node.items:
                if it.optional_vars is not None:
                    for r in _store_roots(it.optional_vars):
                        self._add(r, i, loop or nested)
        elif isinstance(node, ast.ExceptHandler) and node.name:
            self._add(node.name, i, loop or nested)
        elif isinstance(node, ast.Delete):
            for t in node.targets:
                for r in _store_roots(t):
                    self._add(r, i, True)
        elif isinstance(node, (ast.Global, ast.Nonlocal)):
            for n in node.names:
                self._add(n, i, True)
        elif isinstance(node, ast.NamedExpr):
            self._add(node.target.id, i, True)

    def _uses(self, node, i):
        if isinstance(node, ast.If):
            lab = ast.unparse(node.test)
            self.first_use.setdefault(lab, i)
        if isinstance(node, (ast.FunctionDef, ast.Lambda)) and False:
            return
        for ch in ast.iter_child_nodes(node):
            self._uses(ch, i)

    def stable(self, test):
        for n in ast.walk(test):
            if isinstance(n, ast.Call):
                f = n.func
                if not (isinstance(f, ast.Name) and f.id in PURE_BUILTINS):
                    return False
            if isinstance(n, (ast.Await, ast.Yield, ast.YieldFrom, ast.NamedExpr, ast.Lambda)):
                return False
        first = self.first_use.get(ast.unparse(test))
        if first is None:
            return False
        for n in ast.walk(test):
            if isinstance(n, ast.Name):
                for (j, loop) in self.sites.get(n.id, []):
                    if loop or j >= first:
                        return False
        return True


class Skel:
    """translation of one function (with inlining of nested defs and private module helpers)"""

    def __init__(self, module_tree, rel):
        self.rel = rel
        self.module_funcs = {n.name: n for n in module_tree.body if isinstance(n, ast.FunctionDef)}
        self.inline_count = 0

    # ---- skeleton constructors (python side: tuples) -----------------------------------
    @staticmethod
    def seq(items):
        flat = []
        for it in items:
            if it[0] == "Seq":
                flat += it[1]
            elif it[0] != "Skip":
                flat.append(it)
        if not flat:
            return ("Skip",)
        if len(flat) == 1:
            return flat[0]
        return ("Seq", flat)

    # ---- expressions -> list of skeleton items in evaluation order ----------------------
    def safe(self, e):
        """cannot raise (under the stated conventions) and contains no call"""
        if e is None or isinstance(e, (ast.Constant, ast.Name)):
            return True
        if isinstance(e, ast.Attribute):
            return self.safe(e.value)
        if isinstance(e, (ast.Tuple, ast.List, ast.Set)):
            return all(self.safe(x) for x in e.elts)
        if isinstance(e, ast.Dict):
            return all(self.safe(x) for x in e.keys) and all(self.safe(x) for x in e.values)
        if isinstance(e, ast.Compare):
            return self.safe(e.left) and all(self.safe(x) for x in e.comparators)
        if isinstance(e, ast.BoolOp):
            return all(self.safe(x) for x in e.values)
        if isinstance(e, ast.UnaryOp) and isinstance(e.op, ast.Not):
            return self.safe(e.operand)
        if isinstance(e, ast.JoinedStr):
            return all(self.safe(x) for x in e.values)
        if isinstance(e, ast.FormattedValue):
            return self.safe(e.value) and e.format_spec is None
        if isinstance(e, ast.Lambda):
            return True
        if isinstance(e, ast.Starred):
            return self.safe(e.value)
        return False

    def ev(self, e, env, flags):
        """items for evaluating expression e; flags['unsafe'] is set when something that is not
        kept as a named call may raise"""
        if e is None or isinstance(e, (ast.Constant, ast.Name, ast.Lambda)):
            return []
        if isinstance(e, ast.Attribute):
            return self.ev(e.value, env, flags)
        if isinstance(e, ast.Starred):
            return self.ev(e.value, env, flags)
        if isinstance(e, (ast.Tuple, ast.List, ast.Set)):
            out = []
            for x in e.elts:
                out += self.ev(x, env, flags)
            return out
        if isinstance(e, ast.Dict):
            out = []
            for k, v in zip(e.keys, e.values):
                out += self.ev(k, env, flags) + self.ev(v, env, flags)
            return out
        if isinstance(e, ast.Compare):
            out = self.ev(e.left, env, flags)
            for x in e.comparators:
                out += self.ev(x, env, flags)
            if any(isinstance(o, (ast.In, ast.NotIn, ast.Lt, ast.Gt, ast.LtE, ast.GtE)) for o in e.ops) \
                    and not self.safe(e):
                flags["unsafe"] = True
            return out
        if isinstance(e, ast.UnaryOp):
            if not isinstance(e.op, ast.Not):
                flags["unsafe"] = True
            return self.ev(e.operand, env, flags)
        if isinstance(e, ast.BinOp):
            flags["unsafe"] = True
            return self.ev(e.left, env, flags) + self.ev(e.right, env, flags)
        if isinstance(e, ast.Subscript):
            flags["unsafe"] = True
            return self.ev(e.value, env, flags) + self.ev(e.slice, env, flags)
        if isinstance(e, ast.Slice):
            return self.ev(e.lower, env, flags) + self.ev(e.upper, env, flags) + self.ev(e.step, env, flags)
        if isinstance(e, ast.JoinedStr):
            out = []
            for x in e.values:
                out += self.ev(x, env, flags)
            return out
        if isinstance(e, ast.FormattedValue):
            flags["unsafe"] = True
            return self.ev(e.value, env, flags)
        if isinstance(e, ast.BoolOp):
            out = self.ev(e.values[0], env, flags)
            for x in e.values[1:]:
                sub = self.ev(x, env, flags)
                if sub:
                    out.append(("If", False, "<short-circuit>", self.seq(sub), ("Skip",)))
            return out
        if isinstance(e, ast.IfExp):
            out = self.ev(e.test, env, flags)
            a, b = self.ev(e.body, env, flags), self.ev(e.orelse, env, flags)
            if a or b:
                out.append(("If", False, "<conditional expression>", self.seq(a), self.seq(b)))
            return out
        if isinstance(e, (ast.ListComp, ast.SetComp, ast.GeneratorExp, ast.DictComp)):
            flags["unsafe"] = True
            gens = e.generators
            if any(g.is_async for g in gens):
                raise Unsupported("async comprehension")
            out = self.ev(gens[0].iter, env, flags)
            inner = []
            for c in gens[0].ifs:
                inner += self.ev(c, env, flags)
            for g in gens[1:]:
                inner += self.ev(g.iter, env, flags)
                for c in g.ifs:
                    inner += self.ev(c, env, flags)
            if isinstance(e, ast.DictComp):
                inner += self.ev(e.key, env, flags) + self.ev(e.value, env, flags)
            else:
                inner += self.ev(e.elt, env, flags)
            if inner:
                out.append(("Loop", "<comprehension>", self.seq(inner), ("Skip",)))
            return out
        if isinstance(e, ast.Call):
            return self.call(e, env, flags, None)
        raise Unsupported("skeleton: expression %s at line %s" % (type(e).__name__, getattr(e, "lineno", "?")))

    def call(self, e, env, flags, assign_text):
        f = e.func
        name = dotted(f)
        if name and name.startswith(IGNORED_CALL_PREFIXES):
            return []
        for kw in e.keywords:
            if kw.arg is None:
                flags["unsafe"] = True
        # sys.exit / parser.error / parse_args
        if name == "sys.exit" or name == "exit":
            if not e.args:
                return [("Exit", 0)]
            a = e.args[0]
            if isinstance(a, ast.Constant) and isinstance(a.value, int) and not isinstance(a.value, bool):
                return [("Exit", a.value)]
            if isinstance(a, ast.Constant) and a.value is None:
                return [("Exit", 0)]
            raise Unsupported("skeleton: sys.exit with a non-constant status at line %d" % e.lineno)
        pre = []
        if not isinstance(f, (ast.Name, ast.Attribute)) or name is None:
            pre += self.ev(f if not isinstance(f, ast.Attribute) else f.value, env, flags)
        for a in e.args:
            pre += self.ev(a, env, flags)
        for kw in e.keywords:
            pre += self.ev(kw.value, env, flags)
        if name in ARGPARSE_ERROR:
            return pre + [("Exit", 2)]
        if name in ARGPARSE_PARSE:
            return pre + [("Call", name), ("If", False, "<argparse: usage error>", ("Exit", 2), ("Skip",))]
        # inlining: nested defs of the current function, private helpers of the module
        if isinstance(f, ast.Name):
            target = env["local_funcs"].get(f.id)
            if target is None and f.id.startswith("_") and f.id in self.module_funcs:
                target = self.module_funcs[f.id]
            if target is not None:
                return pre + [self.inline(target, e, env)]
            if f.id in PURE_BUILTINS:
                flags["unsafe"] = True
                return pre
        if isinstance(f, ast.Attribute) and f.attr in PURE_METHODS and name not in EFFECT_CALLS:
            flags["unsafe"] = True
            return pre
        if name in EFFECT_CALLS:
            text = ast.unparse(e)
            if assign_text:
                text = assign_text + " = " + text
            return pre + [("Call", _ascii(text))]
        return pre + [("Call", _ascii(name if name else ast.unparse(f)))]

    def inline(self, fn, call, env):
        if env["depth"] >= MAX_INLINE_DEPTH:
            raise Unsupported("skeleton: inlining depth exceeded at %s" % fn.name)
        if fn.args.vararg or fn.args.kwarg:
            raise Unsupported("skeleton: varargs in inlined %s" % fn.name)
        params = [a.arg for a in fn.args.args]
        mapping = {}
        for p, a in zip(params, call.args):
            if isinstance(a, (ast.Name, ast.Constant)) or (isinstance(a, ast.Attribute) and dotted(a)):
                mapping[p] = a
        for kw in call.keywords:
            if kw.arg in params and isinstance(kw.value, (ast.Name, ast.Constant)):
                mapping[kw.arg] = kw.value
        body = _copy(fn)
        assigned = {r for n in ast.walk(body) for r in
                    ([n.id] if isinstance(n, ast.Name) and isinstance(n.ctx, ast.Store) else [])}
        mapping = {p: a for p, a in mapping.items() if p not in assigned}
        if mapping:
            body = _Subst(mapping).visit(body)
        self.inline_count += 1
        sub_env = {"local_funcs": dict(env["local_funcs"]), "depth": env["depth"] + 1,
                   "stab": Stability(body), "prefix": "%s#%d: " % (fn.name, self.inline_count),
                   "in_loop": env["in_loop"], "force_unstable": env["in_loop"] > 0 or env["force_unstable"]}
        return ("Scope", self.block(body.body, sub_env))

    # ---- statements -------------------------------------------------------------------
    def guard(self, items, flags, before=True):
        if flags.get("unsafe"):
            pt = ("Call", "<expr>")
            return [pt] + items if before else items + [pt]
        return items

    def block(self, stmts, env):
        out = []
        for s in stmts:
            out.append(self.stmt(s, env))
        return self.seq(out)

    def stmt(self, s, env):
        if isinstance(s, ast.FunctionDef):
            env["local_funcs"][s.name] = s
            return ("Skip",)
        if isinstance(s, (ast.Pass, ast.Import, ast.ImportFrom)):
            return ("Skip",)
        if isinstance(s, ast.Expr):
            if isinstance(s.value, ast.Constant):
                return ("Skip",)
            flags = {}
            return self.seq(self.guard(self.ev(s.value, env, flags), flags))
        if isinstance(s, (ast.Assign, ast.AnnAssign, ast.AugAssign)):
            targets = s.targets if isinstance(s, ast.Assign) else [s.target]
            value = s.value
            flags = {}
            tflags = {}
            ttext = " = ".join(ast.unparse(t) for t in targets)
            if isinstance(value, ast.Call) and dotted(value.func) in EFFECT_CALLS and isinstance(s, ast.Assign):
                items = self.call(value, env, flags, ttext)
            else:
                items = self.ev(value, env, flags) if value is not None else []
            items = self.guard(items, flags)
            post = []
            for t in targets:
                post += self.ev(t, env, tflags) if not isinstance(t, ast.Name) else []
            items += post
            if isinstance(s, ast.AugAssign):
                tflags["unsafe"] = True
            # reads / writes of designated globals are kept as named events
            vname = dotted(value) if value is not None else None
            if vname and vname.startswith(GLOBAL_PREFIXES) and isinstance(s, ast.Assign):
                items.append(("Call", _ascii(ttext + " = " + vname)))
            for t in targets:
                tn = dotted(t)
                if tn and tn.startswith(GLOBAL_PREFIXES):
                    items.append(("Call", _ascii(tn + " = " + ast.unparse(value))))
                    tflags.pop("unsafe", None)
                elif isinstance(t, ast.Subscript):
                    tflags["unsafe"] = True
            return self.seq(self.guard(items, tflags, before=False))
        if isinstance(s, ast.Return):
            flags = {}
            items = self.guard(self.ev(s.value, env, flags), flags)
            return self.seq(items + [("Return",)])
        if isinstance(s, ast.Raise):
            flags = {}
            items = []
            if s.exc is not None:
                if isinstance(s.exc, ast.Call):
                    for a in s.exc.args:
                        items += self.ev(a, env, flags)
                    for kw in s.exc.keywords:
                        items += self.ev(kw.value, env, flags)
                    flags.pop("unsafe", None)      # building the message: the raise happens anyway
                else:
                    items += self.ev(s.exc, env, flags)
            return self.seq(items + [("Raise",)])
        if isinstance(s, ast.Break):
            return ("Break",)
        if isinstance(s, ast.Continue):
            return ("Continue",)
        if isinstance(s, ast.If):
            flags = {}
            pre = self.guard(self.ev(s.test, env, flags), flags)
            text = ast.unparse(s.test)
            stable = (not env["force_unstable"]) and env["stab"].stable(s.test)
            a = self.block(s.body, env)
            b = self.block(s.orelse, env)
            return self.seq(pre + [("If", stable, _ascii(env["prefix"] + text), a, b)])
        if isinstance(s, ast.For):
            flags = {}
            pre = self.guard(self.ev(s.iter, env, flags), flags)
            has_jump = any(isinstance(n, (ast.Break, ast.Continue)) for n in ast.walk(s))
            if isinstance(s.iter, (ast.Tuple, ast.List)) and isinstance(s.target, ast.Name) and \
                    1 <= len(s.iter.elts) <= MAX_UNROLL and not has_jump and not s.orelse and \
                    all(isinstance(x, (ast.Name, ast.Constant)) for x in s.iter.elts):
                items = []
                for x in s.iter.elts:
                    body = [_Subst({s.target.id: x}).visit(_copy(st)) for st in s.body]
                    items.append(self.block(body, env))
                return self.seq(pre + items)
            env["in_loop"] += 1
            try:
                body = self.block(s.body, env)
            finally:
                env["in_loop"] -= 1
            orelse = self.block(s.orelse, env)
            return self.seq(pre + [("Loop", _ascii("for " + ast.unparse(s.target) + " in " + ast.unparse(s.iter)),
                                    body, orelse)])
        if isinstance(s, ast.While):
            flags = {}
            env["in_loop"] += 1
            try:
                cond = self.guard(self.ev(s.test, env, flags), flags)
                body = self.block(s.body, env)
            finally:
                env["in_loop"] -= 1
            orelse = self.block(s.orelse, env)
            # 5th component (not printed): the condition part of the body, for harness/skelconf.py
            return ("Loop", _ascii("while " + ast.unparse(s.test)), self.seq(cond + [body]), self.seq(cond + [orelse]),
                    self.seq(cond))
        if isinstance(s, ast.Try):
            if s.orelse:
                raise Unsupported("skeleton: try/else at line %d" % s.lineno)
            body = self.block(s.body, env)
            catchall = False
            catches_exit = False
            hs = []
            for h in s.handlers:
                types = []
                if h.type is None:
                    catchall = True
                    catches_exit = True
                elif isinstance(h.type, ast.Tuple):
                    types = [dotted(x) for x in h.type.elts]
                else:
                    types = [dotted(h.type)]
                if any(t in CATCH_ALL for t in types):
                    catchall = True
                if any(t in ("BaseException", "SystemExit") for t in types):
                    catches_exit = True
                hs.append(self.block(h.body, env))
            if not hs:
                handler = ("Raise",)
            else:
                handler = hs[-1]
                for h in reversed(hs[:-1]):
                    handler = ("If", False, "", h, handler)
            fin = self.block(s.finalbody, env)
            if catches_exit and _contains_exit(body):
                # the semantics lets Exit pass every handler (SystemExit is not an Exception)
                raise Unsupported("skeleton: sys.exit inside a try that catches BaseException/SystemExit, line %d" % s.lineno)
            return ("Try", body, handler, catchall and bool(hs), fin)
        if isinstance(s, ast.With):
            return self.with_items(s.items, s.body, env)
        if isinstance(s, ast.Assert):
            flags = {}
            return self.seq(self.ev(s.test, env, flags) + [("If", False, "<assert>", ("Skip",), ("Raise",))])
        if isinstance(s, ast.Delete):
            return ("Call", "<expr>")
        raise Unsupported("skeleton: statement %s at line %d" % (type(s).__name__, s.lineno))

    def with_items(self, items, body, env):
        if not items:
            return self.block(body, env)
        it = items[0]
        flags = {}
        e = it.context_expr
        if isinstance(e, ast.Call):
            pre = []
            for a in e.args:
                pre += self.ev(a, env, flags)
            for kw in e.keywords:
                pre += self.ev(kw.value, env, flags)
            name = dotted(e.func) or ast.unparse(e.func)
        else:
            pre = self.ev(e, env, flags)
            name = ast.unparse(e)
        inner = self.with_items(items[1:], body, env)
        return self.seq(self.guard(pre, flags) + [("With", _ascii(name), inner)])

    def function(self, fn):
        env = {"local_funcs": {}, "depth": 0, "stab": Stability(fn), "prefix": "", "in_loop": 0,
               "force_unstable": False}
        return self.block(fn.body, env)


class SkelPrinter:
    def __init__(self):
        self.names = {}
        self.order = []

    def name(self, text):
        if text not in self.names:
            self.names[text] = "nm_%d" % len(self.names)
            self.order.append(text)
        return self.names[text]

    def pr(self, t, ind=2):
        k = t[0]
        sp = " " * ind
        if k in ("Skip", "Return", "Raise", "Break", "Continue"):
            return sp + k
        if k == "Call":
            return sp + "(Call %s)" % self.name(t[1])
        if k == "Exit":
            return sp + "(Exit (%d)%%Z)" % t[1]
        if k == "Seq":
            return sp + "(seqs [\n" + ";\n".join(self.pr(x, ind + 2) for x in t[1]) + "])"
        if k == "If":
            return sp + "(If %s %s\n%s\n%s)" % ("true" if t[1] else "false", self.name(t[2]),
                                                self.pr(t[3], ind + 2), self.pr(t[4], ind + 2))
        if k == "Loop":
            return sp + "(Loop %s\n%s\n%s)" % (self.name(t[1]), self.pr(t[2], ind + 2), self.pr(t[3], ind + 2))
        if k == "Try":
            return sp + "(Try\n%s\n%s\n%s %s\n%s)" % (self.pr(t[1], ind + 2), self.pr(t[2], ind + 2), sp,
                                                      "true" if t[3] else "false", self.pr(t[4], ind + 2))
        if k == "Scope":
            return sp + "(Scope\n%s)" % self.pr(t[1], ind + 2)
        if k == "With":
            return sp + "(With %s\n%s)" % (self.name(t[1]), self.pr(t[2], ind + 2))
        raise Unsupported("printer: %r" % (k,))


# (module, qualified function, emitted name)
SKEL_TARGETS = [
    ("in_toto/resolver/_resolver.py", "FileResolver.hash_artifacts", "FileResolver_hash_artifacts"),
    ("in_toto/resolver/_resolver.py", "OSTreeResolver.hash_artifacts", "OSTreeResolver_hash_artifacts"),
    ("in_toto/resolver/_resolver.py", "DirectoryResolver.hash_artifacts", "DirectoryResolver_hash_artifacts"),
    ("in_toto/runlib.py", "record_artifacts_as_dict", None),
    ("in_toto/runlib.py", "_subprocess_run_duplicate_streams", "subprocess_run_duplicate_streams"),
    ("in_toto/runlib.py", "execute_link", None),
    ("in_toto/runlib.py", "in_toto_run", None),
    ("in_toto/runlib.py", "in_toto_mock", None),
    ("in_toto/runlib.py", "in_toto_record_start", None),
    ("in_toto/runlib.py", "in_toto_record_stop", None),
    ("in_toto/runlib.py", "in_toto_match_products", None),
    ("in_toto/verifylib.py", "run_all_inspections", None),
    ("in_toto/verifylib.py", "in_toto_verify", None),
    ("in_toto/in_toto_verify.py", "main", "main_verify"),
    ("in_toto/in_toto_sign.py", "main", "main_sign"),
    ("in_toto/in_toto_sign.py", "_verify_metadata", "sign_verify_metadata"),
    ("in_toto/in_toto_sign.py", "_sign_and_dump_metadata", "sign_sign_and_dump_metadata"),
    ("in_toto/in_toto_sign.py", "_load_metadata", "sign_load_metadata"),
    ("in_toto/in_toto_run.py", "main", "main_run"),
    ("in_toto/in_toto_record.py", "main", "main_record"),
    ("in_toto/in_toto_match_products.py", "main", "main_match_products"),
    ("in_toto/in_toto_mock.py", "main", "main_mock"),
]


def gen_skel(repo, targets=None):
    targets = targets or SKEL_TARGETS
    pr = SkelPrinter()
    trees = {}
    defs = []
    for rel, qual, name in targets:
        if rel not in trees:
            trees[rel] = load(repo, rel)
        fn = find_function(trees[rel], qual)
        sk = Skel(trees[rel], rel).function(fn)
        defs.append("(* %s : %s, line %d *)\nDefinition skel_%s : skel :=\n%s.\n" % (
            rel, qual, fn.lineno, name or fn.name, pr.pr(sk)))
    out = ["(* generated by tools/pytrans.py (back end 3: effect skeletons) from %s — do not edit *)" % repo,
           "From InToto.Model Require Import Base Skel.", ""]
    for text in pr.order:
        out.append("Definition %s : str := %s. (* %s *)" % (pr.names[text], coq_str(text),
                                                             text.replace("*)", "* )").replace("(*", "( *")))
    out.append("")
    out += defs
    out.append("Definition all_skels : list (str * skel) := [")
    out.append(";\n".join("  (%s, skel_%s)" % (coq_str(name or qual), name or qual) for _, qual, name in targets))
    out.append("].")
    return "\n".join(out) + "\n"


def main():
    repo, outdir = sys.argv[1], sys.argv[2]
    wanted = sys.argv[3:] or ["Fun.v"]
    os.makedirs(outdir, exist_ok=True)
    status = 0
    for fname, gen in (("Fun.v", gen_fun), ("Skel.v", gen_skel)):
        if fname not in wanted:
            continue
        try:
            text = gen(repo)
            with open(os.path.join(outdir, fname), "w") as f:
                f.write(text)
        except (Unsupported, SyntaxError, OSError) as e:
            print("TRANSLATOR-ERROR %s: %s" % (fname, e))
            status = 1
    sys.exit(status)


if __name__ == "__main__":
    main()
