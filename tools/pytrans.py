#!/usr/bin/env python3
"""pytrans.py — Python-ast -> Coq translator (fail closed).

Back ends
  consts : module-level literal constants, attr.ib() field lists, comparison-operator pins
  fun    : shallow monadic translation of expression-level functions over PyLib.pyval
  skel   : effect skeletons of orchestration functions (Model/Skel.v datatype)

Anything outside the supported subset raises Unsupported; the caller reports a broken tie.
Usage:  pytrans.py <repo> <outdir>      writes <outdir>/Consts.v Fun.v Skel.v
"""
import ast
import os
import sys


class Unsupported(Exception):
    pass


def coq_str(s):
    return "[" + ";".join(str(ord(c)) for c in s) + "]%N"


def vstr(s):
    return "(VStr %s)" % coq_str(s)


EXC = {
    "FormatError": "EFormat", "_err": "EFormat", "RuleVerificationError": "ERule",
    "BadReturnValueError": "EBadRetval", "SignatureVerificationError": "ESignature",
    "ThresholdVerificationError": "EThreshold", "LayoutExpiredError": "EExpired",
    "LinkNotFoundError": "ELinkNotFound", "PrefixError": "EPrefix", "ValueError": "EValueError",
    "KeyError": "EKeyError", "InvalidMetadata": "EInvalidMetadata", "TypeError": "ETypeError",
    "NotImplementedError": "ENotImplemented",
}
TYPES = {"str": "TStr", "int": "TInt", "list": "TList", "dict": "TDict", "bool": "TBool"}
IGNORED_CALL_PREFIXES = ("LOG.", "logger.", "logging.")


def dotted(node):
    if isinstance(node, ast.Name):
        return node.id
    if isinstance(node, ast.Attribute):
        b = dotted(node.value)
        return None if b is None else b + "." + node.attr
    return None


def ident(name):
    return "v_" + name.replace("__", "_u_")


class Fun:
    """shallow translation of one function"""

    def __init__(self, known_funs, consts):
        self.known = known_funs      # bare name -> arity
        self.consts = consts         # bare name -> coq ident (pyval)
        self.fresh = 0

    def tmp(self):
        self.fresh += 1
        return "t%d" % self.fresh

    # ---- expressions: returns (code, pure) ; pure code : pyval, else : res pyval
    def lift(self, cp):
        code, pure = cp
        return "(Ok %s)" % code if pure else code

    def with_args(self, args, build):
        """args: list of (code, pure); build(list of pure codes) -> (code, pure)"""
        binds, pure_codes = [], []
        for code, pure in args:
            if pure:
                pure_codes.append(code)
            else:
                t = self.tmp()
                binds.append((t, code))
                pure_codes.append(t)
        rcode, rpure = build(pure_codes)
        if not binds:
            return rcode, rpure
        body = "(Ok %s)" % rcode if rpure else rcode
        for t, code in reversed(binds):
            body = "(do %s <- %s; %s)" % (t, code, body)
        return body, False

    def expr(self, e, locals_):
        if isinstance(e, ast.Constant):
            v = e.value
            if v is None:
                return "VNone", True
            if isinstance(v, bool):
                return "(VBool %s)" % ("true" if v else "false"), True
            if isinstance(v, int):
                return "(VInt (%d)%%Z)" % v, True
            if isinstance(v, str):
                return vstr(v), True
            raise Unsupported("constant %r" % (v,))
        if isinstance(e, ast.Name):
            if e.id in locals_:
                return ident(e.id), True
            if e.id in self.consts:
                return self.consts[e.id], True
            raise Unsupported("free name %s" % e.id)
        if isinstance(e, ast.List):
            return self.with_args([self.expr(x, locals_) for x in e.elts],
                                  lambda a: ("(VList [%s])" % "; ".join(a), True))
        if isinstance(e, ast.Set):
            return self.with_args([self.expr(x, locals_) for x in e.elts],
                                  lambda a: ("(VSet (pv_dedup [%s]))" % "; ".join(a), True))
        if isinstance(e, ast.Dict):
            ks = [self.expr(x, locals_) for x in e.keys]
            vs = [self.expr(x, locals_) for x in e.values]
            n = len(ks)
            return self.with_args(ks + vs, lambda a: (
                "(VDict [%s])" % "; ".join("(%s, %s)" % (a[i], a[n + i]) for i in range(n)), True))
        if isinstance(e, ast.UnaryOp) and isinstance(e.op, ast.Not):
            return self.with_args([self.expr(e.operand, locals_)], lambda a: ("(py_not %s)" % a[0], True))
        if isinstance(e, ast.BoolOp):
            op = "py_and" if isinstance(e.op, ast.And) else "py_or"
            parts = [self.lift(self.expr(x, locals_)) for x in e.values]
            code = parts[-1]
            for p in reversed(parts[:-1]):
                code = "(%s %s (fun _ => %s))" % (op, p, code)
            return code, False
        if isinstance(e, ast.Compare):
            if len(e.ops) != 1:
                raise Unsupported("chained comparison")
            op = e.ops[0]
            l, r = self.expr(e.left, locals_), self.expr(e.comparators[0], locals_)
            table = {ast.Eq: "py_eq", ast.NotEq: "py_ne", ast.Lt: "py_lt", ast.LtE: "py_le",
                     ast.Gt: "py_gt", ast.GtE: "py_ge", ast.In: "py_in", ast.NotIn: "py_not_in"}
            if type(op) in table:
                return self.with_args([l, r], lambda a: ("(%s %s %s)" % (table[type(op)], a[0], a[1]), False))
            if isinstance(op, (ast.Is, ast.IsNot)):
                neg = isinstance(op, ast.IsNot)
                return self.with_args([l, r], lambda a: (
                    "(vb (%s(pv_is %s %s)))" % ("negb " if neg else "", a[0], a[1]), True))
            raise Unsupported("comparison %s" % type(op).__name__)
        if isinstance(e, ast.BinOp):
            table = {ast.Add: "py_add", ast.BitAnd: "py_and_set", ast.BitOr: "py_or_set", ast.Sub: "py_sub"}
            if type(e.op) not in table:
                raise Unsupported("binop %s" % type(e.op).__name__)
            return self.with_args([self.expr(e.left, locals_), self.expr(e.right, locals_)],
                                  lambda a: ("(%s %s %s)" % (table[type(e.op)], a[0], a[1]), False))
        if isinstance(e, ast.Subscript):
            c = self.expr(e.value, locals_)
            if isinstance(e.slice, ast.Slice):
                s = e.slice
                if s.upper is None and s.step is None and s.lower is not None:
                    lo = self.expr(s.lower, locals_)
                    return self.with_args([c, lo], lambda a: ("(py_slice_from %s %s)" % (a[0], a[1]), False))
                raise Unsupported("slice form")
            i = self.expr(e.slice, locals_)
            return self.with_args([c, i], lambda a: ("(py_index %s %s)" % (a[0], a[1]), False))
        if isinstance(e, ast.IfExp):
            t = self.lift(self.expr(e.test, locals_))
            a = self.lift(self.expr(e.body, locals_))
            b = self.lift(self.expr(e.orelse, locals_))
            x = self.tmp()
            return "(do %s <- %s; if truthy %s then %s else %s)" % (x, t, x, a, b), False
        if isinstance(e, ast.SetComp) or isinstance(e, ast.ListComp):
            if len(e.generators) != 1 or e.generators[0].is_async:
                raise Unsupported("comprehension shape")
            g = e.generators[0]
            if not isinstance(g.target, ast.Name):
                raise Unsupported("comprehension target")
            it = self.expr(g.iter, locals_)
            inner = set(locals_) | {g.target.id}
            elt = self.lift(self.expr(e.elt, inner))
            cond = "(Ok (VBool true))"
            for c in g.ifs:
                cc = self.lift(self.expr(c, inner))
                cond = "(py_and %s (fun _ => %s))" % (cond, cc)
            kind = "py_setcomp" if isinstance(e, ast.SetComp) else "py_listcomp"
            return self.with_args([it], lambda a: (
                "(%s %s (fun %s => %s) (fun %s => %s))" % (kind, a[0], ident(g.target.id), cond,
                                                         ident(g.target.id), elt), False))
        if isinstance(e, ast.JoinedStr):
            parts = []
            for v in e.values:
                if isinstance(v, ast.Constant):
                    parts.append((vstr(v.value), True))
                elif isinstance(v, ast.FormattedValue) and v.conversion == -1 and v.format_spec is None:
                    parts.append(self.expr(v.value, locals_))
                else:
                    raise Unsupported("f-string part")
            return self.with_args(parts, lambda a: ("(py_fstring [%s])" % "; ".join(a), False))
        if isinstance(e, ast.Call):
            return self.call(e, locals_)
        raise Unsupported("expression %s" % type(e).__name__)

    def call(self, e, locals_):
        if e.keywords:
            raise Unsupported("keyword arguments in call %s" % ast.dump(e.func)[:60])
        f = e.func
        name = dotted(f)
        if isinstance(f, ast.Name) and f.id == "isinstance" and len(e.args) == 2:
            tn = e.args[1]
            if isinstance(tn, ast.Name) and tn.id in TYPES:
                return self.with_args([self.expr(e.args[0], locals_)],
                                      lambda a: ("(py_isinstance %s %s)" % (a[0], TYPES[tn.id]), True))
            raise Unsupported("isinstance type")
        args = [self.expr(a, locals_) for a in e.args]
        if isinstance(f, ast.Name):
            if f.id == "len" and len(args) == 1:
                return self.with_args(args, lambda a: ("(py_len %s)" % a[0], False))
            if f.id == "isinstance" and len(e.args) == 2:
                tn = e.args[1]
                if isinstance(tn, ast.Name) and tn.id in TYPES:
                    return self.with_args(args[:1], lambda a: ("(py_isinstance %s %s)" % (a[0], TYPES[tn.id]), True))
                raise Unsupported("isinstance type")
            if f.id == "set":
                if not args:
                    return "(VSet [])", True
                return self.with_args(args, lambda a: ("(py_set %s)" % a[0], False))
            if f.id == "list" and len(args) == 1:
                return self.with_args(args, lambda a: ("(py_list %s)" % a[0], False))
        if name in ("fnmatch.filter",) and len(args) == 2:
            return self.with_args(args, lambda a: ("(py_fnmatch_filter %s %s)" % (a[0], a[1]), False))
        if name in ("os.path.join", "join") and len(args) == 2:
            return self.with_args(args, lambda a: ("(py_path_join %s %s)" % (a[0], a[1]), False))
        bare = name.split(".")[-1] if name else None
        if name and bare in self.known and (isinstance(f, ast.Name) or name.startswith("in_toto.")
                                            or name.startswith("self.")):
            if self.known[bare] != len(args):
                raise Unsupported("arity of %s" % bare)
            return self.with_args(args, lambda a: ("(f_%s %s)" % (bare, " ".join(a)), False))
        if isinstance(f, ast.Attribute):
            recv = self.expr(f.value, locals_)
            m = f.attr
            table = {("lower", 0): "py_lower", ("upper", 0): "py_upper", ("startswith", 1): "py_startswith",
                     ("replace", 2): "py_replace1", ("keys", 0): "py_keys", ("get", 2): "py_get"}
            if (m, len(args)) in table:
                fn = table[(m, len(args))]
                return self.with_args([recv] + args, lambda a: ("(%s %s)" % (fn, " ".join(a)), False))
            if m == "get" and len(args) == 1:
                return self.with_args([recv] + args, lambda a: ("(py_get %s %s VNone)" % (a[0], a[1]), False))
        raise Unsupported("call %s" % (name or ast.dump(f)[:60]))

    # ---- statements -------------------------------------------------------------------
    def assigned(self, stmts):
        names = []

        def add(n):
            if n not in names:
                names.append(n)
        for s in stmts:
            for node in ast.walk(s):
                if isinstance(node, ast.Name) and isinstance(node.ctx, ast.Store):
                    add(node.id)
                if isinstance(node, ast.Call) and isinstance(node.func, ast.Attribute) and \
                        node.func.attr in ("append", "add") and isinstance(node.func.value, ast.Name):
                    add(node.func.value.id)
        return names

    def exc_of(self, node):
        target = node.func if isinstance(node, ast.Call) else node
        n = dotted(target)
        bare = n.split(".")[-1] if n else None
        if bare in EXC:
            return EXC[bare]
        raise Unsupported("exception %s" % n)

    def block(self, stmts, locals_, k):
        """k: function(locals) -> code of type res T for what follows the block"""
        if not stmts:
            return k(locals_)
        s, rest = stmts[0], stmts[1:]
        cont = lambda loc: self.block(rest, loc, k)
        if isinstance(s, ast.Expr):
            v = s.value
            if isinstance(v, ast.Constant):
                return cont(locals_)          # docstring
            if isinstance(v, ast.Call):
                name = dotted(v.func) or ""
                if name.startswith(IGNORED_CALL_PREFIXES):
                    return cont(locals_)
                if isinstance(v.func, ast.Attribute) and v.func.attr in ("append", "add") and \
                        isinstance(v.func.value, ast.Name) and v.func.value.id in locals_ and len(v.args) == 1:
                    tgt = v.func.value.id
                    fn = "py_append" if v.func.attr == "append" else "py_set_add"
                    a = self.expr(v.args[0], locals_)
                    code = self.lift(self.with_args([a], lambda x: ("(%s %s %s)" % (fn, ident(tgt), x[0]), False)))
                    return "(do %s <- %s; %s)" % (ident(tgt), code, cont(locals_))
                code = self.lift(self.expr(v, locals_))
                return "(do _ <- %s; %s)" % (code, cont(locals_))
            raise Unsupported("expression statement")
        if isinstance(s, ast.Assign):
            if len(s.targets) != 1 or not isinstance(s.targets[0], ast.Name):
                raise Unsupported("assignment target")
            n = s.targets[0].id
            code, pure = self.expr(s.value, locals_)
            loc = set(locals_) | {n}
            if pure:
                return "(let %s := %s in %s)" % (ident(n), code, cont(loc))
            return "(do %s <- %s; %s)" % (ident(n), code, cont(loc))
        if isinstance(s, ast.AugAssign):
            if not isinstance(s.target, ast.Name) or s.target.id not in locals_:
                raise Unsupported("augassign target")
            n = s.target.id
            table = {ast.Add: "py_add", ast.Sub: "py_sub", ast.BitAnd: "py_and_set", ast.BitOr: "py_or_set"}
            if type(s.op) not in table:
                raise Unsupported("augassign op")
            a = self.expr(s.value, locals_)
            code = self.lift(self.with_args([a], lambda x: ("(%s %s %s)" % (table[type(s.op)], ident(n), x[0]), False)))
            return "(do %s <- %s; %s)" % (ident(n), code, cont(locals_))
        if isinstance(s, ast.If):
            t = self.lift(self.expr(s.test, locals_))
            x = self.tmp()
            # the continuation is duplicated into both branches, so each copy sees exactly the
            # names bound on its own path (a use of a possibly-unbound name fails closed)
            return "(do %s <- %s; if truthy %s then %s else %s)" % (
                x, t, x,
                self.block(s.body, locals_, cont),
                self.block(s.orelse, locals_, cont))
        if isinstance(s, ast.Return):
            if s.value is None:
                return "(Ok VNone)"
            return self.lift(self.expr(s.value, locals_))
        if isinstance(s, ast.Raise):
            return "(Err %s)" % self.exc_of(s.exc)
        if isinstance(s, ast.For):
            if s.orelse or not isinstance(s.target, ast.Name):
                raise Unsupported("for shape")
            for node in ast.walk(s):
                if isinstance(node, (ast.Break, ast.Continue, ast.Return)):
                    raise Unsupported("break/continue/return in for")
            it = self.expr(s.iter, locals_)
            state = [n for n in self.assigned(s.body) if n in locals_]
            for n in self.assigned(s.body):
                if n not in locals_ and n != s.target.id:
                    # loop-local temporaries are fine as long as nothing after the loop reads them
                    pass
            tup = "(" + ", ".join(ident(n) for n in state) + ")" if len(state) != 1 else ident(state[0])
            if not state:
                tup = "tt"
            pat = "'" + tup if len(state) > 1 else ("_" if not state else tup)
            inner_loc = set(locals_) | {s.target.id}
            body = self.block(s.body, inner_loc, lambda loc: "(Ok %s)" % tup)
            itc = self.tmp()
            st = self.tmp()
            loop = "(py_for %s %s (fun %s %s => %s))" % (
                "%s", tup, ident(s.target.id), pat if state else "_", body)
            after = cont(locals_)
            code, pure = it
            if pure:
                loopc = loop % code
                return "(do %s <- %s; %s)" % (pat if state else "_", loopc, after)
            return "(do %s <- %s; do %s <- %s; %s)" % (itc, code, pat if state else "_", loop % itc, after)
        if isinstance(s, ast.Pass):
            return cont(locals_)
        raise Unsupported("statement %s" % type(s).__name__)

    def function(self, fn, name=None, drop_self=True):
        params = [a.arg for a in fn.args.args]
        if drop_self and params and params[0] in ("self", "cls"):
            params = params[1:]
        if fn.args.vararg or fn.args.kwarg or fn.args.kwonlyargs:
            raise Unsupported("varargs in %s" % fn.name)
        body = self.block(fn.body, set(params), lambda loc: "(Ok VNone)")
        return "Definition f_%s %s : res pyval :=\n  %s.\n" % (
            name or fn.name, " ".join("(%s : pyval)" % ident(p) for p in params), body), len(params)


# ---------------------------------------------------------------------------------------
def const_value(node, env):
    """module-level literal -> coq pyval code, or None"""
    if isinstance(node, ast.Constant):
        if isinstance(node.value, str):
            return vstr(node.value)
        if isinstance(node.value, bool):
            return "(VBool %s)" % ("true" if node.value else "false")
        if isinstance(node.value, int):
            return "(VInt (%d)%%Z)" % node.value
        if node.value is None:
            return "VNone"
        return None
    if isinstance(node, (ast.Set, ast.List, ast.Tuple)):
        elts = [const_value(x, env) for x in node.elts]
        if any(x is None for x in elts):
            return None
        if isinstance(node, ast.Set):
            return "(VSet (pv_dedup [%s]))" % "; ".join(elts)
        return "(VList [%s])" % "; ".join(elts)
    if isinstance(node, ast.Name) and node.id in env:
        return env[node.id]
    if isinstance(node, ast.BinOp) and isinstance(node.op, ast.BitOr):
        a, b = const_value(node.left, env), const_value(node.right, env)
        if a and b:
            return "(match py_or_set %s %s with Ok v => v | Err _ => VNone end)" % (a, b)
    return None


def load(repo, rel):
    path = os.path.join(repo, rel)
    return ast.parse(open(path).read(), filename=path)


def find_function(tree, qual):
    parts = qual.split(".")
    body = tree.body
    node = None
    for p in parts:
        node = None
        for n in body:
            if isinstance(n, (ast.FunctionDef, ast.ClassDef)) and n.name == p:
                node = n
                break
        if node is None:
            raise Unsupported("function %s not found" % qual)
        body = node.body
    if not isinstance(node, ast.FunctionDef):
        raise Unsupported("%s is not a function" % qual)
    return node


# (module, qualified function, emitted name)
FUN_TARGETS = [
    ("in_toto/formats.py", "_check_str", None),
    ("in_toto/formats.py", "_check_list", None),
    ("in_toto/formats.py", "_check_str_list", None),
    ("in_toto/rulelib.py", "unpack_rule", None),
    ("in_toto/rulelib.py", "pack_rule", None),
]

CONST_MODULES = ["in_toto/rulelib.py", "in_toto/models/link.py", "in_toto/models/layout.py",
                 "in_toto/models/metadata.py", "in_toto/resolver/_resolver.py", "in_toto/settings.py"]


def gen_fun(repo, targets=None):
    targets = targets or FUN_TARGETS
    out = ["(* generated by tools/pytrans.py from %s — do not edit *)" % repo,
           "From InToto.Model Require Import Base Json PyLib.", ""]
    trees = {}
    known = {}
    consts = {}
    # constants of every module that hosts a target
    for rel, _, _ in targets:
        if rel in trees:
            continue
        trees[rel] = load(repo, rel)
        env = {}
        for n in trees[rel].body:
            if isinstance(n, ast.Assign) and len(n.targets) == 1 and isinstance(n.targets[0], ast.Name):
                v = const_value(n.value, env)
                if v is not None:
                    nm = n.targets[0].id
                    cid = "c_" + nm
                    env[nm] = cid
                    if nm not in consts:
                        consts[nm] = cid
                        out.append("Definition %s : pyval := %s." % (cid, v))
    out.append("")
    for rel, qual, name in targets:
        fn = find_function(trees[rel], qual)
        tr = Fun(dict(known), consts)
        code, arity = tr.function(fn, name)
        out.append("(* %s : %s, line %d *)" % (rel, qual, fn.lineno))
        out.append(code)
        known[name or fn.name] = arity
    return "\n".join(out) + "\n"


def main():
    repo, outdir = sys.argv[1], sys.argv[2]
    wanted = sys.argv[3:] or ["Fun.v"]
    os.makedirs(outdir, exist_ok=True)
    status = 0
    for fname, gen in (("Fun.v", gen_fun),):
        if fname not in wanted:
            continue
        try:
            text = gen(repo)
            with open(os.path.join(outdir, fname), "w") as f:
                f.write(text)
        except (Unsupported, SyntaxError, OSError) as e:
            print("TRANSLATOR-ERROR %s: %s" % (fname, e))
            status = 1
    sys.exit(status)


if __name__ == "__main__":
    main()
