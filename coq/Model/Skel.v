(** Skel.v — effect skeletons of orchestration code (DESIGN §5.1, back end 3).

    A skeleton keeps the control structure of a Python function and the *names* of the
    calls it makes, in evaluation order, and forgets all data.  [tools/pytrans.py]
    regenerates one skeleton per listed function of /repo into [Gen/Skel.v] on every run.

    This file holds
      - the datatype [skel],
      - a non-deterministic trace semantics [exec rho s t o] (inductive relation):
          every [Call] may return or raise, every unstable [If] may go either way, every
          stable [If] follows the (arbitrary but fixed) valuation [rho] of its label, every
          [Loop] may run any number of times,
      - monitors (deterministic automata over trace events) and a computable abstract
        interpreter [absint] that enumerates every reachable (outcome, monitor state) pair,
      - the computable checkers built from them: [bracketed], [exit0_only_after],
        [handlers_exit_nonzero], [precedes], [last_effect], [iter_requires], [failure_exits],
        [exit_only_before], [exit_iff_label] and helpers.
    No proofs here; soundness of every checker w.r.t. [exec] is in Proofs/SkelSound.v. *)
From InToto.Model Require Import Base.

(** * Syntax *)
Inductive skel : Type :=
| Skip
| Call (name : str)                                   (* a call (or a store to a global); may raise *)
| Seq (a b : skel)
| If (stable : bool) (label : str) (a b : skel)       (* label = source text of the condition *)
| Loop (label : str) (body orelse : skel)             (* for/while ... else *)
| Try (body handler : skel) (catchall : bool) (fin : skel)
      (* handler: what runs when [body] raised and some except clause caught it (a
         non-deterministic choice between the clauses); catchall = one clause catches
         every Exception, i.e. the exception cannot propagate past the handlers *)
| Scope (body : skel)                                 (* inlined function body: Return stops here *)
| Return | Raise | Break | Continue
| Exit (code : Z).                                    (* sys.exit(code), parser.error -> 2 *)

(** [with cm: body]  =  cm ; try body finally cm.__exit__ *)
Definition With (name : str) (body : skel) : skel :=
  Seq (Call name) (Try body Raise false (Call (name ++ [46;95;95;101;120;105;116;95;95]%N))).

(** non-deterministic choice (used for alternative except clauses) *)
Definition Choice (a b : skel) : skel := If false [] a b.

Fixpoint seqs (l : list skel) : skel :=
  match l with
  | [] => Skip
  | [s] => s
  | s :: l' => Seq s (seqs l')
  end.

(** * Traces and outcomes *)
Inductive event : Type :=
| ECall (name : str) (ok : bool)     (* ok = returned normally; false = raised *)
| EHandler                           (* an except clause was entered *)
| EIter (label : str).               (* one more iteration of the loop with this label *)
Definition trace := list event.

Inductive outcome : Type :=
| ONormal | ORaised | OExited (c : Z) | OReturned | OBroke | OContinued.

Definition outcome_eqb (a b : outcome) : bool :=
  match a, b with
  | ONormal, ONormal | ORaised, ORaised | OReturned, OReturned
  | OBroke, OBroke | OContinued, OContinued => true
  | OExited c, OExited d => Z.eqb c d
  | _, _ => false
  end.

Definition is_normal (o : outcome) : bool := match o with ONormal => true | _ => false end.
Definition is_raised (o : outcome) : bool := match o with ORaised => true | _ => false end.
(** the loop goes on to its next iteration *)
Definition continues (o : outcome) : bool :=
  match o with ONormal | OContinued => true | _ => false end.
(** the loop is left with this very outcome *)
Definition aborts (o : outcome) : bool :=
  match o with ORaised | OExited _ | OReturned => true | _ => false end.
(** what a function-call boundary does to the outcome of the body *)
Definition scope_out (o : outcome) : outcome :=
  match o with OReturned | OBroke | OContinued => ONormal | _ => o end.
(** what [finally] does: its own abrupt outcome wins, otherwise the pending one stays *)
Definition fin_out (pending o3 : outcome) : outcome :=
  if is_normal o3 then pending else o3.
(** the process (a [main]) reports success: sys.exit(0), or main returns (console script
    entry points call sys.exit(main()) and main returns None) *)
Definition success (o : outcome) : bool :=
  match o with
  | OExited c => Z.eqb c 0
  | ONormal | OReturned => true
  | _ => false
  end.
Definition exited_nonzero_or_raised (o : outcome) : bool :=
  match o with
  | OExited c => negb (Z.eqb c 0)
  | ORaised => true
  | _ => false
  end.

(** * Semantics *)
Section Exec.
Variable rho : str -> bool.      (* value of every stable condition during this execution *)

Inductive exec : skel -> trace -> outcome -> Prop :=
| XSkip : exec Skip [] ONormal
| XCallOk n : exec (Call n) [ECall n true] ONormal
| XCallRaise n : exec (Call n) [ECall n false] ORaised
| XSeqStop a b t o : exec a t o -> is_normal o = false -> exec (Seq a b) t o
| XSeqGo a b t1 t2 o : exec a t1 ONormal -> exec b t2 o -> exec (Seq a b) (t1 ++ t2) o
| XIfStable l a b t o :
    exec (if rho l then a else b) t o -> exec (If true l a b) t o
| XIfFreeT l a b t o : exec a t o -> exec (If false l a b) t o
| XIfFreeF l a b t o : exec b t o -> exec (If false l a b) t o
| XLoopEnd l b e t o : exec e t o -> exec (Loop l b e) t o
| XLoopIter l b e t1 o1 t2 o2 :
    exec b t1 o1 -> continues o1 = true -> exec (Loop l b e) t2 o2 ->
    exec (Loop l b e) (EIter l :: t1 ++ t2) o2
| XLoopBreak l b e t1 : exec b t1 OBroke -> exec (Loop l b e) (EIter l :: t1) ONormal
| XLoopAbort l b e t1 o1 :
    exec b t1 o1 -> aborts o1 = true -> exec (Loop l b e) (EIter l :: t1) o1
| XTryPass b h c f t1 o1 t3 o3 :          (* body did not raise *)
    exec b t1 o1 -> is_raised o1 = false -> exec f t3 o3 ->
    exec (Try b h c f) (t1 ++ t3) (fin_out o1 o3)
| XTryCatch b h c f t1 t2 o2 t3 o3 :      (* body raised, an except clause runs *)
    exec b t1 ORaised -> exec h t2 o2 -> exec f t3 o3 ->
    exec (Try b h c f) (t1 ++ EHandler :: t2 ++ t3) (fin_out o2 o3)
| XTryProp b h f t1 t3 o3 :               (* body raised, no clause matches *)
    exec b t1 ORaised -> exec f t3 o3 ->
    exec (Try b h false f) (t1 ++ t3) (fin_out ORaised o3)
| XScope b t o : exec b t o -> exec (Scope b) t (scope_out o)
| XReturn : exec Return [] OReturned
| XRaise : exec Raise [] ORaised
| XBreak : exec Break [] OBroke
| XContinue : exec Continue [] OContinued
| XExit c : exec (Exit c) [] (OExited c).
End Exec.

(** * Resolving stable conditions *)
Definition asg := list (str * bool).

Fixpoint specialise (g : asg) (s : skel) : skel :=
  match s with
  | Seq a b => Seq (specialise g a) (specialise g b)
  | If true l a b =>
      match lookup l g with
      | Some true => specialise g a
      | Some false => specialise g b
      | None => If true l (specialise g a) (specialise g b)
      end
  | If false l a b => If false l (specialise g a) (specialise g b)
  | Loop l b e => Loop l (specialise g b) (specialise g e)
  | Try b h c f => Try (specialise g b) (specialise g h) c (specialise g f)
  | Scope b => Scope (specialise g b)
  | _ => s
  end.

Fixpoint all_asgs (labels : list str) : list asg :=
  match labels with
  | [] => [[]]
  | l :: ls => let r := all_asgs ls in
               map (fun g => (l, true) :: g) r ++ map (fun g => (l, false) :: g) r
  end.

Definition asg_of (rho : str -> bool) (labels : list str) : asg :=
  map (fun l => (l, rho l)) labels.

(** * Monitors and the abstract interpreter *)
Definition mon := N -> event -> N.
Definition run (M : mon) (q : N) (t : trace) : N := fold_left M t q.

Definition aout := (outcome * N)%type.
Definition aout_eqb (x y : aout) : bool := outcome_eqb (fst x) (fst y) && N.eqb (snd x) (snd y).

Fixpoint amem (x : aout) (l : list aout) : bool :=
  match l with [] => false | y :: l' => aout_eqb x y || amem x l' end.
Fixpoint aunion (a b : list aout) : list aout :=
  match a with
  | [] => b
  | x :: a' => if amem x b then aunion a' b else x :: aunion a' b
  end.
Fixpoint nmem (x : N) (l : list N) : bool :=
  match l with [] => false | y :: l' => N.eqb x y || nmem x l' end.
Fixpoint nunion (a b : list N) : list N :=
  match a with
  | [] => b
  | x :: a' => if nmem x b then nunion a' b else x :: nunion a' b
  end.

(** union of [f x] over the elements of a list, failing if any [f x] fails *)
Fixpoint ounion {A} (f : A -> option (list aout)) (l : list A) : option (list aout) :=
  match l with
  | [] => Some []
  | x :: l' =>
      match f x, ounion f l' with
      | Some a, Some b => Some (aunion a b)
      | _, _ => None
      end
  end.

Definition obind {A B} (x : option A) (f : A -> option B) : option B :=
  match x with Some a => f a | None => None end.

Section Absint.
Variable M : mon.
Variable fuel : nat.

(** successor states of one loop iteration started in state [q] *)
Definition iter_next (fb : N -> option (list aout)) (l : str) (q : N) : option (list N) :=
  match fb (M q (EIter l)) with
  | Some R => Some (map snd (filter (fun x => continues (fst x)) R))
  | None => None
  end.

Fixpoint iter_next_all (fb : N -> option (list aout)) (l : str) (Iv : list N) : option (list N) :=
  match Iv with
  | [] => Some []
  | q :: J0 =>
      match iter_next fb l q, iter_next_all fb l J0 with
      | Some a, Some b => Some (nunion a b)
      | _, _ => None
      end
  end.

(** grow a candidate invariant (set of monitor states at loop head) [n] times *)
Fixpoint grow (fb : N -> option (list aout)) (l : str) (n : nat) (Iv : list N) : option (list N) :=
  match n with
  | O => Some Iv
  | S n' =>
      match iter_next_all fb l Iv with
      | Some J => if forallb (fun q => nmem q Iv) J then Some Iv else grow fb l n' (nunion J Iv)
      | None => None
      end
  end.

Definition closed (fb : N -> option (list aout)) (l : str) (Iv : list N) : bool :=
  match iter_next_all fb l Iv with
  | Some J => forallb (fun q => nmem q Iv) J
  | None => false
  end.

(** what leaves the loop from an iteration started at loop-head state [q] *)
Definition iter_exit (fb : N -> option (list aout)) (l : str) (q : N) : option (list aout) :=
  match fb (M q (EIter l)) with
  | Some R =>
      Some (aunion
              (filter (fun x => aborts (fst x)) R)
              (map (fun x => (ONormal, snd x))
                   (filter (fun x => match fst x with OBroke => true | _ => false end) R)))
  | None => None
  end.

Definition loop_abs (fb fe : N -> option (list aout)) (l : str) (q : N) : option (list aout) :=
  match grow fb l fuel [q] with
  | Some Iv =>
      if closed fb l Iv && nmem q Iv then
        obind (ounion fe Iv) (fun Re =>
        obind (ounion (iter_exit fb l) Iv) (fun Rx => Some (aunion Re Rx)))
      else None
  | None => None
  end.

Definition fin_abs (ff : N -> option (list aout)) (P : list aout) : option (list aout) :=
  ounion (fun x : aout =>
            obind (ff (snd x)) (fun R3 =>
              Some (map (fun y : aout => (fin_out (fst x) (fst y), snd y)) R3))) P.

Fixpoint absint (s : skel) (q : N) : option (list aout) :=
  match s with
  | Skip => Some [(ONormal, q)]
  | Call n => Some [(ONormal, M q (ECall n true)); (ORaised, M q (ECall n false))]
  | Seq a b =>
      obind (absint a q) (fun Ra =>
        ounion (fun x : aout => if is_normal (fst x) then absint b (snd x) else Some [x]) Ra)
  | If _ _ a b =>
      obind (absint a q) (fun Ra => obind (absint b q) (fun Rb => Some (aunion Ra Rb)))
  | Loop l b e => loop_abs (absint b) (absint e) l q
  | Try b h c f =>
      obind (absint b q) (fun Rb =>
      obind (ounion (fun x : aout =>
                       if is_raised (fst x) then
                         obind (absint h (M (snd x) EHandler)) (fun Rh =>
                           Some (if c then Rh else aunion [x] Rh))
                       else Some [x]) Rb) (fun P =>
      fin_abs (absint f) P))
  | Scope b => obind (absint b q) (fun R => Some (map (fun x : aout => (scope_out (fst x), snd x)) R))
  | Return => Some [(OReturned, q)]
  | Raise => Some [(ORaised, q)]
  | Break => Some [(OBroke, q)]
  | Continue => Some [(OContinued, q)]
  | Exit c => Some [(OExited c, q)]
  end.

(** every reachable (outcome, final monitor state) satisfies [acc] *)
Definition check (acc : aout -> bool) (q0 : N) (s : skel) : bool :=
  match absint s q0 with
  | Some R => forallb acc R
  | None => false
  end.

(** the same for every resolution of the listed stable labels *)
Definition checkL (labels : list str) (acc : aout -> bool) (q0 : N) (s : skel) : bool :=
  forallb (fun g => check acc q0 (specialise g s)) (all_asgs labels).

(** ... under the assumption [g] about some stable conditions (e.g. args.verify = true) *)
Definition checkG (g : asg) (labels : list str) (acc : aout -> bool) (q0 : N) (s : skel) : bool :=
  checkL labels acc q0 (specialise g s).
End Absint.

Definition FUEL : nat := 40.

(** * The monitors *)

(** ** bracket: save / set / restore of one piece of process state
    states: 0 clean, nothing saved | 1 clean and the saved copy equals the entry value |
            2 changed, saved copy equals the entry value | 3 bad | 4 excused: the restoring
            operation itself (or one listed in [excuse]) failed: nobody could have restored *)
Inductive bkind := BSave | BSet | BRestore | BOther.
Definition bclass (save : option str) (set restore n : str) : bkind :=
  if match save with Some sv => eqs n sv | None => false end then BSave
  else if eqs n set then BSet
  else if eqs n restore then BRestore
  else BOther.

Definition bracket_mon (strict : bool) (excuse : list str) (save : option str)
           (set restore : str) : mon :=
  fun q e =>
    match e with
    | ECall n ok =>
        if negb ok && mem_str n excuse then match q with 3 => 3 | _ => 4 end else
        match bclass save set restore n, ok with
        | BSave, true => match q with 0 => 1 | 1 => 1 | 2 => 3 | _ => q end
        | BSet, true => match q with 0 => 3 | 1 => 2 | 2 => if strict then 3 else 2 | _ => q end
        | BRestore, true => match q with 0 => 3 | 1 => 1 | 2 => 1 | _ => q end
        | BRestore, false => match q with 3 => 3 | _ => 4 end
        | _, _ => q
        end
    | _ => q
    end%N.

Definition bracket_q0 (save : option str) : N := match save with Some _ => 0 | None => 1 end%N.
Definition bracket_acc (x : aout) : bool :=
  match snd x with 0 | 1 | 4 => true | _ => false end%N.

(** on every path through s — normal, exceptional or exiting — a [set] is preceded by a
    [save] and followed by a [restore] before s is left (labels: stable conditions that
    guard both, resolved consistently) *)
Definition bracketed (labels : list str) (s : skel) (save set restore : str) : bool :=
  checkL (bracket_mon false [] (Some save) set restore) FUEL labels bracket_acc
         (bracket_q0 (Some save)) s.

(** resource variant: [set] creates (no save needed, creating twice without removing leaks);
    [excuse]: further operations whose own failure makes the removal impossible to reach
    (closing the descriptor before removing the file) *)
Definition bracketed_res (labels : list str) (excuse : list str) (s : skel) (create remove : str) : bool :=
  checkL (bracket_mon true excuse None create remove) FUEL labels bracket_acc (bracket_q0 None) s.

(** ** exit 0 only after a normally returned [a], never through a handler
    states: 0 nothing yet | 1 [a] returned | 2 a handler was entered (absorbing) *)
Definition e0_mon (a : str) : mon :=
  fun q e =>
    match e with
    | ECall n true => if eqs n a then match q with 0 => 1 | _ => q end else q
    | EHandler => 2
    | _ => q
    end%N.
Definition e0_acc (x : aout) : bool :=
  if success (fst x) then N.eqb (snd x) 1 else true.
Definition exit0_only_after (g : asg) (labels : list str) (s : skel) (a : str) : bool :=
  checkG (e0_mon a) FUEL g labels e0_acc 0%N s.

(** ** once a handler was entered the process ends non-zero (or with the exception) *)
Definition h_mon : mon := fun q e => match e with EHandler => 1%N | _ => q end.
Definition h_acc (x : aout) : bool :=
  if N.eqb (snd x) 1 then exited_nonzero_or_raised (fst x) else true.
Definition handlers_exit_nonzero (s : skel) : bool := check h_mon FUEL h_acc 0%N s.

(** ** every attempt of [b] is preceded by a normally returned [a]
    states: 0 no a yet | 1 a returned | 2 bad *)
Definition prec_mon (a b : str) : mon :=
  fun q e =>
    match e with
    | ECall n ok =>
        if eqs n b then match q with 0 => 2 | _ => q end
        else if ok && eqs n a then match q with 0 => 1 | _ => q end
        else q
    | _ => q
    end%N.
Definition prec_acc (x : aout) : bool := negb (N.eqb (snd x) 2).
Definition precedes (s : skel) (a b : str) : bool := check (prec_mon a b) FUEL prec_acc 0%N s.

(** ** on a successful path the last call event is a normally returned [a]
    states: 0 before | 1 a just returned | 2 something after a *)
Definition last_mon (a : str) : mon :=
  fun q e =>
    match e with
    | ECall n ok => if ok && eqs n a then 1 else match q with 1 => 2 | _ => q end
    | _ => q
    end%N.
Definition last_acc (x : aout) : bool :=
  if success (fst x) then N.eqb (snd x) 1 else true.
Definition last_effect (s : skel) (a : str) : bool := check (last_mon a) FUEL last_acc 0%N s.

(** ** every iteration of loop [l] that is followed by another iteration or by a successful
    end contains a normally returned [a]
    states: 0 idle | 1 iteration open, no a yet | 2 bad *)
Definition iter_mon (l a : str) : mon :=
  fun q e =>
    match e with
    | EIter l' => if eqs l' l then match q with 0 => 1 | 1 => 2 | _ => q end else q
    | ECall n true => if eqs n a then match q with 1 => 0 | _ => q end else q
    | _ => q
    end%N.
Definition iter_acc (x : aout) : bool :=
  if success (fst x) then N.eqb (snd x) 0 else true.
Definition iter_requires (g : asg) (labels : list str) (s : skel) (l a : str) : bool :=
  checkG (iter_mon l a) FUEL g labels iter_acc 0%N s.

(** ** a raising [a] leads to exit status [c] (or stays an uncaught exception when c = 1:
    the interpreter turns it into status 1)
    states: 0 | 1 a raised *)
Definition fail_mon (a : str) : mon :=
  fun q e => match e with ECall n false => if eqs n a then 1%N else q | _ => q end.
Definition fail_acc (c : Z) (x : aout) : bool :=
  if N.eqb (snd x) 1 then
    match fst x with OExited d => Z.eqb d c | ORaised => Z.eqb c 1 | _ => false end
  else true.
Definition failure_exits (g : asg) (labels : list str) (s : skel) (a : str) (c : Z) : bool :=
  checkG (fail_mon a) FUEL g labels (fail_acc c) 0%N s.

(** ** exit status [c] is only produced before [a] was attempted (usage errors)
    states: 0 | 1 a attempted *)
Definition att_mon (a : str) : mon :=
  fun q e => match e with ECall n _ => if eqs n a then 1%N else q | _ => q end.
Definition att_acc (c : Z) (x : aout) : bool :=
  match fst x with OExited d => if Z.eqb d c then N.eqb (snd x) 0 else true | _ => true end.
Definition exit_only_before (s : skel) (c : Z) (a : str) : bool :=
  check (att_mon a) FUEL (att_acc c) 0%N s.

(** ** the set of possible outcomes, and the data condition of an exit status *)
Definition triv_mon : mon := fun q _ => q.
Definition outcomes_all (p : outcome -> bool) (s : skel) : bool :=
  check triv_mon FUEL (fun x => p (fst x)) 0%N s.

(** with the stable condition [l] true the run never reports success; with [l] false it
    never exits with status [c] (it may still die from an exception, or stop with a usage
    error before) *)
Definition never_success_under (g : asg) (s : skel) : bool :=
  checkG triv_mon FUEL g [] (fun x => negb (success (fst x))) 0%N s.
Definition never_exit_under (g : asg) (s : skel) (c : Z) : bool :=
  checkG triv_mon FUEL g [] (fun x => match fst x with OExited d => negb (Z.eqb d c) | _ => true end) 0%N s.
Definition exit_iff_label (s : skel) (l : str) (c : Z) : bool :=
  never_success_under [(l, true)] s && never_exit_under [(l, false)] s c.

(** * Syntactic helpers *)
Fixpoint calls (s : skel) : list str :=
  match s with
  | Call n => [n]
  | Seq a b | If _ _ a b | Loop _ a b => calls a ++ calls b
  | Try b h _ f => calls b ++ calls h ++ calls f
  | Scope b => calls b
  | _ => []
  end.

Fixpoint stable_labels (s : skel) : list str :=
  match s with
  | Seq a b | Loop _ a b => stable_labels a ++ stable_labels b
  | If st l a b => (if st then [l] else []) ++ stable_labels a ++ stable_labels b
  | Try b h _ f => stable_labels b ++ stable_labels h ++ stable_labels f
  | Scope b => stable_labels b
  | _ => []
  end.

(** may leave an enclosing loop / function early without an exception or a non-zero status *)
Fixpoint escapes (s : skel) : bool :=
  match s with
  | Break | Return => true
  | Exit c => Z.eqb c 0
  | Seq a b | If _ _ a b | Loop _ a b => escapes a || escapes b
  | Try b h _ f => escapes b || escapes h || escapes f
  | Scope b => escapes b
  | _ => false
  end.

(** the body of the first loop labelled l *)
Fixpoint loop_body (l : str) (s : skel) : option skel :=
  match s with
  | Loop l' b e =>
      if eqs l' l then Some b
      else match loop_body l b with Some x => Some x | None => loop_body l e end
  | Seq a b | If _ _ a b =>
      match loop_body l a with Some x => Some x | None => loop_body l b end
  | Try b h _ f =>
      match loop_body l b with
      | Some x => Some x
      | None => match loop_body l h with Some x => Some x | None => loop_body l f end
      end
  | Scope b => loop_body l b
  | _ => None
  end.
Definition loop_runs_to_end (s : skel) (l : str) : bool :=
  match loop_body l s with Some b => negb (escapes b) | None => false end.

Fixpoint prefix_of (p s : str) : bool :=
  match p, s with
  | [], _ => true
  | x :: p', y :: s' => N.eqb x y && prefix_of p' s'
  | _, _ => false
  end.

(** p occurs somewhere in s *)
Fixpoint infix_of (p s : str) : bool :=
  prefix_of p s || match s with [] => false | _ :: s' => infix_of p s' end.

(** call names that mention one of the given fragments (e.g. "os.chdir") *)
Definition mentions (frags : list str) (n : str) : bool := existsb (fun p => infix_of p n) frags.

(** s itself makes no call whose name satisfies [eff] (the primitive state-changing operations) *)
Definition no_effect_calls (eff : str -> bool) (s : skel) : bool :=
  forallb (fun n => negb (eff n)) (calls s).

Definition has_call (s : skel) (n : str) : bool := mem_str n (calls s).
Definition has_stable_label (s : skel) (l : str) : bool := mem_str l (stable_labels s).
