(** EntrySign.v — operations of the C09 correspondence check (signing, serialisation, in-toto-sign). *)
From InToto.Model Require Import Base Json Strs Utf8 Canon Rule Rules Expiry Meta Sign EntryVerify.

Definition S9_type : str := [116;121;112;101]%N.                         (* type *)
Definition S9_keys : str := [107;101;121;115]%N.                         (* keys *)
Definition S9_file : str := [102;105;108;101]%N.                         (* file *)
Definition S9_nargs : str := [110;97;114;103;115]%N.                     (* nargs *)
Definition S9_append : str := [97;112;112;101;110;100]%N.                (* append *)
Definition S9_signers : str := [115;105;103;110;101;114;115]%N.          (* signers *)
Definition S9_pub : str := [112;117;98]%N.                               (* pub *)
Definition S9_headers : str := [104;101;97;100;101;114;115]%N.           (* headers *)
Definition S9_msg : str := [109;115;103]%N.                              (* msg *)
Definition S9_asdict : str := [97;115;100;105;99;116]%N.                 (* asdict *)
Definition S9_verify : str := [118;101;114;105;102;121]%N.               (* verify *)
Definition S9_exit : str := [101;120;105;116]%N.                         (* exit *)
Definition S9_written : str := [119;114;105;116;116;101;110]%N.          (* written *)
Definition S9_uncaught : str := [117;110;99;97;117;103;104;116]%N.       (* uncaught *)
Definition S9_load_err : str := [108;111;97;100;95;101;114;114]%N.       (* load_err *)
Definition S9_now_s : str := [110;111;119;95;115]%N.                     (* now_s *)

Definition op_pae : str := [112;97;101]%N.                               (* pae *)
Definition op_c09_verify : str := [99;48;57;95;118;101;114;105;102;121]%N.   (* c09_verify *)
Definition op_c09_sign : str := [99;48;57;95;115;105;103;110]%N.             (* c09_sign *)

Definition jres9 {A} (f : A -> json) (r : res A) : json :=
  match r with Ok a => JDict [(S_ok, f a)] | Err e => jerr e end.

(** inverse of the base64 decoding table: the (first) text that decodes to these bytes *)
Definition table_b64enc (j : option json) (b : list N) : str :=
  match j with
  | Some (JDict l) =>
      match find (fun kv => match snd kv with JStr v => eqs v b | _ => false end) l with
      | Some kv => fst kv
      | None => [63]%N
      end
  | _ => [63]%N
  end.

(** the signing oracle read off the table of real signatures: the value the real signer produced
    for this key token over exactly this message *)
Definition table_sign (sigs msgs : option json) (token : str) (msg : list N) : str :=
  match sigs, msgs with
  | Some (JList rows), Some (JList ms) =>
      match find (fun row => match row with
                             | JList [JStr t; JStr _; JInt i] =>
                                 eqs t token &&
                                 match nth_error ms (Z.to_nat i) with Some (JStr m) => eqs m msg | _ => false end
                             | _ => false end) rows with
      | Some (JList [_; JStr v; _]) => v
      | _ => []
      end
  | _, _ => []
  end.

Definition signer_of_json (j : json) : option signer :=
  match jstr_of (jget S_kind j), jstr_of (jget S_keyid j) with
  | Some k, Some kid =>
      if eqs k S_gpg then
        match jstr_of (jget S9_headers j) with Some h => Some (SgGpg kid h) | None => None end
      else match jstr_of (jget S9_pub j) with Some p => Some (SgSslib kid p) | None => None end
  | _, _ => None
  end.

Fixpoint all_some {A} (l : list (option A)) : option (list A) :=
  match l with
  | [] => Some []
  | Some x :: r => match all_some r with Some t => Some (x :: t) | None => None end
  | None :: _ => None
  end.

(** Layout.read iterates data["steps"] / data["inspect"]: an empty dict or empty string there is an empty
    iteration and the field becomes []; Meta.read_layout (shared model) only accepts lists (TypeError otherwise).
    The request is brought into the shape Meta.v models before it is handed over. *)
Definition prenorm_field (k : str) (l : list (str * json)) : list (str * json) :=
  map (fun kv => if eqs (fst kv) k then
                   match snd kv with JDict [] | JStr [] => (fst kv, JList []) | _ => kv end
                 else kv) l.
Definition prenorm_payload (j : json) : json :=
  match j with
  | JDict l => match jstr_of (lookup S__type l) with
               | Some t => if eqs t S_layout then JDict (prenorm_field S_inspect (prenorm_field S_steps l)) else j
               | None => j
               end
  | _ => j
  end.
Definition prenorm_file (j : json) : json :=
  match j with
  | JDict l => if has S_payload j then j
               else JDict (map (fun kv => if eqs (fst kv) S_signed then (fst kv, prenorm_payload (snd kv)) else kv) l)
  | _ => j
  end.
Definition prenorm_loads (lds : list N -> option json) (b : list N) : option json :=
  match lds b with Some j => Some (prenorm_payload j) | None => None end.

Definition pae_op (arg : json) : json :=
  match jget S9_type arg, jget S_payload arg with
  | Some (JStr t), Some (JStr p) =>
      if encodable t then JDict [(S_ok, JStr (pae_str t p))] else jerr EUnicode
  | _, _ => jerr EUnmodelled
  end.

Definition cli_out_json (o : cli_out) : json :=
  match o with
  | CliExit c w => JDict [(S9_exit, JInt c); (S9_written, match w with Some d => d | None => JNull end)]
  | CliUncaught e => JDict [(S9_uncaught, match jerr e with JDict [(_, v)] => v | x => x end)]
  end.

(** load a dumped file and verify it with each key; also the bytes the signatures are checked
    against, the re-parsed payload's attr.asdict and the exit status of in-toto-sign --verify *)
Definition c09_verify_op (arg : json) : json :=
  let b64 := table_b64 (jget S_b64 arg) in
  let lds := prenorm_loads (table_loads (jget S_loads arg)) in
  let sg := table_sig (jget S_sigs arg) (jget S_msgs arg) in
  let now_s := match jget S9_now_s arg with Some (JInt z) => z | _ => 0%Z end in
  let ks := match jget S9_keys arg with Some (JList l) => l | _ => [] end in
  let nargs := match jget S9_nargs arg with Some (JInt z) => Z.to_nat z | _ => length ks end in
  match jget S9_file arg with
  | None => jerr EUnmodelled
  | Some file0 =>
      let file := prenorm_file file0 in
      match from_dict_s b64 lds file with
      | Err e => match jerr e with JDict l => JDict ((S9_load_err, JBool true) :: l) | x => x end
      | Ok md =>
          JDict [(S_ok, JDict [
            (S_kind, JStr (match md with Metablock _ _ => S_mb | Envelope _ _ _ _ => S_dsse end));
            (S9_msg, jres9 (fun b => JStr b) (signed_msg md));
            (S9_asdict, jres9 payload_asdict (get_payload_s md));
            (S_signatures, JList (md_sigs md));
            (S9_verify, JList (map (fun k => jres9 (fun _ => JBool true) (verify_signature sg now_s md k)) ks));
            (S9_exit, cli_out_json (cli_verify b64 lds sg now_s file nargs ks))])]
      end
  end.

(** one signing run of in-toto-sign on a parsed input file *)
Definition c09_sign_op (arg : json) : json :=
  let b64 := table_b64 (jget S_b64 arg) in
  let enc := table_b64enc (jget S_b64 arg) in
  let lds := prenorm_loads (table_loads (jget S_loads arg)) in
  let sgn := table_sign (jget S_sigs arg) (jget S_msgs arg) in
  let append := match jget S9_append arg with Some (JBool b) => b | _ => false end in
  match jget S9_file arg, jget S9_signers arg with
  | Some file0, Some (JList sl) =>
      let file := prenorm_file file0 in
      match all_some (map signer_of_json sl) with
      | Some sgs => cli_out_json (cli_sign sgn enc b64 lds file (if append then Append sgs else Replace sgs))
      | None => jerr EUnmodelled
      end
  | _, _ => jerr EUnmodelled
  end.

Definition run_op_sign (op : str) (arg : json) : option json :=
  if eqs op op_pae then Some (pae_op arg)
  else if eqs op op_c09_verify then Some (c09_verify_op arg)
  else if eqs op op_c09_sign then Some (c09_sign_op arg)
  else None.

(** for the one-line hook in Entry.run_op *)
Definition handles_sign (op : str) : bool := eqs op op_pae || eqs op op_c09_verify || eqs op op_c09_sign.
Definition run_op_sign_total (op : str) (arg : json) : json :=
  match run_op_sign op arg with Some r => r | None => jerr EUnmodelled end.
