(** Fs.v — a POSIX file tree with symbolic links, [posixpath.normpath]/[join],
    path resolution (what the kernel does for stat/open/chdir, with FUEL for
    symbolic links) and [os.walk].  Shared by C10 (recording), C11/C04 (running
    a step = record, exec, record), C19, C20.

    The tree is rooted at a directory; every path the model resolves is
    relative to a current directory [cwd] given as its canonical location
    (list of real directory names from the root).  Paths that leave the tree
    (absolute, [..] above the root, links pointing there) resolve to
    [ROutside]; the callers turn that into [Err EUnmodelled].
    Running out of fuel is the distinct outcome [RDiverge] / [Err EDiverge]
    (the real kernel answers ELOOP after 40 links; theorems exclude it). *)
From InToto.Model Require Import Base.

Inductive fsnode :=
| File (content : list N)
| Dir (entries : list (str * fsnode))
| Symlink (target : str).

Definition entries := list (str * fsnode).

(** nested induction principle *)
Section FsnodeInd.
  Variable P : fsnode -> Prop.
  Hypothesis HFile : forall c, P (File c).
  Hypothesis HLink : forall t, P (Symlink t).
  Hypothesis HDir : forall es, Forall (fun e => P (snd e)) es -> P (Dir es).
  Fixpoint fsnode_ind' (n : fsnode) : P n :=
    match n with
    | File c => HFile c
    | Symlink t => HLink t
    | Dir es => HDir es ((fix go (es : entries) : Forall (fun e => P (snd e)) es :=
                            match es with
                            | [] => Forall_nil _
                            | e :: es' => Forall_cons _ (fsnode_ind' (snd e)) (go es')
                            end) es)
    end.
End FsnodeInd.

(* ------------------------------------------------------------------ *)
(** * Path strings *)
Definition c_slash : N := 47.
Definition c_bslash : N := 92.
Definition s_dot : str := [46]%N.
Definition s_dotdot : str := [46; 46]%N.

Definition is_nil {A} (l : list A) : bool := match l with [] => true | _ => false end.

(** Python [s.split(sep)] for a one-character separator: never empty *)
Fixpoint split_on (sep : N) (s : str) : list str :=
  match s with
  | [] => [[]]
  | c :: s' =>
      if N.eqb c sep then [] :: split_on sep s'
      else match split_on sep s' with
           | [] => [[c]]
           | h :: t => (c :: h) :: t
           end
  end.

(** [sep.join(l)] *)
Fixpoint join_with (sep : N) (l : list str) : str :=
  match l with
  | [] => []
  | [x] => x
  | x :: l' => x ++ sep :: join_with sep l'
  end.

Definition absolute (p : str) : bool := match p with c :: _ => N.eqb c c_slash | [] => false end.

(** number of leading slashes POSIX keeps: exactly two stay two, otherwise one *)
Definition initial_slashes (p : str) : nat :=
  match p with
  | a :: b :: c :: _ => if N.eqb a c_slash then (if N.eqb b c_slash then (if N.eqb c c_slash then 1 else 2) else 1) else 0
  | [a; b] => if N.eqb a c_slash then (if N.eqb b c_slash then 2 else 1) else 0
  | [a] => if N.eqb a c_slash then 1 else 0
  | [] => 0
  end%nat.

(** one iteration of the loop of [posixpath.normpath]; [stack] = new_comps reversed *)
Definition norm_step (init : bool) (stack : list str) (comp : str) : list str :=
  if is_nil comp || eqs comp s_dot then stack
  else if negb (eqs comp s_dotdot)
          || (negb init && is_nil stack)
          || (match stack with top :: _ => eqs top s_dotdot | [] => false end)
       then comp :: stack
       else tl stack.

Definition norm_comps (init : bool) (comps : list str) : list str :=
  rev (fold_left (norm_step init) comps []).

Definition normpath (p : str) : str :=
  match p with
  | [] => s_dot
  | _ =>
      let i := initial_slashes p in
      let body := join_with c_slash (norm_comps (negb (Nat.eqb i 0)) (split_on c_slash p)) in
      let r := repeat c_slash i ++ body in
      if is_nil r then s_dot else r
  end.

(** [posixpath.join(a, b)] *)
Definition join (a b : str) : str :=
  if absolute b then b
  else if is_nil a || ends_with_c c_slash a then a ++ b
  else a ++ c_slash :: b.

(* ------------------------------------------------------------------ *)
(** * Resolution *)

(** the entries of the directory at canonical location [loc] (real directories only) *)
Fixpoint get_dir (es : entries) (loc : list str) : option entries :=
  match loc with
  | [] => Some es
  | n :: loc' => match lookup n es with Some (Dir es') => get_dir es' loc' | _ => None end
  end.

Inductive rres :=
| RFile (content : list N)        (* a regular file, links followed *)
| RDir (loc : list str)           (* a directory, at this canonical location *)
| RNone                           (* ENOENT / ENOTDIR *)
| ROutside                        (* leaves the modelled tree *)
| RDiverge.                       (* out of fuel *)

Section Resolve.
  Variable root : entries.

  (** walk the components [cs] starting in the directory at [loc]; fuel counts
      symbolic links expanded.  A component applied to a regular file is ENOTDIR,
      so "f/", "f/." and "f/x" do not exist. *)
  Fixpoint resolve (fuel : nat) (loc : list str) (cs : list str) {struct fuel} : rres :=
    (fix go (loc : list str) (cs : list str) {struct cs} : rres :=
       match cs with
       | [] => RDir loc
       | c :: rest =>
           if is_nil c || eqs c s_dot then go loc rest
           else if eqs c s_dotdot then
             match loc with [] => ROutside | _ => go (removelast loc) rest end
           else
             match get_dir root loc with
             | None => RNone
             | Some es =>
                 match lookup c es with
                 | None => RNone
                 | Some (File content) => if is_nil rest then RFile content else RNone
                 | Some (Dir _) => go (loc ++ [c]) rest
                 | Some (Symlink t) =>
                     match fuel with
                     | O => RDiverge
                     | S f =>
                         if is_nil t then RNone
                         else if absolute t then ROutside
                         else resolve f loc (split_on c_slash t ++ rest)
                     end
                 end
             end
       end) loc cs.

  (** stat of a path string relative to [cwd] (the empty path is ENOENT) *)
  Definition stat_path (fuel : nat) (cwd : list str) (p : str) : rres :=
    if is_nil p then RNone
    else if absolute p then ROutside
    else resolve fuel cwd (split_on c_slash p).

  Definition path_exists (fuel : nat) (cwd : list str) (p : str) : res bool :=
    match stat_path fuel cwd p with
    | RFile _ | RDir _ => Ok true | RNone => Ok false
    | ROutside => Err EUnmodelled | RDiverge => Err EDiverge end.
  Definition path_isfile (fuel : nat) (cwd : list str) (p : str) : res bool :=
    match stat_path fuel cwd p with
    | RFile _ => Ok true | RDir _ | RNone => Ok false
    | ROutside => Err EUnmodelled | RDiverge => Err EDiverge end.
  Definition path_isdir (fuel : nat) (cwd : list str) (p : str) : res bool :=
    match stat_path fuel cwd p with
    | RDir _ => Ok true | RFile _ | RNone => Ok false
    | ROutside => Err EUnmodelled | RDiverge => Err EDiverge end.

  (** [os.chdir]: new current directory *)
  Definition chdir (fuel : nat) (cwd : list str) (p : str) : res (list str) :=
    match stat_path fuel cwd p with
    | RDir loc => Ok loc
    | RFile _ | RNone => Err EIOError          (* NotADirectoryError / FileNotFoundError *)
    | ROutside => Err EUnmodelled
    | RDiverge => Err EDiverge
    end.

  (** [open(p,'rb').read()] *)
  Definition read_file (fuel : nat) (cwd : list str) (p : str) : res (list N) :=
    match stat_path fuel cwd p with
    | RFile c => Ok c
    | RDir _ | RNone => Err EIOError
    | ROutside => Err EUnmodelled
    | RDiverge => Err EDiverge
    end.

  (* ---------------------------------------------------------------- *)
  (** * os.walk(top, topdown=True, followlinks)

      A yielded triple is (dirpath, dirnames, filenames); the model adds the
      canonical location of the directory, which stands for "the directory
      the string dirpath denotes" in the stats the consumer performs on
      join(dirpath, name).  [keep dirpath name] is the consumer's in-place
      filter [dirs[:] = [d for d in dirs if keep ...]] (a pure function of the
      two strings in every use in in-toto).

      scandir's [entry.is_dir()] follows links: a link to a directory is
      listed in dirnames, everything else (files, links to files, dangling
      links) in filenames.  Sub-directories are entered in dirnames order,
      depth first; a linked directory only if [followlinks].  Entry order is
      the order of the [Dir] list (the harness sends scandir order). *)
  Definition triple := (str * list str * list str * list str)%type.

  (** results of the sub-walks, in order; the first error wins *)
  Fixpoint concat_res {A : Type} (l : list (res (list A))) : res (list A) :=
    match l with
    | [] => Ok []
    | r :: l' => do a <- r; do b <- concat_res l'; Ok (a ++ b)
    end.

  Section Walk.
    Variable fuel : nat.                        (* for the stats *)
    Variable followlinks : bool.
    Variable keep : str -> str -> bool.

    Fixpoint scan (loc : list str) (names : list str) : res (list str * list str) :=
      match names with
      | [] => Ok ([], [])
      | n :: r =>
          do p <- scan loc r;
          match resolve fuel loc [n] with
          | RDir _ => Ok (n :: fst p, snd p)
          | RFile _ | RNone => Ok (fst p, n :: snd p)
          | ROutside => Err EUnmodelled
          | RDiverge => Err EDiverge
          end
      end.

    Fixpoint walk_node (rec : str -> list str -> res (list triple))
             (base : str) (loc : list str) (n : fsnode) {struct n} : res (list triple) :=
      match n with
      | Dir es =>
          do p <- scan loc (map fst es);
          do subs <-
            concat_res
              (map (fun e : str * fsnode =>
                      match e with
                      | (d, child) =>
                          match resolve fuel loc [d] with
                          | RDir loc' =>
                              if keep base d then
                                match child with
                                | Dir _ => walk_node rec (join base d) loc' child
                                | Symlink _ => if followlinks then rec (join base d) loc' else Ok []
                                | File _ => Ok []
                                end
                              else Ok []
                          | _ => Ok []
                          end
                      end) es);
          Ok ((base, loc, filter (keep base) (fst p), snd p) :: subs)
      | _ => Ok []
      end.

    (** [wfuel] bounds the number of linked directories entered along one branch *)
    Fixpoint walk (wfuel : nat) (base : str) (loc : list str) : res (list triple) :=
      match wfuel with
      | O => Err EDiverge
      | S f =>
          match get_dir root loc with
          | Some es => walk_node (walk f) base loc (Dir es)
          | None => Ok []
          end
      end.
  End Walk.
End Resolve.

(* ------------------------------------------------------------------ *)
(** * Well-formed trees: what a real directory listing guarantees *)
Definition good_name (n : str) : bool :=
  negb (is_nil n) && negb (eqs n s_dot) && negb (eqs n s_dotdot)
  && negb (existsb (N.eqb c_slash) n) && negb (existsb (N.eqb 0) n).

Fixpoint nodup_str (l : list str) : bool :=
  match l with [] => true | x :: r => negb (mem_str x r) && nodup_str r end.

Fixpoint wf_node (n : fsnode) : bool :=
  match n with
  | File _ => true
  | Symlink t => negb (is_nil t)
  | Dir es =>
      nodup_str (map fst es)
      && (fix go (es : entries) : bool :=
            match es with
            | [] => true
            | (k, c) :: es' => good_name k && wf_node c && go es'
            end) es
  end.
Definition wf_fs (root : entries) : bool := wf_node (Dir root).
