(** Resolve.v — in_toto.resolver.FileResolver / DirectoryResolver / OSTreeResolver and
    in_toto.runlib.record_artifacts_as_dict, as functions of a file tree (Fs.v).

    Oracles (Section variables): [H] SHA-256 as hex text, [excl] =
    [GitIgnoreSpec.from_lines("gitwildmatch", patterns).match_file] for the
    effective pattern list of the call.  Defaults from [in_toto.settings]
    (base path, exclude patterns) are resolved by the caller and passed in. *)
From InToto.Model Require Import Base Json Utf8 Fs DirDigest.

(* ------------------------------------------------------------------ *)
(** * securesystemslib.hash.digest_fileobject(normalize_line_endings=True) *)

(** [data.replace(b"\r\n", b"\n")] *)
Fixpoint replace_crlf (s : list N) : list N :=
  match s with
  | [] => []
  | c :: r =>
      if N.eqb c 13 then
        match r with
        | d :: r' => if N.eqb d 10 then 10%N :: replace_crlf r' else c :: replace_crlf r
        | [] => [c]
        end
      else c :: replace_crlf r
  end.
(** then [.replace(b"\r", b"\n")] *)
Definition norm_le (s : list N) : list N := replace_c 13 10 (replace_crlf s).

(** the read loop: a chunk of [n] bytes is extended byte by byte while it ends in CR,
    so that a CR LF pair is never split; each chunk is normalised separately. *)
Fixpoint extend_cr (last_cr : bool) (rest : list N) {struct rest} : list N * list N :=
  match rest with
  | [] => ([], [])
  | c :: r => if last_cr then let p := extend_cr (N.eqb c 13) r in (c :: fst p, snd p) else ([], rest)
  end.
Fixpoint norm_chunked (fuel n : nat) (data : list N) : list N :=
  match fuel with
  | O => []
  | S f =>
      match data with
      | [] => []
      | _ =>
          let a := firstn n data in
          let p := extend_cr (ends_with_c 13 a) (skipn n data) in
          norm_le (a ++ fst p) ++ norm_chunked f n (snd p)
      end
  end.
Definition chunk_size : nat := 4096.
Definition normalized_content (c : list N) : list N := norm_chunked (S (length c)) chunk_size c.

(* ------------------------------------------------------------------ *)
Definition s_file_colon : str := [102;105;108;101;58]%N.      (* file: *)
Definition s_dir_colon : str := [100;105;114;58]%N.           (* dir: *)
Definition s_ostree_colon : str := [111;115;116;114;101;101;58]%N.  (* ostree: *)
Definition s_refs_heads : str := [114;101;102;115;47;104;101;97;100;115]%N.  (* refs/heads *)

Definition dict := list (str * str).        (* name -> sha256 hex; value of the real dict is {"sha256": hex} *)

(** FileResolver._strip_scheme_prefix : (path, prefix) *)
Definition strip_scheme_prefix (path : str) : str * str :=
  if starts_with s_file_colon path then (skipn (length s_file_colon) path, s_file_colon) else (path, []).

(** the lstrip loop: FIRST matching prefix is removed, then break *)
Fixpoint lstrip_first (ps : list str) (path : str) : str :=
  match ps with
  | [] => path
  | p :: ps' => if starts_with p path then skipn (length p) path else lstrip_first ps' path
  end.

Definition mangled_name (lstrip : list str) (path scheme_prefix : str) : str :=
  scheme_prefix ++ lstrip_first lstrip (replace_c c_bslash c_slash path).

(** FileResolver._mangle *)
Definition mangle (lstrip : list str) (path : str) (existing : list str) (scheme_prefix : str) : res str :=
  let name := mangled_name lstrip path scheme_prefix in
  if negb (is_nil lstrip) && mem_str name existing then Err EPrefix else Ok name.

(** the constructor's sanity check: [for a, b in combinations(lstrip, 2): a.startswith(b) or b.startswith(a)] *)
Fixpoint prefix_list_ok (l : list str) : bool :=
  match l with
  | [] => true
  | a :: r => forallb (fun b => negb (starts_with b a || starts_with a b)) r && prefix_list_ok r
  end.

(** [dict.update] *)
Definition dict_update (acc d : dict) : dict := fold_left (fun a kv => dict_set (fst kv) (snd kv) a) d acc.

Record fopts := mkFopts { o_follow : bool; o_normalize : bool; o_lstrip : list str }.

Inductive scheme := SFile | SDir | SOstree.
Definition scheme_eqb (a b : scheme) : bool :=
  match a, b with SFile, SFile | SDir, SDir | SOstree, SOstree => true | _, _ => false end.

(** Resolver.for_uri: the text before the first ':' selects the resolver when it is a registered scheme *)
Definition scheme_of (uri : str) : scheme :=
  if starts_with s_file_colon uri then SFile
  else if starts_with s_dir_colon uri then SDir
  else if starts_with s_ostree_colon uri then SOstree
  else SFile.

Section Record.
  Variable H : list N -> str.
  Variable excl : str -> bool.
  Variable root : entries.
  Variable fuel : nat.

  Definition hash_content (normalize : bool) (c : list N) : str :=
    H (if normalize then normalized_content c else c).

  (** the filter applied to [dirs[:]] *)
  Definition keep_dir (base d : str) : bool := negb (excl (normpath (join base d))).

  (** exclusion of a start path: the start directory '.' itself is never excluded (a pattern such as '.*' is
      about what lies below it) *)
  Definition excl_start (p : str) : bool := if eqs p [46%N] then false else excl p.

  (** the body of [for filename in names] up to the calls of _mangle/_hash:
      the files of one yielded triple that get recorded, with their contents *)
  Fixpoint names_cands (base : str) (loc : list str) (names : list str) : res (list (str * list N)) :=
    match names with
    | [] => Ok []
    | n :: r =>
        let filepath := normpath (join base n) in
        do rest <- names_cands base loc r;
        if excl filepath then Ok rest
        else match resolve root fuel loc [n] with
             | RFile c => Ok ((filepath, c) :: rest)
             | RDir _ | RNone => Ok rest                 (* "appears to be a broken symlink" *)
             | ROutside => Err EUnmodelled
             | RDiverge => Err EDiverge
             end
    end.

  Fixpoint triples_cands (ts : list triple) : res (list (str * list N)) :=
    match ts with
    | [] => Ok []
    | (base, loc, _, names) :: ts' =>
        do a <- names_cands base loc names;
        do b <- triples_cands ts';
        Ok (a ++ b)
    end.

  (** one iteration of [for path in uris]: (scheme prefix, files to record in order) *)
  Definition uri_cands (follow : bool) (cwd : list str) (uri : str) : res (str * list (str * list N)) :=
    let sp := strip_scheme_prefix uri in
    let path := normpath (fst sp) in
    if excl_start path then Ok (snd sp, [])
    else
      match stat_path root fuel cwd path with
      | RNone => Ok (snd sp, [])
      | RFile c => Ok (snd sp, [(path, c)])
      | RDir loc =>
          do ts <- walk root fuel follow keep_dir fuel path loc;
          do cs <- triples_cands ts;
          Ok (snd sp, cs)
      | ROutside => Err EUnmodelled
      | RDiverge => Err EDiverge
      end.

  (** [name = self._mangle(p, hashes, prefix); hashes[name] = self._hash(p)] for each file in order *)
  Fixpoint add_all (o : fopts) (prefix : str) (cs : list (str * list N)) (acc : dict) : res dict :=
    match cs with
    | [] => Ok acc
    | (p, c) :: r =>
        do name <- mangle (o_lstrip o) p (keys acc) prefix;
        add_all o prefix r (dict_set name (hash_content (o_normalize o) c) acc)
    end.

  Fixpoint hash_uris (o : fopts) (cwd : list str) (uris : list str) (acc : dict) : res dict :=
    match uris with
    | [] => Ok acc
    | u :: us =>
        do pc <- uri_cands (o_follow o) cwd u;
        do acc' <- add_all o (fst pc) (snd pc) acc;
        hash_uris o cwd us acc'
    end.

  (** [if self._base_path: os.chdir(self._base_path)] — the [finally: chdir(original)] is
      invisible here because [cwd] is a value (process state is compared by the harness) *)
  Definition enter_base (cwd : list str) (base_path : option str) : res (list str) :=
    match base_path with
    | None | Some [] => Ok cwd
    | Some bp => chdir root fuel cwd bp
    end.

  (** FileResolver.hash_artifacts *)
  Definition file_hash_artifacts (o : fopts) (base_path : option str) (cwd : list str) (uris : list str) : res dict :=
    do cwd' <- enter_base cwd base_path;
    hash_uris o cwd' uris [].

  (** DirectoryResolver.hash_artifacts: entered from the base path like the other resolvers (see [resolver_hash];
      fixed defect D11a: it used to ignore the base path); its own FileResolver has no lstrip list *)
  Definition dir_mangle (lstrip : list str) (path : str) (existing : list str) : res str :=
    mangle lstrip path existing s_dir_colon.
  Fixpoint dir_hash_uris (o : fopts) (cwd : list str) (uris : list str) (acc : dict) : res dict :=
    match uris with
    | [] => Ok acc
    | u :: us =>
        let path := skipn (length s_dir_colon) u in
        do isd <- path_isdir root fuel cwd path;
        if negb isd then Err EValueError
        else
          do fh <- file_hash_artifacts (mkFopts (o_follow o) (o_normalize o) []) (Some path) cwd [s_dot];
          do name <- dir_mangle (o_lstrip o) path (keys acc);
          if forallb (fun kv => encodable (fst kv)) fh then
            dir_hash_uris o cwd us (dict_set name (dir_digest H fh) acc)
          else Err EUnicode
    end.

  (** OSTreeResolver.hash_artifacts; the ref file is opened in text mode: bytes >= 128 or CR are outside the model *)
  Definition ostree_hash (cwd : list str) (ref : str) : res str :=
    if absolute ref then Err EUnmodelled else
    do content <- read_file root fuel cwd (s_refs_heads ++ c_slash :: ref);
    if forallb (fun b => N.ltb b 128 && negb (N.eqb b 13)) content then
      do obj <- read_file root fuel cwd (ostree_object_path content);
      Ok (H obj)
    else Err EUnmodelled.
  Fixpoint ostree_hash_uris (cwd : list str) (uris : list str) (acc : dict) : res dict :=
    match uris with
    | [] => Ok acc
    | u :: us =>
        let ref := skipn (length s_ostree_colon) u in
        do h <- ostree_hash cwd ref;
        ostree_hash_uris cwd us (dict_set (s_ostree_colon ++ ref) h acc)
    end.

  (** [resolver_for_uris]: schemes in order of first appearance, each with its uris in order *)
  Definition scheme_groups (artifacts : list str) : list (scheme * list str) :=
    let order := fold_left (fun seen a => let s := scheme_of a in
                                          if existsb (scheme_eqb s) seen then seen else seen ++ [s]) artifacts [] in
    map (fun s => (s, filter (fun a => scheme_eqb (scheme_of a) s) artifacts)) order.

  Definition resolver_hash (o : fopts) (base_path : option str) (cwd : list str) (g : scheme * list str) : res dict :=
    match fst g with
    | SFile => file_hash_artifacts o base_path cwd (snd g)
    | SDir => do cwd' <- enter_base cwd base_path; dir_hash_uris o cwd' (snd g) []
    | SOstree => do cwd' <- enter_base cwd base_path; ostree_hash_uris cwd' (snd g) []
    end.

  Fixpoint merge_groups (o : fopts) (base_path : option str) (cwd : list str)
           (gs : list (scheme * list str)) (acc : dict) : res dict :=
    match gs with
    | [] => Ok acc
    | g :: gs' => do d <- resolver_hash o base_path cwd g; merge_groups o base_path cwd gs' (dict_update acc d)
    end.

  (** record_artifacts_as_dict with well-typed arguments *)
  Definition record (artifacts : list str) (base_path : option str) (o : fopts) (cwd : list str) : res dict :=
    if is_nil artifacts then Ok []
    else if negb (prefix_list_ok (o_lstrip o)) then Err EPrefix
    else merge_groups o base_path cwd (scheme_groups artifacts) [].

  (* ---------------------------------------------------------------- *)
  (** argument validation of record_artifacts_as_dict / FileResolver.__init__ on JSON-shaped arguments:
      what raises ValueError.  [exclude_patterns] only matters for its type (its meaning is [excl]). *)
  Definition json_truthy (j : json) : bool :=
    match j with
    | JNull => false | JBool b => b | JInt z => negb (Z.eqb z 0) | JFloat _ => true
    | JStr s => negb (is_nil s) | JList l => negb (is_nil l) | JDict l => negb (is_nil l)
    end.
  Definition str_list (j : json) : option (list str) :=
    match j with
    | JList l => (fix go (l : list json) : option (list str) :=
                    match l with
                    | [] => Some []
                    | JStr s :: r => match go r with Some t => Some (s :: t) | None => None end
                    | _ => None
                    end) l
    | _ => None
    end.

  Definition record_json (artifacts exclude_patterns base_path follow normalize lstrip : json) (cwd : list str)
    : res dict :=
    if negb (json_truthy artifacts) then Ok []
    else
      (* if not base_path: base_path = settings.ARTIFACT_BASE_PATH (= None) *)
      do bp <- (if negb (json_truthy base_path) then Ok None
                else match base_path with JStr s => Ok (Some s) | _ => Err EValueError end);
      (* if not exclude_patterns: default list; else must be a list of str *)
      do _x <- (if negb (json_truthy exclude_patterns) then Ok tt
               else match str_list exclude_patterns with Some _ => Ok tt | None => Err EValueError end);
      do ls <- (if negb (json_truthy lstrip) then Ok []
                else match str_list lstrip with Some l => Ok l | None => Err EValueError end);
      match str_list artifacts with
      | Some arts => record arts bp (mkFopts (json_truthy follow) (json_truthy normalize) ls) cwd
      | None => if negb (prefix_list_ok ls) then Err EPrefix else Err EUnmodelled
      end.
End Record.
