(** EntrySublay.v — operations of the C06 / C14 correspondence checks:
    library-level Metadata.verify_signature and Metadata.get_payload on one loaded file. *)
From InToto.Model Require Import Base Json Strs Utf8 Canon Rule Glob Rules Expiry Subst Meta Verify EntryVerify.

Definition S_key : str := [107;101;121]%N.
Definition op_md_vsig : str := [109;100;95;118;115;105;103]%N.            (* md_vsig *)
Definition op_md_payload : str := [109;100;95;112;97;121;108;111;97;100]%N. (* md_payload *)

Definition with_loaded (arg : json) (k : metadata -> json) : json :=
  let b64 := table_b64 (jget S_b64 arg) in
  let lds := table_loads (jget S_loads arg) in
  match (match jget S_root arg with Some f => file_of_json f | None => FMalformed end) with
  | FMalformed => JDict [(S_load_err, JStr S_malformed)]
  | FJson j =>
      match from_dict b64 lds j with
      | Err e => match jerr e with JDict l => JDict ((S_load_err, JBool true) :: l) | x => x end
      | Ok md => k md
      end
  end.

(** Metadata.load(file).verify_signature(key) *)
Definition md_vsig_op (arg : json) : json :=
  let sg := table_sig (jget S_sigs arg) (jget S_msgs arg) in
  let now_s := match jget S_now_s arg with Some (JInt z) => z | _ => 0%Z end in
  with_loaded arg (fun md =>
    match verify_signature sg now_s md (jget_default S_key JNull arg) with
    | Ok _ => JDict [(S_ok, JBool true)]
    | Err e => jerr e
    end).

(** attr.asdict(Metadata.load(file).get_payload()) *)
Definition md_payload_op (arg : json) : json :=
  with_loaded arg (fun md =>
    match get_payload md with
    | Ok p => JDict [(S_ok, payload_asdict p)]
    | Err e => jerr e
    end).

Definition run_op_sublay (op : str) (arg : json) : option json :=
  if eqs op op_md_vsig then Some (md_vsig_op arg)
  else if eqs op op_md_payload then Some (md_payload_op arg)
  else None.
