(** Verify.v — in_toto/verifylib.py: the verification pipeline, stage by stage, and
    in_toto_verify as a structural fixpoint over the link-directory tree
    (C01 C02 C05 C06 C07 C08 C14 C16). *)
From InToto.Model Require Import Base Json Strs Utf8 Canon Rule Glob Rules Expiry Subst Meta.

(** the link directory *)
Inductive file := FMalformed | FJson (j : json).       (* absent = not listed *)
Inductive dirtree := Dir (files : list (str * file)) (subs : list (str * dirtree)).

(** what an inspection command did, as far as verification can see it *)
Inductive exec_result :=
| ExDone (retval : json) (mats prods : amap)   (* return-value byproduct, recorded cwd before / after *)
| ExTimeout
| ExCrash.                                     (* any other exception out of in_toto_run *)

Inductive ev := Exec (cmd : list json).        (* an inspection command was started *)

Record args := mkArgs {
  a_md : metadata;
  a_keys : json;                 (* layout_key_dict *)
  a_params : option json;        (* substitution_parameters *)
  a_step_name : json             (* name given to the summary link; "" at the root *)
}.
Definition result := (res link * list ev)%type.

(** "{step_name}.{keyid:.8}.link" and "{name}.{keyid:.8}" *)
Definition link_filename (step_name keyid : str) : str :=
  step_name ++ [46%N] ++ take 8 keyid ++ S_dot_link.
Definition sublayout_dirname (step_name keyid : str) : str :=
  step_name ++ [46%N] ++ take 8 keyid.

Definition name_ok (s : str) : bool := negb (existsb (fun c => N.eqb c 47 || N.eqb c 0) s).

Section Verify.
  Variable b64dec : str -> option (list N).
  Variable loads : list N -> option json.
  Variable sig_ok : str -> list N -> str -> bool.
  Variable now_s : Z.                       (* time.time(), gpg key expiry *)
  Variable now_us : Z.                      (* datetime.now(UTC) in microseconds *)
  Variable exec : list json -> exec_result. (* running an inspection command in the verifier's cwd *)

  Let vsig := verify_signature sig_ok now_s.

  (** verify_metadata_signatures *)
  Definition verify_metadata_signatures (md : metadata) (keys : json) : res unit :=
    do ks <- check_public_keys keys;
    match ks with
    | [] => Err ESignature
    | _ => do _ <- mapM (fun kv => vsig md (snd kv)) ks; Ok tt
    end.

  (** substitute_parameters on a copy of the layout *)
  Definition subst_step (ps : list (str * str)) (s : step) : res step :=
    do em <- mapM (subst_list ps) (st_em s);
    do ep <- mapM (subst_list ps) (st_ep s);
    do cmd <- mapM (subst_elem ps) (st_cmd s);
    Ok (mkStep (st_name s) em ep (st_pubkeys s) cmd (st_thr_raw s)).
  Definition subst_insp (ps : list (str * str)) (i : insp) : res insp :=
    do em <- mapM (subst_list ps) (in_em i);
    do ep <- mapM (subst_list ps) (in_ep i);
    do run <- mapM (subst_elem ps) (in_run i);
    Ok (mkInsp (in_name i) em ep run).
  Definition substitute_parameters (l : layout) (params : json) : res layout :=
    do ps <- check_params params;
    do steps <- mapM (subst_step ps) (ly_steps l);
    do inspect <- mapM (subst_insp ps) (ly_inspect l);
    Ok (mkLayout steps inspect (ly_keys l) (ly_expires l) (ly_expires_us l) (ly_readme l)).

  (** Metadata.load(path) inside the link directory: None = IOError (ignored by the caller) *)
  Definition load_file (files : list (str * file)) (name : str) : res (option metadata) :=
    match lookup name files with
    | None => Ok None
    | Some FMalformed => Err EValueError
    | Some (FJson j) => do m <- from_dict b64dec loads j; Ok (Some m)
    end.

  (** load_links_for_layout: per step, file-name key id -> metadata, in load order *)
  Definition keyids_to_try (l : layout) (authorized : str) : list str :=
    authorized :: match lookup authorized (ly_keys l) with
                  | Some k => subkey_ids k
                  | None => []
                  end.

  Fixpoint load_keyids (files : list (str * file)) (step_name : str) (kids : list str)
           (acc : list (str * metadata)) : res (list (str * metadata)) :=
    match kids with
    | [] => Ok acc
    | kid :: kids' =>
        do m <- load_file files (link_filename step_name kid);
        load_keyids files step_name kids'
                    (match m with Some md => dict_set kid md acc | None => acc end)
    end.

  Definition load_step (files : list (str * file)) (l : layout) (s : step) : res (list (str * metadata)) :=
    if negb (name_ok (st_name s)) then Err EUnmodelled else
    do found <- load_keyids files (st_name s) (flat_map (keyids_to_try l) (st_pubkeys s)) [];
    if (Z.of_nat (length found) <? st_threshold s)%Z then Err ELinkNotFound else Ok found.

  Definition load_links_for_layout (files : list (str * file)) (l : layout)
    : res (list (str * list (str * metadata))) :=
    mapM (fun s => do f <- load_step files l s; Ok (st_name s, f)) (ly_steps l).

  (** verify_link_signature_thresholds *)
  Definition main_keys_for_subkeys (l : layout) : list (str * json) :=
    fold_left (fun acc kv => fold_left (fun acc' sk => dict_set sk (snd kv) acc') (subkey_ids (snd kv)) acc)
              (ly_keys l) [].

  (** the key a link named after [link_keyid] is verified with, if that key id is authorised,
      and the main key id the link is counted for.  An individually authorised subkey is
      verified with the subkey entry alone (not its main key, not its siblings) but counts
      for its main key. *)
  Definition subkey_entry (m : json) (kid : str) : option json :=
    match jget S_subkeys m with
    | Some (JDict subs) => lookup kid subs
    | _ => None
    end.

  Definition verification_key (l : layout) (mk : list (str * json)) (s : step) (link_keyid : str)
    : option (res (json * json)) :=
    (fix go (auth : list str) : option (res (json * json)) :=
       match auth with
       | [] => None
       | a :: auth' =>
           let ak := match lookup a (ly_keys l) with Some k => if jtruthy k then Some k else None | None => None end in
           let mk' := match lookup a mk with Some k => if jtruthy k then Some k else None | None => None end in
           let via_main m := match subkey_entry m a, jget S_keyid m with
                             | Some sk, Some mid => Some (Ok (sk, mid))
                             | _, _ => Some (Err EKeyError)
                             end in
           let own k := match jget S_keyid k with Some kid => Some (Ok (k, kid)) | None => Some (Err EKeyError) end in
           match ak with
           | Some k => if eqs link_keyid a then own k
                       else if mem_str link_keyid (subkey_ids k) then own k else go auth'
           | None => match mk' with
                     | Some m => if eqs link_keyid a then via_main m else go auth'
                     | None => go auth'
                     end
           end
       end) (st_pubkeys s).

  (** a link counts only for the step it names (sublayouts carry no step name) *)
  Definition names_step (md : metadata) (s : step) : res bool :=
    do p <- get_payload md;
    match p with
    | PLink lk => Ok (match l_name lk with JStr n => eqs n (st_name s) | _ => false end)
    | PLayout _ => Ok true
    end.

  Fixpoint verify_step_links (l : layout) (mk : list (str * json)) (s : step)
           (found : list (str * metadata)) (used : list str) (acc : list (str * metadata))
    : res (list str * list (str * metadata)) :=
    match found with
    | [] => Ok (used, acc)
    | (kid, md) :: found' =>
        match verification_key l mk s kid with
        | None => verify_step_links l mk s found' used acc
        | Some (Err e) => Err e
        | Some (Ok (vk, mainid)) =>
            match vsig md vk with
            | Err ESignature | Err EKeyExpired => verify_step_links l mk s found' used acc
            | Err e => Err e
            | Ok _ =>
                do same <- names_step md s;
                if negb same then verify_step_links l mk s found' used acc else
                match mainid with
                | JStr mkid => verify_step_links l mk s found' (used ++ [mkid]) (dict_set kid md acc)
                | _ => Err EUnmodelled
                end
            end
        end
    end.

  Definition verify_link_signature_thresholds (l : layout) (sm : list (str * list (str * metadata)))
    : res (list (str * list (str * metadata))) :=
    let mk := main_keys_for_subkeys l in
    mapM (fun s =>
            let found := match lookup (st_name s) sm with Some f => f | None => [] end in
            do' (used, good) <- verify_step_links l mk s found [] [];
            if (Z.of_nat (length (dedup used)) <? st_threshold s)%Z then Err EThreshold
            else Ok (st_name s, good)) (ly_steps l).

  (** verify_threshold_constraints *)
  Definition amap_eqb (a b : amap) : bool := py_eqb (JDict a) (JDict b).
  Definition verify_threshold_constraints (l : layout) (chain : list (str * list (str * link))) : res unit :=
    do _ <- mapM (fun s =>
              if (st_threshold s <=? 1)%Z then Ok tt else
              match lookup (st_name s) chain with
              | None => Err EKeyError
              | Some kl =>
                  if (Z.of_nat (length kl) <? st_threshold s)%Z then Err EThreshold else
                  match kl with
                  | [] => Err EIndexError
                  | (_, ref) :: _ =>
                      if forallb (fun kv => amap_eqb (l_materials ref) (l_materials (snd kv)) &&
                                            amap_eqb (l_products ref) (l_products (snd kv))) kl
                      then Ok tt else Err EThreshold
                  end
              end) (ly_steps l);
    Ok tt.

  (** reduce_chain_links: the first link of every step *)
  Definition reduce_chain_links (chain : list (str * list (str * link))) : res links :=
    mapM (fun skl => match snd skl with
                     | [] => Err EIndexError
                     | (_, lk) :: _ => Ok (fst skl, lk)
                     end) chain.

  (** get_summary_link *)
  Definition empty_link : link := mkLink JNull [] [] (JDict []) (JList []) (JDict []).
  Definition get_summary_link (l : layout) (reduced : links) (name : json) : res link :=
    match ly_steps l with
    | [] => Ok empty_link
    | first :: _ =>
        match lookup (st_name first) reduced, lookup (st_name (last (ly_steps l) first)) reduced with
        | Some f, Some la => Ok (mkLink name (l_materials f) (l_products la) (l_byproducts la) (l_command la) (JDict []))
        | _, _ => Err EKeyError
        end
    end.

  (** run_all_inspections: links of the inspections that ran, events, and the first failure *)
  Fixpoint run_all_inspections (ins : list insp) (acc : links) (tr : list ev) : res links * list ev :=
    match ins with
    | [] => (Ok acc, tr)
    | i :: ins' =>
        match in_run i with
        | [] => (Err EBadRetval, tr)           (* no command: return-value None *)
        | _ =>
            if negb (forallb (fun a => match a with JStr _ => true | _ => false end) (in_run i))
            then (Err EFormat, tr)
            else
              let tr' := tr ++ [Exec (in_run i)] in
              match exec (in_run i) with
              | ExTimeout => (Err ETimeout, tr')
              | ExCrash => (Err EValueError, tr')
              | ExDone rv mats prods =>
                  match rv with
                  | JInt z =>
                      if Z.eqb z 0
                      then run_all_inspections ins'
                             (dict_set (in_name i) (mkLink (JStr (in_name i)) mats prods (JDict []) (JList (in_run i)) (JDict [])) acc) tr'
                      else (Err EBadRetval, tr')
                  | JBool _ => (Err EUnmodelled, tr')
                  | _ => (Err EBadRetval, tr')
                  end
              end
        end
    end.

  Definition step_items (l : layout) := map (fun s => (st_name s, st_em s, st_ep s)) (ly_steps l).
  Definition insp_items (l : layout) := map (fun i => (in_name i, in_em i, in_ep i)) (ly_inspect l).

  Definition combine_links (reduced ins : links) : links :=
    fold_left (fun acc kv => dict_set (fst kv) (snd kv) acc) ins reduced.

  (** stages 1-6 of in_toto_verify: layout signatures, payload, expiry, substitution,
      link loading, link signatures/thresholds *)
  Definition stage_pre (files : list (str * file)) (a : args)
    : res (layout * list (str * list (str * metadata))) :=
    do _ <- verify_metadata_signatures (a_md a) (a_keys a);
    do p <- get_payload (a_md a);
    do l0 <- match p with PLayout l => Ok l | PLink _ => Err EAttribute end;
    do _ <- check_expiry (ly_expires_us l0) now_us;
    do l <- match a_params a with Some ps => substitute_parameters l0 ps | None => Ok l0 end;
    do sm <- load_links_for_layout files l;
    do vm <- verify_link_signature_thresholds l sm;
    Ok (l, vm).

  (** verify_sublayouts: the links of one step, in load order *)
  Fixpoint subs_links (recs : list (str * (args -> result))) (missing : args -> result)
           (l : layout) (sname : str) (kms : list (str * metadata)) (tr : list ev)
    : res (list (str * link)) * list ev :=
    match kms with
    | [] => (Ok [], tr)
    | (kid, md) :: kms' =>
        match get_payload md with
        | Err e => (Err e, tr)
        | Ok (PLink lk) =>
            let '(r, tr') := subs_links recs missing l sname kms' tr in
            (do rest <- r; Ok ((kid, lk) :: rest), tr')
        | Ok (PLayout _) =>
            let dirname := sublayout_dirname sname kid in
            let keyd := JDict [(kid, match lookup kid (ly_keys l) with Some k => k | None => JNull end)] in
            let sub_args := mkArgs md keyd None (JStr sname) in
            let '(sr, str) :=
              match lookup dirname recs with
              | Some f => f sub_args
              | None => missing sub_args        (* no such directory: every load is an ignored IOError *)
              end in
            match sr with
            | Err e => (Err e, tr ++ str)
            | Ok summary =>
                let '(r, tr') := subs_links recs missing l sname kms' (tr ++ str) in
                (do rest <- r; Ok ((kid, summary) :: rest), tr')
            end
        end
    end.

  (** ... and all steps in layout order *)
  Fixpoint subs_steps (recs : list (str * (args -> result))) (missing : args -> result)
           (l : layout) (vm : list (str * list (str * metadata))) (tr : list ev)
    : res (list (str * list (str * link))) * list ev :=
    match vm with
    | [] => (Ok [], tr)
    | (sname, kms) :: vm' =>
        match subs_links recs missing l sname kms tr with
        | (Err e, tr1) => (Err e, tr1)
        | (Ok kl, tr1) =>
            let '(r2, tr2) := subs_steps recs missing l vm' tr1 in
            (do rest <- r2; Ok ((sname, kl) :: rest), tr2)
        end
    end.

  (** threshold agreement, reduction to one link per step, step rules *)
  Definition stage_mid (l : layout) (chain : list (str * list (str * link))) : res links :=
    do _ <- verify_threshold_constraints l chain;
    do reduced <- reduce_chain_links chain;
    do _ <- verify_all_item_rules glob_match (step_items l) reduced;
    Ok reduced.

  (** inspections, inspection rules, summary *)
  Definition stage_final (l : layout) (reduced : links) (name : json) (tr : list ev) : result :=
    match run_all_inspections (ly_inspect l) [] tr with
    | (Err e, tr') => (Err e, tr')
    | (Ok ilinks, tr') =>
        (do _ <- verify_all_item_rules glob_match (insp_items l) (combine_links reduced ilinks);
         get_summary_link l reduced name, tr')
    end.

  (** in_toto_verify for one layout; [recs] = verification of each sub-directory *)
  Definition verify_body (files : list (str * file)) (recs : list (str * (args -> result)))
             (missing : args -> result) (a : args) : result :=
    match stage_pre files a with
    | Err e => (Err e, [])
    | Ok (l, vm) =>
        match subs_steps recs missing l vm [] with
        | (Err e, tr) => (Err e, tr)
        | (Ok chain, tr) =>
            match stage_mid l chain with
            | Err e => (Err e, tr)
            | Ok reduced => stage_final l reduced (a_step_name a) tr
            end
        end
    end.

  (** a layout verified against a directory that does not exist: nothing can be loaded,
      so no deeper recursion can happen *)
  Definition verify_in_missing_dir : args -> result :=
    verify_body [] [] (fun _ => (Err EUnmodelled, [])).

  (** in_toto_verify(metadata, keys, link_dir_path = d, parameters, step_name) *)
  Fixpoint verify (d : dirtree) : args -> result :=
    match d with
    | Dir files subs =>
        verify_body files
          ((fix go (l : list (str * dirtree)) : list (str * (args -> result)) :=
              match l with
              | [] => []
              | (n, t) :: l' => (n, verify t) :: go l'
              end) subs)
          verify_in_missing_dir
    end.
End Verify.
