(** Json.v — the value domain the implementation reads ([json.load]) and the
    text layer used to move cases between the harness and the model.
    [parse_json]/[print_json] are glue for the correspondence check (they are
    not the model of Python's json module, which is an oracle). *)
From InToto.Model Require Import Base.

Inductive json :=
| JNull
| JBool (b : bool)
| JInt (z : Z)
| JFloat (repr : str)          (* opaque: never inspected by in-toto logic *)
| JStr (s : str)
| JList (l : list json)
| JDict (l : list (str * json)).

(** nested induction principle *)
Section JsonInd.
  Variable P : json -> Prop.
  Hypothesis HNull : P JNull.
  Hypothesis HBool : forall b, P (JBool b).
  Hypothesis HInt : forall z, P (JInt z).
  Hypothesis HFloat : forall r, P (JFloat r).
  Hypothesis HStr : forall s, P (JStr s).
  Hypothesis HList : forall l, Forall P l -> P (JList l).
  Hypothesis HDict : forall l, Forall (fun kv => P (snd kv)) l -> P (JDict l).

  Fixpoint json_ind' (j : json) : P j :=
    match j with
    | JNull => HNull
    | JBool b => HBool b
    | JInt z => HInt z
    | JFloat r => HFloat r
    | JStr s => HStr s
    | JList l => HList l ((fix go (l : list json) : Forall P l :=
                             match l with
                             | [] => Forall_nil _
                             | x :: l' => Forall_cons _ (json_ind' x) (go l')
                             end) l)
    | JDict l => HDict l ((fix go (l : list (str * json)) : Forall (fun kv => P (snd kv)) l :=
                             match l with
                             | [] => Forall_nil _
                             | kv :: l' => Forall_cons _ (json_ind' (snd kv)) (go l')
                             end) l)
    end.
End JsonInd.

(** structural equality (dict entry order matters: Python dict equality does NOT
    depend on order, see [json_equiv] for that) *)
Fixpoint json_eqb (a b : json) : bool :=
  match a, b with
  | JNull, JNull => true
  | JBool x, JBool y => Bool.eqb x y
  | JInt x, JInt y => Z.eqb x y
  | JFloat x, JFloat y => eqs x y
  | JStr x, JStr y => eqs x y
  | JList x, JList y =>
      (fix go (x y : list json) : bool :=
         match x, y with
         | [], [] => true
         | a :: x', b :: y' => json_eqb a b && go x' y'
         | _, _ => false
         end) x y
  | JDict x, JDict y =>
      (fix go (x y : list (str * json)) : bool :=
         match x, y with
         | [], [] => true
         | (ka, a) :: x', (kb, b) :: y' => eqs ka kb && json_eqb a b && go x' y'
         | _, _ => false
         end) x y
  | _, _ => false
  end.

(** Python [==] on parsed JSON: dicts compare as maps (order-insensitive),
    lists positionally.  bool/int cross-equality (True == 1) is kept. *)
Fixpoint py_eqb (a b : json) : bool :=
  match a, b with
  | JNull, JNull => true
  | JBool x, JBool y => Bool.eqb x y
  | JBool x, JInt y | JInt y, JBool x => Z.eqb (if x then 1 else 0) y
  | JInt x, JInt y => Z.eqb x y
  | JFloat x, JFloat y => eqs x y
  | JStr x, JStr y => eqs x y
  | JList x, JList y =>
      (fix go (x y : list json) : bool :=
         match x, y with
         | [], [] => true
         | a :: x', b :: y' => py_eqb a b && go x' y'
         | _, _ => false
         end) x y
  | JDict x, JDict y =>
      Nat.eqb (length x) (length y) &&
      (fix go (x : list (str * json)) : bool :=
         match x with
         | [] => true
         | (ka, a) :: x' =>
             match lookup ka y with
             | Some b => py_eqb a b
             | None => false
             end && go x'
         end) x
  | _, _ => false
  end.

Definition jget (k : str) (j : json) : option json :=
  match j with JDict l => lookup k l | _ => None end.

(* ------------------------------------------------------------------ *)
(** * Text layer: ASCII JSON with \uXXXX escapes (harness <-> model)     *)

Definition is_ws (c : N) : bool := N.eqb c 32 || N.eqb c 10 || N.eqb c 13 || N.eqb c 9.
Fixpoint skip_ws (s : list N) : list N :=
  match s with
  | c :: s' => if is_ws c then skip_ws s' else s
  | [] => []
  end.

Definition is_digit (c : N) : bool := N.leb 48 c && N.leb c 57.

Definition hexval (c : N) : option N :=
  if N.leb 48 c && N.leb c 57 then Some (c - 48)%N
  else if N.leb 97 c && N.leb c 102 then Some (c - 87)%N
  else if N.leb 65 c && N.leb c 70 then Some (c - 55)%N
  else None.

Definition hex4 (s : list N) : option (N * list N) :=
  match s with
  | a :: b :: c :: d :: r =>
      match hexval a, hexval b, hexval c, hexval d with
      | Some a, Some b, Some c, Some d => Some ((((a * 16 + b) * 16 + c) * 16 + d)%N, r)
      | _, _, _, _ => None
      end
  | _ => None
  end.

(** string body after the opening quote; returns code points and the rest *)
Fixpoint parse_string (fuel : nat) (s : list N) (acc : list N) : option (str * list N) :=
  match fuel with
  | O => None
  | S fuel' =>
      match s with
      | [] => None
      | 34 :: r => Some (rev_append acc [], r)                        (* dquote *)
      | 92 :: e :: r =>                                     (* backslash *)
          match e with
          | 34 => parse_string fuel' r (34 :: acc)
          | 92 => parse_string fuel' r (92 :: acc)
          | 47 => parse_string fuel' r (47 :: acc)
          | 98 => parse_string fuel' r (8 :: acc)
          | 102 => parse_string fuel' r (12 :: acc)
          | 110 => parse_string fuel' r (10 :: acc)
          | 114 => parse_string fuel' r (13 :: acc)
          | 116 => parse_string fuel' r (9 :: acc)
          | 117 =>                                          (* \uXXXX, with surrogate pairs *)
              match hex4 r with
              | Some (h, r') =>
                  if N.leb 55296 h && N.leb h 56319 then
                    match r' with
                    | 92 :: 117 :: r'' =>
                        match hex4 r'' with
                        | Some (l, r''') =>
                            if N.leb 56320 l && N.leb l 57343
                            then parse_string fuel' r''' ((65536 + (h - 55296) * 1024 + (l - 56320))%N :: acc)
                            else parse_string fuel' r' (h :: acc)
                        | None => None
                        end
                    | _ => parse_string fuel' r' (h :: acc)
                    end
                  else parse_string fuel' r' (h :: acc)
              | None => None
              end
          | _ => None
          end
      | c :: r => parse_string fuel' r (c :: acc)
      end
  end%N.

Fixpoint parse_digits (s : list N) (acc : Z) (n : nat) : Z * nat * list N :=
  match s with
  | c :: r => if is_digit c then parse_digits r (acc * 10 + Z.of_N (c - 48))%Z (S n) else (acc, n, s)
  | [] => (acc, n, s)
  end.

Fixpoint take_number_chars (s : list N) (acc : list N) : list N * list N :=
  match s with
  | c :: r => if is_digit c || N.eqb c 46 || N.eqb c 101 || N.eqb c 69 || N.eqb c 43 || N.eqb c 45
              then take_number_chars r (c :: acc) else (rev acc, s)
  | [] => (rev acc, s)
  end.

Definition is_float_text (t : list N) : bool :=
  existsb (fun c => N.eqb c 46 || N.eqb c 101 || N.eqb c 69) t.

Fixpoint parse_value (fuel : nat) (s : list N) : option (json * list N) :=
  match fuel with
  | O => None
  | S fuel' =>
      match skip_ws s with
      | 110 :: 117 :: 108 :: 108 :: r => Some (JNull, r)
      | 116 :: 114 :: 117 :: 101 :: r => Some (JBool true, r)
      | 102 :: 97 :: 108 :: 115 :: 101 :: r => Some (JBool false, r)
      | 34 :: r =>
          match parse_string (S fuel') r []   (* fuel' >= |r|: see parse_json *) with
          | Some (st, r') => Some (JStr st, r')
          | None => None
          end
      | 91 :: r =>                                          (* '[' *)
          match skip_ws r with
          | 93 :: r' => Some (JList [], r')
          | _ =>
              (fix elems (f : nat) (s : list N) (acc : list json) : option (json * list N) :=
                 match f with
                 | O => None
                 | S f' =>
                     match parse_value fuel' s with
                     | Some (v, r1) =>
                         match skip_ws r1 with
                         | 44 :: r2 => elems f' r2 (v :: acc)
                         | 93 :: r2 => Some (JList (rev_append (v :: acc) []), r2)
                         | _ => None
                         end
                     | None => None
                     end
                 end) fuel' r []
          end
      | 123 :: r =>                                         (* '{' *)
          match skip_ws r with
          | 125 :: r' => Some (JDict [], r')
          | _ =>
              (fix members (f : nat) (s : list N) (acc : list (str * json)) : option (json * list N) :=
                 match f with
                 | O => None
                 | S f' =>
                     match skip_ws s with
                     | 34 :: r0 =>
                         match parse_string (S fuel') r0 [] with
                         | Some (k, r1) =>
                             match skip_ws r1 with
                             | 58 :: r2 =>
                                 match parse_value fuel' r2 with
                                 | Some (v, r3) =>
                                     match skip_ws r3 with
                                     | 44 :: r4 => members f' r4 ((k, v) :: acc)
                                     | 125 :: r4 => Some (JDict (rev_append ((k, v) :: acc) []), r4)
                                     | _ => None
                                     end
                                 | None => None
                                 end
                             | _ => None
                             end
                         | None => None
                         end
                     | _ => None
                     end
                 end) fuel' r []
          end
      | c :: r =>
          if is_digit c || N.eqb c 45 then
            let '(t, rest) := take_number_chars (c :: r) [] in
            if is_float_text t then Some (JFloat t, rest)
            else match t with
                 | 45 :: ds => let '(z, n, _) := parse_digits ds 0%Z 0 in
                               if Nat.eqb n 0 then None else Some (JInt (- z)%Z, rest)
                 | ds => let '(z, n, _) := parse_digits ds 0%Z 0 in
                         if Nat.eqb n 0 then None else Some (JInt z, rest)
                 end
          else None
      | [] => None
      end
  end%N.

(** fuel: [S (length s)] at the top, one less per nesting level; the text still to be read at
    nesting depth d is at most [length s - d] long, so the fuel also bounds every string body
    (computing [length] of the rest for every string made parsing quadratic). *)
Definition parse_json (s : list N) : option json :=
  match parse_value (S (length s)) s with
  | Some (v, r) => match skip_ws r with [] => Some v | _ => None end
  | None => None
  end.

(** printing *)
Definition hexdigit (n : N) : N := if N.ltb n 10 then (48 + n)%N else (87 + n)%N.
Definition print_u4 (c : N) : list N :=
  [92; 117; hexdigit (c / 4096 mod 16); hexdigit (c / 256 mod 16); hexdigit (c / 16 mod 16); hexdigit (c mod 16)]%N.

Definition print_char (c : N) : list N :=
  if N.eqb c 34 then [92; 34]%N
  else if N.eqb c 92 then [92; 92]%N
  else if N.ltb c 32 || N.leb 127 c then
    if N.ltb c 65536 then print_u4 c
    else let c' := (c - 65536)%N in print_u4 (55296 + c' / 1024) ++ print_u4 (56320 + c' mod 1024)
  else [c].

Definition print_str (s : str) : list N := 34%N :: flat_map print_char s ++ [34%N].

(** decimal printing of Z, most significant digit first (fuel = bit size, always enough) *)
Fixpoint print_pos_digits (fuel : nat) (n : N) (acc : list N) : list N :=
  match fuel with
  | O => acc
  | S f => if N.ltb n 10 then (48 + n)%N :: acc
           else print_pos_digits f (n / 10) ((48 + n mod 10)%N :: acc)
  end.
Definition print_N (n : N) : list N := print_pos_digits (S (N.to_nat (N.size n))) n [].
Definition print_Z (z : Z) : list N :=
  match z with
  | Z0 => [48%N]
  | Zpos p => print_N (Npos p)
  | Zneg p => 45%N :: print_N (Npos p)
  end.

Fixpoint print_json (j : json) : list N :=
  match j with
  | JNull => [110; 117; 108; 108]%N
  | JBool true => [116; 114; 117; 101]%N
  | JBool false => [102; 97; 108; 115; 101]%N
  | JInt z => print_Z z
  | JFloat r => r
  | JStr s => print_str s
  | JList l =>
      91%N :: (fix go (l : list json) : list N :=
                 match l with
                 | [] => [93%N]
                 | [x] => print_json x ++ [93%N]
                 | x :: l' => print_json x ++ 44%N :: go l'
                 end) l
  | JDict l =>
      123%N :: (fix go (l : list (str * json)) : list N :=
                  match l with
                  | [] => [125%N]
                  | [(k, v)] => print_str k ++ 58%N :: print_json v ++ [125%N]
                  | (k, v) :: l' => print_str k ++ 58%N :: print_json v ++ 44%N :: go l'
                  end) l
  end.

(** convenience constructors used by the model's result printers *)
Definition jstr_list (l : list str) : json := JList (map JStr l).
Definition jerr (e : err) : json :=
  JDict [([101;114;114]%N, JStr (match e with
    | EFormat => [70;111;114;109;97;116]
    | ESignature => [83;105;103;110;97;116;117;114;101]
    | EExpired => [69;120;112;105;114;101;100]
    | ELinkNotFound => [76;105;110;107;78;111;116;70;111;117;110;100]
    | EThreshold => [84;104;114;101;115;104;111;108;100]
    | ERule => [82;117;108;101]
    | EBadRetval => [66;97;100;82;101;116;118;97;108]
    | EInvalidMetadata => [73;110;118;97;108;105;100;77;101;116;97;100;97;116;97]
    | EPrefix => [80;114;101;102;105;120]
    | EKeyExpired => [75;101;121;69;120;112;105;114;101;100]
    | ETimeout => [84;105;109;101;111;117;116]
    | EKeyError => [75;101;121;69;114;114;111;114]
    | EIndexError => [73;110;100;101;120;69;114;114;111;114]
    | EValueError => [86;97;108;117;101;69;114;114;111;114]
    | ETypeError => [84;121;112;101;69;114;114;111;114]
    | EAttribute => [65;116;116;114;105;98;117;116;101]
    | EIOError => [73;79;69;114;114;111;114]
    | EUnicode => [85;110;105;99;111;100;101]
    | ENotImplemented => [78;111;116;73;109;112;108;101;109;101;110;116;101;100]
    | EDiverge => [68;105;118;101;114;103;101]
    | EUnmodelled => [85;110;109;111;100;101;108;108;101;100]
    end)%N)].
