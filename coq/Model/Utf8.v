(** Utf8.v — str.encode("utf-8") on code-point lists (surrogates excluded by the caller:
    Python raises UnicodeEncodeError for them). *)
From InToto.Model Require Import Base.
Local Open Scope N_scope.

Definition utf8_char (c : N) : list N :=
  if N.ltb c 128 then [c]
  else if N.ltb c 2048 then [192 + c / 64; 128 + c mod 64]
  else if N.ltb c 65536 then [224 + c / 4096; 128 + (c / 64) mod 64; 128 + c mod 64]
  else [240 + c / 262144; 128 + (c / 4096) mod 64; 128 + (c / 64) mod 64; 128 + c mod 64].

Definition utf8 (s : str) : list N := flat_map utf8_char s.

(** code points Python can encode: scalar values *)
Definition scalar (c : N) : bool := (N.ltb c 1114112 && negb (N.leb 55296 c && N.leb c 57343))%bool.
Definition encodable (s : str) : bool := forallb scalar s.

(** lexicographic order on lists of numbers (code points or bytes) *)
Fixpoint lex_ltb (a b : list N) : bool :=
  match a, b with
  | _, [] => false
  | [], _ :: _ => true
  | x :: a', y :: b' => (N.ltb x y || (N.eqb x y && lex_ltb a' b'))%bool
  end.
Definition lex_leb (a b : list N) : bool := negb (lex_ltb b a).
