(** Subst.v — str.format with keyword parameters, on the template fragment used by layouts,
    formats._check_parameter_dict (C16). *)
From InToto.Model Require Import Base Json.

Definition is_param_char (c : N) : bool :=
  (N.leb 48 c && N.leb c 57) || (N.leb 65 c && N.leb c 90) || (N.leb 97 c && N.leb c 122)
  || N.eqb c 95 || N.eqb c 45.

(** _check_parameter_dict *)
Definition check_params (j : json) : res (list (str * str)) :=
  match j with
  | JDict l =>
      mapM (fun kv => match kv with
                      | (k, JStr v) => match k with
                                       | [] => Err EFormat
                                       | _ => if forallb is_param_char k then Ok (k, v) else Err EFormat
                                       end
                      | (k, _) => match k with
                                  | [] => Err EFormat
                                  | _ => if forallb is_param_char k then Err EFormat else Err EFormat
                                  end
                      end) l
  | _ => Err EFormat
  end.

(** read a replacement field up to the closing brace: (field, rest) *)
Fixpoint read_field (s : str) (acc : str) : option (str * str) :=
  match s with
  | [] => None
  | 125%N :: r => Some (rev acc, r)
  | c :: r => read_field r (c :: acc)
  end.

Definition field_special (c : N) : bool :=
  N.eqb c 123 || N.eqb c 33 || N.eqb c 58 || N.eqb c 46 || N.eqb c 91.
Definition all_digits (s : str) : bool := forallb (fun c => N.leb 48 c && N.leb c 57) s.

(** template.format with keyword parameters; fuel = length of the template *)
Fixpoint py_format_go (fuel : nat) (params : list (str * str)) (s : str) (acc : str) : res str :=
  match fuel with
  | O => match s with [] => Ok (rev acc) | _ => Err EUnmodelled end
  | S f =>
      match s with
      | [] => Ok (rev acc)
      | 123%N :: 123%N :: r => py_format_go f params r (123%N :: acc)
      | 125%N :: 125%N :: r => py_format_go f params r (125%N :: acc)
      | 125%N :: _ => Err EValueError
      | 123%N :: r =>
          match read_field r [] with
          | None => if existsb field_special r then Err EUnmodelled else Err EValueError
          | Some (field, rest) =>
              if existsb field_special field || negb (is_ascii field) then Err EUnmodelled
              else if all_digits field then Err EIndexError          (* "" or positional index, no positional args *)
              else match lookup field params with
                   | Some v => py_format_go f params rest (rev v ++ acc)
                   | None => Err EKeyError
                   end
          end
      | c :: r => py_format_go f params r (c :: acc)
      end
  end.

Definition py_format (params : list (str * str)) (s : str) : res str :=
  py_format_go (S (length s)) params s [].

(** stanza.format(...) for an element of a rule / command list: non-strings have no .format *)
Definition subst_elem (params : list (str * str)) (j : json) : res json :=
  match j with
  | JStr s => do r <- py_format params s; Ok (JStr r)
  | _ => Err EAttribute
  end.
Definition subst_list (params : list (str * str)) (j : json) : res json :=
  match j with
  | JList l => do r <- mapM (subst_elem params) l; Ok (JList r)
  | _ => Err ETypeError
  end.
Definition subst_rules (params : list (str * str)) (j : json) : res json :=
  match j with
  | JList l => do r <- mapM (subst_list params) l; Ok (JList r)
  | _ => Err ETypeError
  end.
