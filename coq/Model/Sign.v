(** Sign.v — the signing side and the serialisation of in-toto metadata (property C09):
    Metablock.create_signature / Envelope.create_signature (securesystemslib.dsse.Envelope.sign),
    to_dict, dump/load, Envelope.from_signable, and the operations of the in-toto-sign tool
    (in_toto/in_toto_sign.py: _sign_and_dump_metadata, _verify_metadata, the argument checks of main()).
    Verification and loading are in Meta.v; this file only adds to it. *)
From InToto.Model Require Import Base Json Strs Utf8 Canon Rule Rules Expiry Meta.

(* ------------------------------------------------------------------ *)
(** * hexadecimal text <-> bytes                                        *)

(** bytes.fromhex on a string without white space (upper and lower case digits accepted);
    [None]: ValueError.  (Python also skips ASCII white space between byte pairs; the callers
    below exclude such strings as outside the modelled fragment.) *)
Fixpoint fromhex_fuel (fuel : nat) (s : str) : option (list N) :=
  match fuel with
  | O => match s with [] => Some [] | _ => None end
  | S f =>
      match s with
      | [] => Some []
      | a :: b :: r =>
          match hexval a, hexval b, fromhex_fuel f r with
          | Some x, Some y, Some t => Some ((x * 16 + y)%N :: t)
          | _, _, _ => None
          end
      | [_] => None
      end
  end.
Definition fromhex (s : str) : option (list N) := fromhex_fuel (length s) s.

Definition has_ws (s : str) : bool := existsb (fun c => (N.leb 9 c && N.leb c 13) || N.eqb c 32) s.

Definition is_lower_hex_char (c : N) : bool := (N.leb 48 c && N.leb c 57) || (N.leb 97 c && N.leb c 102).
(** what bytes.hex() and every securesystemslib signer produce: lower-case digits, whole bytes *)
Definition lower_hex_even (s : str) : bool := forallb is_lower_hex_char s && Nat.even (length s).

Definition is_bytes (b : list N) : bool := forallb (fun c => N.ltb c 256) b.

(** DSSE PAE exactly as securesystemslib writes it: b"DSSEv1 %d %b %d %b" %
    (len(payload_type) [code points], payload_type.encode("utf-8"), len(payload), payload).
    For an ASCII payload type (in-toto's constant) it is [pae (utf8 t) p] of Canon.v. *)
Definition pae_str (payload_type : str) (payload : list N) : list N :=
  s_dssev1 ++ 32%N :: print_N (N.of_nat (length payload_type)) ++ 32%N :: utf8 payload_type
           ++ 32%N :: print_N (N.of_nat (length payload)) ++ 32%N :: payload.

(* ------------------------------------------------------------------ *)
(** * Signers                                                           *)

(** a securesystemslib [CryptoSigner] (its public key's key id and the [keyval.public] text that the
    verification oracle is keyed by), or an in-toto [GPGSigner]: the key id is that of the key gpg
    actually signs with (for a master key with a signing subkey: the subkey), [headers] the
    [other_headers] gpg reports. *)
Inductive signer :=
| SgSslib (keyid pub : str)
| SgGpg (keyid headers : str).

Definition signer_keyid (sg : signer) : str := match sg with SgSslib k _ => k | SgGpg k _ => k end.
(** the token under which the signature oracles know the key (as in Meta.sslib_verify / gpg_verify) *)
Definition signer_token (sg : signer) : str := match sg with SgSslib _ p => p | SgGpg k _ => k end.

Definition md_sigs (md : metadata) : list json :=
  match md with Metablock s _ => s | Envelope _ _ s _ => s end.
Definition set_sigs (md : metadata) (s : list json) : metadata :=
  match md with Metablock _ p => Metablock s p | Envelope pb pt _ parsed => Envelope pb pt s parsed end.

(** the bytes a signature on this metadata is made over *)
Definition signed_msg (md : metadata) : res (list N) :=
  match md with
  | Metablock _ p => signable_bytes (payload_asdict p)
  | Envelope pb pt _ _ => Ok (pae (utf8 pt) pb)
  end.

(** ValidationMixin.validate() enumerates the object's members with inspect.getmembers, which evaluates the
    [signable_bytes] property of a Link / Layout: an object whose canonical bytes do not exist (a float anywhere:
    FormatError; a lone surrogate: UnicodeEncodeError) cannot be constructed, hence not loaded.  Meta.read_link /
    read_layout do not contain this step; the strict loader adds it. *)
Definition check_signable (p : payload) : res payload :=
  do _ <- signable_bytes (payload_asdict p); Ok p.

Definition is_link_payload (p : payload) : bool := match p with PLink _ => true | PLayout _ => false end.

Section SignOracles.
  (** the signing primitive: key token -> message -> signature value (hex text) *)
  Variable sign : str -> list N -> str.
  Variable b64enc : list N -> str.
  Variable b64dec : str -> option (list N).
  (** json.dumps(v, sort_keys=True).encode("utf-8") and json.loads *)
  Variable dumps : json -> list N.
  Variable loads : list N -> option json.
  Variable sig_ok : str -> list N -> str -> bool.
  Variable now_s : Z.

  Definition from_dict_s (d : json) : res metadata :=
    do md <- from_dict b64dec loads d;
    match md with
    | Metablock _ p => do _ <- check_signable p; Ok md
    | Envelope _ _ _ _ => Ok md
    end.
  Definition get_payload_s (md : metadata) : res payload := do p <- get_payload md; check_signable p.
  Definition read_payload_s (d : json) : res payload := do p <- read_payload d; check_signable p.

  (** Signature.to_dict() / GPGSignature.to_dict() of the signature a signer returns *)
  Definition signature_dict (sg : signer) (msg : list N) : json :=
    match sg with
    | SgSslib kid pub => JDict [(S_keyid, JStr kid); (S_sig, JStr (sign pub msg))]
    | SgGpg kid hd => JDict [(S_keyid, JStr kid); (S_signature, JStr (sign kid msg)); (S_other_headers, JStr hd)]
    end.

  (** Metablock.create_signature: signer.sign(self.signed.signable_bytes), appended;
      Envelope.create_signature: NotImplementedError for a GPGSigner, else sign(self.pae()), appended *)
  Definition create_signature (md : metadata) (sg : signer) : res metadata :=
    match md with
    | Metablock sigs p =>
        do msg <- signable_bytes (payload_asdict p);
        Ok (Metablock (sigs ++ [signature_dict sg msg]) p)
    | Envelope pb pt sigs parsed =>
        match sg with
        | SgGpg _ _ => Err ENotImplemented
        | SgSslib _ _ => Ok (Envelope pb pt (sigs ++ [signature_dict sg (pae (utf8 pt) pb)]) parsed)
        end
    end.

  Fixpoint create_signatures (md : metadata) (sgs : list signer) : res metadata :=
    match sgs with
    | [] => Ok md
    | sg :: r => do md' <- create_signature md sg; create_signatures md' r
    end.

  (** Envelope.from_signable *)
  Definition from_signable (p : payload) : metadata :=
    let b := dumps (payload_asdict p) in Envelope b S_envelope_payload_type [] (loads b).

  (** to_dict *)
  Definition env_sig_to_dict (s : json) : res json :=
    match jget S_keyid s, jstr_of (jget S_sig s) with
    | Some kid, Some hex =>
        if has_ws hex then Err EUnmodelled else
        match fromhex hex with
        | Some b => Ok (JDict [(S_keyid, kid); (S_sig, JStr (b64enc b))])
        | None => Err EValueError
        end
    | _, _ => Err EUnmodelled
    end.

  Definition to_dict (md : metadata) : res json :=
    match md with
    | Metablock sigs p => Ok (JDict [(S_signatures, JList sigs); (S_signed, payload_asdict p)])
    | Envelope pb pt sigs _ =>
        do sl <- mapM env_sig_to_dict sigs;
        Ok (JDict [(S_payload, JStr (b64enc pb)); (S_payloadType, JStr pt); (S_signatures, JList sl)])
    end.

  (** dump (both serialisations — Metablock's indented or compact repr, Metadata.dump's
      json.dumps(sort_keys=True) — are texts json.load maps back to the same value; the text layer is
      the [dumps]/[loads] oracle pair) and Metadata.load *)
  Definition dump (md : metadata) : res (list N) := do d <- to_dict md; Ok (dumps d).
  Definition load (file : list N) : res metadata :=
    match loads file with Some d => from_dict_s d | None => Err EValueError end.

  (* ---------------------------------------------------------------- *)
  (** * in-toto-sign                                                    *)

  (** [Replace ks]: default mode — all existing signatures are dropped, one signature per key of [ks]
      is created in order; [Append ks] ("--append"): the existing list is kept and extended.
      Nothing is deduplicated: appending with a key that already signed yields two entries
      with one key id. *)
  Inductive sign_op := Replace (ks : list signer) | Append (ks : list signer).
  Definition op_keys (o : sign_op) : list signer := match o with Replace k => k | Append k => k end.
  Definition op_is_append (o : sign_op) : bool := match o with Append _ => true | Replace _ => false end.

  Definition apply_op (md : metadata) (o : sign_op) : res metadata :=
    match o with
    | Replace ks => create_signatures (set_sigs md []) ks
    | Append ks => create_signatures md ks
    end.

  Fixpoint apply_ops (md : metadata) (os : list sign_op) : res metadata :=
    match os with
    | [] => Ok md
    | o :: r => do md' <- apply_op md o; apply_ops md' r
    end.

  (** outcome of one run of the tool: exit status and, for a signing run with status 0, the
      dictionary written to the output file; [CliUncaught]: an exception leaves main() *)
  Inductive cli_out := CliExit (code : Z) (written : option json) | CliUncaught (e : err).

  (** the part of main() both modes share: load (any exception: exit 2), get_payload() (not
      guarded), and for link metadata the rejection of several keys and of --append (parser.error) *)
  Definition cli_front (file : json) (nkeys : nat) (append : bool) (k : metadata -> cli_out) : cli_out :=
    match from_dict_s file with
    | Err _ => CliExit 2 None
    | Ok md =>
        match get_payload_s md with
        | Err e => CliUncaught e
        | Ok p =>
            if is_link_payload p && (Nat.ltb 1 nkeys || append) then CliExit 2 None
            else k md
        end
    end.

  (** in-toto-sign -f file [-a] -k/-g keys -o out *)
  Definition cli_sign (file : json) (o : sign_op) : cli_out :=
    cli_front file (length (op_keys o)) (op_is_append o) (fun md =>
      match (do md' <- apply_op md o; do _ <- get_payload_s md'; to_dict md') with
      | Ok d => CliExit 0 (Some d)
      | Err _ => CliExit 2 None
      end).

  (** in-toto-sign -f file --verify -k/-g keys: the keys are put in a dict by key id (a repeated id
      keeps its first position and its last value), then verified in that order; the first failure decides *)
  Fixpoint verify_all (md : metadata) (ks : list json) : res unit :=
    match ks with
    | [] => Ok tt
    | k :: r => do _ <- verify_signature sig_ok now_s md k; verify_all md r
    end.

  Definition cli_verify (file : json) (nargs : nat) (ks : list json) : cli_out :=
    cli_front file nargs false (fun md =>
      match verify_all md ks with
      | Ok _ => CliExit 0 None
      | Err ESignature => CliExit 1 None
      | Err _ => CliExit 2 None
      end).
End SignOracles.
