(** Rules.v — model of the artifact-rule evaluator of in_toto/verifylib.py:
    verify_match_rule, verify_{create,delete,modify,allow,disallow,require}_rule,
    verify_item_rules, verify_all_item_rules (C03). *)
From InToto.Model Require Import Base Json Rule Glob.

(** path -> hash record (a JSON dict algorithm -> hex digest); keys are unique *)
Definition amap := list (str * json).

Record link := mkLink {
  l_name : json;
  l_materials : amap;
  l_products : amap;
  l_byproducts : json;
  l_command : json;
  l_environment : json
}.

Definition links := list (str * link).

Definition arts (d : dkind) (l : link) : amap :=
  match d with Materials => l_materials l | Products => l_products l end.

(** os.path.join(a, b) on posix *)
Definition posix_join (a b : str) : str :=
  match b with
  | 47%N :: _ => b
  | _ => match a with
         | [] => b
         | _ => if ends_with_c 47 a then a ++ b else a ++ 47%N :: b
         end
  end.
Definition replace_bs (s : str) : str := replace_c 92 47 s.

(** normalised source prefix: os.path.join(prefix, "").replace("\\", "/") *)
Definition norm_prefix (sp : str) : str := replace_bs (posix_join sp []).
Definition full_path (prefix r : str) : str :=
  match prefix with [] => r | _ => replace_bs (posix_join prefix r) end.

Section Matcher.
  (** the glob matcher; [None] = pattern outside the modelled fragment *)
  Variable matches : str -> str -> option bool.

  Definition fnfilter (names : list str) (pat : str) : res (list str) :=
    let fix go (l : list str) : res (list str) :=
      match l with
      | [] => Ok []
      | x :: l' =>
          match matches pat x with
          | None => Err EUnmodelled
          | Some b => do r <- go l'; Ok (if b then x :: r else r)
          end
      end in go names.

  (** verify_match_rule; [src] is the item's own artifact map the queue was drawn from *)
  Definition match_rule (pat sp : str) (d : dkind) (dp step : str)
             (queue : list str) (src : amap) (ls : links) : res (list str) :=
    match lookup step ls with
    | None => Ok []
    | Some dl =>
        let dest := arts d dl in
        let filtered :=
          match sp with
          | [] => queue
          | _ => let np := norm_prefix sp in
                 flat_map (fun a => if starts_with np a then [drop (length np) a] else []) queue
          end in
        do globbed <- fnfilter filtered pat;
        (fix go (l : list str) : res (list str) :=
           match l with
           | [] => Ok []
           | r :: l' =>
               let fs := full_path sp r in
               let fd := full_path dp r in
               match lookup fs src with
               | None => Err EKeyError
               | Some hs =>
                   do rest <- go l';
                   match lookup fd dest with
                   | None => Ok rest
                   | Some hd => if py_eqb hs hd then Ok (if mem_str fs rest then rest else fs :: rest) else Ok rest
                   end
               end
           end) globbed
    end.

  Definition create_rule (pat : str) (queue mats prods : list str) : res (list str) :=
    do f <- fnfilter queue pat; Ok (set_inter (dedup f) (set_diff prods mats)).
  Definition delete_rule (pat : str) (queue mats prods : list str) : res (list str) :=
    do f <- fnfilter queue pat; Ok (set_inter (dedup f) (set_diff mats prods)).
  Definition modify_rule (pat : str) (queue : list str) (mats prods : amap) : res (list str) :=
    do f <- fnfilter queue pat;
    Ok (filter (fun p => match lookup p mats, lookup p prods with
                         | Some hm, Some hp => negb (py_eqb hm hp)
                         | _, _ => false
                         end) (dedup f)).
  Definition allow_rule (pat : str) (queue : list str) : res (list str) :=
    do f <- fnfilter queue pat; Ok (dedup f).
  Definition disallow_rule (pat : str) (queue : list str) : res unit :=
    do f <- fnfilter queue pat; match f with [] => Ok tt | _ => Err ERule end.
  Definition require_rule (name : str) (queue : list str) : res unit :=
    if mem_str name queue then Ok tt else Err ERule.

  (** one iteration of the loop of verify_item_rules: returns the new queue *)
  Definition apply_rule (side : dkind) (item : link) (ls : links) (queue : list str) (m : meaning)
    : res (list str) :=
    let mats := l_materials item in
    let prods := l_products item in
    match m with
    | Match pat sp d dp step =>
        do c <- match_rule pat sp d dp step queue (arts side item) ls; Ok (set_diff queue c)
    | Generic Create pat => do c <- create_rule pat queue (keys mats) (keys prods); Ok (set_diff queue c)
    | Generic Delete pat => do c <- delete_rule pat queue (keys mats) (keys prods); Ok (set_diff queue c)
    | Generic Modify pat => do c <- modify_rule pat queue mats prods; Ok (set_diff queue c)
    | Generic Allow pat => do c <- allow_rule pat queue; Ok (set_diff queue c)
    | Generic Disallow pat => do _ <- disallow_rule pat queue; Ok queue
    | Generic Require pat => do _ <- require_rule pat queue; Ok queue
    end.

  Fixpoint run_rules (side : dkind) (item : link) (ls : links) (queue : list str) (rules : list json)
    : res (list str) :=
    match rules with
    | [] => Ok queue
    | r :: rules' =>
        do m <- unpack_rule r;
        do q' <- apply_rule side item ls queue m;
        run_rules side item ls q' rules'
    end.

  (** verify_item_rules(source_name, source_type, rules, links): final queue or error *)
  Definition verify_item_rules (name : str) (side : dkind) (rules : list json) (ls : links) : res (list str) :=
    match lookup name ls with
    | None => Err EKeyError
    | Some item => run_rules side item ls (keys (arts side item)) rules
    end.

  (** verify_all_item_rules(items, links); an item is (name, expected_materials, expected_products) *)
  Fixpoint verify_all_item_rules (items : list (str * list json * list json)) (ls : links) : res unit :=
    match items with
    | [] => Ok tt
    | (name, em, ep) :: items' =>
        do _ <- verify_item_rules name Materials em ls;
        do _ <- verify_item_rules name Products ep ls;
        verify_all_item_rules items' ls
    end.
End Matcher.

Definition verify_item_rules_glob := verify_item_rules glob_match.
Definition verify_all_item_rules_glob := verify_all_item_rules glob_match.
