(** Record.v — two-phase recording: in_toto/runlib.py in_toto_record_start / in_toto_record_stop
    (C12), with Metadata.load / dump of in_toto/models/metadata.py and the file-name formats of
    in_toto/models/link.py.

    The working directory is a finite map path -> file state; every call returns, next to its
    result, the ORDERED list of file-system effects it performs.  A crash is the application of
    a prefix of that list (a [Write] may itself be cut short); an I/O exception is the same
    prefix followed by Python's clean-up ([with open(...)] closes the file, nothing is undone).

    Oracles (Section variables): raw signing ([sign], [gpg_sign]), signature validity ([sig_ok]),
    the JSON text layer ([dumps]/[loads]), base64 ([b64enc]/[b64dec]), gpg key export
    ([export_pubkey]), the clock ([now_s], gpg key expiry).  Artifact recording
    (record_artifacts_as_dict, C10) is an explicit argument of each call. *)
From InToto.Model Require Import Base Json Strs Utf8 Canon Glob Rules Meta.

(* ------------------------------------------------------------------ *)
(** * Directory state and file-system effects                            *)

Definition fname := str.
Definition bytes := list N.

(** [Complete b]: closed file holding exactly [b].
    [Partial b]: a file that was opened for writing and not (yet) closed, or whose writing was
    cut short: at most the bytes [b] have reached it (what is on disk is a prefix of [b]). *)
Inductive fstate := Complete (b : bytes) | Partial (b : bytes).
Definition fbytes (s : fstate) : bytes := match s with Complete b | Partial b => b end.

Definition dirstate := list (fname * fstate).

Fixpoint dget (d : dirstate) (f : fname) : option fstate :=
  match d with
  | [] => None
  | (g, s) :: d' => if eqs f g then Some s else dget d' f
  end.
Definition drem (d : dirstate) (f : fname) : dirstate := filter (fun e => negb (eqs f (fst e))) d.
Definition dset (d : dirstate) (f : fname) (s : fstate) : dirstate := (f, s) :: drem d f.
Definition dnames (d : dirstate) : list fname := dedup (map fst d).

Inductive fsop :=
| Read (f : fname)                 (* open for reading + read + close *)
| OpenTrunc (f : fname)            (* open(f, "wb") *)
| Write (f : fname) (chunk : bytes)
| Close (f : fname)
| Remove (f : fname).              (* os.remove *)

Definition op_file (o : fsop) : fname :=
  match o with Read f | OpenTrunc f | Write f _ | Close f | Remove f => f end.
Definition is_read (o : fsop) : bool := match o with Read _ => true | _ => false end.
Definition mutates (o : fsop) : bool := negb (is_read o).

Definition apply_op (d : dirstate) (o : fsop) : dirstate :=
  match o with
  | Read _ => d
  | OpenTrunc f => dset d f (Partial [])
  | Write f c => match dget d f with
                 | Some s => dset d f (Partial (fbytes s ++ c))
                 | None => dset d f (Partial c)
                 end
  | Close f => match dget d f with
               | Some (Partial b) => dset d f (Complete b)
               | _ => d
               end
  | Remove f => drem d f
  end.
Definition apply (d : dirstate) (ops : list fsop) : dirstate := fold_left apply_op ops d.

(** crash after [k] complete operations; if operation [k] is a [Write] and [j = Some n], its
    first [n] bytes were written as well *)
Definition apply_partial (d : dirstate) (ops : list fsop) (k : nat) (j : option nat) : dirstate :=
  let d' := apply d (firstn k ops) in
  match j, nth_error ops k with
  | Some n, Some (Write f c) => apply_op d' (Write f (firstn n c))
  | _, _ => d'
  end.

Definition cut_points (ops : list fsop) : list (nat * option nat) :=
  flat_map (fun k => (k, None) ::
                     match nth_error ops k with
                     | Some (Write _ c) => map (fun n => (k, Some n)) (seq 0 (S (length c)))
                     | _ => []
                     end) (seq 0 (S (length ops))).
Definition crash_states (d : dirstate) (ops : list fsop) : list dirstate :=
  map (fun kj => apply_partial d ops (fst kj) (snd kj)) (cut_points ops).

(** the file a prefix of the operations leaves open *)
Fixpoint open_file (done : list fsop) (cur : option fname) : option fname :=
  match done with
  | [] => cur
  | OpenTrunc f :: r => open_file r (Some f)
  | Close _ :: r => open_file r None
  | _ :: r => open_file r cur
  end.

(** operation [k] raises OSError (after [j] bytes if it is a write): the [with] block closes
    the file that is open at that point; nothing else is undone *)
Definition apply_exc (d : dirstate) (ops : list fsop) (k : nat) (j : option nat) : dirstate :=
  let d' := apply_partial d ops k j in
  match open_file (firstn k ops) None with
  | Some f => apply_op d' (Close f)
  | None => d'
  end.

(* ------------------------------------------------------------------ *)
(** * File names (in_toto/models/link.py)                                *)

Definition S_dot_link_unfinished : str :=
  [46;108;105;110;107;45;117;110;102;105;110;105;115;104;101;100]%N.  (* .link-unfinished *)
Definition S_private : str := [112;114;105;118;97;116;101]%N.  (* private *)

Definition kid8 (keyid : str) : str := firstn 8 keyid.                                  (* {keyid:.8} *)
(** FILENAME_FORMAT = "{step_name}.{keyid:.8}.link" *)
Definition final_name (step keyid : str) : fname := step ++ 46%N :: kid8 keyid ++ S_dot_link.
(** UNFINISHED_FILENAME_FORMAT = ".{step_name}.{keyid:.8}.link-unfinished" *)
Definition unfinished_name (step keyid : str) : fname :=
  46%N :: step ++ 46%N :: kid8 keyid ++ S_dot_link_unfinished.

Definition has_c (c : N) (s : str) : bool := existsb (N.eqb c) s.
Definition has_sep (s : str) : bool := has_c 47 s.

(** Python s[a:-e] for a >= 0, e > 0 *)
Definition slice_mid (a e : nat) (s : str) : str := firstn (length s - e - a) (skipn a s).

(** glob.escape: each of * ? [ is wrapped in brackets *)
Definition is_magic (c : N) : bool := N.eqb c 42 || N.eqb c 63 || N.eqb c 91.
Definition glob_escape (s : str) : str :=
  flat_map (fun c => if is_magic c then [91%N; c; 93%N] else [c]) s.

(** UNFINISHED_FILENAME_FORMAT_GLOB.format(step_name=glob.escape(step), pattern="*") *)
Definition unfinished_glob (esc : bool) (step : str) : str :=
  46%N :: (if esc then glob_escape step else step) ++ [46; 42]%N ++ S_dot_link_unfinished.

(** glob.glob(<pattern>) in the working directory followed by the dot filter of the D12 fix.
    The pattern starts with a dot, so hidden names are listed; matching is fnmatch (Glob.v) on
    the names of the directory; the slice offsets are computed from the RAW step name's length,
    exactly as in the code.  [esc = true] is the current code (step name escaped, fix D12b);
    [esc = false] / [dotf = false] are the two earlier versions, kept as regression witnesses.
    Step names containing '/' make glob descend into directories: outside the model. *)
Definition glob_unfinished_gen (esc dotf : bool) (d : dirstate) (step : str) : res (list fname) :=
  if has_sep step then Err EUnmodelled else
  let pat := unfinished_glob esc step in
  match parse_glob (S (length pat)) pat with
  | None => Err EUnmodelled
  | Some toks =>
      Ok (filter (fun fn => negb (has_sep fn) && gm toks fn &&
                            (negb dotf || negb (has_c 46 (slice_mid (length step + 2) 16 fn))))
                 (dnames d))
  end.
Definition glob_unfinished := glob_unfinished_gen true true.

(* ------------------------------------------------------------------ *)
(** * Arguments                                                          *)

Record stop_args := mkStopArgs {
  sa_step : str;
  sa_signer : option json;        (* signer.public_key.to_dict() with "keyid" added *)
  sa_signing_key : option json;   (* legacy key dict *)
  sa_gpg_keyid : option str;
  sa_gpg_default : bool;
  sa_mdir : option str;           (* metadata_directory *)
  sa_command : json;              (* JNull = not passed *)
  sa_byproducts : json;
  sa_environment : json
}.

Record start_args := mkStartArgs {
  ta_step : str;
  ta_signer : option json;
  ta_signing_key : option json;
  ta_gpg_keyid : option str;
  ta_gpg_default : bool;
  ta_dsse : bool;
  ta_record_env : bool
}.

Inductive branch :=
| BSigner (pub : json)
| BSigningKey (key : json)
| BGpgKeyid (kid : str)
| BGpgDefault.

Definition is_gpg_branch (b : branch) : bool :=
  match b with BGpgKeyid _ | BGpgDefault => true | _ => false end.

Definition opt_truthy (o : option json) : bool := match o with Some j => jtruthy j | None => false end.
Definition str_truthy (o : option str) : bool := match o with Some (_ :: _) => true | _ => false end.

(** precedence signer > signing_key > gpg_keyid > gpg_use_default; ValueError if none *)
Definition select_branch (signer skey : option json) (gkid : option str) (gdef : bool) : res branch :=
  match signer with
  | Some p => Ok (BSigner p)             (* a Signer object is always truthy *)
  | None =>
      if opt_truthy skey then match skey with Some k => Ok (BSigningKey k) | None => Err EValueError end
      else if str_truthy gkid then match gkid with Some k => Ok (BGpgKeyid k) | None => Err EValueError end
      else if gdef then Ok BGpgDefault
      else Err EValueError
  end.

(** formats._check_signing_key *)
Definition check_signing_key (k : json) : res unit :=
  do _ <- check_public_key k;
  match jget S_keyval k with
  | Some (JDict kv) => match lookup S_private kv with
                       | Some p => if jtruthy p then Ok tt else Err EFormat
                       | None => Err EFormat
                       end
  | _ => Err EUnmodelled
  end.

Definition key_id (k : json) : res str :=
  match jget S_keyid k with Some (JStr s) => Ok s | _ => Err EUnmodelled end.
Definition key_token (k : json) : res str :=
  match jget S_keyval k with
  | Some kv => match jget S_public kv with Some (JStr p) => Ok p | _ => Err EUnmodelled end
  | None => Err EUnmodelled
  end.

(** Link.validate *)
Definition validate_link (l : link) : res unit :=
  match l_byproducts l, l_command l, l_environment l with
  | JDict _, JList _, JDict _ =>
      do _ <- mapM (fun kv => check_hash_dict (snd kv)) (l_materials l);
      do _ <- mapM (fun kv => check_hash_dict (snd kv)) (l_products l);
      Ok tt
  | _, _, _ => Err EFormat
  end.

Inductive signer_m :=
| SgSslib (keyid token : str)       (* CryptoSigner / SSlibSigner: key id put into the signature, public value *)
| SgGpg (keyid : option str).       (* GPGSigner(keyid, homedir) *)

Record written := mkWritten {
  w_unfinished : fname;     (* preliminary file (written by start, removed by stop) *)
  w_final : fname;          (* final link (stop only; = w_unfinished for start) *)
  w_md : metadata;          (* the metadata object that was dumped *)
  w_json : json;            (* its to_dict() *)
  w_bytes : bytes           (* the text written *)
}.

Section Oracles.
  Variable sign : str -> list N -> res (list N).          (* key token -> message -> raw signature *)
  Variable gpg_sign : option str -> list N -> res json.   (* gpg.create_signature(msg, keyid, home) *)
  Variable export_pubkey : str -> res json.               (* gpg.export_pubkey(keyid, home) *)
  Variable sig_ok : str -> list N -> str -> bool.
  Variable dumps : bool -> json -> list N.   (* json.dumps(sort_keys) + utf-8; true = indent=1, (",", ": ") *)
  Variable loads : list N -> option json.    (* json.load / json.loads on bytes *)
  Variable b64enc : list N -> str.
  Variable b64dec : str -> option (list N).
  Variable now_s : Z.

  Definition sslib_sig_json (kid : str) (sb : list N) : json :=
    JDict [(S_keyid, JStr kid); (S_sig, JStr (bytes_to_hex sb))].

  (** Metablock(signed=link) / Envelope.from_signable(link), create_signature(signer), to_dict().
      Returns the object, its dict rendering and the key id of the created signature. *)
  Definition build_signed (dsse : bool) (l : link) (sg : signer_m) : res (metadata * json * str) :=
    if dsse then
      let pbytes := dumps false (link_asdict l) in       (* from_signable does NOT validate *)
      match sg with
      | SgGpg _ => Err ENotImplemented
      | SgSslib kid tok =>
          do sb <- sign tok (pae (utf8 S_envelope_payload_type) pbytes);
          Ok (Envelope pbytes S_envelope_payload_type [sslib_sig_json kid sb] (loads pbytes),
              JDict [(S_payload, JStr (b64enc pbytes)); (S_payloadType, JStr S_envelope_payload_type);
                     (S_signatures, JList [JDict [(S_keyid, JStr kid); (S_sig, JStr (b64enc sb))]])],
              kid)
      end
    else
      do _ <- validate_link l;                           (* Metablock.__init__: self.validate() *)
      do msg <- signable_bytes (link_asdict l);
      do' sk <- match sg with
                | SgSslib kid tok => do sb <- sign tok msg; Ok (sslib_sig_json kid sb, kid)
                | SgGpg kid => do sj <- gpg_sign kid msg;
                               match jget S_keyid sj with Some (JStr k) => Ok (sj, k) | _ => Err EUnmodelled end
                end;
      Ok (Metablock [fst sk] (PLink l),
          JDict [(S_signatures, JList [fst sk]); (S_signed, link_asdict l)], snd sk).

  (** Metablock.dump writes repr (indent 1); Metadata.dump (Envelope) writes compact json.dumps *)
  Definition dump_bytes (m : metadata) (j : json) : bytes :=
    match m with Metablock _ _ => dumps true j | Envelope _ _ _ _ => dumps false j end.

  Definition is_dsse (m : metadata) : bool := match m with Envelope _ _ _ _ => true | _ => false end.

  (* ---------------------------------------------------------------- *)
  (** * in_toto_record_start                                            *)

  Definition S_workdir_k := S_workdir.

  Definition record_start (mats : res amap) (cwd : str) (a : start_args) : res written * list fsop :=
    let r :=
      do br <- select_branch (ta_signer a) (ta_signing_key a) (ta_gpg_keyid a) (ta_gpg_default a);
      do _ <- (if opt_truthy (ta_signing_key a)
               then match ta_signing_key a with Some k => check_signing_key k | None => Ok tt end else Ok tt);
      do m <- mats;
      let env := if ta_record_env a then JDict [(S_workdir, JStr (replace_bs cwd))] else JDict [] in
      let l := mkLink (JStr (ta_step a)) m [] (JDict []) (JList []) env in
      do _ <- validate_link l;                           (* Link.__init__: self.validate() *)
      do sg <- match br with
               | BSigner p => do k <- key_id p; do t <- key_token p; Ok (SgSslib k t)
               | BSigningKey k => do i <- key_id k; do t <- key_token k; Ok (SgSslib i t)
               | BGpgKeyid k => Ok (SgGpg (Some k))
               | BGpgDefault => Ok (SgGpg None)
               end;
      do' mjk <- build_signed (ta_dsse a) l sg;
      let '(md, j, skid) := mjk in
      let u := unfinished_name (ta_step a) skid in
      Ok (mkWritten u u md j (dump_bytes md j)) in
    match r with
    | Err e => (Err e, [])
    | Ok w => (Ok w, [OpenTrunc (w_unfinished w); Write (w_unfinished w) (w_bytes w); Close (w_unfinished w)])
    end.

  (* ---------------------------------------------------------------- *)
  (** * in_toto_record_stop                                             *)

  (** argument checks and the name of the preliminary file (no file is opened yet) *)
  Definition stop_prepare (d : dirstate) (a : stop_args) : res (branch * fname) :=
    do br <- select_branch (sa_signer a) (sa_signing_key a) (sa_gpg_keyid a) (sa_gpg_default a);
    do _ <- (if opt_truthy (sa_signing_key a)
             then match sa_signing_key a with Some k => check_signing_key k | None => Ok tt end else Ok tt);
    do _ <- (if str_truthy (sa_gpg_keyid a)
             then match sa_gpg_keyid a with Some k => if is_hex k then Ok tt else Err EFormat | None => Ok tt end
             else Ok tt);
    match br with
    | BSigner p => do k <- key_id p; Ok (br, unfinished_name (sa_step a) k)
    | BSigningKey key => do k <- key_id key; Ok (br, unfinished_name (sa_step a) k)
    | BGpgKeyid _ | BGpgDefault =>
        do l <- glob_unfinished d (sa_step a);
        match l with
        | [] => Err ELinkNotFound
        | [u] => Ok (br, u)
        | _ :: _ :: _ => Err ELinkNotFound
        end
    end.

  (** verification key and the key id used for the final name and for signing *)
  Definition stop_key (br : branch) (md : metadata) : res (json * str) :=
    match br with
    | BSigner p => do k <- key_id p; Ok (p, k)
    | BSigningKey key => do k <- key_id key; Ok (key, k)
    | BGpgKeyid kid => do pk <- export_pubkey kid; do k <- key_id pk; Ok (pk, k)   (* the MASTER key id *)
    | BGpgDefault =>
        let sigs := match md with Metablock s _ => s | Envelope _ _ s _ => s end in
        match sigs with
        | [] => Err EIndexError
        | s :: _ => do k <- key_id s; do pk <- export_pubkey k; Ok (pk, k)          (* the signature's key id *)
        end
    end.

  Definition stop_signer (br : branch) (vkey : json) (kid : str) : res signer_m :=
    match br with
    | BSigner _ | BSigningKey _ => do t <- key_token vkey; Ok (SgSslib kid t)
    | BGpgKeyid _ | BGpgDefault => Ok (SgGpg (Some kid))
    end.

  Definition finish_link (l : link) (prods : amap) (a : stop_args) : link :=
    mkLink (l_name l) (l_materials l) prods
           (if jtruthy (sa_byproducts a) then sa_byproducts a else l_byproducts l)
           (if jtruthy (sa_command a) then sa_command a else l_command l)
           (if jtruthy (sa_environment a) then sa_environment a else l_environment l).

  Definition final_path (a : stop_args) (kid : str) : fname :=
    match sa_mdir a with
    | Some dir => posix_join dir (final_name (sa_step a) kid)
    | None => final_name (sa_step a) kid
    end.

  (** everything between reading the preliminary file and writing the final link *)
  Definition stop_compute (prods : res amap) (a : stop_args) (br : branch) (u : fname) (pre : bytes)
    : res written :=
    do data <- match loads pre with Some j => Ok j | None => Err EValueError end;
    do md <- from_dict b64dec loads data;
    do' vk <- stop_key br md;
    do _ <- verify_signature sig_ok now_s md (fst vk);
    do p <- get_payload md;
    match p with
    | PLayout _ => Err EUnmodelled      (* attribute assignment on a Layout object: outside the model *)
    | PLink l =>
        do pr <- prods;
        let l' := finish_link l pr a in
        do sg <- stop_signer br (fst vk) (snd vk);
        do' mjk <- build_signed (is_dsse md) l' sg;
        let '(md', j, _) := mjk in
        Ok (mkWritten u (final_path a (snd vk)) md' j (dump_bytes md' j))
    end.

  Definition stop_ops (w : written) : list fsop :=
    [Read (w_unfinished w); OpenTrunc (w_final w); Write (w_final w) (w_bytes w); Close (w_final w);
     Remove (w_unfinished w)].

  Definition record_stop (prods : res amap) (d : dirstate) (a : stop_args) : res written * list fsop :=
    match stop_prepare d a with
    | Err e => (Err e, [])
    | Ok (br, u) =>
        match dget d u with
        | None => (Err EIOError, [Read u])                 (* FileNotFoundError *)
        | Some st =>
            match stop_compute prods a br u (fbytes st) with
            | Err e => (Err e, [Read u])
            | Ok w => (Ok w, stop_ops w)
            end
        end
    end.

  (* ---------------------------------------------------------------- *)
  (** * in_toto_run's only file-system effect (for interleavings)       *)
  Definition run_ops (step keyid : str) (mdir : option str) (b : bytes) : list fsop :=
    let f := match mdir with Some dir => posix_join dir (final_name step keyid) | None => final_name step keyid end in
    [OpenTrunc f; Write f b; Close f].

  (* ---------------------------------------------------------------- *)
  (** * Reading a link file back (what a verifier / the harness does)   *)
  Definition load_link (b : bytes) : res (metadata * link) :=
    do data <- match loads b with Some j => Ok j | None => Err EValueError end;
    do md <- from_dict b64dec loads data;
    do p <- get_payload md;
    match p with PLink l => Ok (md, l) | PLayout _ => Err EUnmodelled end.
End Oracles.

(* ------------------------------------------------------------------ *)
(** * Decidable guards used by the theorems                              *)

(** no path separator in the step name (glob would descend into directories; distinct strings
    could name one file) *)
Definition plain_step (s : str) : bool := negb (has_sep s).
(** a key-id prefix as it appears in a file name: no '.', no '/' (hex ids satisfy it) *)
Definition plain_kid (k : str) : bool := negb (has_c 46 k || has_c 47 k).
(** the optional stop arguments have the types Link.validate expects (the DSSE path does not check) *)
Definition stop_args_wf (a : stop_args) : bool :=
  (match sa_command a with JList _ | JNull => true | _ => negb (jtruthy (sa_command a)) end) &&
  (match sa_byproducts a with JDict _ | JNull => true | _ => negb (jtruthy (sa_byproducts a)) end) &&
  (match sa_environment a with JDict _ | JNull => true | _ => negb (jtruthy (sa_environment a)) end).
