(** Meta.v — in_toto/models: Link, Step, Inspection, Layout, Metablock, Envelope:
    construction from parsed JSON with every _validate_* method, attr.asdict,
    signed bytes, signature lookup and verification (C01 C02 C09 C14). *)
From InToto.Model Require Import Base Json Strs Utf8 Canon Rule Rules Expiry.

(* ------------------------------------------------------------------ *)
(** * formats._check_*                                                   *)

Definition is_hex_char (c : N) : bool :=
  (N.leb 48 c && N.leb c 57) || (N.leb 97 c && N.leb c 102) || (N.leb 65 c && N.leb c 70).
Definition is_hex (s : str) : bool := match s with [] => false | _ => forallb is_hex_char s end.

Definition check_hash_dict (j : json) : res unit :=
  match j with
  | JDict l => if forallb (fun kv => match snd kv with JStr v => is_hex v | _ => false end) l
               then Ok tt else Err EFormat
  | _ => Err EFormat
  end.

(** key dict shapes, following formats._check_public_key:
    GPGKey.from_dict first, Key.from_dict (securesystemslib) as fall-back *)
Inductive kshape := KGpg | KSslib.

Definition has (k : str) (j : json) : bool := match jget k j with Some _ => true | None => false end.
Definition jtruthy (j : json) : bool :=
  match j with
  | JNull => false | JBool b => b | JInt z => negb (Z.eqb z 0) | JFloat _ => true
  | JStr s => match s with [] => false | _ => true end
  | JList l => match l with [] => false | _ => true end
  | JDict l => match l with [] => false | _ => true end
  end.

Definition gpg_fields (j : json) : bool :=
  has S_type j && has S_method j && has S_hashes j && has S_keyval j.

(** Some true: GPGKey.from_dict succeeds; Some false: KeyError/TypeError (fall back);
    None: another exception escapes (crash) *)
Definition gpg_key_shape (j : json) : option bool :=
  if negb (has S_keyid j) then Some false else
  match jget S_subkeys j with
  | Some sk =>
      if jtruthy sk then
        match sk with
        | JDict subs =>
            if forallb (fun kv => match snd kv with JDict _ => gpg_fields (snd kv) | _ => false end) subs
            then (if forallb (fun kv => match snd kv with
                                        | JDict _ => match jget S_subkeys (snd kv) with
                                                     | Some s2 => negb (jtruthy s2) | None => true end
                                        | _ => true end) subs
                  then Some (gpg_fields j) else None (* nested sub-sub-keys: outside the model *))
            else (if forallb (fun kv => match snd kv with JDict _ => true | _ => false end) subs
                  then Some false else None)
        | _ => None                                   (* .items() on a non-dict *)
        end
      else Some (gpg_fields j)
  | None => Some (gpg_fields j)
  end.

Definition sslib_supported (kt sc : str) : bool :=
  (eqs kt S_ed25519 && eqs sc S_ed25519) || (eqs kt S_rsa && eqs sc S_rsassa_pss_sha256)
  || (eqs kt S_ecdsa && eqs sc S_ecdsa_sha2_nistp256).

Definition check_public_key (j : json) : res kshape :=
  match j with
  | JDict _ =>
      match gpg_key_shape j with
      | None => Err EUnmodelled
      | Some true => Ok KGpg
      | Some false =>
          match jget S_keyid j with
          | None => Err EFormat
          | Some (JStr _) =>
              match jget S_keytype j, jget S_scheme j with
              | Some (JStr kt), Some (JStr sc) =>
                  if sslib_supported kt sc then
                    match jget S_keyval j with
                    | None => Err EFormat
                    | Some (JDict kv) =>
                        match lookup S_public kv with
                        | Some (JStr _) => Ok KSslib
                        | _ => Err EValueError
                        end
                    | Some _ => Err EUnmodelled
                    end
                  else Err EUnmodelled      (* other registered schemes / ValueError for unknown ones *)
              | _, _ => Err EUnmodelled
              end
          | Some _ => Err EUnmodelled
          end
      end
  | _ => Err EFormat
  end.

Definition check_public_keys (j : json) : res (list (str * json)) :=
  match j with
  | JDict l =>
      do _ <- mapM (fun kv => if is_hex (fst kv) then (do _ <- check_public_key (snd kv); Ok tt) else Err EFormat) l;
      Ok l
  | _ => Err EFormat
  end.

Inductive sshape := SGpg | SSslib.
Definition check_signature (j : json) : res sshape :=
  match j with
  | JDict _ =>
      if has S_keyid j && has S_signature j && has S_other_headers j then Ok SGpg
      else if has S_keyid j && has S_sig j then Ok SSslib
      else Err EFormat
  | _ => Err EFormat
  end.

(* ------------------------------------------------------------------ *)
(** * Link                                                               *)

Definition jget_default (k : str) (d : json) (j : json) : json :=
  match jget k j with Some v => v | None => d end.

(** Link.read(data) = Link( **data ) + validate *)
Definition read_link (data : json) : res link :=
  match data with
  | JDict _ =>
      let mats := jget_default S_materials (JDict []) data in
      let prods := jget_default S_products (JDict []) data in
      let bypr := jget_default S_byproducts (JDict []) data in
      let cmd := jget_default S_command (JList []) data in
      let env := jget_default S_environment (JDict []) data in
      let name := jget_default S_name JNull data in
      match mats, prods, bypr, cmd, env with
      | JDict m, JDict p, JDict _, JList _, JDict _ =>
          (* validators run in alphabetical order of their names:
             byproducts, command, environment, materials, products, type — all FormatError *)
          do _ <- mapM (fun kv => check_hash_dict (snd kv)) m;
          do _ <- mapM (fun kv => check_hash_dict (snd kv)) p;
          Ok (mkLink name m p bypr cmd env)
      | _, _, _, _, _ => Err EFormat
      end
  | _ => Err ETypeError
  end.

Definition link_asdict (l : link) : json :=
  JDict [(S__type, JStr S_link); (S_name, l_name l); (S_materials, JDict (l_materials l));
         (S_products, JDict (l_products l)); (S_byproducts, l_byproducts l);
         (S_command, l_command l); (S_environment, l_environment l)].

(* ------------------------------------------------------------------ *)
(** * Step, Inspection, Layout                                           *)

Record step := mkStep {
  st_name : str;
  st_em : list json;            (* expected_materials: rules as stored *)
  st_ep : list json;
  st_pubkeys : list str;
  st_cmd : list json;           (* expected_command, elements not validated *)
  st_thr_raw : json             (* JInt or JBool *)
}.
Definition st_threshold (s : step) : Z :=
  match st_thr_raw s with JInt z => z | JBool true => 1%Z | _ => 0%Z end.

Record insp := mkInsp {
  in_name : str;
  in_em : list json;
  in_ep : list json;
  in_run : list json
}.

Record layout := mkLayout {
  ly_steps : list step;
  ly_inspect : list insp;
  ly_keys : list (str * json);
  ly_expires : str;
  ly_expires_us : Z;
  ly_readme : str
}.

Definition check_rules (j : json) : res (list json) :=
  match j with
  | JList l => do _ <- mapM unpack_rule l; Ok l
  | _ => Err EFormat
  end.

(** names: any JSON is accepted by the validators; only strings are modelled *)
Definition read_name (data : json) : res str :=
  match jget_default S_name JNull data with JStr s => Ok s | _ => Err EUnmodelled end.

Definition read_step (data : json) : res step :=
  match data with
  | JDict _ =>
      do name <- read_name data;
      (* validators in alphabetical order: expected_command, expected_materials, expected_products,
         pubkeys, threshold, type *)
      do cmd <- match jget_default S_expected_command (JList []) data with JList l => Ok l | _ => Err EFormat end;
      do em <- check_rules (jget_default S_expected_materials (JList []) data);
      do ep <- check_rules (jget_default S_expected_products (JList []) data);
      do pk <- match jget_default S_pubkeys (JList []) data with
               | JList l => mapM (fun k => match k with JStr s => if is_hex s then Ok s else Err EFormat
                                                   | _ => Err EFormat end) l
               | _ => Err EFormat
               end;
      do thr <- match jget_default S_threshold (JInt 1) data with
                | JInt z => Ok (JInt z) | JBool b => Ok (JBool b) | _ => Err EFormat end;
      Ok (mkStep name em ep pk cmd thr)
  | _ => Err ETypeError
  end.

Definition read_insp (data : json) : res insp :=
  match data with
  | JDict _ =>
      do name <- read_name data;
      do em <- check_rules (jget_default S_expected_materials (JList []) data);
      do ep <- check_rules (jget_default S_expected_products (JList []) data);
      do run <- match jget_default S_run (JList []) data with JList l => Ok l | _ => Err EFormat end;
      Ok (mkInsp name em ep run)
  | _ => Err ETypeError
  end.

Definition step_asdict (s : step) : json :=
  JDict [(S__type, JStr S_step); (S_name, JStr (st_name s)); (S_expected_materials, JList (st_em s));
         (S_expected_products, JList (st_ep s)); (S_pubkeys, jstr_list (st_pubkeys s));
         (S_expected_command, JList (st_cmd s)); (S_threshold, st_thr_raw s)].
Definition insp_asdict (i : insp) : json :=
  JDict [(S__type, JStr S_inspection); (S_name, JStr (in_name i)); (S_expected_materials, JList (in_em i));
         (S_expected_products, JList (in_ep i)); (S_run, JList (in_run i))].
Definition layout_asdict (l : layout) : json :=
  JDict [(S__type, JStr S_layout); (S_steps, JList (map step_asdict (ly_steps l)));
         (S_inspect, JList (map insp_asdict (ly_inspect l))); (S_keys, JDict (ly_keys l));
         (S_expires, JStr (ly_expires l)); (S_readme, JStr (ly_readme l))].

Fixpoint first_dup (seen : list str) (l : list str) : bool :=
  match l with
  | [] => false
  | x :: l' => mem_str x seen || first_dup (x :: seen) l'
  end.

(** Layout.read(data) + validate.  Order of failures among FormatErrors is irrelevant
    (one class); crashes (TypeError for missing steps/inspect) come first as in the code. *)
Definition read_layout (data : json) : res layout :=
  match data with
  | JDict _ =>
      do steps <- match jget S_steps data with
                  | Some (JList l) => mapM read_step l
                  | _ => Err ETypeError
                  end;
      do inspect <- match jget S_inspect data with
                    | Some (JList l) => mapM read_insp l
                    | _ => Err ETypeError
                    end;
      do expires <- match jget S_expires data with
                    | Some (JStr s) => match s with [] => Err EUnmodelled (* default: one month from today *) | _ => Ok s end
                    | Some JNull | None => Err EUnmodelled
                    | Some _ => Err EUnmodelled
                    end;
      do us <- parse_expires expires;
      do keys <- check_public_keys (jget_default S_keys (JDict []) data);
      do readme <- match jget_default S_readme (JStr []) data with JStr s => Ok s | _ => Err EFormat end;
      if first_dup [] (map st_name steps ++ map in_name inspect) then Err EFormat
      else Ok (mkLayout steps inspect keys expires us readme)
  | _ => Err EAttribute
  end.

(* ------------------------------------------------------------------ *)
(** * Metadata containers                                                *)

Inductive payload := PLink (l : link) | PLayout (l : layout).

Definition payload_asdict (p : payload) : json :=
  match p with PLink l => link_asdict l | PLayout l => layout_asdict l end.

Inductive metadata :=
| Metablock (signatures : list json) (signed : payload)
| Envelope (payload_bytes : list N) (payload_type : str) (signatures : list json)
           (parsed : option json).   (* json.loads(payload) as the oracle reports it *)

Section Oracles.
  (** base64 decoding and JSON text parsing are outside the model: finite tables in
      correspondence runs, arbitrary functions in theorems *)
  Variable b64dec : str -> option (list N).
  Variable loads : list N -> option json.
  (** cryptographic validity of a signature value over a message for a key token
      (sslib keys: keyval.public; gpg keys: key id of the selected (sub)key) *)
  Variable sig_ok : str -> list N -> str -> bool.
  (** seconds since the epoch as time.time() reports (gpg key expiry) *)
  Variable now_s : Z.

  Definition bytes_to_hex (b : list N) : str :=
    flat_map (fun c => [hexdigit (c / 16); hexdigit (c mod 16)]%N) b.

  Definition read_payload (data : json) : res payload :=
    match jget S__type data with
    | Some (JStr t) =>
        if eqs t S_link then (do l <- read_link data; Ok (PLink l))
        else if eqs t S_layout then (do l <- read_layout data; Ok (PLayout l))
        else Err EInvalidMetadata
    | _ => Err EInvalidMetadata
    end.

  (** Metadata.from_dict(data) — format detection, construction, validation *)
  Definition from_dict (data : json) : res metadata :=
    match data with
    | JDict _ =>
        if has S_payload data then
          match jget S_payloadType data with
          | Some (JStr pt) =>
              if eqs pt S_envelope_payload_type then
                match jget S_payload data, jget S_signatures data with
                | Some (JStr p64), Some (JList sigs) =>
                    match b64dec p64 with
                    | None => Err EValueError
                    | Some pbytes =>
                        do sigs' <- mapM (fun s =>
                                      match jget S_sig s, jget S_keyid s with
                                      | Some (JStr s64), Some kid =>
                                          match b64dec s64 with
                                          | Some sb => Ok (JDict [(S_keyid, kid); (S_sig, JStr (bytes_to_hex sb))])
                                          | None => Err EValueError
                                          end
                                      | Some (JStr _), None => Err EKeyError
                                      | _, _ => Err EKeyError
                                      end) sigs;
                        Ok (Envelope pbytes pt sigs' (loads pbytes))
                    end
                | _, _ => Err EKeyError
                end
              else Err EInvalidMetadata
          | _ => Err EInvalidMetadata
          end
        else if has S_signed data then
          let sigs := jget_default S_signatures (JList []) data in
          let signed := jget_default S_signed (JDict []) data in
          match signed with
          | JDict _ =>
              do p <- match jget S__type signed with
                      | Some (JStr t) =>
                          if eqs t S_link then (do l <- read_link signed; Ok (PLink l))
                          else if eqs t S_layout then (do l <- read_layout signed; Ok (PLayout l))
                          else Err EFormat
                      | _ => Err EFormat
                      end;
              match sigs with
              | JList sl => do _ <- mapM check_signature sl; Ok (Metablock sl p)
              | _ => Err EFormat
              end
          | _ => Err EAttribute
          end
        else Err EInvalidMetadata
    | JList _ => Err EInvalidMetadata
    | JStr _ => Err EUnmodelled
    | _ => Err ETypeError
    end.

  (** get_payload() *)
  Definition get_payload (m : metadata) : res payload :=
    match m with
    | Metablock _ p => Ok p
    | Envelope _ _ _ parsed =>
        match parsed with
        | Some data => match data with
                       | JDict _ => read_payload data
                       | _ => Err EAttribute
                       end
        | None => Err EValueError
        end
    end.

  (* ---------------------------------------------------------------- *)
  (** * Signature verification                                          *)

  Definition jstr_of (o : option json) : option str :=
    match o with Some (JStr s) => Some s | _ => None end.

  Definition subkey_ids (key : json) : list str :=
    match jget S_subkeys key with Some (JDict l) => map fst l | _ => [] end.

  Definition hex_even (s : str) : bool := forallb is_hex_char s && Nat.even (length s).

  (** securesystemslib.gpg.functions.verify_signature(signature, key, bytes) for a gpg-shaped key.
      GPG_SIGNATURE_SCHEMA.check_match comes first (hex keyid / signature / other_headers, optional hex
      short_keyid: FormatError); then key selection and expiry; the signed digest covers other_headers,
      so the oracle is asked about signature and other_headers together (joined by '|'); an odd number
      of hex digits in other_headers makes unhexlify raise (binascii.Error, a ValueError) *)
  Definition S_short_keyid : str := [115;104;111;114;116;95;107;101;121;105;100]%N.
  Definition gpg_sig_schema_ok (sig : json) : bool :=
    match jget S_keyid sig, jget S_signature sig, jget S_other_headers sig with
    | Some (JStr k), Some (JStr v), Some (JStr oh) =>
        is_hex k && is_hex v && is_hex oh &&
        match jget S_short_keyid sig with
        | None => true
        | Some (JStr sk) => is_hex sk
        | Some _ => false
        end
    | _, _, _ => false
    end.
  (** unhexlify is case-insensitive: the oracle sees lower-case hex *)
  Definition gpg_sig_value (sval oh : str) : str := lower sval ++ 124%N :: lower oh.

  Definition gpg_verify (sig key : json) (msg : list N) : res bool :=
    match jstr_of (jget S_keyid sig), jstr_of (jget S_keyid key), jstr_of (jget S_signature sig) with
    | Some skid, Some mkid, Some sval =>
        if negb (gpg_sig_schema_ok sig) then Err EFormat else
        let oh := match jget S_other_headers sig with Some (JStr o) => o | _ => [] end in
        let sel := match jget S_subkeys key with
                   | Some (JDict subs) => match lookup skid subs with Some k => (skid, k) | None => (mkid, key) end
                   | _ => (mkid, key)
                   end in
        let vk := snd sel in
        let check := if Nat.even (length oh) then Ok (sig_ok (fst sel) msg (gpg_sig_value sval oh)) else Err EValueError in
        match jget S_creation_time vk, jget S_validity_period vk with
        | Some (JInt c), Some (JInt v) =>
            if (negb (Z.eqb c 0) && negb (Z.eqb v 0) && Z.ltb (c + v) now_s)%bool then Err EKeyExpired
            else check
        | _, _ => check
        end
    | _, _, _ => Err EUnmodelled
    end.

  (** securesystemslib SSlibKey.verify_signature with an sslib-shaped key *)
  Definition sslib_verify (sig key : json) (msg : list N) : res bool :=
    match jstr_of (jget S_keyid sig), jstr_of (jget S_keyid key), jstr_of (jget S_sig sig) with
    | Some skid, Some kid, Some sval =>
        (* key id mismatch / bytes.fromhex failure raise VerificationError, a subclass of
           UnverifiedSignatureError: every caller treats it as an invalid signature *)
        if negb (eqs skid kid) then Ok false
        else if negb (hex_even sval) then Ok false
        else match jget S_keyval key with
             | Some kv => match jstr_of (jget S_public kv) with
                          | Some pub => Ok (sig_ok pub msg sval)
                          | None => Err EUnmodelled
                          end
             | None => Err EUnmodelled
             end
    | _, _, _ => Err EUnmodelled
    end.

  Definition signed_bytes_mb (p : payload) : res (list N) := signable_bytes (payload_asdict p).

  (** Metablock.verify_signature / Envelope.verify_signature *)
  Definition verify_signature (m : metadata) (key : json) : res unit :=
    match m with
    | Metablock sigs p =>
        do shape <- check_public_key key;
        match jstr_of (jget S_keyid key) with
        | None => Err EUnmodelled
        | Some kid =>
            let subs := subkey_ids key in
            match find (fun s => match jstr_of (jget S_keyid s) with
                                 | Some k => eqs k kid || mem_str k subs
                                 | None => false end) sigs with
            | None =>
                if forallb (fun s => match jget S_keyid s with Some (JStr _) => true | _ => false end) sigs
                then Err ESignature else Err EUnmodelled
            | Some sig =>
                do msg <- signed_bytes_mb p;
                if has S_signature sig && has S_other_headers sig then
                  match shape with
                  | KGpg => do ok <- gpg_verify sig key msg; if ok then Ok tt else Err ESignature
                  | KSslib => Err EFormat              (* GPG_PUBKEY_SCHEMA.check_match fails *)
                  end
                else
                  match shape with
                  | KGpg => Err EValueError            (* Key.from_dict: unsupported key *)
                  | KSslib =>
                      if has S_sig sig then
                        (do ok <- sslib_verify sig key msg; if ok then Ok tt else Err ESignature)
                      else Err ESignature              (* KeyError swallowed: invalid *)
                  end
            end
        end
    | Envelope pbytes pt sigs _ =>
        match jget S_keyid key with
        | None => Err EKeyError
        | Some (JStr kid) =>
            do shape <- check_public_key key;
            match shape with
            | KGpg => Err EValueError
            | KSslib =>
                let msg := pae (utf8 pt) pbytes in
                if existsb (fun s => match jstr_of (jget S_keyid s) with
                                     | Some k => eqs k kid &&
                                                 match sslib_verify s key msg with Ok true => true | _ => false end
                                     | None => false end) sigs
                then Ok tt else Err ESignature
            end
        | Some _ => Err EUnmodelled
        end
    end.
End Oracles.
