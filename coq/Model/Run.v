(** Run.v — in_toto/runlib.py: in_toto_run as a composition of recording, execution, link
    construction and file naming (C11, C04).  Recording ([record_artifacts_as_dict], C10) and the
    child process are oracles over an abstract world; what is modelled here is the ORDER of the
    observations and the assembly of the link from them. *)
From InToto.Model Require Import Base Json Strs Rule Rules Meta.

(** what running the command did *)
Inductive exec_out (world : Type) :=
| ExOk (w' : world) (rc : Z) (out err : str)   (* the command ran to completion, leaving world w' *)
| ExTimedOut                                    (* subprocess.TimeoutExpired *)
| ExOSError.                                    (* command not found / not executable *)
Arguments ExOk {world} w' rc out err.
Arguments ExTimedOut {world}.
Arguments ExOSError {world}.

Record run_opts := mkRunOpts {
  ro_record_streams : bool;
  ro_workdir : option str;          (* Some cwd iff record_environment *)
  ro_metadata_dir : option str;
  ro_dsse : bool
}.

Definition S_stderr_ : str := [115;116;100;101;114;114]%N.

Section Run.
  Variable world : Type.
  (** record_artifacts_as_dict(material_list / product_list, <the run's options>) in a world *)
  Variable record_materials : world -> res amap.
  Variable record_products : world -> res amap.
  (** the child process *)
  Variable exec : world -> list json -> exec_out world.

  (** execute_link: byproducts; with record_streams off both texts are empty *)
  Definition byproducts_of (o : run_opts) (rc : Z) (out err : str) : json :=
    JDict [(S_stdout, JStr (if ro_record_streams o then out else []));
           (S_stderr_, JStr (if ro_record_streams o then err else []));
           (S_return_value, JInt rc)].

  Definition environment_of (o : run_opts) : json :=
    match ro_workdir o with Some d => JDict [(S_workdir, JStr d)] | None => JDict [] end.

  (** in_toto_run up to the construction of the Link object: (link, world after the command) *)
  Definition run_link (w : world) (name : str) (cmd : list json) (o : run_opts) : res (link * world) :=
    do mats <- record_materials w;                       (* 1. materials BEFORE the command *)
    do' (w', bypr) <-
        match cmd with
        | [] => Ok (w, JDict [])                        (* no command: no byproducts, world unchanged *)
        | _ => if negb (forallb (fun a => match a with JStr _ => true | _ => false end) cmd) then Err EFormat
               else match exec w cmd with                (* 2. the command *)
                    | ExOk w' rc out err => Ok (w', byproducts_of o rc out err)
                    | ExTimedOut => Err ETimeout
                    | ExOSError => Err EIOError
                    end
        end;
    do prods <- record_products w';                      (* 3. products AFTER the command *)
    Ok (mkLink (JStr name) mats prods bypr (JList cmd) (environment_of o), w').

  (** "{step_name}.{keyid:.8}.link", in the metadata directory if one was given *)
  Definition link_file_name (name signing_keyid : str) (o : run_opts) : str :=
    let fn := name ++ [46%N] ++ take 8 signing_keyid ++ S_dot_link in
    match ro_metadata_dir o with
    | Some d => posix_join d fn
    | None => fn
    end.
End Run.
