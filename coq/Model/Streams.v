(** Streams.v — model of [in_toto/runlib.py: _subprocess_run_duplicate_streams] and [execute_link]
    (property C13: recorded stdout / stderr / exit status are exact under every output schedule).

    What is modelled, statement by statement:
    - two capture files made by [tempfile.mkstemp] ([Mk SOut], [Mk SErr]) and removed in the [finally] block;
    - [subprocess.Popen] (may raise OSError: [popen_ok = false]);
    - the poll loop  [while proc.poll() is None: <timeout test>; _duplicate_streams()];
    - the drain      [while _duplicate_streams(): pass]  and the flush  [_duplicate_streams(final=True)];
    - [_duplicate_streams]: one [BufferedReader.read(io.DEFAULT_BUFFER_SIZE)] of each capture file at its
      reader offset (a regular file: the read returns min(N, bytes available) bytes), decoded by
      [io.IncrementalNewlineDecoder(codecs.getincrementaldecoder("utf-8")(), translate=True).decode(bytes, final)];
    - the child process and the clock are the *schedule*: a list of events.

    The LEGACY reader (before the two repairs b7aa559 / d7ffa72: text-mode [TextIOWrapper.read(n)], one
    single read after exit) is kept as [run_legacy]; Props/C13.v refutes the property on it.

    No proofs in this file. *)
From InToto.Model Require Import Base Utf8.
Local Open Scope N_scope.

Definition bytes := list N.

(* ------------------------------------------------------------------------------------------ *)
(** * Strict incremental UTF-8 decoder (CPython 3.12 [codecs.utf_8_decode(data, "strict", final)])

    [u8_step p b]: the decoder holds the bytes [p] of an incomplete character (0..3 bytes) and sees byte [b]:
    [None] = UnicodeDecodeError, [Some (p', e)] = new held bytes and the emitted code points (none or one).
    CPython checks a truncated sequence eagerly: E0 must be followed by A0..BF, F0 by 90..BF, F4 by 80..8F, and
    every other lead byte by 80..BF, already when only two bytes are there; the one exception (observed on the
    interpreter, all 2- and 3-byte inputs enumerated by the C13 check) is ED A0..BF — an encoded surrogate —
    which is held back and rejected only when the third byte (or the final flag) arrives. *)
Definition is_cont (b : N) : bool := (128 <=? b) && (b <=? 191).

Definition u8_step (p : bytes) (b : N) : option (bytes * str) :=
  match p with
  | [] =>
      if b <? 128 then Some ([], [b])
      else if (194 <=? b) && (b <=? 244) then Some ([b], [])
      else None
  | [l] =>
      if l <? 224 then
        if is_cont b then Some ([], [(l - 192) * 64 + (b - 128)]) else None
      else if l <? 240 then
        if is_cont b && negb ((l =? 224) && (b <? 160)) then Some ([l; b], []) else None
      else
        if is_cont b && negb ((l =? 240) && (b <? 144)) && negb ((l =? 244) && (144 <=? b))
        then Some ([l; b], []) else None
  | [l; b1] =>
      if l <? 240 then
        if is_cont b && negb ((l =? 237) && (160 <=? b1))
        then Some ([], [(l - 224) * 4096 + (b1 - 128) * 64 + (b - 128)]) else None
      else
        if is_cont b then Some ([l; b1; b], []) else None
  | [l; b1; b2] =>
      if is_cont b then Some ([], [(l - 240) * 262144 + (b1 - 128) * 4096 + (b2 - 128) * 64 + (b - 128)])
      else None
  | _ => None
  end.

Fixpoint u8_feed (p : bytes) (bs : bytes) : option (bytes * str) :=
  match bs with
  | [] => Some (p, [])
  | b :: r =>
      match u8_step p b with
      | None => None
      | Some (p', e) =>
          match u8_feed p' r with
          | None => None
          | Some (p'', t) => Some (p'', e ++ t)
          end
      end
  end.

(** [codecs.BufferedIncrementalDecoder.decode]:  data = self.buffer + input;  decode;  buffer = data[consumed:] *)
Definition utf8_step (pending chunk : bytes) : option (bytes * str) := u8_feed [] (pending ++ chunk).

(** with [final=True] an incomplete character at the end is an error too *)
Definition utf8_final (pending : bytes) : bool := match pending with [] => true | _ => false end.

Definition utf8_decode_inc (pending chunk : bytes) (final : bool) : option (bytes * str) :=
  match utf8_step pending chunk with
  | None => None
  | Some (p', t) => if final then (if utf8_final p' then Some ([], t) else None) else Some (p', t)
  end.

(** whole-string strict decode: [bytes.decode("utf-8")] *)
Definition utf8_decode (bs : bytes) : option str :=
  match u8_feed [] bs with
  | Some ([], t) => Some t
  | _ => None
  end.

(* ------------------------------------------------------------------------------------------ *)
(** * Universal newlines *)

(** [s.replace("\r\n", "\n")] *)
Fixpoint replace_crlf (s : str) : str :=
  match s with
  | [] => []
  | c :: t =>
      if c =? 13 then
        match t with
        | d :: r => if d =? 10 then 10 :: replace_crlf r else c :: replace_crlf t
        | [] => [c]
        end
      else c :: replace_crlf t
  end.

(** what a text-mode stream gives for the whole text: CR LF -> LF, then CR -> LF *)
Definition translate (s : str) : str := replace_c 13 10 (replace_crlf s).

Definition is_nil {A} (l : list A) : bool := match l with [] => true | _ => false end.

(** [io.IncrementalNewlineDecoder.decode] after the inner decoder produced [o] (translate=True):
<<
    if self.pendingcr and (output or final): output = "\r" + output; self.pendingcr = False
    if output.endswith("\r") and not final:  output = output[:-1];   self.pendingcr = True
    output = output.replace("\r\n", "\n").replace("\r", "\n")
>> *)
Definition nl_decode (pendingcr : bool) (o : str) (final : bool) : str * bool :=
  let fire := pendingcr && (negb (is_nil o) || final) in
  let o1 := if fire then 13 :: o else o in
  let p1 := if fire then false else pendingcr in
  if ends_with_c 13 o1 && negb final then (translate (removelast o1), true)
  else (translate o1, p1).

(** the reference: the text a byte string stands for *)
Definition text_of (bs : bytes) : option str :=
  match utf8_decode bs with
  | Some t => Some (translate t)
  | None => None
  end.

(* ------------------------------------------------------------------------------------------ *)
(** * Capture files and readers *)

(** at most [n] elements from the front, and the rest (BufferedReader.read(n) on a regular file) *)
Fixpoint takeN {A} (n : N) (l : list A) : list A * list A :=
  match l with
  | [] => ([], [])
  | x :: r => if n =? 0 then ([], l) else let '(a, b) := takeN (N.pred n) r in (x :: a, b)
  end.

Fixpoint lengthN {A} (l : list A) : N := match l with [] => 0 | _ :: r => N.succ (lengthN r) end.

(** one captured stream: the part of the file that was written but not read yet, the reader's offset,
    the decoder state (held bytes, pendingcr) and the text accumulated in [streams["out"/"err"]].
    The file content is (the [off] bytes already read) ++ [unread]. *)
Record sstate := mkS { unread : bytes; off : N; pend : bytes; pcr : bool; acc : str }.

Definition s_init : sstate := mkS [] 0 [] false [].

Definition s_append (s : sstate) (b : bytes) : sstate :=
  mkS (unread s ++ b) (off s) (pend s) (pcr s) (acc s).

Definition s_read (n : N) (s : sstate) : bytes * sstate :=
  let '(c, u) := takeN n (unread s) in (c, mkS u (off s + lengthN c) (pend s) (pcr s) (acc s)).

(** decoder.decode(chunk, final); streams[..] += part *)
Definition s_decode (s : sstate) (c : bytes) (final : bool) : option (sstate * str) :=
  match utf8_decode_inc (pend s) c final with
  | None => None
  | Some (p', o) =>
      let '(t, cr') := nl_decode (pcr s) o final in
      Some (mkS (unread s) (off s) p' cr' (acc s ++ t), t)
  end.

Inductive stream := SOut | SErr.
Inductive event :=
| Append (s : stream) (b : bytes)   (* the child writes b to its stdout / stderr *)
| Poll                              (* proc.poll() returned None: one loop iteration *)
| Exit (rc : Z)                     (* the child exits; the next proc.poll() returns rc *)
| Tick (dt : Z).                    (* the clock advances (time.time()) *)

Inductive outcome :=
| Done (rc : Z) (out err : str)     (* return proc.poll(), streams["out"], streams["err"] *)
| TimedOut                          (* subprocess.TimeoutExpired *)
| DecodeErr                         (* UnicodeDecodeError *)
| OsErr                             (* Popen raised OSError (command not found / not executable) *)
| Unfinished                        (* the schedule ends while the child runs and the parent polls *)
| OutOfFuel.                        (* never happens (StreamsProofs.run_never_out_of_fuel) *)

(** externally visible actions, in order *)
Inductive effect :=
| Mk (s : stream)                   (* tempfile.mkstemp() *)
| Rm (s : stream)                   (* os.remove(name) *)
| RmFail (s : stream)               (* os.remove(name) raised: the file stays *)
| Spawn
| Dup (o e : str)                   (* sys.stdout.write(o); sys.stderr.write(e) *)
| Kill | Wait.

Record cfg := mkCfg {
  chunk : N;                        (* io.DEFAULT_BUFFER_SIZE *)
  timeout : option Z;               (* None: no time limit *)
  t0 : Z;                           (* proc_start_time = time.time() *)
  popen_ok : bool;                  (* false: Popen raises OSError *)
  mk1_ok : bool; mk2_ok : bool;     (* false: the 1st / 2nd tempfile.mkstemp() raises *)
  rm_out_ok : bool; rm_err_ok : bool }.  (* false: os.remove of that capture file raises (not PermissionError) *)

Record state := mkSt { s_out : sstate; s_err : sstate; now : Z }.
Definition st_init (c : cfg) : state := mkSt s_init s_init (t0 c).

(** [time.time() > proc_start_time + timeout] *)
Definition expired (c : cfg) (st : state) : bool :=
  match timeout c with
  | Some t => Z.gtb (now st) (t0 c + t)
  | None => false
  end.

(** [_duplicate_streams(final)]: both reads, then both decodes; returns the new state,
    [bool(stdout_bytes or stderr_bytes)] and the two parts written to the parent's streams *)
Definition dup (n : N) (st : state) (final : bool) : option (state * bool * (str * str)) :=
  let '(co, so1) := s_read n (s_out st) in
  let '(ce, se1) := s_read n (s_err st) in
  match s_decode so1 co final with
  | None => None
  | Some (so2, po) =>
      match s_decode se1 ce final with
      | None => None
      | Some (se2, pe) => Some (mkSt so2 se2 (now st), negb (is_nil co) || negb (is_nil ce), (po, pe))
      end
  end.

(** [while _duplicate_streams(): pass] *)
Inductive dres := DrErr | DrFuel | DrOk (st : state).

Fixpoint drain (fuel : nat) (n : N) (st : state) : dres * list effect :=
  match fuel with
  | O => (DrFuel, [])
  | S f =>
      match dup n st false with
      | None => (DrErr, [])
      | Some (st', more, (po, pe)) =>
          if more then let '(r, fx) := drain f n st' in (r, Dup po pe :: fx)
          else (DrOk st', [Dup po pe])
      end
  end.

Definition drain_fuel (st : state) : nat := S (length (unread (s_out st)) + length (unread (s_err st))).

(** the code after the loop, the child having exited with [rc] *)
Definition after_exit (c : cfg) (st : state) (rc : Z) : outcome * list effect :=
  match drain (drain_fuel st) (chunk c) st with
  | (DrErr, fx) => (DecodeErr, fx)
  | (DrFuel, fx) => (OutOfFuel, fx)
  | (DrOk st1, fx) =>
      match dup (chunk c) st1 true with
      | None => (DecodeErr, fx)
      | Some (st2, _, (po, pe)) => (Done rc (acc (s_out st2)) (acc (s_err st2)), fx ++ [Dup po pe])
      end
  end.

Definition st_append (st : state) (s : stream) (b : bytes) : state :=
  match s with
  | SOut => mkSt (s_append (s_out st) b) (s_err st) (now st)
  | SErr => mkSt (s_out st) (s_append (s_err st) b) (now st)
  end.

(** the poll loop over the schedule *)
Fixpoint loop (c : cfg) (st : state) (sched : list event) : outcome * list effect :=
  match sched with
  | [] => (Unfinished, [])
  | Append s b :: r => loop c (st_append st s b) r
  | Tick dt :: r => loop c (mkSt (s_out st) (s_err st) (now st + dt)%Z) r
  | Poll :: r =>
      if expired c st then (TimedOut, [Kill; Wait])          (* proc.kill(); proc.wait(); raise *)
      else match dup (chunk c) st false with
           | None => (DecodeErr, [])
           | Some (st', _, (po, pe)) => let '(o, fx) := loop c st' r in (o, Dup po pe :: fx)
           end
  | Exit rc :: _ => after_exit c st rc
  end.

(** body of the [try]: Popen, then the loop *)
Definition body (c : cfg) (sched : list event) : outcome * list effect :=
  if popen_ok c then let '(o, fx) := loop c (st_init c) sched in (o, Spawn :: fx)
  else (OsErr, []).

(** finally:  try: _remove_capture_file(stdout_name)  finally: _remove_capture_file(stderr_name)
    — an exception raised by a removal replaces the result of the body *)
Definition finally_rm (c : cfg) (r : outcome * list effect) : outcome * list effect :=
  let '(o, fx) := r in
  (if rm_out_ok c && rm_err_ok c then o else OsErr,
   fx ++ [if rm_out_ok c then Rm SOut else RmFail SOut; if rm_err_ok c then Rm SErr else RmFail SErr]).

(** mkstemp;  try: mkstemp  except: remove the first, re-raise;   try: body  finally: remove both *)
Definition run (c : cfg) (sched : list event) : outcome * list effect :=
  if negb (mk1_ok c) then (OsErr, [])
  else if negb (mk2_ok c) then (OsErr, [Mk SOut; Rm SOut])
  else let '(o, fx) := finally_rm c (body c sched) in (o, Mk SOut :: Mk SErr :: fx).

(* ------------------------------------------------------------------------------------------ *)
(** * What the schedule says (used by the statements) *)

(** bytes the child wrote to [s] before it exited *)
Fixpoint written (s : stream) (sched : list event) : bytes :=
  match sched with
  | [] => []
  | Append s' b :: r =>
      match s, s' with
      | SOut, SOut | SErr, SErr => b ++ written s r
      | _, _ => written s r
      end
  | Exit _ :: _ => []
  | _ :: r => written s r
  end.

Fixpoint exit_code (sched : list event) : option Z :=
  match sched with
  | [] => None
  | Exit rc :: _ => Some rc
  | _ :: r => exit_code r
  end.

(** some loop iteration, while the child is running, sees the clock past the limit *)
Fixpoint deadline_hit_from (c : cfg) (t : Z) (sched : list event) : bool :=
  match sched with
  | [] => false
  | Tick dt :: r => deadline_hit_from c (t + dt)%Z r
  | Poll :: r => match timeout c with
                 | Some lim => if Z.gtb t (t0 c + lim) then true else deadline_hit_from c t r
                 | None => deadline_hit_from c t r
                 end
  | Exit _ :: _ => false
  | Append _ _ :: r => deadline_hit_from c t r
  end.
Definition deadline_hit (c : cfg) (sched : list event) : bool := deadline_hit_from c (t0 c) sched.

(** temp-file bookkeeping over an effect trace *)
Definition stream_eqb (a b : stream) : bool :=
  match a, b with SOut, SOut | SErr, SErr => true | _, _ => false end.
Definition created (fx : list effect) : list stream :=
  flat_map (fun e => match e with Mk s => [s] | _ => [] end) fx.
Fixpoint live (fx : list effect) (files : list stream) : list stream :=
  match fx with
  | [] => files
  | Mk s :: r => live r (files ++ [s])
  | Rm s :: r => live r (filter (fun x => negb (stream_eqb x s)) files)
  | RmFail _ :: r => live r files
  | _ :: r => live r files
  end.

(* ------------------------------------------------------------------------------------------ *)
(** * execute_link *)

(** [subprocess.run(cmd, timeout=..., stdout=DEVNULL, stderr=DEVNULL)] is an oracle *)
Inductive run_result := RunDone (rc : Z) | RunTimeout | RunOsErr.

Definition execute_link (record_streams : bool) (c : cfg) (sched : list event) (r : run_result)
  : outcome * list effect :=
  if record_streams then run c sched
  else match r with
       | RunDone rc => (Done rc [] [], [])
       | RunTimeout => (TimedOut, [])
       | RunOsErr => (OsErr, [])
       end.

(* ------------------------------------------------------------------------------------------ *)
(** * LEGACY reader (code before the fix commits b7aa559 and d7ffa72)

    The capture files were opened in text mode.  [TextIOWrapper.read(n)] (CPython [_io_TextIOWrapper_read_impl]):
<<
      result = take n of the decoded-but-unreturned characters;  remaining = n - len(result)
      while remaining > 0:
          size  = max(self._CHUNK_SIZE, int(max(b2cratio, 1.0) * remaining))
          input = buffer.read1(size);   eof = not input
          chars = decoder.decode(input, final=eof)          # <- a momentary end of file FLUSHES the decoder
          b2cratio = len(input) / len(chars) if chars else 0.0
          if not chars and eof: break
          result += take remaining of chars;  remaining -= ...
>>
    and after the loop there was ONE [_duplicate_streams()] (one read of at most n characters), no flush.
    [b2cratio] is kept as the exact fraction (bytes, chars) (CPython uses a double). *)
Record lstate := mkL { l_unread : bytes; l_pend : bytes; l_pcr : bool; l_chars : str; l_b2c : N * N; l_acc : str }.
Definition l_init : lstate := mkL [] [] false [] (0, 0) [].

Definition size_hint (b2c : N * N) (remaining : N) : N :=
  let '(nb, nc) := b2c in
  if (nc =? 0) || (nb <=? nc) then remaining else (nb * remaining) / nc.

(** the [while remaining > 0] loop; [got] = characters collected by this call *)
Fixpoint l_read_loop (fuel : nat) (cs : N) (remaining : N) (s : lstate) (got : str) : option (lstate * str) :=
  match fuel with
  | O => Some (s, got)
  | S f =>
      if remaining =? 0 then Some (s, got) else
      let size := N.max cs (size_hint (l_b2c s) remaining) in
      let '(input, u) := takeN size (l_unread s) in
      let eof := is_nil input in
      match utf8_decode_inc (l_pend s) input eof with
      | None => None
      | Some (p', o) =>
          let '(chars, cr') := nl_decode (l_pcr s) o eof in
          let nb := lengthN input in
          let nc := lengthN chars in
          let b2c := if nc =? 0 then (0, 0) else (nb, nc) in
          if is_nil chars && eof then Some (mkL u p' cr' [] b2c (l_acc s), got)
          else
            let '(a, rest) := takeN remaining chars in
            l_read_loop f cs (remaining - lengthN a) (mkL u p' cr' rest b2c (l_acc s)) (got ++ a)
      end
  end.

(** [reader.read(n)]; streams[..] += part *)
Definition l_read (cs n : N) (s : lstate) : option (lstate * str) :=
  let '(a, rest) := takeN n (l_chars s) in
  match l_read_loop (S (S (length (l_unread s)))) cs (n - lengthN a)
                    (mkL (l_unread s) (l_pend s) (l_pcr s) rest (l_b2c s) (l_acc s)) a with
  | None => None
  | Some (s', part) =>
      Some (mkL (l_unread s') (l_pend s') (l_pcr s') (l_chars s') (l_b2c s') (l_acc s' ++ part), part)
  end.

Record lst := mkLSt { l_out : lstate; l_err : lstate; l_now : Z }.

Definition l_dup (cs n : N) (st : lst) : option (lst * (str * str)) :=
  match l_read cs n (l_out st) with
  | None => None
  | Some (so, po) =>
      match l_read cs n (l_err st) with
      | None => None
      | Some (se, pe) => Some (mkLSt so se (l_now st), (po, pe))
      end
  end.

Definition l_append (st : lst) (s : stream) (b : bytes) : lst :=
  let app := fun x => mkL (l_unread x ++ b) (l_pend x) (l_pcr x) (l_chars x) (l_b2c x) (l_acc x) in
  match s with
  | SOut => mkLSt (app (l_out st)) (l_err st) (l_now st)
  | SErr => mkLSt (l_out st) (app (l_err st)) (l_now st)
  end.

(** [drain_all = false]: the original code (one read after exit);
    [drain_all = true]: after b7aa559 only (read until nothing comes, still text mode) *)
Fixpoint l_drain (fuel : nat) (cs n : N) (st : lst) : option lst * list effect :=
  match fuel with
  | O => (Some st, [])
  | S f =>
      match l_dup cs n st with
      | None => (None, [])
      | Some (st', (po, pe)) =>
          if is_nil po && is_nil pe then (Some st', [Dup po pe])
          else let '(r, fx) := l_drain f cs n st' in (r, Dup po pe :: fx)
      end
  end.

Fixpoint l_loop (drain_all : bool) (cs : N) (c : cfg) (st : lst) (sched : list event) : outcome * list effect :=
  match sched with
  | [] => (Unfinished, [])
  | Append s b :: r => l_loop drain_all cs c (l_append st s b) r
  | Tick dt :: r => l_loop drain_all cs c (mkLSt (l_out st) (l_err st) (l_now st + dt)%Z) r
  | Poll :: r =>
      if match timeout c with Some t => Z.gtb (l_now st) (t0 c + t) | None => false end
      then (TimedOut, [Kill; Wait])
      else match l_dup cs (chunk c) st with
           | None => (DecodeErr, [])
           | Some (st', (po, pe)) => let '(o, fx) := l_loop drain_all cs c st' r in (o, Dup po pe :: fx)
           end
  | Exit rc :: _ =>
      if drain_all then
        match l_drain (4 + length (l_unread (l_out st)) + length (l_unread (l_err st))
                         + length (l_chars (l_out st)) + length (l_chars (l_err st)))%nat cs (chunk c) st with
        | (None, fx) => (DecodeErr, fx)
        | (Some st', fx) => (Done rc (l_acc (l_out st')) (l_acc (l_err st')), fx)
        end
      else
        match l_dup cs (chunk c) st with
        | None => (DecodeErr, [])
        | Some (st', (po, pe)) => (Done rc (l_acc (l_out st')) (l_acc (l_err st')), [Dup po pe])
        end
  end.

(** TextIOWrapper._CHUNK_SIZE *)
Definition text_chunk_size : N := 8192.

(** legacy resource shape (before ee285b9): both mkstemp calls before the [try]; the cleanup loop
    [for name in (stdout_name, stderr_name): os.remove(name)] stops at the first failing removal *)
Definition run_legacy_gen (drain_all : bool) (c : cfg) (sched : list event) : outcome * list effect :=
  if negb (mk1_ok c) then (OsErr, [])
  else if negb (mk2_ok c) then (OsErr, [Mk SOut])
  else
    let '(o, fx) :=
      if popen_ok c then
        let '(o, fx) := l_loop drain_all text_chunk_size c (mkLSt l_init l_init (t0 c)) sched in
        (o, Spawn :: fx)
      else (OsErr, []) in
    if rm_out_ok c then
      (if rm_err_ok c then o else OsErr, [Mk SOut; Mk SErr] ++ fx ++ [Rm SOut; if rm_err_ok c then Rm SErr else RmFail SErr])
    else (OsErr, [Mk SOut; Mk SErr] ++ fx ++ [RmFail SOut]).

Definition run_legacy := run_legacy_gen false.
