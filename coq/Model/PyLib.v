(** PyLib.v — semantics of the Python expression fragment that tools/pytrans.py
    translates shallowly into Gallina (back end 2, "Fun").  Every Python value is a
    [pyval]; every operation that can raise returns [res].  This file is part of
    the trusted base of the translator tie (it says what the translated Python
    constructs mean); it is cross-checked by the correspondence check, which does
    not go through it. *)
From InToto.Model Require Import Base Json Utf8.

Inductive pyval :=
| VNone
| VBool (b : bool)
| VInt (z : Z)
| VStr (s : str)
| VList (l : list pyval)
| VSet (l : list pyval)                 (* duplicate-free, order irrelevant for == *)
| VDict (l : list (pyval * pyval)).

Definition truthy (v : pyval) : bool :=
  match v with
  | VNone => false
  | VBool b => b
  | VInt z => negb (Z.eqb z 0)
  | VStr s => match s with [] => false | _ => true end
  | VList l | VSet l => match l with [] => false | _ => true end
  | VDict l => match l with [] => false | _ => true end
  end.

Section Mem.
  Variable eqb : pyval -> pyval -> bool.
  Fixpoint pv_mem (x : pyval) (l : list pyval) : bool :=
    match l with [] => false | y :: l' => eqb x y || pv_mem x l' end.
  Fixpoint pv_assoc (x : pyval) (l : list (pyval * pyval)) : option pyval :=
    match l with [] => None | (k, v) :: l' => if eqb x k then Some v else pv_assoc x l' end.
End Mem.

(** Python [==] *)
Fixpoint pv_eqb (a b : pyval) : bool :=
  match a, b with
  | VNone, VNone => true
  | VBool x, VBool y => Bool.eqb x y
  | VBool x, VInt y | VInt y, VBool x => Z.eqb (if x then 1 else 0) y
  | VInt x, VInt y => Z.eqb x y
  | VStr x, VStr y => eqs x y
  | VList x, VList y =>
      (fix go (x y : list pyval) : bool :=
         match x, y with
         | [], [] => true
         | a :: x', b :: y' => pv_eqb a b && go x' y'
         | _, _ => false
         end) x y
  | VSet x, VSet y =>
      Nat.eqb (length x) (length y) &&
      (fix go (x : list pyval) : bool :=
         match x with
         | [] => true
         | a :: x' => (fix mem (y : list pyval) : bool :=
                         match y with [] => false | b :: y' => pv_eqb a b || mem y' end) y && go x'
         end) x
  | VDict x, VDict y =>
      Nat.eqb (length x) (length y) &&
      (fix go (x : list (pyval * pyval)) : bool :=
         match x with
         | [] => true
         | (ka, a) :: x' =>
             (fix find (y : list (pyval * pyval)) : bool :=
                match y with
                | [] => false
                | (kb, b) :: y' => if pv_eqb ka kb then pv_eqb a b else find y'
                end) y && go x'
         end) x
  | _, _ => false
  end.

Definition vb (b : bool) : pyval := VBool b.
Definition py_eq (a b : pyval) : res pyval := Ok (vb (pv_eqb a b)).
Definition py_ne (a b : pyval) : res pyval := Ok (vb (negb (pv_eqb a b))).

Definition as_int (v : pyval) : option Z :=
  match v with VInt z => Some z | VBool b => Some (if b then 1 else 0)%Z | _ => None end.

Definition py_cmp (f : Z -> Z -> bool) (a b : pyval) : res pyval :=
  match as_int a, as_int b with
  | Some x, Some y => Ok (vb (f x y))
  | _, _ => Err ETypeError
  end.
Definition py_lt := py_cmp Z.ltb.
Definition py_le := py_cmp Z.leb.
Definition py_gt := py_cmp Z.gtb.
Definition py_ge := py_cmp Z.geb.

Definition py_len (v : pyval) : res pyval :=
  match v with
  | VStr s => Ok (VInt (Z.of_nat (length s)))
  | VList l | VSet l => Ok (VInt (Z.of_nat (length l)))
  | VDict l => Ok (VInt (Z.of_nat (length l)))
  | _ => Err ETypeError
  end.

(** x in c *)
Definition py_in (x c : pyval) : res pyval :=
  match c with
  | VList l | VSet l => Ok (vb (pv_mem pv_eqb x l))
  | VDict l => Ok (vb (pv_mem pv_eqb x (map fst l)))
  | VStr _ => Err EUnmodelled
  | _ => Err ETypeError
  end.
Definition py_not_in (x c : pyval) : res pyval :=
  do r <- py_in x c; Ok (vb (negb (truthy r))).

Definition py_not (v : pyval) : pyval := vb (negb (truthy v)).

(** c[i] with a literal or computed index *)
Fixpoint pos_nat (p : positive) : nat :=
  match p with xH => 1 | xO q => 2 * pos_nat q | xI q => S (2 * pos_nat q) end.
Definition znat (z : Z) : nat := match z with Zpos p => pos_nat p | _ => 0 end.
Definition norm_index (i : Z) (len : nat) : option nat :=
  if (0 <=? i)%Z then (if (i <? Z.of_nat len)%Z then Some (znat i) else None)
  else (if (0 <=? Z.of_nat len + i)%Z then Some (znat (Z.of_nat len + i)) else None).

Definition py_index (c i : pyval) : res pyval :=
  match c with
  | VList l =>
      match as_int i with
      | Some z => match norm_index z (length l) with
                  | Some n => match nth_error l n with Some v => Ok v | None => Err EIndexError end
                  | None => Err EIndexError
                  end
      | None => Err ETypeError
      end
  | VStr s =>
      match as_int i with
      | Some z => match norm_index z (length s) with
                  | Some n => match nth_error s n with Some ch => Ok (VStr [ch]) | None => Err EIndexError end
                  | None => Err EIndexError
                  end
      | None => Err ETypeError
      end
  | VDict l => match pv_assoc pv_eqb i l with Some v => Ok v | None => Err EKeyError end
  | _ => Err ETypeError
  end.

(** c[lo:] *)
Definition py_slice_from (c lo : pyval) : res pyval :=
  match as_int lo with
  | Some z =>
      if (z <? 0)%Z then Err EUnmodelled else
      match c with
      | VStr s => Ok (VStr (skipn (znat z) s))
      | VList l => Ok (VList (skipn (znat z) l))
      | _ => Err ETypeError
      end
  | None => Err ETypeError
  end.

Definition py_add (a b : pyval) : res pyval :=
  match a, b with
  | VStr x, VStr y => Ok (VStr (x ++ y))
  | VList x, VList y => Ok (VList (x ++ y))
  | _, _ => match as_int a, as_int b with
            | Some x, Some y => Ok (VInt (x + y))
            | _, _ => Err ETypeError
            end
  end.

(** methods *)
Definition py_lower (v : pyval) : res pyval :=
  match v with VStr s => Ok (VStr (lower s)) | _ => Err EAttribute end.
Definition py_upper (v : pyval) : res pyval :=
  match v with VStr s => if is_ascii s then Ok (VStr (upper s)) else Err EUnmodelled | _ => Err EAttribute end.
Definition py_startswith (v p : pyval) : res pyval :=
  match v, p with
  | VStr s, VStr q => Ok (vb (starts_with q s))
  | VStr _, _ => Err ETypeError
  | _, _ => Err EAttribute
  end.
(** s.replace(a, b) for single-character a, b *)
Definition py_replace1 (v a b : pyval) : res pyval :=
  match v, a, b with
  | VStr s, VStr [x], VStr [y] => Ok (VStr (replace_c x y s))
  | VStr _, _, _ => Err EUnmodelled
  | _, _, _ => Err EAttribute
  end.
Definition py_append (v x : pyval) : res pyval :=
  match v with VList l => Ok (VList (l ++ [x])) | _ => Err EAttribute end.
Definition py_keys (v : pyval) : res pyval :=
  match v with VDict l => Ok (VSet (map fst l)) | _ => Err EAttribute end.
Definition py_get (v k d : pyval) : res pyval :=
  match v with
  | VDict l => Ok (match pv_assoc pv_eqb k l with Some x => x | None => d end)
  | _ => Err EAttribute
  end.

(** isinstance(x, T) *)
Inductive pytype := TStr | TInt | TList | TDict | TBool.
Definition py_isinstance (v : pyval) (t : pytype) : pyval :=
  vb (match t, v with
      | TStr, VStr _ => true
      | TInt, VInt _ | TInt, VBool _ => true      (* bool is a subclass of int *)
      | TBool, VBool _ => true
      | TList, VList _ => true
      | TDict, VDict _ => true
      | _, _ => false
      end).

(** sets *)
Fixpoint pv_dedup (l : list pyval) : list pyval :=
  match l with
  | [] => []
  | x :: l' => if pv_mem pv_eqb x l' then pv_dedup l' else x :: pv_dedup l'
  end.
Definition as_set (v : pyval) : option (list pyval) :=
  match v with
  | VSet l => Some l
  | _ => None
  end.
Definition py_set (v : pyval) : res pyval :=
  match v with
  | VList l | VSet l => Ok (VSet (pv_dedup l))
  | VDict l => Ok (VSet (map fst l))
  | _ => Err ETypeError
  end.
Definition py_set_binop (f : list pyval -> list pyval -> list pyval) (a b : pyval) : res pyval :=
  match as_set a, as_set b with
  | Some x, Some y => Ok (VSet (f x y))
  | _, _ => Err ETypeError
  end.
Definition py_and_set := py_set_binop (fun x y => filter (fun e => pv_mem pv_eqb e y) x).
Definition py_sub_set := py_set_binop (fun x y => filter (fun e => negb (pv_mem pv_eqb e y)) x).
Definition py_or_set := py_set_binop (fun x y => x ++ filter (fun e => negb (pv_mem pv_eqb e x)) y).
Definition py_set_add (s x : pyval) : res pyval :=
  match s with
  | VSet l => Ok (VSet (if pv_mem pv_eqb x l then l else l ++ [x]))
  | _ => Err EAttribute
  end.

(** iteration: for x in c — lists in order, sets in stored order (the order is
    irrelevant for every translated use: the tie theorems are up to set equality) *)
Definition py_iter (c : pyval) : res (list pyval) :=
  match c with
  | VList l | VSet l => Ok l
  | VDict l => Ok (map fst l)
  | VStr s => Ok (map (fun ch => VStr [ch]) s)
  | _ => Err ETypeError
  end.

Fixpoint py_fold {S : Type} (l : list pyval) (st : S) (body : pyval -> S -> res S) : res S :=
  match l with
  | [] => Ok st
  | x :: l' => do st' <- body x st; py_fold l' st' body
  end.

Definition py_for {S : Type} (c : pyval) (st : S) (body : pyval -> S -> res S) : res S :=
  do l <- py_iter c; py_fold l st body.

(** short-circuit and / or returning the deciding operand, as Python does *)
Definition py_and (a : res pyval) (b : unit -> res pyval) : res pyval :=
  do x <- a; if truthy x then b tt else Ok x.
Definition py_or (a : res pyval) (b : unit -> res pyval) : res pyval :=
  do x <- a; if truthy x then Ok x else b tt.

(** embedding of parsed JSON *)
Fixpoint inj (j : json) : pyval :=
  match j with
  | JNull => VNone
  | JBool b => VBool b
  | JInt z => VInt z
  | JFloat r => VNone           (* floats never reach translated code; see tie hypotheses *)
  | JStr s => VStr s
  | JList l => VList (map inj l)
  | JDict l => VDict (map (fun kv => (VStr (fst kv), inj (snd kv))) l)
  end.

Definition vstrs (l : list str) : pyval := VList (map VStr l).
Definition vsset (l : list str) : pyval := VSet (map VStr l).

(** x is y — only used against None by the translated code *)
Definition pv_is (a b : pyval) : bool :=
  match a, b with
  | VNone, VNone => true
  | VNone, _ | _, VNone => false
  | _, _ => pv_eqb a b
  end.

(** a - b : integers or sets *)
Definition py_sub (a b : pyval) : res pyval :=
  match a, b with
  | VSet _, VSet _ => py_sub_set a b
  | _, _ => match as_int a, as_int b with
            | Some x, Some y => Ok (VInt (x - y))
            | _, _ => Err ETypeError
            end
  end.

Definition py_list (v : pyval) : res pyval := do l <- py_iter v; Ok (VList l).

(** {elt for x in c if cond} / [elt for x in c if cond] *)
Fixpoint comp_go (l : list pyval) (cond elt : pyval -> res pyval) : res (list pyval) :=
  match l with
  | [] => Ok []
  | x :: l' =>
      do c <- cond x;
      if truthy c then (do e <- elt x; do r <- comp_go l' cond elt; Ok (e :: r))
      else comp_go l' cond elt
  end.
Definition py_listcomp (c : pyval) (cond elt : pyval -> res pyval) : res pyval :=
  do l <- py_iter c; do r <- comp_go l cond elt; Ok (VList r).
Definition py_setcomp (c : pyval) (cond elt : pyval -> res pyval) : res pyval :=
  do l <- py_iter c; do r <- comp_go l cond elt; Ok (VSet (pv_dedup r)).

(** f"..{x}.." with str-valued holes only *)
Fixpoint py_fstring (parts : list pyval) : res pyval :=
  match parts with
  | [] => Ok (VStr [])
  | VStr s :: r => do t <- py_fstring r; match t with VStr u => Ok (VStr (s ++ u)) | _ => Err EUnmodelled end
  | _ :: _ => Err EUnmodelled
  end.

(** os.path.join(a, b) on posix *)
Definition py_path_join (a b : pyval) : res pyval :=
  match a, b with
  | VStr x, VStr y =>
      Ok (VStr (match y with
                | 47%N :: _ => y
                | _ => match x with
                       | [] => y
                       | _ => if ends_with_c 47 x then x ++ y else x ++ 47%N :: y
                       end
                end))
  | _, _ => Err ETypeError
  end.

(** getattr(obj, name): objects with data attributes are rendered as dicts attribute name -> value *)
Definition py_getattr (o n : pyval) : res pyval :=
  match o, n with
  | VDict l, VStr _ => match pv_assoc pv_eqb n l with Some v => Ok v | None => Err EAttribute end
  | _, VStr _ => Err EAttribute
  | _, _ => Err ETypeError
  end.

(** try: x = <r>  except <e>: <h>   (else continue with k x); other exceptions propagate *)
Definition py_catch {A B} (r : res A) (e : err) (h : unit -> res B) (k : A -> res B) : res B :=
  match r with
  | Ok a => k a
  | Err e' => if err_eqb e' e then h tt else Err e'
  end.

(** d.values() *)
Definition py_values (v : pyval) : res pyval :=
  match v with VDict l => Ok (VList (map snd l)) | _ => Err EAttribute end.

(** d[k] = v : an existing key keeps its position, a new one goes last *)
Fixpoint pv_set (k v : pyval) (l : list (pyval * pyval)) : list (pyval * pyval) :=
  match l with
  | [] => [(k, v)]
  | (k', v') :: l' => if pv_eqb k k' then (k', v) :: l' else (k', v') :: pv_set k v l'
  end.
Definition py_setitem (d k v : pyval) : res pyval :=
  match d with VDict l => Ok (VDict (pv_set k v l)) | _ => Err ETypeError end.

(** for k, v in d.items() *)
Fixpoint py_fold_items {S : Type} (l : list (pyval * pyval)) (st : S) (body : pyval -> pyval -> S -> res S) : res S :=
  match l with
  | [] => Ok st
  | (k, v) :: l' => do st' <- body k v st; py_fold_items l' st' body
  end.
Definition py_for_items {S : Type} (d : pyval) (st : S) (body : pyval -> pyval -> S -> res S) : res S :=
  match d with VDict l => py_fold_items l st body | _ => Err EAttribute end.

(** list.sort() on strings: code-point lexicographic order (insertion sort; stable) *)
Fixpoint insert_str (x : str) (l : list str) : list str :=
  match l with
  | [] => [x]
  | y :: l' => if lex_leb x y then x :: l else y :: insert_str x l'
  end.
Fixpoint sort_strs (l : list str) : list str :=
  match l with [] => [] | x :: l' => insert_str x (sort_strs l') end.

Fixpoint as_strs (l : list pyval) : option (list str) :=
  match l with
  | [] => Some []
  | VStr s :: r => match as_strs r with Some t => Some (s :: t) | None => None end
  | _ :: _ => None
  end.

Definition py_sort (v : pyval) : res pyval :=
  match v with
  | VList l => match as_strs l with Some ss => Ok (VList (map VStr (sort_strs ss))) | None => Err EUnmodelled end
  | _ => Err EAttribute
  end.

(** sep.join(list of str) *)
Fixpoint join_strs (sep : str) (l : list str) : str :=
  match l with
  | [] => []
  | [x] => x
  | x :: r => x ++ sep ++ join_strs sep r
  end.
Definition py_join (sep v : pyval) : res pyval :=
  match sep, v with
  | VStr s, VList l => match as_strs l with Some ss => Ok (VStr (join_strs s ss)) | None => Err ETypeError end
  | VStr _, _ => Err EUnmodelled
  | _, _ => Err EAttribute
  end.
