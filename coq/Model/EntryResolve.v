(** EntryResolve.v — request decoding for the C10 correspondence check (harness/c10.py).

    ops:  c10_queries  every path string the recorder can ask the exclude filter about (run with
                       an all-false filter, which prunes nothing): the harness evaluates pathspec on them
          c10_record   record_artifacts_as_dict on a tree;  excl = membership in the table sent,
                       H x = U+0001 hex(x) U+0002 (a symbolic digest the harness evaluates with real SHA-256)
          c10_normpath / c10_join / c10_normle   the string functions by themselves *)
From InToto.Model Require Import Base Json Utf8 Fs Resolve.

Definition S_tree : str := [116;114;101;101]%N.
Definition S_cwd : str := [99;119;100]%N.
Definition S_args : str := [97;114;103;115]%N.
Definition S_excl : str := [101;120;99;108]%N.
Definition S_fuel : str := [102;117;101;108]%N.
Definition S_artifacts : str := [97;114;116;105;102;97;99;116;115]%N.
Definition S_exclude_patterns : str := [101;120;99;108;117;100;101;95;112;97;116;116;101;114;110;115]%N.
Definition S_base_path : str := [98;97;115;101;95;112;97;116;104]%N.
Definition S_follow : str := [102;111;108;108;111;119]%N.
Definition S_normalize : str := [110;111;114;109;97;108;105;122;101]%N.
Definition S_lstrip : str := [108;115;116;114;105;112]%N.
Definition S_ok' : str := [111;107]%N.
Definition S_a : str := [97]%N.
Definition S_b : str := [98]%N.
Definition S_n : str := [110]%N.
Definition S_data : str := [100;97;116;97]%N.
Definition K_f : str := [102]%N.
Definition K_d : str := [100]%N.
Definition K_l : str := [108]%N.

(** node: ["f", bytes-as-latin1] | ["f", [piece, ...]] | ["d", [[name, node], ...]] | ["l", target] *)
Fixpoint node_of_json (fuel : nat) (j : json) : option fsnode :=
  match fuel with
  | O => None
  | S f =>
      match j with
      | JList [JStr k; JStr s] =>
          if eqs k K_f then Some (File s) else if eqs k K_l then Some (Symlink s) else None
      | JList [JStr k; JList l] =>
          if eqs k K_f then                       (* long contents arrive in pieces *)
            match str_list (JList l) with Some ps => Some (File (concat_str ps)) | None => None end
          else if eqs k K_d then
            match (fix go (l : list json) : option entries :=
                     match l with
                     | [] => Some []
                     | JList [JStr name; c] :: r =>
                         match node_of_json f c, go r with
                         | Some n, Some t => Some ((name, n) :: t)
                         | _, _ => None
                         end
                     | _ => None
                     end) l with
            | Some es => Some (Dir es)
            | None => None
            end
          else None
      | _ => None
      end
  end.

Definition hex_byte (b : N) : list N := [hexdigit (b / 16); hexdigit (b mod 16)]%N.
Definition sym_hash (x : list N) : str := 1%N :: flat_map hex_byte x ++ [2%N].

Definition jnat (j : option json) (dflt : nat) : nat :=
  match j with Some (JInt z) => Z.to_nat z | _ => dflt end.
Definition jor_null (j : option json) : json := match j with Some v => v | None => JNull end.

(** every path string the file resolver can test against the exclude filter *)
Section Queries.
  Variable root : entries.
  Variable fuel : nat.
  Definition triple_queries (t : triple) : list str :=
    match t with (base, _, dirs, names) => map (fun n => normpath (join base n)) (dirs ++ names) end.
  Definition path_queries (follow : bool) (cwd : list str) (path : str) : list str :=
    let p := normpath path in
    p :: match stat_path root fuel cwd p with
         | RDir loc => match walk root fuel follow (fun _ _ => true) fuel p loc with
                       | Ok ts => flat_map triple_queries ts
                       | Err _ => []
                       end
         | _ => []
         end.
  Definition uri_queries (follow : bool) (cwd : list str) (bp : option str) (uri : str) : list str :=
    match scheme_of uri with
    | SFile => match enter_base root fuel cwd bp with
               | Ok cwd' => path_queries follow cwd' (fst (strip_scheme_prefix uri))
               | Err _ => []
               end
    | SDir => match enter_base root fuel cwd bp with
              | Ok cwd0 => match chdir root fuel cwd0 (skipn (length s_dir_colon) uri) with
                           | Ok cwd' => path_queries follow cwd' s_dot
                           | Err _ => []
                           end
              | Err _ => []
              end
    | SOstree => []
    end.
End Queries.

Definition decode_tree (arg : json) : option (entries * list str * nat) :=
  match jget S_tree arg with
  | Some t =>
      match node_of_json 64 t, str_list (jor_null (jget S_cwd arg)) with
      | Some (Dir es), Some cwd => Some (es, cwd, jnat (jget S_fuel arg) 40)
      | _, _ => None
      end
  | None => None
  end.

Definition queries_op (arg : json) : json :=
  match decode_tree arg, jget S_args arg with
  | Some (es, cwd, fuel), Some a =>
      let follow := json_truthy (jor_null (jget S_follow a)) in
      let bp := match jget S_base_path a with Some (JStr s) => Some s | _ => None end in
      match str_list (jor_null (jget S_artifacts a)) with
      | Some arts => JDict [(S_ok', jstr_list (dedup (flat_map (uri_queries es fuel follow cwd bp) arts)))]
      | None => JDict [(S_ok', JList [])]
      end
  | _, _ => jerr EUnmodelled
  end.

Definition record_op (arg : json) : json :=
  match decode_tree arg, jget S_args arg, str_list (jor_null (jget S_excl arg)) with
  | Some (es, cwd, fuel), Some a, Some table =>
      let g := fun k => jor_null (jget k a) in
      match record_json sym_hash (fun p => mem_str p table) es fuel
                        (g S_artifacts) (g S_exclude_patterns) (g S_base_path) (g S_follow) (g S_normalize)
                        (g S_lstrip) cwd with
      | Ok d => JDict [(S_ok', JList (map (fun kv => JList [JStr (fst kv); JStr (snd kv)]) d))]
      | Err e => jerr e
      end
  | _, _, _ => jerr EUnmodelled
  end.

Definition normpath_op (arg : json) : json :=
  match arg with JStr s => JDict [(S_ok', JStr (normpath s))] | _ => jerr EUnmodelled end.
Definition join_op (arg : json) : json :=
  match jget S_a arg, jget S_b arg with
  | Some (JStr a), Some (JStr b) => JDict [(S_ok', JStr (join a b))]
  | _, _ => jerr EUnmodelled
  end.
Definition normle_op (arg : json) : json :=
  match jget S_data arg with
  | Some (JStr d) => JDict [(S_ok', JStr (norm_chunked (S (length d)) (jnat (jget S_n arg) chunk_size) d))]
  | _ => jerr EUnmodelled
  end.

Definition op_c10_queries : str := [99;49;48;95;113;117;101;114;105;101;115]%N.
Definition op_c10_record : str := [99;49;48;95;114;101;99;111;114;100]%N.
Definition op_c10_normpath : str := [99;49;48;95;110;111;114;109;112;97;116;104]%N.
Definition op_c10_join : str := [99;49;48;95;106;111;105;110]%N.
Definition op_c10_normle : str := [99;49;48;95;110;111;114;109;108;101]%N.

Definition run_op_resolve (op : str) (arg : json) : option json :=
  if eqs op op_c10_record then Some (record_op arg)
  else if eqs op op_c10_queries then Some (queries_op arg)
  else if eqs op op_c10_normpath then Some (normpath_op arg)
  else if eqs op op_c10_join then Some (join_op arg)
  else if eqs op op_c10_normle then Some (normle_op arg)
  else None.
