(** Match.v — the three-way difference of in_toto_match_products (C19). *)
From InToto.Model Require Import Base Json.

Definition differs (P A : list (str * json)) (n : str) : bool :=
  match lookup n P, lookup n A with
  | Some x, Some y => negb (py_eqb x y)
  | _, _ => false
  end.

(** (only_products, not_in_products, differ) for link products [P] and freshly recorded [A] *)
Definition match_products (P A : list (str * json)) : list str * list str * list str :=
  (set_diff (keys P) (keys A),
   set_diff (keys A) (keys P),
   filter (differs P A) (set_inter (keys P) (keys A))).
