(** Base.v — shared vocabulary of the in-toto model.
    Strings are lists of Unicode code points ([N]); Python [str].
    No proofs in this file beyond reflection lemmas for the equality tests. *)
From Coq Require Export List NArith ZArith Bool Lia.
Export ListNotations.

Definition str := list N.

Fixpoint eqs (a b : str) : bool :=
  match a, b with
  | [], [] => true
  | x :: a', y :: b' => N.eqb x y && eqs a' b'
  | _, _ => false
  end.

Lemma eqs_eq : forall a b, eqs a b = true <-> a = b.
Proof.
  induction a as [|x a IH]; destruct b as [|y b]; simpl; split; intro H;
    try reflexivity; try discriminate.
  - apply andb_true_iff in H. destruct H as [H1 H2].
    apply N.eqb_eq in H1. apply IH in H2. congruence.
  - inversion H; subst. rewrite N.eqb_refl. simpl. apply IH. reflexivity.
Qed.

Lemma eqs_refl : forall a, eqs a a = true.
Proof. intro a. apply eqs_eq. reflexivity. Qed.

Lemma eqs_neq : forall a b, eqs a b = false <-> a <> b.
Proof.
  intros a b. split.
  - intros H E. apply eqs_eq in E. congruence.
  - intro H. destruct (eqs a b) eqn:E; [apply eqs_eq in E; contradiction | reflexivity].
Qed.

Lemma eqs_sym : forall a b, eqs a b = eqs b a.
Proof.
  intros a b. destruct (eqs a b) eqn:E.
  - apply eqs_eq in E. subst. symmetry. apply eqs_refl.
  - symmetry. apply eqs_neq. apply eqs_neq in E. congruence.
Qed.

Lemma eqs_spec : forall a b, reflect (a = b) (eqs a b).
Proof.
  intros a b. destruct (eqs a b) eqn:E; constructor.
  - apply eqs_eq; assumption.
  - apply eqs_neq; assumption.
Qed.

Definition str_eq_dec : forall a b : str, {a = b} + {a <> b}.
Proof. intros a b. destruct (eqs_spec a b); [left|right]; assumption. Defined.

(** membership in a list of strings *)
Fixpoint mem_str (x : str) (l : list str) : bool :=
  match l with
  | [] => false
  | y :: l' => eqs x y || mem_str x l'
  end.

Lemma mem_str_In : forall x l, mem_str x l = true <-> In x l.
Proof.
  induction l as [|y l IH]; simpl.
  - split; [discriminate | tauto].
  - rewrite orb_true_iff, IH, eqs_eq. split; intros [H|H]; auto.
Qed.

Lemma mem_str_false : forall x l, mem_str x l = false <-> ~ In x l.
Proof.
  intros x l. rewrite <- mem_str_In. destruct (mem_str x l); split; intro H; congruence.
Qed.

(** association lists keyed by strings (Python dict with str keys, insertion order) *)
Fixpoint lookup {A : Type} (k : str) (l : list (str * A)) : option A :=
  match l with
  | [] => None
  | (k', v) :: l' => if eqs k k' then Some v else lookup k l'
  end.

Definition keys {A : Type} (l : list (str * A)) : list str := map fst l.

(** dict assignment d[k] = v : replaces in place if present, else appends (CPython insertion order) *)
Fixpoint dict_set {A : Type} (k : str) (v : A) (l : list (str * A)) : list (str * A) :=
  match l with
  | [] => [(k, v)]
  | (k', v') :: l' => if eqs k k' then (k', v) :: l' else (k', v') :: dict_set k v l'
  end.

(** ASCII case mapping.  [lower_c] additionally maps U+212A KELVIN SIGN to 'k',
    the only non-ASCII code point whose Python [str.lower()] is pure ASCII
    (checked at run time by the C17 harness over all 1,114,112 code points). *)
Definition lower_c (c : N) : N :=
  if (N.leb 65 c && N.leb c 90)%bool then (c + 32)%N
  else if N.eqb c 8490 then 107%N else c.
Definition upper_c (c : N) : N :=
  if (N.leb 97 c && N.leb c 122)%bool then (c - 32)%N else c.
Definition lower (s : str) : str := map lower_c s.
Definition upper (s : str) : str := map upper_c s.
Definition is_ascii (s : str) : bool := forallb (fun c => N.ltb c 128) s.

Fixpoint starts_with (p s : str) : bool :=
  match p, s with
  | [], _ => true
  | x :: p', y :: s' => N.eqb x y && starts_with p' s'
  | _ :: _, [] => false
  end.

Lemma starts_with_spec : forall p s, starts_with p s = true <-> exists r, s = p ++ r.
Proof.
  induction p as [|x p IH]; intros s; simpl.
  - split; [intros _; exists s; reflexivity | reflexivity].
  - destruct s as [|y s].
    + split; [discriminate | intros [r H]; discriminate].
    + rewrite andb_true_iff, N.eqb_eq, IH. split.
      * intros [-> [r ->]]. exists r. reflexivity.
      * intros [r H]. inversion H; subst. split; [reflexivity | exists r; reflexivity].
Qed.

Definition drop {A} (n : nat) (l : list A) : list A := skipn n l.
Definition take {A} (n : nat) (l : list A) : list A := firstn n l.

Fixpoint ends_with_c (c : N) (s : str) : bool :=
  match s with
  | [] => false
  | [x] => N.eqb x c
  | _ :: s' => ends_with_c c s'
  end.

(** replace every occurrence of one character *)
Definition replace_c (a b : N) (s : str) : str := map (fun c => if N.eqb c a then b else c) s.

Fixpoint concat_str (l : list str) : str :=
  match l with [] => [] | x :: l' => x ++ concat_str l' end.

(** duplicate-free lists as sets *)
Fixpoint dedup (l : list str) : list str :=
  match l with
  | [] => []
  | x :: l' => if mem_str x l' then dedup l' else x :: dedup l'
  end.

Definition set_inter (a b : list str) : list str := filter (fun x => mem_str x b) a.
Definition set_diff (a b : list str) : list str := filter (fun x => negb (mem_str x b)) a.
Definition set_union (a b : list str) : list str := a ++ set_diff b a.
Definition subset (a b : list str) : bool := forallb (fun x => mem_str x b) a.
Definition set_eqb (a b : list str) : bool := subset a b && subset b a.

(** error classes shared by every model function; [ECrash] is any exception
    that is not one of in-toto's own (IndexError, KeyError, AttributeError, TypeError, ...) *)
Inductive err :=
| EFormat          (* securesystemslib.exceptions.FormatError *)
| ESignature       (* SignatureVerificationError *)
| EExpired         (* LayoutExpiredError *)
| ELinkNotFound
| EThreshold       (* ThresholdVerificationError *)
| ERule            (* RuleVerificationError *)
| EBadRetval       (* BadReturnValueError *)
| EInvalidMetadata
| EPrefix          (* PrefixError *)
| EKeyExpired      (* securesystemslib.gpg KeyExpirationError *)
| ETimeout         (* subprocess.TimeoutExpired *)
| EKeyError | EIndexError | EValueError | ETypeError | EAttribute | EIOError
| EUnicode         (* UnicodeDecodeError *)
| ENotImplemented
| EDiverge         (* fuel exhausted while following symbolic links (Fs.v); excluded by guard in every theorem *)
| EUnmodelled.     (* input outside the modelled fragment *)

Inductive res (A : Type) := Ok (a : A) | Err (e : err).
Arguments Ok {A} a.
Arguments Err {A} e.

Definition bind {A B} (r : res A) (f : A -> res B) : res B :=
  match r with Ok a => f a | Err e => Err e end.
Notation "'do' x <- r ; k" := (bind r (fun x => k)) (at level 200, x name, r at level 100, k at level 200).
Notation "'do'' p <- r ; k" := (bind r (fun p => k)) (at level 200, p pattern, r at level 100, k at level 200).

Definition err_eqb (a b : err) : bool :=
  match a, b with
  | EFormat, EFormat | ESignature, ESignature | EExpired, EExpired | ELinkNotFound, ELinkNotFound
  | EThreshold, EThreshold | ERule, ERule | EBadRetval, EBadRetval | EInvalidMetadata, EInvalidMetadata
  | EPrefix, EPrefix | EKeyExpired, EKeyExpired | ETimeout, ETimeout | EKeyError, EKeyError
  | EIndexError, EIndexError | EValueError, EValueError | ETypeError, ETypeError | EAttribute, EAttribute
  | EIOError, EIOError | EUnicode, EUnicode | ENotImplemented, ENotImplemented | EUnmodelled, EUnmodelled | EDiverge, EDiverge => true
  | _, _ => false
  end.

Fixpoint mapM {A B} (f : A -> res B) (l : list A) : res (list B) :=
  match l with
  | [] => Ok []
  | x :: l' => do y <- f x; do ys <- mapM f l'; Ok (y :: ys)
  end.

(** ASCII literals *)
Definition s_of_ascii_list (l : list N) : str := l.
