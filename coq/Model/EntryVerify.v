(** EntryVerify.v — scenario decoding for the correspondence check of the verification core. *)
From InToto.Model Require Import Base Json Strs Utf8 Canon Rule Glob Rules Expiry Subst Meta Verify VerifySeq.

Definition S_root : str := [114;111;111;116]%N.
Definition S_now_us : str := [110;111;119;95;117;115]%N.
Definition S_now_s : str := [110;111;119;95;115]%N.
Definition S_step_name : str := [115;116;101;112;95;110;97;109;101]%N.
Definition S_load_err : str := [108;111;97;100;95;101;114;114]%N.
Definition S_times : str := [116;105;109;101;115]%N.
Definition S_params_seq : str := [112;97;114;97;109;115;95;115;101;113]%N.
Definition S_exec_seq : str := [101;120;101;99;95;115;101;113]%N.
Definition S_seq : str := [115;101;113]%N.
Definition S_after : str := [97;102;116;101;114]%N.

Definition latin1 (j : json) : option (list N) := match j with JStr s => Some s | _ => None end.

Definition file_of_json (j : json) : file :=
  match jget S_json j with Some v => FJson v | None => FMalformed end.

Fixpoint dir_of_json (fuel : nat) (j : json) : dirtree :=
  match fuel with
  | O => Dir [] []
  | S f =>
      let files := match jget S_files j with
                   | Some (JDict l) => map (fun kv => (fst kv, file_of_json (snd kv))) l
                   | _ => [] end in
      let subs := match jget S_dirs j with
                  | Some (JDict l) => map (fun kv => (fst kv, dir_of_json f (snd kv))) l
                  | _ => [] end in
      Dir files subs
  end.

Definition table_b64 (j : option json) (s : str) : option (list N) :=
  match j with
  | Some (JDict l) => match lookup s l with Some (JStr b) => Some b | _ => None end
  | _ => None
  end.

Definition table_loads (j : option json) (b : list N) : option json :=
  match j with
  | Some (JList l) =>
      match find (fun row => match row with JList [JStr k; _] => eqs k b | _ => false end) l with
      | Some (JList [_; JNull]) => None
      | Some (JList [_; v]) => Some v
      | _ => None
      end
  | _ => None
  end.

Definition table_sig (sigs msgs : option json) (token : str) (msg : list N) (sval : str) : bool :=
  match sigs, msgs with
  | Some (JList rows), Some (JList ms) =>
      existsb (fun row => match row with
                          | JList [JStr t; JStr v; JInt i] =>
                              eqs t token && eqs v sval &&
                              match nth_error ms (Z.to_nat i) with Some (JStr m) => eqs m msg | _ => false end
                          | _ => false end) rows
  | _, _ => false
  end.

Definition table_exec (j : option json) (cmd : list json) : exec_result :=
  match j with
  | Some (JList rows) =>
      match find (fun row => match row with JList [JList c; _] => json_eqb (JList c) (JList cmd) | _ => false end) rows with
      | Some (JList [_; JStr t]) => if eqs t S_timeout then ExTimeout else ExCrash
      | Some (JList [_; r]) =>
          ExDone (match jget S_retval r with Some v => v | None => JNull end)
                 (match jget S_materials r with Some (JDict m) => m | _ => [] end)
                 (match jget S_products r with Some (JDict m) => m | _ => [] end)
      | _ => ExCrash
      end
  | _ => ExCrash
  end.

Definition ev_json (e : ev) : json := match e with Exec c => JList c end.

Definition outcome_json (rt : result) : json :=
  let '(r, tr) := rt in
  let trj := (S_trace, JList (map ev_json tr)) in
  match r with
  | Ok lk => JDict [(S_ok, link_asdict lk); trj]
  | Err e => match jerr e with JDict l => JDict (l ++ [trj]) | x => x end
  end.

Definition params_of_json (j : option json) : option json :=
  match j with Some JNull | None => None | Some p => Some p end.

(** the caller's object as attr.asdict(md.signed) shows it (traditional format only) *)
Definition md_after_json (m : metadata) : json :=
  match m with Metablock _ p => payload_asdict p | Envelope _ _ _ _ => JNull end.

(** one verification, or — when "params_seq" is present — consecutive verifications of ONE loaded
    metadata object, one per element of "params_seq" (run k uses the k-th table of "exec_seq",
    or "exec" when there is none); answer {"seq": [outcome + "after", ...]} *)
Definition verify_op (arg : json) : json :=
  let b64 := table_b64 (jget S_b64 arg) in
  let lds := table_loads (jget S_loads arg) in
  let sg := table_sig (jget S_sigs arg) (jget S_msgs arg) in
  let now_us := match jget S_now_us arg with Some (JInt z) => z | _ => 0%Z end in
  let now_s := match jget S_now_s arg with Some (JInt z) => z | _ => 0%Z end in
  let ex := table_exec (jget S_exec arg) in
  let d := match jget S_dir arg with Some j => dir_of_json 8 j | None => Dir [] [] end in
  let root := match jget S_root arg with Some f => file_of_json f | None => FMalformed end in
  match root with
  | FMalformed => JDict [(S_load_err, JStr S_malformed)]
  | FJson j =>
      match from_dict b64 lds j with
      | Err e => match jerr e with JDict l => JDict ((S_load_err, JBool true) :: l) | x => x end
      | Ok md =>
          let keys := jget_default S_keys (JDict []) arg in
          let sname := match jget S_step_name arg with Some v => v | None => JStr [] end in
          match jget S_params_seq arg with
          | Some (JList pss) =>
              let exs := match jget S_exec_seq arg with Some (JList l) => l | _ => [] end in
              let runs := (fix go (pss : list json) (k : nat) :=
                             match pss with
                             | [] => []
                             | p :: pss' =>
                                 (match nth_error exs k with Some t => table_exec (Some t) | None => ex end,
                                  params_of_json (Some p)) :: go pss' (S k)
                             end) pss O in
              JDict [(S_seq, JList (map (fun rm => match outcome_json (fst rm) with
                                                   | JDict l => JDict (l ++ [(S_after, md_after_json (snd rm))])
                                                   | x => x end)
                                        (verify_seq b64 lds sg now_s now_us d md keys sname runs)))]
          | _ =>
              outcome_json (verify b64 lds sg now_s now_us ex d (mkArgs md keys (params_of_json (jget S_params arg)) sname))
          end
      end
  end.
