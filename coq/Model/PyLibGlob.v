(** PyLibGlob.v — fnmatch.filter for the translated Python fragment (back end 2), on top of Glob.glob_match. *)
From InToto.Model Require Import Base Json PyLib Glob.

(** fnmatch.filter(names, pat): the names matching the pattern, in order.
    Names come from a list or a set of strings; a pattern outside the modelled glob fragment is [EUnmodelled]. *)
Fixpoint fn_go (l : list pyval) (pat : str) : res (list pyval) :=
  match l with
  | [] => Ok []
  | VStr x :: l' =>
      match glob_match pat x with
      | None => Err EUnmodelled
      | Some b => do r <- fn_go l' pat; Ok (if b then VStr x :: r else r)
      end
  | _ :: _ => Err ETypeError
  end.

Definition py_fnmatch_filter (names pat : pyval) : res pyval :=
  match pat with
  | VStr p => do l <- py_iter names; do r <- fn_go l p; Ok (VList r)
  | _ => Err ETypeError
  end.
