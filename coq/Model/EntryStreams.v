(** EntryStreams.v — request decoding for the C13 correspondence check (Model/Streams.v).
    Byte strings travel as JSON strings whose code points are the byte values. *)
From InToto.Model Require Import Base Json Rule Utf8 Streams.
Local Open Scope N_scope.

Definition T_chunk : str := [99;104;117;110;107]%N.  (* chunk *)
Definition T_timeout : str := [116;105;109;101;111;117;116]%N.  (* timeout *)
Definition T_t0 : str := [116;48]%N.  (* t0 *)
Definition T_popen_ok : str := [112;111;112;101;110;95;111;107]%N.  (* popen_ok *)
Definition T_legacy : str := [108;101;103;97;99;121]%N.  (* legacy *)
Definition T_sched : str := [115;99;104;101;100]%N.  (* sched *)
Definition T_a : str := [97]%N.  (* a *)
Definition T_r : str := [114]%N.  (* r *)
Definition T_p : str := [112]%N.  (* p *)
Definition T_x : str := [120]%N.  (* x *)
Definition T_t : str := [116]%N.  (* t *)
Definition T_done : str := [100;111;110;101]%N.  (* done *)
Definition T_decode : str := [100;101;99;111;100;101]%N.  (* decode *)
Definition T_oserr : str := [111;115;101;114;114]%N.  (* oserr *)
Definition T_unfinished : str := [117;110;102;105;110;105;115;104;101;100]%N.  (* unfinished *)
Definition T_fuel : str := [102;117;101;108]%N.  (* fuel *)
Definition T_mk : str := [109;107]%N.  (* mk *)
Definition T_rm : str := [114;109]%N.  (* rm *)
Definition T_spawn : str := [115;112;97;119;110]%N.  (* spawn *)
Definition T_dup : str := [100;117;112]%N.  (* dup *)
Definition T_kill : str := [107;105;108;108]%N.  (* kill *)
Definition T_wait : str := [119;97;105;116]%N.  (* wait *)
Definition T_outcome : str := [111;117;116;99;111;109;101]%N.  (* outcome *)
Definition T_fx : str := [102;120]%N.  (* fx *)
Definition T_chunks : str := [99;104;117;110;107;115]%N.  (* chunks *)
Definition T_final : str := [102;105;110;97;108]%N.  (* final *)
Definition T_parts : str := [112;97;114;116;115]%N.  (* parts *)
Definition T_err_at : str := [101;114;114;95;97;116]%N.  (* err_at *)
Definition T_record : str := [114;101;99;111;114;100]%N.  (* record *)
Definition T_run : str := [114;117;110]%N.  (* run *)
Definition T_streams_run : str := [115;116;114;101;97;109;115;95;114;117;110]%N.  (* streams_run *)
Definition T_streams_decode : str := [115;116;114;101;97;109;115;95;100;101;99;111;100;101]%N.  (* streams_decode *)
Definition T_text_of : str := [116;101;120;116;95;111;102]%N.  (* text_of *)
Definition T_execute_link : str := [101;120;101;99;117;116;101;95;108;105;110;107]%N.  (* execute_link *)
Definition T_ok : str := [111;107]%N.  (* ok *)

Definition T_mk1_ok : str := [109;107;49;95;111;107]%N.  (* mk1_ok *)
Definition T_mk2_ok : str := [109;107;50;95;111;107]%N.  (* mk2_ok *)
Definition T_rm_out_ok : str := [114;109;95;111;117;116;95;111;107]%N.  (* rm_out_ok *)
Definition T_rm_err_ok : str := [114;109;95;101;114;114;95;111;107]%N.  (* rm_err_ok *)
Definition T_rmfail : str := [114;109;102;97;105;108]%N.  (* rmfail *)

Definition stream_of (j : json) : option stream :=
  match j with JInt 0%Z => Some SOut | JInt 1%Z => Some SErr | _ => None end.

(** ["a", s, bytes] | ["r", s, unit, k] (unit repeated k times) | ["p"] | ["x", rc] | ["t", dt] *)
Definition event_of (j : json) : option event :=
  match j with
  | JList [JStr k; s; JStr b] =>
      if eqs k T_a then match stream_of s with Some s' => Some (Append s' b) | None => None end else None
  | JList [JStr k; s; JStr u; JInt n] =>
      if eqs k T_r then
        match stream_of s with
        | Some s' => Some (Append s' (N.iter (Z.to_N n) (fun x => u ++ x) []))
        | None => None
        end
      else None
  | JList [JStr k] => if eqs k T_p then Some Poll else None
  | JList [JStr k; JInt z] =>
      if eqs k T_x then Some (Exit z) else if eqs k T_t then Some (Tick z) else None
  | _ => None
  end.

Fixpoint events_of (l : list json) : option (list event) :=
  match l with
  | [] => Some []
  | j :: r => match event_of j, events_of r with
              | Some e, Some es => Some (e :: es)
              | _, _ => None
              end
  end.

(** environment faults: optional keys, absent = no fault *)
Definition flag (k : str) (arg : json) : bool :=
  match jget k arg with Some (JBool false) => false | _ => true end.

Definition cfg_of (arg : json) : option cfg :=
  match jget T_chunk arg, jget T_t0 arg with
  | Some (JInt n), Some (JInt z) =>
      let mk := fun t => mkCfg (Z.to_N n) t z (flag T_popen_ok arg) (flag T_mk1_ok arg) (flag T_mk2_ok arg)
                               (flag T_rm_out_ok arg) (flag T_rm_err_ok arg) in
      match jget T_timeout arg with
      | Some (JInt t) => Some (mk (Some t))
      | Some JNull => Some (mk None)
      | _ => None
      end
  | _, _ => None
  end.

Definition jstream (s : stream) : json := match s with SOut => JInt 0 | SErr => JInt 1 end.

Definition outcome_json (o : outcome) : json :=
  match o with
  | Done rc out err => JList [JStr T_done; JInt rc; JStr out; JStr err]
  | TimedOut => JList [JStr T_timeout]
  | DecodeErr => JList [JStr T_decode]
  | OsErr => JList [JStr T_oserr]
  | Unfinished => JList [JStr T_unfinished]
  | OutOfFuel => JList [JStr T_fuel]
  end.

Definition effect_json (e : effect) : json :=
  match e with
  | Mk s => JList [JStr T_mk; jstream s]
  | Rm s => JList [JStr T_rm; jstream s]
  | RmFail s => JList [JStr T_rmfail; jstream s]
  | Spawn => JList [JStr T_spawn]
  | Dup o e => JList [JStr T_dup; JStr o; JStr e]
  | Kill => JList [JStr T_kill]
  | Wait => JList [JStr T_wait]
  end.

Definition result_json (r : outcome * list effect) : json :=
  JDict [(T_ok, JDict [(T_outcome, outcome_json (fst r)); (T_fx, JList (map effect_json (snd r)))])].

(** legacy: 0 = the current code, 1 = the code before both repairs, 2 = after the first repair only *)
Definition streams_run_op (arg : json) : json :=
  match cfg_of arg, jget T_sched arg, jget T_legacy arg with
  | Some c, Some (JList l), Some (JInt lg) =>
      match events_of l with
      | Some sched =>
          result_json (if Z.eqb lg 0 then run c sched
                       else if Z.eqb lg 1 then run_legacy_gen false c sched
                       else run_legacy_gen true c sched)
      | None => jerr EUnmodelled
      end
  | _, _, _ => jerr EUnmodelled
  end.

(** the decoder chain alone: chunks fed one after the other (the last one with the final flag if [final]);
    answer: the parts, and the index of the chunk that raised UnicodeDecodeError (or null) *)
Fixpoint decode_chunks (p : bytes) (cr : bool) (final : bool) (l : list bytes) (i : Z) : list json * json :=
  match l with
  | [] => ([], JNull)
  | c :: r =>
      let fin := final && is_nil r in
      match utf8_decode_inc p c fin with
      | None => ([], JInt i)
      | Some (p', o) =>
          let '(t, cr') := nl_decode cr o fin in
          let '(ps, e) := decode_chunks p' cr' final r (i + 1)%Z in
          (JStr t :: ps, e)
      end
  end.

Definition streams_decode_op (arg : json) : json :=
  match jget T_chunks arg, jget T_final arg with
  | Some (JList l), Some (JBool f) =>
      match all_strs l with
      | Some cs => let '(ps, e) := decode_chunks [] false f cs 0%Z in
                   JDict [(T_ok, JDict [(T_parts, JList ps); (T_err_at, e)])]
      | None => jerr EUnmodelled
      end
  | _, _ => jerr EUnmodelled
  end.

Definition text_of_op (arg : json) : json :=
  match arg with
  | JStr b => match text_of b with Some t => JDict [(T_ok, JStr t)] | None => jerr EUnicode end
  | _ => jerr EUnmodelled
  end.

(** run: ["done", rc] | ["timeout"] | ["oserr"]  — what subprocess.run did (oracle) *)
Definition execute_link_op (arg : json) : json :=
  match cfg_of arg, jget T_sched arg, jget T_record arg, jget T_run arg with
  | Some c, Some (JList l), Some (JBool rec), Some (JList rr) =>
      let orc := match rr with
                 | [JStr k; JInt rc] => if eqs k T_done then Some (RunDone rc) else None
                 | [JStr k] => if eqs k T_timeout then Some RunTimeout else if eqs k T_oserr then Some RunOsErr else None
                 | _ => None
                 end in
      match events_of l, orc with
      | Some sched, Some o => result_json (execute_link rec c sched o)
      | _, _ => jerr EUnmodelled
      end
  | _, _, _, _ => jerr EUnmodelled
  end.

Definition run_op_streams (op : str) (arg : json) : option json :=
  if eqs op T_streams_run then Some (streams_run_op arg)
  else if eqs op T_streams_decode then Some (streams_decode_op arg)
  else if eqs op T_text_of then Some (text_of_op arg)
  else if eqs op T_execute_link then Some (execute_link_op arg)
  else None.
