(** EntryRun.v — correspondence entry point for in_toto_run (C11, C04). *)
From InToto.Model Require Import Base Json Strs Utf8 Canon Rule Rules Meta Run.

Definition R_name : str := [110;97;109;101]%N.
Definition R_cmd : str := [99;109;100]%N.
Definition R_mat_before : str := [109;97;116;95;98;101;102;111;114;101]%N.
Definition R_mat_after : str := [109;97;116;95;97;102;116;101;114]%N.
Definition R_prod_before : str := [112;114;111;100;95;98;101;102;111;114;101]%N.
Definition R_prod_after : str := [112;114;111;100;95;97;102;116;101;114]%N.
Definition R_exec : str := [101;120;101;99]%N.
Definition R_rc : str := [114;99]%N.
Definition R_out : str := [111;117;116]%N.
Definition R_err : str := [101;114;114]%N.
Definition R_streams : str := [115;116;114;101;97;109;115]%N.
Definition R_workdir : str := [119;111;114;107;100;105;114]%N.
Definition R_metadata_dir : str := [109;101;116;97;100;97;116;97;95;100;105;114]%N.
Definition R_dsse : str := [100;115;115;101]%N.
Definition R_keyid : str := [107;101;121;105;100]%N.
Definition R_link : str := [108;105;110;107]%N.
Definition R_filename : str := [102;105;108;101;110;97;109;101]%N.
Definition R_signable : str := [115;105;103;110;97;98;108;101]%N.
Definition R_timeout : str := [116;105;109;101;111;117;116]%N.
Definition R_ok : str := [111;107]%N.

(** a recording the harness took: {"ok": map} or {"err": class} *)
Definition rec_of (j : option json) : res amap :=
  match j with
  | Some (JDict [(k, JDict m)]) => if eqs k R_ok then Ok m else Err EUnmodelled
  | Some (JDict [(k, JStr _)]) => if eqs k R_err then Err EPrefix else Err EUnmodelled
  | _ => Err EUnmodelled
  end.

Definition run_link_op (arg : json) : json :=
  match jget R_name arg, jget R_cmd arg with
  | Some (JStr name), Some (JList cmd) =>
      (* the world is a boolean: false = before the command, true = after it *)
      let record_materials := fun (w : bool) => rec_of (jget (if w then R_mat_after else R_mat_before) arg) in
      let record_products := fun (w : bool) => rec_of (jget (if w then R_prod_after else R_prod_before) arg) in
      let exec := fun (_ : bool) (_ : list json) =>
        match jget R_exec arg with
        | Some (JStr s) => if eqs s R_timeout then ExTimedOut else ExOSError
        | Some e => match jget R_rc e, jget R_out e, jget R_err e with
                    | Some (JInt rc), Some (JStr o), Some (JStr er) => ExOk true rc o er
                    | _, _, _ => ExOSError
                    end
        | None => ExOSError
        end in
      let o := mkRunOpts (match jget R_streams arg with Some (JBool b) => b | _ => false end)
                         (match jget R_workdir arg with Some (JStr d) => Some d | _ => None end)
                         (match jget R_metadata_dir arg with Some (JStr d) => Some d | _ => None end)
                         (match jget R_dsse arg with Some (JBool b) => b | _ => false end) in
      match run_link bool record_materials record_products exec false name cmd o with
      | Err e => jerr e
      | Ok (lk, _) =>
          let kid := match jget R_keyid arg with Some (JStr k) => k | _ => [] end in
          JDict [(R_link, link_asdict lk);
                 (R_filename, JStr (link_file_name name kid o));
                 (R_signable, match signable_bytes (link_asdict lk) with Ok b => JStr b | Err _ => JNull end)]
      end
  | _, _ => jerr EUnmodelled
  end.

Definition op_run_link : str := [114;117;110;95;108;105;110;107]%N.
Definition run_op_run (op : str) (arg : json) : option json :=
  if eqs op op_run_link then Some (run_link_op arg) else None.
