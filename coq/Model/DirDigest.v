(** DirDigest.v — DirectoryResolver._hash and OSTreeResolver._hash (C20).
    [files] : relative path -> hex sha256 of the file, in any order. *)
From InToto.Model Require Import Base Utf8.

(** insertion sort by code-point lexicographic order of the path
    (locale.strcoll in the C locale = wcscmp = code-point order) *)
Fixpoint insert_by (x : str * str) (l : list (str * str)) : list (str * str) :=
  match l with
  | [] => [x]
  | y :: l' => if lex_leb (fst x) (fst y) then x :: l else y :: insert_by x l'
  end.
Fixpoint sort_files (l : list (str * str)) : list (str * str) :=
  match l with [] => [] | x :: l' => insert_by x (sort_files l') end.

(** one sha256sum-style line: "<hex>  <path>\n" *)
Definition line (f : str * str) : str := snd f ++ [32; 32]%N ++ fst f ++ [10]%N.
Definition lines_text (l : list (str * str)) : str := flat_map line l.

(** text_repr of _hash: "\n".join(lines) + "\n", empty string for no files *)
Definition dir_text (files : list (str * str)) : str := lines_text (sort_files files).

Section Digest.
  Variable H : list N -> str.          (* SHA-256 as hex text: oracle *)
  Definition dir_digest (files : list (str * str)) : str := H (utf8 (dir_text files)).

  (** OSTree: ref file content -> path of the commit object -> digest of its bytes *)
  Fixpoint strip_nl_left (s : str) : str :=
    match s with 10%N :: r => strip_nl_left r | _ => s end.
  Definition strip_nl (s : str) : str := rev (strip_nl_left (rev (strip_nl_left s))).
  Definition ostree_object_path (ref_contents : str) : str :=
    let c := strip_nl ref_contents in
    [111;98;106;101;99;116;115;47]%N ++ firstn 2 c ++ [47]%N ++ skipn 2 c ++ [46;99;111;109;109;105;116]%N.
  Definition ostree_ref_path (ref : str) : str := [114;101;102;115;47;104;101;97;100;115;47]%N ++ ref.
End Digest.
