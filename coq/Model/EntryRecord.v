(** EntryRecord.v — request decoding for the C12 correspondence check.
    One request = one call of record_start / record_stop on a given directory state, with the
    oracle tables the harness computed with the real libraries, plus a list of crash / fault
    points; the answer holds the result, the ordered operation list, the directory afterwards
    and the directory at every requested point. *)
From InToto.Model Require Import Base Json Strs Utf8 Canon Glob Rules Meta EntryVerify Record.

Definition R_kind : str := [107;105;110;100]%N.                      (* kind *)
Definition R_start : str := [115;116;97;114;116]%N.                  (* start *)
Definition R_stop : str := [115;116;111;112]%N.                      (* stop *)
Definition R_step : str := [115;116;101;112]%N.                      (* step *)
Definition R_signer : str := [115;105;103;110;101;114]%N.            (* signer *)
Definition R_signing_key : str := [115;105;103;110;105;110;103;95;107;101;121]%N.   (* signing_key *)
Definition R_gpg_keyid : str := [103;112;103;95;107;101;121;105;100]%N.             (* gpg_keyid *)
Definition R_gpg_default : str := [103;112;103;95;100;101;102;97;117;108;116]%N.    (* gpg_default *)
Definition R_mdir : str := [109;100;105;114]%N.                      (* mdir *)
Definition R_dsse : str := [100;115;115;101]%N.                      (* dsse *)
Definition R_record_env : str := [114;101;99;111;114;100;95;101;110;118]%N.         (* record_env *)
Definition R_cwd : str := [99;119;100]%N.                            (* cwd *)
Definition R_arts : str := [97;114;116;115]%N.                       (* arts *)
Definition R_call : str := [99;97;108;108]%N.                        (* call *)
Definition R_dir : str := [100;105;114]%N.                           (* dir *)
Definition R_points : str := [112;111;105;110;116;115]%N.            (* points *)
Definition R_sign : str := [115;105;103;110]%N.                      (* sign *)
Definition R_gpg_sign : str := [103;112;103;95;115;105;103;110]%N.   (* gpg_sign *)
Definition R_export : str := [101;120;112;111;114;116]%N.            (* export *)
Definition R_dumps : str := [100;117;109;112;115]%N.                 (* dumps *)
Definition R_b64enc : str := [98;54;52;101;110;99]%N.                (* b64enc *)
Definition R_res : str := [114;101;115]%N.                           (* res *)
Definition R_ops : str := [111;112;115]%N.                           (* ops *)
Definition R_after : str := [97;102;116;101;114]%N.                  (* after *)
Definition R_u : str := [117]%N.
Definition R_f : str := [102]%N.
Definition R_bytes : str := [98;121;116;101;115]%N.                  (* bytes *)
Definition R_c : str := [99]%N.
Definition R_p : str := [112]%N.
Definition R_exc : str := [101;120;99]%N.                            (* exc *)
Definition R_cut : str := [99;117;116]%N.                            (* cut *)
Definition R_legacy : str := [108;101;103;97;99;121]%N.              (* legacy *)
Definition R_Read : str := [82;101;97;100]%N.
Definition R_OpenTrunc : str := [79;112;101;110;84;114;117;110;99]%N.
Definition R_Write : str := [87;114;105;116;101]%N.
Definition R_Close : str := [67;108;111;115;101]%N.
Definition R_Remove : str := [82;101;109;111;118;101]%N.
Definition R_miss : list N := [63;109;105;115;115]%N.                (* ?miss *)

Definition err_of_name (s : str) : err :=
  match find (fun e => match jerr e with JDict [(_, JStr n)] => eqs n s | _ => false end)
             [EFormat; ESignature; ELinkNotFound; EInvalidMetadata; EPrefix; EKeyExpired; EKeyError; EIndexError;
              EValueError; ETypeError; EAttribute; EIOError; EUnicode; ENotImplemented] with
  | Some e => e
  | None => EUnmodelled
  end.

Definition dir_of (j : option json) : dirstate :=
  match j with
  | Some (JDict l) =>
      flat_map (fun kv => match snd kv with
                          | JList [JStr t; JStr b] => [(fst kv, if eqs t R_c then Complete b else Partial b)]
                          | _ => [] end) l
  | _ => []
  end.
Definition json_of_dir (d : dirstate) : json :=
  JDict (map (fun e => (fst e, match snd e with
                               | Complete b => JList [JStr R_c; JStr b]
                               | Partial b => JList [JStr R_p; JStr b] end)) d).

Definition json_of_op (o : fsop) : json :=
  match o with
  | Read f => JList [JStr R_Read; JStr f]
  | OpenTrunc f => JList [JStr R_OpenTrunc; JStr f]
  | Write f c => JList [JStr R_Write; JStr f; JStr c]
  | Close f => JList [JStr R_Close; JStr f]
  | Remove f => JList [JStr R_Remove; JStr f]
  end.

(** oracle tables *)
Definition tbl_sign (t : option json) (msgs : option json) (tok : str) (msg : list N) : res (list N) :=
  match t, msgs with
  | Some (JList rows), Some (JList ms) =>
      match find (fun row => match row with
                             | JList [JStr k; JInt i; _] =>
                                 eqs k tok && match nth_error ms (Z.to_nat i) with Some (JStr m) => eqs m msg | _ => false end
                             | _ => false end) rows with
      | Some (JList [_; _; JStr raw]) => Ok raw
      | Some (JList [_; _; JDict [(_, JStr e)]]) => Err (err_of_name e)
      | _ => Err EUnmodelled
      end
  | _, _ => Err EUnmodelled
  end.

Definition tbl_gpg_sign (t : option json) (msgs : option json) (kid : option str) (msg : list N) : res json :=
  match t, msgs with
  | Some (JList rows), Some (JList ms) =>
      match find (fun row => match row with
                             | JList [k; JInt i; _] =>
                                 (match k, kid with JNull, None => true | JStr a, Some b => eqs a b | _, _ => false end) &&
                                 match nth_error ms (Z.to_nat i) with Some (JStr m) => eqs m msg | _ => false end
                             | _ => false end) rows with
      | Some (JList [_; _; JDict [(e, JStr n)]]) => if eqs e S_err then Err (err_of_name n) else Err EUnmodelled
      | Some (JList [_; _; sj]) => Ok sj
      | _ => Err EUnmodelled
      end
  | _, _ => Err EUnmodelled
  end.

Definition tbl_export (t : option json) (kid : str) : res json :=
  match t with
  | Some (JDict l) =>
      match lookup kid l with
      | Some (JDict [(e, JStr n)]) => if eqs e S_err then Err (err_of_name n) else Ok (JDict [(e, JStr n)])
      | Some b => Ok b
      | None => Err EUnmodelled
      end
  | _ => Err EUnmodelled
  end.

Definition tbl_dumps (t : option json) (pretty : bool) (j : json) : list N :=
  match t with
  | Some (JList rows) =>
      match find (fun row => match row with
                             | JList [JBool p; v; JStr _] => Bool.eqb p pretty && py_eqb v j && py_eqb j v
                             | _ => false end) rows with
      | Some (JList [_; _; JStr b]) => b
      | _ => R_miss
      end
  | _ => R_miss
  end.

Definition tbl_b64enc (t : option json) (b : list N) : str :=
  match t with
  | Some (JList rows) =>
      match find (fun row => match row with JList [JStr k; JStr _] => eqs k b | _ => false end) rows with
      | Some (JList [_; JStr s]) => s
      | _ => R_miss
      end
  | _ => R_miss
  end.

Definition opt_json (j : option json) : option json :=
  match j with Some JNull | None => None | Some v => Some v end.
Definition opt_str (j : option json) : option str :=
  match j with Some (JStr s) => Some s | _ => None end.
Definition jbool (j : option json) : bool := match j with Some (JBool b) => b | _ => false end.
Definition jdflt (j : option json) : json := match j with Some v => v | None => JNull end.

Definition arts_of (j : option json) : res amap :=
  match j with
  | Some (JDict [(e, JStr n)]) => if eqs e S_err then Err (err_of_name n) else Ok [(e, JStr n)]
  | Some (JDict l) => Ok l
  | _ => Err EUnmodelled
  end.

Definition json_of_written (w : written) : json :=
  JDict [(R_u, JStr (w_unfinished w)); (R_f, JStr (w_final w)); (S_json, w_json w); (R_bytes, JStr (w_bytes w))].

Definition point_dir (d : dirstate) (ops : list fsop) (p : json) : json :=
  match p with
  | JList [JStr mode; JInt k; j] =>
      let jn := match j with JInt n => Some (Z.to_nat n) | _ => None end in
      json_of_dir (if eqs mode R_exc then apply_exc d ops (Z.to_nat k) jn else apply_partial d ops (Z.to_nat k) jn)
  | _ => JNull
  end.

Definition record_op (arg : json) : json :=
  let msgs := jget S_msgs arg in
  let sg := tbl_sign (jget R_sign arg) msgs in
  let gs := tbl_gpg_sign (jget R_gpg_sign arg) msgs in
  let ex := tbl_export (jget R_export arg) in
  let ok := table_sig (jget S_sigs arg) msgs in
  let dm := tbl_dumps (jget R_dumps arg) in
  let ld := table_loads (jget S_loads arg) in
  let be := tbl_b64enc (jget R_b64enc arg) in
  let bd := table_b64 (jget S_b64 arg) in
  let now := match jget S_now arg with Some (JInt z) => z | _ => 0%Z end in
  let d := dir_of (jget R_dir arg) in
  match jget R_call arg with
  | Some c =>
      let arts := arts_of (jget R_arts c) in
      let step := match jget R_step c with Some (JStr s) => s | _ => [] end in
      let '(r, ops) :=
        match jget R_kind c with
        | Some (JStr k) =>
            if eqs k R_start then
              record_start sg gs dm ld be arts (match jget R_cwd c with Some (JStr s) => s | _ => [] end)
                (mkStartArgs step (opt_json (jget R_signer c)) (opt_json (jget R_signing_key c))
                             (opt_str (jget R_gpg_keyid c)) (jbool (jget R_gpg_default c))
                             (jbool (jget R_dsse c)) (jbool (jget R_record_env c)))
            else
              record_stop sg gs ex ok dm ld be bd now arts d
                (mkStopArgs step (opt_json (jget R_signer c)) (opt_json (jget R_signing_key c))
                            (opt_str (jget R_gpg_keyid c)) (jbool (jget R_gpg_default c))
                            (opt_str (jget R_mdir c)) (jdflt (jget S_command c)) (jdflt (jget S_byproducts c))
                            (jdflt (jget S_environment c)))
        | _ => (Err EUnmodelled, [])
        end in
      JDict [(R_res, match r with Ok w => JDict [(S_ok, json_of_written w)] | Err e => jerr e end);
             (R_ops, JList (map json_of_op ops));
             (R_after, json_of_dir (apply d ops));
             (R_points, JList (match jget R_points arg with
                               | Some (JList ps) => map (point_dir d ops) ps
                               | _ => [] end))]
  | None => jerr EUnmodelled
  end.

(** the two earlier versions of the lookup (regression witnesses): which names would be picked *)
Definition glob_legacy_op (arg : json) : json :=
  let d := dir_of (jget R_dir arg) in
  match jget R_step arg with
  | Some (JStr s) =>
      let f := fun esc dotf => match glob_unfinished_gen esc dotf d s with Ok l => jstr_list l | Err e => jerr e end in
      JList [f true true; f false true; f false false]
  | _ => jerr EUnmodelled
  end.

Definition op_record : str := [114;101;99;111;114;100]%N.            (* record *)
Definition op_record_glob : str := [114;101;99;111;114;100;95;103;108;111;98]%N.   (* record_glob *)

Definition run_op_record (op : str) (arg : json) : option json :=
  if eqs op op_record then Some (record_op arg)
  else if eqs op op_record_glob then Some (glob_legacy_op arg)
  else None.
Definition handles (op : str) : bool := eqs op op_record || eqs op op_record_glob.
Definition run (op : str) (arg : json) : json :=
  match run_op_record op arg with Some j => j | None => jerr EUnmodelled end.
