(** VerifySeq.v — the caller's metadata object after in_toto_verify returned or raised, and
    consecutive verifications of ONE loaded object (C16).

    Python aliasing made explicit: for a traditional Metablock [metadata.get_payload()] returns
    [metadata.signed] itself and [substitute_parameters] assigns the substituted lists into its
    steps and inspections; for a DSSE Envelope [get_payload()] parses the payload bytes afresh on
    every call, so the caller's object is never touched. *)
From InToto.Model Require Import Base Json Strs Utf8 Canon Rule Glob Rules Expiry Subst Meta Verify.

(** substitute_parameters computes the three new lists of a step (materials, products, command)
    and only then assigns them: a step is either completely substituted or untouched; when a
    [format] call raises, the steps before it stay substituted. *)
Fixpoint subst_steps_mut (ps : list (str * str)) (l : list step) : list step * option err :=
  match l with
  | [] => ([], None)
  | s :: l' =>
      match subst_step ps s with
      | Err e => (s :: l', Some e)
      | Ok s' => let '(r, e) := subst_steps_mut ps l' in (s' :: r, e)
      end
  end.

Fixpoint subst_insps_mut (ps : list (str * str)) (l : list insp) : list insp * option err :=
  match l with
  | [] => ([], None)
  | i :: l' =>
      match subst_insp ps i with
      | Err e => (i :: l', Some e)
      | Ok i' => let '(r, e) := subst_insps_mut ps l' in (i' :: r, e)
      end
  end.

(** the Layout object after substitute_parameters(layout, params) returned or raised *)
Definition layout_after (l : layout) (params : json) : layout :=
  match check_params params with
  | Err _ => l                                  (* _check_parameter_dict raises before any assignment *)
  | Ok ps =>
      let '(steps, e) := subst_steps_mut ps (ly_steps l) in
      match e with
      | Some _ => mkLayout steps (ly_inspect l) (ly_keys l) (ly_expires l) (ly_expires_us l) (ly_readme l)
      | None =>
          let '(ins, _) := subst_insps_mut ps (ly_inspect l) in
          mkLayout steps ins (ly_keys l) (ly_expires l) (ly_expires_us l) (ly_readme l)
      end
  end.

Section Seq.
  Variable b64dec : str -> option (list N).
  Variable loads : list N -> option json.
  Variable sig_ok : str -> list N -> str -> bool.
  Variable now_s : Z.
  Variable now_us : Z.

  (** the caller's object after in_toto_verify(metadata, keys, params=...) — whatever the outcome.
      Substitution is reached only when the signature and expiry stages passed. *)
  Definition verify_md_after (a : args) : metadata :=
    match a_md a with
    | Envelope _ _ _ _ => a_md a
    | Metablock sigs p =>
        match verify_metadata_signatures sig_ok now_s (a_md a) (a_keys a), p, a_params a with
        | Ok _, PLayout l0, Some ps =>
            match check_expiry (ly_expires_us l0) now_us with
            | Ok _ => Metablock sigs (PLayout (layout_after l0 ps))
            | Err _ => a_md a
            end
        | _, _, _ => a_md a
        end
    end.

  (** several verifications of one object; every run has its own parameters and its own
      process-execution oracle (an inspection run may see files an earlier run left behind) *)
  Fixpoint verify_seq (d : dirtree) (md : metadata) (keys : json) (sname : json)
           (runs : list ((list json -> exec_result) * option json)) : list (result * metadata) :=
    match runs with
    | [] => []
    | (ex, ps) :: runs' =>
        let a := mkArgs md keys ps sname in
        let md' := verify_md_after a in
        (verify b64dec loads sig_ok now_s now_us ex d a, md') :: verify_seq d md' keys sname runs'
    end.
End Seq.
