(** Entry.v — one entry point per model function for the correspondence check:
    the harness sends  ["op", arg]  as one line of ASCII JSON, the model answers one line. *)
From InToto.Model Require Import Base Json Rule.

Definition s_ok : str := [111;107]%N.
Definition jok (j : json) : json := JDict [(s_ok, j)].
Definition jres {A} (f : A -> json) (r : res A) : json :=
  match r with Ok a => jok (f a) | Err e => jerr e end.

Definition op_unpack_rule : str := [117;110;112;97;99;107;95;114;117;108;101]%N.
Definition op_pack_unpacked : str := [112;97;99;107;95;117;110;112;97;99;107;101;100]%N.

Definition op_lower : str := [108;111;119;101;114]%N.
Definition op_upper : str := [117;112;112;101;114]%N.

Definition run_op (op : str) (arg : json) : json :=
  if eqs op op_lower then match arg with JStr s => jok (JStr (lower s)) | _ => jerr EUnmodelled end
  else if eqs op op_upper then match arg with JStr s => jok (JStr (upper s)) | _ => jerr EUnmodelled end
  else if eqs op op_unpack_rule then jres meaning_json (unpack_rule arg)
  else if eqs op op_pack_unpacked then
    (* unpack, then pack the meaning: {"ok": [tokens]} / {"err": ..} ; error if unpack fails *)
    jres jstr_list (do m <- unpack_rule arg; pack_rule m)
  else jerr EUnmodelled.

Definition bad_request : list N := [66;65;68;45;82;69;81;85;69;83;84]%N.

Definition run_line (line : list N) : list N :=
  match parse_json line with
  | Some (JList [JStr op; arg]) => print_json (run_op op arg)
  | _ => bad_request
  end.
