(** Entry.v — one entry point per model function for the correspondence check:
    the harness sends  ["op", arg]  as one line of ASCII JSON, the model answers one line. *)
From InToto.Model Require Import Base Json Rule Glob Rules Utf8 Match DirDigest Canon EntryVerify.
From InToto.Model Require EntrySign.
From InToto.Model Require EntryRun.
From InToto.Model Require Import EntryResolve.
From InToto.Model Require EntryRecord.
From InToto.Model Require EntryStreams.
From InToto.Model Require EntrySublay.

Definition s_ok : str := [111;107]%N.
Definition jok (j : json) : json := JDict [(s_ok, j)].
Definition jres {A} (f : A -> json) (r : res A) : json :=
  match r with Ok a => jok (f a) | Err e => jerr e end.

Definition op_unpack_rule : str := [117;110;112;97;99;107;95;114;117;108;101]%N.
Definition op_pack_unpacked : str := [112;97;99;107;95;117;110;112;97;99;107;101;100]%N.

Definition op_lower : str := [108;111;119;101;114]%N.
Definition op_upper : str := [117;112;112;101;114]%N.

(* ---- C03 ------------------------------------------------------------------- *)
Definition s_materials := k_materials.
Definition s_products := k_products.
Definition s_name : str := [110;97;109;101]%N.
Definition s_side : str := [115;105;100;101]%N.
Definition s_rules : str := [114;117;108;101;115]%N.
Definition s_links : str := [108;105;110;107;115]%N.
Definition s_pat : str := [112;97;116]%N.
Definition s_names : str := [110;97;109;101;115]%N.
Definition s_err : str := [101;114;114]%N.
Definition s_trace : str := [116;114;97;99;101]%N.

Definition amap_of_json (j : option json) : amap :=
  match j with Some (JDict l) => l | _ => [] end.

(** harness-side rendering of a Link object (only the artifact maps matter for rules) *)
Definition simple_link (name : str) (j : json) : link :=
  mkLink (JStr name) (amap_of_json (jget s_materials j)) (amap_of_json (jget s_products j)) (JDict []) (JList []) (JDict []).

Definition links_of_json (j : option json) : links :=
  match j with
  | Some (JDict l) => map (fun kv => (fst kv, simple_link (fst kv) (snd kv))) l
  | _ => []
  end.

(** queue after each rule (by running the evaluator on every prefix of the rule list) + the final outcome *)
Definition rules_trace (arg : json) : json :=
  match jget s_name arg, jget s_side arg, jget s_rules arg with
  | Some (JStr name), Some (JStr side), Some (JList rules) =>
      let ls := links_of_json (jget s_links arg) in
      let sd := if eqs side k_materials then Materials else Products in
      let upto := fun k => verify_item_rules_glob name sd (firstn k rules) ls in
      let tr := flat_map (fun k => match upto k with Ok q => [jstr_list q] | Err _ => [] end)
                         (seq 1 (length rules)) in
      match upto (length rules) with
      | Ok q => JDict [(s_ok, jstr_list q); (s_trace, JList tr)]
      | Err e => match jerr e with
                 | JDict l => JDict (l ++ [(s_trace, JList tr)])
                 | j => j
                 end
      end
  | _, _, _ => jerr EUnmodelled
  end.

Definition fnmatch_op (arg : json) : json :=
  match jget s_pat arg, jget s_names arg with
  | Some (JStr pat), Some (JList names) =>
      match all_strs names with
      | Some ns =>
          match mapM (fun n => match glob_match pat n with Some b => Ok (JBool b) | None => Err EUnmodelled end) ns with
          | Ok bs => jok (JList bs)
          | Err e => jerr e
          end
      | None => jerr EUnmodelled
      end
  | _, _ => jerr EUnmodelled
  end.

(* ---- C19 / C20 ------------------------------------------------------------- *)
Definition s_P : str := [80]%N.
Definition s_A : str := [65]%N.
Definition s_files : str := [102;105;108;101;115]%N.
Definition s_ref : str := [114;101;102]%N.
Definition s_content : str := [99;111;110;116;101;110;116]%N.

Definition match_products_op (arg : json) : json :=
  match jget s_P arg, jget s_A arg with
  | Some (JDict P), Some (JDict A) =>
      let '(o, n, d) := match_products P A in jok (JList [jstr_list o; jstr_list n; jstr_list d])
  | _, _ => jerr EUnmodelled
  end.

(** files: [[path, hex], ...] in any order -> the UTF-8 bytes that get hashed (as a string of bytes) *)
Definition dir_text_op (arg : json) : json :=
  match jget s_files arg with
  | Some (JList l) =>
      match mapM (fun e => match e with JList [JStr p; JStr h] => Ok (p, h) | _ => Err EUnmodelled end) l with
      | Ok files => if forallb (fun f => encodable (fst f)) files then jok (JStr (utf8 (dir_text files))) else jerr EUnicode
      | Err e => jerr e
      end
  | _ => jerr EUnmodelled
  end.

Definition ostree_op (arg : json) : json :=
  match jget s_ref arg, jget s_content arg with
  | Some (JStr r), Some (JStr c) => jok (JList [JStr (ostree_ref_path r); JStr (ostree_object_path c)])
  | _, _ => jerr EUnmodelled
  end.

Definition op_match_products : str := [109;97;116;99;104;95;112;114;111;100;117;99;116;115]%N.
Definition op_dir_text : str := [100;105;114;95;116;101;120;116]%N.
Definition op_ostree : str := [111;115;116;114;101;101]%N.

Definition op_verify : str := [118;101;114;105;102;121]%N.
Definition op_canon : str := [99;97;110;111;110]%N.
(** canonical bytes of a JSON value, as a string of bytes *)
Definition canon_op (arg : json) : json := jres (fun b => JStr b) (signable_bytes arg).

Definition op_rules_trace : str := [114;117;108;101;115;95;116;114;97;99;101]%N.
Definition op_fnmatch : str := [102;110;109;97;116;99;104]%N.

Definition run_op (op : str) (arg : json) : json :=
  match run_op_resolve op arg with Some j => j | None =>
  if eqs op op_verify then verify_op arg
  else if EntrySign.handles_sign op then EntrySign.run_op_sign_total op arg
  else if EntryRecord.handles op then EntryRecord.run op arg
  else if eqs op op_canon then canon_op arg
  else if eqs op op_match_products then match_products_op arg
  else if eqs op op_dir_text then dir_text_op arg
  else if eqs op op_ostree then ostree_op arg
  else if eqs op op_rules_trace then rules_trace arg
  else if eqs op op_fnmatch then fnmatch_op arg
  else match EntryStreams.run_op_streams op arg with Some j => j | None =>
  match EntrySublay.run_op_sublay op arg with Some r => r | None =>
  if eqs op op_lower then match arg with JStr s => jok (JStr (lower s)) | _ => jerr EUnmodelled end
  else if eqs op op_upper then match arg with JStr s => jok (JStr (upper s)) | _ => jerr EUnmodelled end
  else if eqs op op_unpack_rule then jres meaning_json (unpack_rule arg)
  else if eqs op op_pack_unpacked then
    (* unpack, then pack the meaning: {"ok": [tokens]} / {"err": ..} ; error if unpack fails *)
    jres jstr_list (do m <- unpack_rule arg; pack_rule m)
  else match EntryRun.run_op_run op arg with Some r => r | None =>
  jerr EUnmodelled end
  end
  end
  end.

Definition bad_request : list N := [66;65;68;45;82;69;81;85;69;83;84]%N.

Definition run_line (line : list N) : list N :=
  match parse_json line with
  | Some (JList [JStr op; arg]) => print_json (run_op op arg)
  | _ => bad_request
  end.
