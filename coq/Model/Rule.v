(** Rule.v — model of in_toto/rulelib.py: unpack_rule, pack_rule (C17). *)
From InToto.Model Require Import Base Json.

(* keyword literals *)
Definition k_create   : str := [99;114;101;97;116;101]%N.
Definition k_modify   : str := [109;111;100;105;102;121]%N.
Definition k_delete   : str := [100;101;108;101;116;101]%N.
Definition k_allow    : str := [97;108;108;111;119]%N.
Definition k_disallow : str := [100;105;115;97;108;108;111;119]%N.
Definition k_require  : str := [114;101;113;117;105;114;101]%N.
Definition k_match    : str := [109;97;116;99;104]%N.
Definition k_in       : str := [105;110]%N.
Definition k_with     : str := [119;105;116;104]%N.
Definition k_from     : str := [102;114;111;109]%N.
Definition k_materials : str := [109;97;116;101;114;105;97;108;115]%N.
Definition k_products  : str := [112;114;111;100;117;99;116;115]%N.

Inductive gkind := Create | Modify | Delete | Allow | Disallow | Require.
Inductive dkind := Materials | Products.

Inductive meaning :=
| Generic (k : gkind) (pattern : str)
| Match (pattern src_prefix : str) (d : dkind) (dst_prefix step : str).

Definition gkind_name (k : gkind) : str :=
  match k with
  | Create => k_create | Modify => k_modify | Delete => k_delete
  | Allow => k_allow | Disallow => k_disallow | Require => k_require
  end.
Definition dkind_name (d : dkind) : str :=
  match d with Materials => k_materials | Products => k_products end.

(** GENERIC_RULES membership of an already lower-cased token *)
Definition kw_generic (t : str) : option gkind :=
  if eqs t k_create then Some Create
  else if eqs t k_modify then Some Modify
  else if eqs t k_delete then Some Delete
  else if eqs t k_allow then Some Allow
  else if eqs t k_disallow then Some Disallow
  else if eqs t k_require then Some Require
  else None.

Definition kw_dst (t : str) : option dkind :=
  if eqs t k_materials then Some Materials
  else if eqs t k_products then Some Products
  else None.

(** [is_kw k t]: token [t] is keyword [k], case-insensitively *)
Definition is_kw (k t : str) : bool := eqs (lower t) k.

(** _check_str_list: a JSON list all of whose elements are strings *)
Fixpoint all_strs (l : list json) : option (list str) :=
  match l with
  | [] => Some []
  | JStr s :: l' => match all_strs l' with Some r => Some (s :: r) | None => None end
  | _ :: _ => None
  end.

Definition check_str_list (j : json) : res (list str) :=
  match j with
  | JList l => match all_strs l with Some r => Ok r | None => Err EFormat end
  | _ => Err EFormat
  end.

(** unpack_rule on a token list (after _check_str_list), statement by statement *)
Definition unpack_tokens (rule : list str) : res meaning :=
  match rule with
  | t0 :: pattern :: rest =>
      match kw_generic (lower t0) with
      | Some k => match rest with [] => Ok (Generic k pattern) | _ => Err EFormat end
      | None =>
          if is_kw k_match t0 then
            match rest with
            | [a2; a3; a4; a5; a6; a7; a8; a9] =>
                if is_kw k_in a2 && is_kw k_with a4 && is_kw k_in a6 && is_kw k_from a8 then
                  match kw_dst (lower a5) with
                  | Some d => Ok (Match pattern a3 d a7 a9)
                  | None => Err EFormat
                  end
                else Err EFormat
            | [a2; a3; a4; a5; a6; a7] =>
                if is_kw k_in a2 && is_kw k_with a4 && is_kw k_from a6 then
                  match kw_dst (lower a5) with
                  | Some d => Ok (Match pattern a3 d [] a7)
                  | None => Err EFormat
                  end
                else if is_kw k_with a2 && is_kw k_in a4 && is_kw k_from a6 then
                  match kw_dst (lower a3) with
                  | Some d => Ok (Match pattern [] d a5 a7)
                  | None => Err EFormat
                  end
                else Err EFormat
            | [a2; a3; a4; a5] =>
                if is_kw k_with a2 && is_kw k_from a4 then
                  match kw_dst (lower a3) with
                  | Some d => Ok (Match pattern [] d [] a5)
                  | None => Err EFormat
                  end
                else Err EFormat
            | _ => Err EFormat
            end
          else Err EFormat
      end
  | _ => Err EFormat
  end.

Definition unpack_rule (j : json) : res meaning :=
  do toks <- check_str_list j; unpack_tokens toks.

(** pack_rule_data for a meaning returned by unpack_rule
    (rule_type and dest_type are the lower-cased keywords) *)
Definition K_IN : str := [73;78]%N.
Definition K_WITH : str := [87;73;84;72]%N.
Definition K_FROM : str := [70;82;79;77]%N.
Definition K_MATCH : str := [77;65;84;67;72]%N.

Definition pack_rule (m : meaning) : res (list str) :=
  match m with
  | Generic k p => Ok [upper (gkind_name k); p]
  | Match p sp d dp step =>
      match step with
      | [] => Err EFormat                      (* "not (isinstance(dest_name, str) and dest_name)" *)
      | _ =>
          Ok ([K_MATCH; p]
              ++ (match sp with [] => [] | _ => [K_IN; sp] end)
              ++ [K_WITH; upper (dkind_name d)]
              ++ (match dp with [] => [] | _ => [K_IN; dp] end)
              ++ [K_FROM; step])
      end
  end.

(** JSON rendering of the dictionary unpack_rule returns (for the correspondence check) *)
Definition s_rule_type : str := [114;117;108;101;95;116;121;112;101]%N.
Definition s_pattern : str := [112;97;116;116;101;114;110]%N.
Definition s_source_prefix : str := [115;111;117;114;99;101;95;112;114;101;102;105;120]%N.
Definition s_dest_prefix : str := [100;101;115;116;95;112;114;101;102;105;120]%N.
Definition s_dest_type : str := [100;101;115;116;95;116;121;112;101]%N.
Definition s_dest_name : str := [100;101;115;116;95;110;97;109;101]%N.

Definition meaning_json (m : meaning) : json :=
  match m with
  | Generic k p => JDict [(s_rule_type, JStr (gkind_name k)); (s_pattern, JStr p)]
  | Match p sp d dp step =>
      JDict [(s_rule_type, JStr k_match); (s_pattern, JStr p); (s_source_prefix, JStr sp);
             (s_dest_prefix, JStr dp); (s_dest_type, JStr (dkind_name d)); (s_dest_name, JStr step)]
  end.
