(** Expiry.v — the validated expiry format 'YYYY-MM-DDTHH:MM:SSZ' and its instant
    (microseconds since 1970-01-01T00:00:00Z), verify_layout_expiration. *)
From InToto.Model Require Import Base.
Local Open Scope Z_scope.

Definition digit (c : N) : option Z :=
  if (N.leb 48 c && N.leb c 57)%bool then Some (Z.of_N (c - 48)) else None.

Definition num2 (a b : N) : option Z :=
  match digit a, digit b with Some x, Some y => Some (x * 10 + y) | _, _ => None end.
Definition num4 (a b c d : N) : option Z :=
  match num2 a b, num2 c d with Some x, Some y => Some (x * 100 + y) | _, _ => None end.

Record civil := { yr : Z; mo : Z; dy : Z; hh : Z; mi : Z; ss : Z }.

(** the regular expression of formats._check_iso8601, ASCII digits only
    (a non-ASCII Unicode digit also matches \d: [None], outside the modelled fragment) *)
Definition parse_fields (s : str) : option civil :=
  match s with
  | [y1; y2; y3; y4; 45; m1; m2; 45; d1; d2; 84; h1; h2; 58; n1; n2; 58; s1; s2; 90]%N =>
      match num4 y1 y2 y3 y4, num2 m1 m2, num2 d1 d2, num2 h1 h2, num2 n1 n2, num2 s1 s2 with
      | Some y, Some m, Some d, Some h, Some n, Some s => Some (Build_civil y m d h n s)
      | _, _, _, _, _, _ => None
      end
  | _ => None
  end.

Definition leap (y : Z) : bool := ((y mod 4 =? 0) && negb (y mod 100 =? 0)) || (y mod 400 =? 0).
Definition days_in_month (y m : Z) : Z :=
  if (m =? 2) then (if leap y then 29 else 28)
  else if (m =? 4) || (m =? 6) || (m =? 9) || (m =? 11) then 30 else 31.

(** a date dateutil.parser.parse accepts *)
Definition valid_civil (c : civil) : bool :=
  (1 <=? yr c) && (1 <=? mo c) && (mo c <=? 12) && (1 <=? dy c) && (dy c <=? days_in_month (yr c) (mo c))
  && (hh c <=? 23) && (mi c <=? 59) && (ss c <=? 59).

(** days from 1970-01-01 (Howard Hinnant's days_from_civil) *)
Definition days_from_civil (y m d : Z) : Z :=
  let y' := if m <=? 2 then y - 1 else y in
  let era := (if 0 <=? y' then y' else y' - 399) / 400 in
  let yoe := y' - era * 400 in
  let mp := (m + 9) mod 12 in
  let doy := (153 * mp + 2) / 5 + d - 1 in
  let doe := yoe * 365 + yoe / 4 - yoe / 100 + doy in
  era * 146097 + doe - 719468.

Definition instant_us (c : civil) : Z :=
  (((days_from_civil (yr c) (mo c) (dy c) * 24 + hh c) * 60 + mi c) * 60 + ss c) * 1000000.

(** _validate_expires: Ok instant, FormatError, or Unmodelled *)
Definition parse_expires (s : str) : res Z :=
  match parse_fields s with
  | Some c => if valid_civil c then Ok (instant_us c) else Err EFormat
  | None =>
      (* not the ASCII shape: FormatError unless it could be a non-ASCII-digit match *)
      if (Nat.eqb (length s) 20 && negb (is_ascii s))%bool then Err EUnmodelled else Err EFormat
  end.

(** verify_layout_expiration: expire_datetime <= now  =>  LayoutExpiredError *)
Definition check_expiry (expires_us now_us : Z) : res unit :=
  if expires_us <=? now_us then Err EExpired else Ok tt.
