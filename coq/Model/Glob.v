(** Glob.v — model of fnmatch.filter / fnmatch.translate (CPython 3.12, posix:
    case-sensitive, '/' not special, DOTALL).  Hand model, validated by the
    correspondence check only (fnmatch lives outside /repo). *)
From InToto.Model Require Import Base.

Inductive citem := CSingle (c : N) | CRange (lo hi : N).
Inductive tok :=
| TStar
| TAny
| TLit (c : N)
| TClass (neg : bool) (items : list citem).

Definition in_item (x : N) (i : citem) : bool :=
  match i with
  | CSingle c => N.eqb x c
  | CRange lo hi => N.leb lo x && N.leb x hi
  end.
Definition in_class (x : N) (items : list citem) : bool := existsb (in_item x) items.

(** find the closing bracket: [s] is the text after '[' (and after an optional '!'
    and an optional leading ']'); returns (stuff before ']', rest after ']') *)
Fixpoint find_close (s : str) (acc : str) : option (str * str) :=
  match s with
  | [] => None
  | 93%N :: r => Some (rev acc, r)
  | c :: r => find_close r (c :: acc)
  end.

(** class body -> items.  Supported: members without '-', and well-formed
    ascending ranges x-y; a '-' first or last is a literal member.  Anything
    else ("z-a", "a-b-c", ...) is rewritten by fnmatch.translate in ways this
    model does not follow: None = Unmodelled. *)
Fixpoint class_items (fuel : nat) (s : str) : option (list citem) :=
  match fuel with
  | O => None
  | S f =>
      match s with
      | [] => Some []
      | [c] => Some [CSingle c]
      | a :: 45%N :: b :: r =>
          if N.eqb a 45 || N.eqb b 45 then None
          else if N.leb a b then
            match r with
            | 45%N :: _ :: _ => None              (* a-b-... : chunk arithmetic of translate *)
            | _ => match class_items f r with Some l => Some (CRange a b :: l) | None => None end
            end
          else None
      | 45%N :: r => (* leading '-' : literal *)
          match class_items f r with Some l => Some (CSingle 45%N :: l) | None => None end
      | a :: r => match class_items f r with Some l => Some (CSingle a :: l) | None => None end
      end
  end.

Fixpoint parse_glob (fuel : nat) (p : str) : option (list tok) :=
  match fuel with
  | O => None
  | S f =>
      match p with
      | [] => Some []
      | 42%N :: r => match parse_glob f r with Some l => Some (TStar :: l) | None => None end
      | 63%N :: r => match parse_glob f r with Some l => Some (TAny :: l) | None => None end
      | 91%N :: r =>
          let '(neg, r1) := match r with 33%N :: r' => (true, r') | _ => (false, r) end in
          let '(lead, r2) := match r1 with 93%N :: r' => ([93%N], r') | _ => ([], r1) end in
          match find_close r2 [] with
          | None => match parse_glob f r with Some l => Some (TLit 91%N :: l) | None => None end
          | Some (stuff, rest) =>
              match class_items (S (length stuff + 1)) (lead ++ stuff) with
              | Some items =>
                  match parse_glob f rest with
                  | Some l => Some (TClass neg items :: l)
                  | None => None
                  end
              | None => None
              end
          end
      | c :: r => match parse_glob f r with Some l => Some (TLit c :: l) | None => None end
      end
  end.

Fixpoint gm (p : list tok) (s : str) {struct p} : bool :=
  match p with
  | [] => match s with [] => true | _ => false end
  | TStar :: p' =>
      (fix star (s : str) : bool :=
         gm p' s || match s with [] => false | _ :: s' => star s' end) s
  | TAny :: p' => match s with _ :: s' => gm p' s' | [] => false end
  | TLit c :: p' => match s with x :: s' => N.eqb x c && gm p' s' | [] => false end
  | TClass neg items :: p' =>
      match s with
      | x :: s' => xorb neg (in_class x items) && gm p' s'
      | [] => false
      end
  end.

(** [glob_match pat name]: None when the pattern is outside the modelled fragment *)
Definition glob_match (pat name : str) : option bool :=
  match parse_glob (S (length pat)) pat with
  | Some toks => Some (gm toks name)
  | None => None
  end.

Definition glob_supported (pat : str) : bool :=
  match parse_glob (S (length pat)) pat with Some _ => true | None => false end.
