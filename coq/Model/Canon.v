(** Canon.v — securesystemslib.formats.encode_canonical (canonical JSON) and the
    signed bytes of traditional in-toto metadata.  Hand model of code outside /repo,
    validated byte-for-byte by the correspondence check (C09). *)
From InToto.Model Require Import Base Json Utf8.

Definition canon_char (c : N) : list N :=
  if N.eqb c 92 then [92; 92]%N else if N.eqb c 34 then [92; 34]%N else [c].
Definition canon_str (s : str) : str := 34%N :: flat_map canon_char s ++ [34%N].

(** sorted(object.items()): ascending code-point order of the keys *)
Fixpoint insert_kv (x : str * json) (l : list (str * json)) : list (str * json) :=
  match l with
  | [] => [x]
  | y :: l' => if lex_leb (fst x) (fst y) then x :: l else y :: insert_kv x l'
  end.
Fixpoint sort_kv (l : list (str * json)) : list (str * json) :=
  match l with [] => [] | x :: l' => insert_kv x (sort_kv l') end.

Fixpoint join_with (sep : N) (l : list str) : str :=
  match l with
  | [] => []
  | [x] => x
  | x :: l' => x ++ sep :: join_with sep l'
  end.

Fixpoint canon (j : json) : res str :=
  match j with
  | JStr s => Ok (canon_str s)
  | JBool true => Ok [116; 114; 117; 101]%N
  | JBool false => Ok [102; 97; 108; 115; 101]%N
  | JNull => Ok [110; 117; 108; 108]%N
  | JInt z => Ok (print_Z z)
  | JFloat _ => Err EFormat
  | JList l =>
      do parts <- (fix go (l : list json) : res (list str) :=
                     match l with
                     | [] => Ok []
                     | x :: l' => do a <- canon x; do r <- go l'; Ok (a :: r)
                     end) l;
      Ok (91%N :: join_with 44 parts ++ [93%N])
  | JDict l =>
      do parts <- (fix go (l : list (str * json)) : res (list (str * str)) :=
                     match l with
                     | [] => Ok []
                     | (k, v) :: l' => do a <- canon v; do r <- go l'; Ok ((k, a) :: r)
                     end) l;
      Ok (123%N :: join_with 44 (map (fun ka => canon_str (fst ka) ++ 58%N :: snd ka)
                                     (* sort after encoding the values: same order, keys only *)
                                     (let fix ins (x : str * str) (l : list (str * str)) :=
                                        match l with
                                        | [] => [x]
                                        | y :: l' => if lex_leb (fst x) (fst y) then x :: l else y :: ins x l'
                                        end in
                                      (fix srt (l : list (str * str)) :=
                                         match l with [] => [] | x :: l' => ins x (srt l') end) parts))
              ++ [125%N])
  end.

(** normal form: every dict sorted by key, recursively *)
Fixpoint norm (j : json) : json :=
  match j with
  | JList l => JList (map norm l)
  | JDict l => JDict (sort_kv ((fix go (l : list (str * json)) :=
                                  match l with [] => [] | (k, v) :: l' => (k, norm v) :: go l' end) l))
  | _ => j
  end.

(** well-formed: what json.load returns minus floats — dict keys are distinct *)
Fixpoint nodup_keys (l : list str) : bool :=
  match l with [] => true | x :: l' => negb (mem_str x l') && nodup_keys l' end.
Fixpoint wf_json (j : json) : bool :=
  match j with
  | JFloat _ => false
  | JList l => forallb wf_json l
  | JDict l => nodup_keys (map fst l) &&
               (fix go (l : list (str * json)) := match l with [] => true | (_, v) :: l' => wf_json v && go l' end) l
  | _ => true
  end.

(** Signable.signable_bytes: canonical JSON of attr.asdict(payload), UTF-8 encoded *)
Definition signable_bytes (asdict : json) : res (list N) :=
  do t <- canon asdict; if encodable t then Ok (utf8 t) else Err EUnicode.

(** DSSE pre-authentication encoding: "DSSEv1 <len type> <type> <len body> <body>" *)
Definition s_dssev1 : str := [68;83;83;69;118;49]%N.
Definition pae (payload_type : list N) (payload : list N) : list N :=
  s_dssev1 ++ 32%N :: print_N (N.of_nat (length payload_type)) ++ 32%N :: payload_type
           ++ 32%N :: print_N (N.of_nat (length payload)) ++ 32%N :: payload.
