(** C07 — inspection commands run only after all prior checks pass, once, in order.
    Statements only; proofs in Proofs/VerifyTrace.v.
    The trace of a run is the ordered list of [Exec cmd] events (a child process was started for an
    inspection).  All statements hold for every link-directory tree, i.e. at every nesting depth:
    the trace of a layout is the concatenation of the traces of its sublayout verifications
    (themselves runs of [verify], to which the same theorems apply) followed by its own events. *)
From InToto.Model Require Import Base Json Strs Utf8 Canon Rule Glob Rules Expiry Subst Meta Verify.
From InToto.Proofs Require Import VerifySpec GateBase VerifyGate VerifyTrace TraceCorollaries VerifyExample.

Section C07.
  Variable b64dec : str -> option (list N).
  Variable loads : list N -> option json.
  Variable sig_ok : str -> list N -> str -> bool.
  Variable now_s : Z.
  Variable now_us : Z.
  Variable exec : list json -> exec_result.

  Notation verify := (verify b64dec loads sig_ok now_s now_us exec).
  Notation stage_pre := (stage_pre b64dec loads sig_ok now_s now_us).
  Notation recs_of := (recs_of b64dec loads sig_ok now_s now_us exec).
  Notation vmissing := (vmissing b64dec loads sig_ok now_s now_us exec).
  Notation passed_prior := (passed_prior b64dec loads sig_ok now_s now_us exec).
  Notation reached := (reached b64dec loads sig_ok now_s now_us).
  Notation sub_traces := (sub_traces b64dec loads sig_ok now_s now_us exec).
  Notation run_shape := (run_shape b64dec loads sig_ok now_s now_us exec).

  (** (a) Every event of every run — accepted or not, at the root or nested — is an inspection
      command of some layout [l] reached by the recursion from the root
      ([reached]: the (directory, arguments) pairs of the recursive in_toto_verify calls)
      which passed ALL of its own earlier stages ([passed_prior]):
      [stage_pre] = signatures of every supplied key, payload, expiry, parameter substitution,
      link loading, link signature thresholds; [subs_steps] = every sublayout verified;
      [stage_mid] = threshold agreement, reduction, step rules. *)
  Theorem C07_after_checks : forall d a e,
    In e (snd (verify d a)) ->
    exists d' a' l, reached d a d' a' /\ passed_prior d' a' l /\ In e (insp_cmds l).
  Proof. exact (verify_after_checks b64dec loads sig_ok now_s now_us exec). Qed.

  (** what "passed" includes, spelled out for the first stage: all keys verified, not expired *)
  Theorem C07_passed_means_authentic : forall files subs a l,
    passed_prior (Dir files subs) a l ->
    exists l0, gate sig_ok now_s now_us (a_md a) (a_keys a) = Ok l0 /\
               get_payload (a_md a) = Ok (PLayout l0) /\ layout_for l0 (a_params a) = Ok l.
  Proof. exact (passed_means_authentic b64dec loads sig_ok now_s now_us exec). Qed.

  (** contrapositive: a layout that fails its signature / expiry / loading / link-threshold
      stage runs nothing at all; one that fails a sublayout, threshold agreement or a step rule
      contributes no event of its own (the trace consists of sublayout traces only) *)
  Theorem C07_no_exec_from_bad_layout : forall files subs a,
    (forall l, ~ passed_prior (Dir files subs) a l) ->
    match stage_pre files a with
    | Err e => verify (Dir files subs) a = (Err e, [])
    | Ok (l, vm) => exists calls, is_prefix calls (calls_of_vm l vm) /\
                                  snd (verify (Dir files subs) a) = sub_traces subs calls
    end.
  Proof. exact (no_exec_from_bad_layout b64dec loads sig_ok now_s now_us exec). Qed.

  (** (b) order, once: the trace of a layout is the traces of its sublayout verifications — a
      prefix of the calls [calls_of_vm] lists, in step order then link-load order — followed by
      its own events, which are a prefix of the layout's inspection list (each inspection at most
      once, in layout order); own events exist only if sublayouts, agreement and step rules
      passed; (d) an accepted run made every call, every call accepted, and every inspection ran *)
  Theorem C07_order_once : forall files subs a,
    match stage_pre files a with
    | Err e => verify (Dir files subs) a = (Err e, [])
    | Ok (l, vm) => exists calls own, run_shape files subs a l vm calls own
    end.
  Proof. exact (verify_shape b64dec loads sig_ok now_s now_us exec). Qed.

  Theorem C07_accepted_runs_all : forall files subs a lk tr,
    verify (Dir files subs) a = (Ok lk, tr) ->
    exists l vm, stage_pre files a = Ok (l, vm) /\
                 tr = sub_traces subs (calls_of_vm l vm) ++ insp_cmds l /\
                 Forall (fun c => exists s, fst (verify (subdir subs (fst c)) (snd c)) = Ok s) (calls_of_vm l vm).
  Proof. exact (accepted_runs_all b64dec loads sig_ok now_s now_us exec). Qed.

  (** (c) stop at the first failure: if the oracle reports for an executed command anything but a
      zero integer return value (non-zero, non-integer, time-out, crash), that event is the last
      one of the whole trace — at whatever depth it happened — and the verdict is an error *)
  Theorem C07_stop_at_failure : forall d a r pre c post,
    verify d a = (r, pre ++ Exec c :: post) -> exec_good (exec c) = false ->
    post = [] /\ exists e, r = Err e.
  Proof. exact (verify_stop_at_failure b64dec loads sig_ok now_s now_us exec). Qed.
End C07.

(* ------------------------------------------------------------------ *)
(** * Non-vacuity (Proofs/VerifyExample.v: one step, two inspections) *)
From Coq Require Import String.
Local Open Scope string_scope.

Example C07_ex_accepted_runs_both_in_order :
  is_ok (run now0 ex_exec_ok link_dir (ex_args root_md keys1 None)) = true /\
  snd (run now0 ex_exec_ok link_dir (ex_args root_md keys1 None)) = [cmd_echo "{T}"; cmd_true].
Proof. vm_compute. split; reflexivity. Qed.

(** second inspection fails: it is the last event, verdict BadReturnValue *)
Example C07_ex_fail_second :
  run now0 ex_exec_fail2 link_dir (ex_args root_md keys1 None) = (Err EBadRetval, [cmd_echo "{T}"; cmd_true]).
Proof. vm_compute. reflexivity. Qed.

(** first inspection times out: the second never starts *)
Example C07_ex_timeout_first :
  run now0 ex_exec_timeout link_dir (ex_args root_md keys1 None) = (Err ETimeout, [cmd_echo "{T}"]).
Proof. vm_compute. reflexivity. Qed.

(** earlier stages failing: nothing runs (missing link; expired; unauthenticated) *)
Example C07_ex_missing_link : run now0 ex_exec_ok empty_dir (ex_args root_md keys1 None) = (Err ELinkNotFound, []).
Proof. vm_compute. reflexivity. Qed.
Example C07_ex_expired : run expires_us ex_exec_ok link_dir (ex_args root_md keys1 None) = (Err EExpired, []).
Proof. vm_compute. reflexivity. Qed.
Example C07_ex_unauthenticated : run now0 ex_exec_ok link_dir (ex_args edited_md keys1 None) = (Err ESignature, []).
Proof. vm_compute. reflexivity. Qed.

(** nesting: the sublayout's inspections (its own, after its own checks) precede the
    super-layout's; a failing sublayout inspection ends everything; a sublayout that fails an
    earlier stage (its links are missing) runs nothing, and neither does the super-layout *)
Example C07_ex_nested :
  is_ok (run now0 ex_exec_ok super_dir (ex_args super_md keys_super None)) = true /\
  snd (run now0 ex_exec_ok super_dir (ex_args super_md keys_super None)) = [cmd_echo "{T}"; cmd_true; cmd_super].
Proof. vm_compute. split; reflexivity. Qed.
Example C07_ex_nested_fail :
  run now0 ex_exec_fail2 super_dir (ex_args super_md keys_super None) = (Err EBadRetval, [cmd_echo "{T}"; cmd_true]).
Proof. vm_compute. reflexivity. Qed.
Example C07_ex_nested_missing_dir :
  run now0 ex_exec_ok super_dir_no_sub (ex_args super_md keys_super None) = (Err ELinkNotFound, []).
Proof. vm_compute. reflexivity. Qed.

Print Assumptions C07_after_checks.
Print Assumptions C07_passed_means_authentic.
Print Assumptions C07_no_exec_from_bad_layout.
Print Assumptions C07_order_once.
Print Assumptions C07_accepted_runs_all.
Print Assumptions C07_stop_at_failure.
