(** C13 — recorded stdout / stderr / exit status are exact under every output schedule.

    "With stream recording on, the recorded standard output and standard error are the complete text the
     command wrote - every character, in order, with line endings read as in any text-mode stream (CR LF and
     CR become LF) - and the recorded return value is its exit status, regardless of how much it wrote, how its
     writes were chunked or timed relative to in-toto's polling, and whether it exited immediately after
     writing.  A command that outlives the time limit is killed and reported as timed out, and no temporary
     capture file remains in either case."

    Model: Model/Streams.v ([run] = _subprocess_run_duplicate_streams, [execute_link]); a schedule is any list
    of events  Append stream bytes | Poll | Tick dt | Exit rc ;  [written s sched] = the bytes the child wrote
    to [s] before exiting;  [text_of] = strict UTF-8 decoding of the whole byte string, then CRLF / CR -> LF.
    [env_ok c] = Popen, both mkstemp calls and both os.remove calls succeed.  The chunk size
    (io.DEFAULT_BUFFER_SIZE) is any positive number. *)
From Coq Require Import List NArith ZArith Bool.
From InToto.Model Require Import Base Utf8 Streams.
From InToto.Proofs Require Import StreamsProofs Utf8Decode.
Import ListNotations.
Local Open Scope N_scope.

(** ** exactness, for every schedule *)
Theorem C13_exact : forall c sched rc,
  env_ok c = true -> 0 < chunk c -> exit_code sched = Some rc -> deadline_hit c sched = false ->
  (forall tout terr, text_of (written SOut sched) = Some tout -> text_of (written SErr sched) = Some terr ->
     fst (run c sched) = Done rc tout terr) /\
  (text_of (written SOut sched) = None \/ text_of (written SErr sched) = None ->
     fst (run c sched) = DecodeErr).
Proof. exact run_exact_cases. Qed.
Print Assumptions C13_exact.

(** the reference text is meaningful: [utf8_decode] is exactly the inverse of the encoder [Utf8.utf8]
    (str.encode("utf-8")) on strings of scalar values, and rejects every other byte string *)
Theorem C13_text_of_is_the_encoded_text : forall bs s,
  utf8_decode bs = Some s <-> (utf8 s = bs /\ encodable s = true).
Proof. exact utf8_decode_iff. Qed.
Print Assumptions C13_text_of_is_the_encoded_text.

(** ** chunk-boundary independence of the two incremental decoders (the key lemmas) *)
Theorem C13_utf8_chunk_independent : forall p a b, pend_ok p ->
  utf8_step p (a ++ b) =
  match utf8_step p a with
  | None => None
  | Some (p', t) => match utf8_step p' b with
                    | None => None
                    | Some (p'', t') => Some (p'', t ++ t')
                    end
  end.
Proof. exact utf8_step_app. Qed.
Print Assumptions C13_utf8_chunk_independent.

Theorem C13_newline_chunk_independent : forall a b ta pa tb pb tf pf,
  nl_decode false a false = (ta, pa) ->
  nl_decode pa b false = (tb, pb) ->
  nl_decode pb [] true = (tf, pf) ->
  ta ++ tb ++ tf = translate (a ++ b).
Proof. exact nl_decode_app. Qed.
Print Assumptions C13_newline_chunk_independent.

(** ** the time limit: some loop iteration, while the child runs, sees  time.time() > proc_start_time + timeout
    ([deadline_hit]: the test is [Z.gtb now (t0 + timeout)], strict) *)
Theorem C13_timeout : forall c sched,
  env_ok c = true -> deadline_hit c sched = true ->
  prefix_ok (written SOut sched) -> prefix_ok (written SErr sched) ->
  exists pre, run c sched = (TimedOut, Mk SOut :: Mk SErr :: Spawn :: pre ++ [Kill; Wait; Rm SOut; Rm SErr]).
Proof. exact run_timeout. Qed.
Print Assumptions C13_timeout.

(** without the assumption that what was written so far is decodable: the only other possibility is that
    a UnicodeDecodeError came first *)
Theorem C13_timeout_any_bytes : forall c sched,
  env_ok c = true -> deadline_hit c sched = true ->
  fst (run c sched) = TimedOut \/ fst (run c sched) = DecodeErr.
Proof. exact run_timeout_weak. Qed.
Print Assumptions C13_timeout_any_bytes.

Theorem C13_timeout_only_if : forall c sched,
  fst (run c sched) = TimedOut -> deadline_hit c sched = true.
Proof. exact run_timeout_only_if. Qed.
Print Assumptions C13_timeout_only_if.

(** ** cleanup: in EVERY outcome and under every environment fault, the capture files that exist afterwards
    are exactly those whose removal the operating system refused; none else was created *)
Theorem C13_cleanup : forall c sched,
  live (snd (run c sched)) [] =
  if mk1_ok c && mk2_ok c
  then (if rm_out_ok c then [] else [SOut]) ++ (if rm_err_ok c then [] else [SErr])
  else [].
Proof. exact run_cleanup_full. Qed.
Print Assumptions C13_cleanup.

Theorem C13_cleanup_created : forall c sched,
  created (snd (run c sched)) = if mk1_ok c then (if mk2_ok c then [SOut; SErr] else [SOut]) else [].
Proof. exact run_created. Qed.
Print Assumptions C13_cleanup_created.

Corollary C13_cleanup_nothing_left : forall c sched,
  rm_out_ok c = true -> rm_err_ok c = true -> live (snd (run c sched)) [] = [].
Proof.
  intros c sched H1 H2. rewrite run_cleanup_full, H1, H2. destruct (mk1_ok c && mk2_ok c); reflexivity.
Qed.
Print Assumptions C13_cleanup_nothing_left.

Theorem C13_env_fault : forall c sched,
  env_ok c = false ->
  (mk1_ok c && mk2_ok c && popen_ok c = false -> fst (run c sched) = OsErr) /\
  (rm_out_ok c && rm_err_ok c = false -> fst (run c sched) = OsErr).
Proof. exact run_env_fault. Qed.
Print Assumptions C13_env_fault.

Theorem C13_never_out_of_fuel : forall c sched, fst (run c sched) <> OutOfFuel.
Proof. exact run_never_out_of_fuel. Qed.
Print Assumptions C13_never_out_of_fuel.

(** ** execute_link *)
Theorem C13_norecord : forall c sched r,
  execute_link false c sched r =
  match r with RunDone rc => (Done rc [] [], []) | RunTimeout => (TimedOut, []) | RunOsErr => (OsErr, []) end.
Proof. exact execute_link_norecord. Qed.
Print Assumptions C13_norecord.

Theorem C13_record : forall c sched r, execute_link true c sched r = run c sched.
Proof. exact execute_link_record. Qed.
Print Assumptions C13_record.

(* ------------------------------------------------------------------------------------------ *)
(** ** non-vacuity *)

Definition cfg0 : cfg := mkCfg 8192 None 0 true true true true true.
Definition cfg_t (lim : Z) : cfg := mkCfg 8192 (Some lim) 100 true true true true true.
Definition repN (n : N) (c : N) : bytes := N.iter n (cons c) [].

(** "café\r\n€\r" + 9000 x 'z' on stdout, written in pieces that split é, € and CR|LF, with polls in between,
    "E\r" on stderr, exit 3 right after the last write with more than one chunk unread; time limit 10 *)
Definition sched_ex : list event :=
  [Append SOut [99;97;102;195]; Poll; Tick 2; Append SOut [169;13]; Poll; Append SErr [69;13];
   Append SOut [10;226;130]; Poll; Tick 3; Append SOut [172;13]; Append SOut (repN 9000 122); Exit 3].

Example C13_exact_applies :
  env_ok (cfg_t 10) = true /\ exit_code sched_ex = Some 3%Z /\ deadline_hit (cfg_t 10) sched_ex = false /\
  text_of (written SOut sched_ex) = Some ([99;97;102;233;10;8364;10] ++ repN 9000 122) /\
  text_of (written SErr sched_ex) = Some [69;10] /\
  fst (run (cfg_t 10) sched_ex) = Done 3 ([99;97;102;233;10;8364;10] ++ repN 9000 122) [69;10].
Proof. vm_compute. repeat split. Qed.

(** invalid UTF-8 (a lone continuation byte) on stderr *)
Example C13_exact_invalid_applies :
  let s := [Append SOut [111;107]; Poll; Append SErr [128]; Exit 0%Z] in
  exit_code s = Some 0%Z /\ deadline_hit cfg0 s = false /\ text_of (written SErr s) = None /\
  fst (run cfg0 s) = DecodeErr.
Proof. vm_compute. repeat split. Qed.

(** the comparison is strict: at now = start + timeout the child is not killed, one tick later it is *)
Example C13_timeout_boundary :
  fst (run (cfg_t 5) [Tick 5; Poll; Exit 0%Z]) = Done 0 [] [] /\
  deadline_hit (cfg_t 5) [Tick 5; Poll; Exit 0%Z] = false /\
  deadline_hit (cfg_t 5) [Append SOut [104;105]; Tick 6; Poll; Exit 0%Z] = true /\
  run (cfg_t 5) [Append SOut [104;105]; Tick 6; Poll; Exit 0%Z] =
    (TimedOut, [Mk SOut; Mk SErr; Spawn; Kill; Wait; Rm SOut; Rm SErr]) /\
  (* a deadline that passes between the last poll and the exit goes unnoticed *)
  fst (run (cfg_t 5) [Poll; Tick 60; Exit 7%Z]) = Done 7 [] [].
Proof. vm_compute. repeat split. Qed.

Example C13_timeout_applies :
  let s := [Append SOut [226;130]; Poll; Tick 11; Poll; Exit 0%Z] in
  deadline_hit (cfg_t 10) s = true /\ prefix_ok (written SOut s) /\ prefix_ok (written SErr s).
Proof. vm_compute. repeat split; discriminate. Qed.

Example C13_cleanup_faults :
  (* Popen raises: both files removed *)
  run (mkCfg 8192 None 0 false true true true true) [Exit 0%Z] = (OsErr, [Mk SOut; Mk SErr; Rm SOut; Rm SErr]) /\
  (* the second mkstemp raises: the first file is removed *)
  run (mkCfg 8192 None 0 true true false true true) [Exit 0%Z] = (OsErr, [Mk SOut; Rm SOut]) /\
  (* removing the first file fails: the second is removed all the same *)
  snd (run (mkCfg 8192 None 0 true true true false true) [Exit 0%Z]) =
     [Mk SOut; Mk SErr; Spawn; Dup [] []; Dup [] []; RmFail SOut; Rm SErr].
Proof. vm_compute. repeat split. Qed.

(* ------------------------------------------------------------------------------------------ *)
(** ** the three repaired defects, refuted on the LEGACY reader ([run_legacy] = the code before the fix
    commits b7aa559 / d7ffa72: text-mode TextIOWrapper.read(n), a single read after the exit) *)

(** more than one read-chunk pending at exit: everything beyond 8192 characters was dropped *)
Theorem C13_legacy_truncation_refuted :
  exists sched rc tout terr,
    exit_code sched = Some rc /\ deadline_hit cfg0 sched = false /\
    text_of (written SOut sched) = Some tout /\ text_of (written SErr sched) = Some terr /\
    fst (run_legacy cfg0 sched) <> Done rc tout terr /\
    fst (run cfg0 sched) = Done rc tout terr.
Proof.
  exists [Append SOut (repN 8193 97); Exit 0%Z], 0%Z, (repN 8193 97), [].
  split; [reflexivity|]. split; [reflexivity|]. split; [vm_compute; reflexivity|]. split; [reflexivity|].
  split.
  - intro H.
    apply (f_equal (fun o => match o with Done _ a _ => lengthN a | _ => 0 end)) in H.
    vm_compute in H. discriminate.
  - vm_compute. reflexivity.
Qed.
Print Assumptions C13_legacy_truncation_refuted.

(** a poll between two writes that split a multi-byte character: UnicodeDecodeError *)
Theorem C13_legacy_split_char_refuted :
  exists sched rc tout terr,
    exit_code sched = Some rc /\ deadline_hit cfg0 sched = false /\
    text_of (written SOut sched) = Some tout /\ text_of (written SErr sched) = Some terr /\
    fst (run_legacy cfg0 sched) = DecodeErr /\
    fst (run cfg0 sched) = Done rc tout terr.
Proof.
  exists [Append SOut [195]; Poll; Append SOut [169]; Exit 0%Z], 0%Z, [233], [].
  vm_compute. repeat split.
Qed.
Print Assumptions C13_legacy_split_char_refuted.

(** a poll between CR and LF: two newlines recorded *)
Theorem C13_legacy_split_crlf_refuted :
  exists sched rc tout terr,
    exit_code sched = Some rc /\ deadline_hit cfg0 sched = false /\
    text_of (written SOut sched) = Some tout /\ text_of (written SErr sched) = Some terr /\
    fst (run_legacy cfg0 sched) = Done rc [97;10;10;98] terr /\ tout = [97;10;98] /\
    fst (run cfg0 sched) = Done rc tout terr.
Proof.
  exists [Append SOut [97;13]; Poll; Append SOut [10;98]; Exit 0%Z], 0%Z, [97;10;98], [].
  vm_compute. repeat split.
Qed.
Print Assumptions C13_legacy_split_crlf_refuted.

(** the legacy resource shape (before ee285b9): a failing second mkstemp left the first capture file *)
Theorem C13_legacy_mkstemp_leak_refuted :
  exists c sched, live (snd (run_legacy c sched)) [] = [SOut] /\ live (snd (run c sched)) [] = [].
Proof.
  exists (mkCfg 8192 None 0 true true false true true), [Exit 0%Z]. vm_compute. split; reflexivity.
Qed.
Print Assumptions C13_legacy_mkstemp_leak_refuted.
