(** C13 — placeholder while the proofs are being written *)
From InToto.Model Require Import Base Streams.
