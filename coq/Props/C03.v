(** C03 — artifact rules act as the documented ordered filter.
    Statements only; spec in Proofs/RulesSpec.v, proofs in Proofs/RulesProofs.v.
    [matches] is any glob matcher (the theorems hold for every matcher, in particular
    for Glob.glob_match, the model of fnmatch). *)
From InToto.Model Require Import Base Json Rule Glob Rules.
From InToto.Proofs Require Import RulesSpec RulesProofs.

Section C03.
  Variable matches : str -> str -> option bool.

  (** one consuming rule removes exactly the artifacts it consumes by definition *)
  Theorem C03_consume_exact : forall side item ls queue m q',
    consuming m -> supported matches (pattern_of m) -> queue_ok m queue ->
    (forall a, In a queue -> In a (keys (arts side item))) ->
    apply_rule matches side item ls queue m = Ok q' ->
    forall a, In a q' <-> In a queue /\ ~ consumes matches side item ls m a.
  Proof. exact (consume_exact matches). Qed.

  (** ... and under those guards a consuming rule never fails *)
  Theorem C03_consume_total : forall side item ls queue m,
    consuming m -> supported matches (pattern_of m) -> queue_ok m queue ->
    (forall a, In a queue -> In a (keys (arts side item))) ->
    exists q', apply_rule matches side item ls queue m = Ok q'.
  Proof. exact (consume_total matches). Qed.

  (** DISALLOW fails iff a remaining artifact matches, and changes nothing otherwise *)
  Theorem C03_disallow : forall side item ls queue p, supported matches p ->
    (apply_rule matches side item ls queue (Generic Disallow p) = Err ERule <-> exists a, In a queue /\ M matches p a) /\
    (apply_rule matches side item ls queue (Generic Disallow p) = Ok queue <-> forall a, In a queue -> matches p a = Some false).
  Proof. exact (disallow_spec matches). Qed.

  (** REQUIRE fails iff the literal name is not among the remaining artifacts (no globbing) *)
  Theorem C03_require : forall side item ls queue f,
    (apply_rule matches side item ls queue (Generic Require f) = Ok queue <-> In f queue) /\
    (apply_rule matches side item ls queue (Generic Require f) = Err ERule <-> ~ In f queue).
  Proof. exact (require_spec matches). Qed.

  (** whole rule lists: the evaluator's outcome is the verdict of the documented filter *)
  Theorem C03_filter : forall side item ls (rules : list json) (ms : list meaning) queue r,
    Forall2 (fun j m => unpack_rule j = Ok m) rules ms ->
    Forall (fun m => supported matches (pattern_of m)) ms ->
    (forall a, In a queue -> In a (keys (arts side item)) /\ no_bs a /\ ~ (exists x y, a = x ++ 47%N :: 47%N :: y)) ->
    run_rules matches side item ls queue rules = r ->
    exists v, res_verdict r = Some v /\ steps matches side item ls ms queue v.
  Proof. exact (filter_spec matches). Qed.

  (** the documented filter is deterministic up to the representation of the remaining set *)
  Theorem C03_deterministic : forall side item ls ms q v1 v2,
    steps matches side item ls ms q v1 -> steps matches side item ls ms q v2 -> verdict_equiv v1 v2.
  Proof. exact (steps_deterministic matches). Qed.

  (** independent of the order in which artifacts and links are stored *)
  Theorem C03_order_independent : forall side item item' ls ls' rules queue queue',
    link_equiv item item' -> links_equiv ls ls' -> same_set queue queue' ->
    match run_rules matches side item ls queue rules, run_rules matches side item' ls' queue' rules with
    | Ok q, Ok q' => same_set q q'
    | Err e, Err e' => e = e'
    | _, _ => False
    end.
  Proof. exact (order_independent matches). Qed.

  (** both rule lists of every item are verified; failing either fails the whole *)
  Theorem C03_both_lists : forall items ls,
    verify_all_item_rules matches items ls = Ok tt <->
    Forall (fun it => let '(name, em, ep) := it in
              (exists q, verify_item_rules matches name Materials em ls = Ok q) /\
              (exists q, verify_item_rules matches name Products ep ls = Ok q)) items.
  Proof. exact (both_lists matches). Qed.
End C03.

(** glob facts used by the chain layouts of C04/C11 *)
Theorem C03_star_matches_all : forall a, glob_match [42%N] a = Some true.
Proof. exact star_matches_all. Qed.

Print Assumptions C03_consume_exact.
Print Assumptions C03_consume_total.
Print Assumptions C03_disallow.
Print Assumptions C03_require.
Print Assumptions C03_filter.
Print Assumptions C03_deterministic.
Print Assumptions C03_order_independent.
Print Assumptions C03_both_lists.
Print Assumptions C03_star_matches_all.
