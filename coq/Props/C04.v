(** C04 — end-to-end tamper evidence across chained steps and the final product.
    A closed chain layout gives step i+1 the material rules
      REQUIRE f (for every product f of step i); MATCH * WITH PRODUCTS FROM step_i; DISALLOW *
    and checks the final product by an inspection with the same list over the last step's products.
    Statements: what acceptance implies for every such boundary (soundness: tamper is detected), and that the
    closed list accepts exactly when the two artifact maps are equal (so a content-preserving tamper is not
    rejected).  That the maps are the recorded trees is C10/C11; that the links are authentic is C02. *)
From InToto.Model Require Import Base Json Strs Utf8 Canon Rule Glob Rules Expiry Subst Meta Verify Match.
From InToto.Proofs Require Import RulesSpec MatchProofs ChainProofs VerifyChain.

(** the closed list accepts iff the item's artifacts equal the referenced link's as maps path -> hash record *)
Theorem C04_closed_rules_iff_equal : forall side item ls d step pl,
  lookup step ls = Some pl ->
  ((exists q, run_rules glob_match side item ls (keys (arts side item))
                        (closed_rules d step (keys (arts d pl))) = Ok q) <->
   same_artifacts (arts side item) (arts d pl)).
Proof. exact closed_rules_equal_maps. Qed.

(** any difference - a file modified, added, removed or renamed - makes the list fail with a rule error *)
Theorem C04_difference_detected : forall side item ls d step pl,
  lookup step ls = Some pl ->
  ~ same_artifacts (arts side item) (arts d pl) ->
  run_rules glob_match side item ls (keys (arts side item)) (closed_rules d step (keys (arts d pl))) = Err ERule.
Proof. exact closed_rules_detect. Qed.

(** without the REQUIRE rules only one inclusion is enforced (forward MATCH + DISALLOW catches edits,
    additions and renames, not removals): the precise content of the closed list *)
Theorem C04_closed_rules_general : forall side item ls d step req pl,
  lookup step ls = Some pl ->
  ((exists q, run_rules glob_match side item ls (keys (arts side item)) (closed_rules d step req) = Ok q) <->
   (forall f, In f req -> In f (keys (arts side item))) /\
   (forall a hs, lookup a (arts side item) = Some hs ->
      exists hd, lookup a (arts d pl) = Some hd /\ py_eqb hs hd = true)).
Proof. exact closed_rules_iff. Qed.

Section C04.
  Variable b64dec : str -> option (list N).
  Variable loads : list N -> option json.
  Variable sig_ok : str -> list N -> str -> bool.
  Variable now_s : Z.
  Variable now_us : Z.
  Variable exec : list json -> exec_result.

  (** whole verification, step boundaries: acceptance implies that at every closed boundary the link
      evaluated for the later step starts from exactly artifacts the earlier step's link produced *)
  Theorem C04_accept_step_boundaries : forall files recs missing a sum tr,
    verify_body b64dec loads sig_ok now_s now_us exec files recs missing a = (Ok sum, tr) ->
    exists l reduced,
      (exists vm, stage_pre b64dec loads sig_ok now_s now_us files a = Ok (l, vm)) /\
      forall s prev req, In s (ly_steps l) -> st_em s = closed_rules Products prev req ->
        forall item pl, lookup (st_name s) reduced = Some item -> lookup prev reduced = Some pl ->
          (forall f, In f req -> In f (keys (l_materials item))) /\
          (forall p hs, lookup p (l_materials item) = Some hs ->
             exists hd, lookup p (l_products pl) = Some hd /\ py_eqb hs hd = true).
  Proof. exact (accept_implies_step_boundary b64dec loads sig_ok now_s now_us exec). Qed.

  (** ... and the final product: what the closing inspection recorded in the verifier's directory *)
  Theorem C04_accept_final_product : forall files recs missing a sum tr,
    verify_body b64dec loads sig_ok now_s now_us exec files recs missing a = (Ok sum, tr) ->
    exists l reduced ilinks,
      (exists vm, stage_pre b64dec loads sig_ok now_s now_us files a = Ok (l, vm)) /\
      forall i last req, In i (ly_inspect l) -> in_em i = closed_rules Products last req ->
        forall item pl, lookup (in_name i) (combine_links reduced ilinks) = Some item ->
                        lookup last (combine_links reduced ilinks) = Some pl ->
          (forall f, In f req -> In f (keys (l_materials item))) /\
          (forall p hs, lookup p (l_materials item) = Some hs ->
             exists hd, lookup p (l_products pl) = Some hd /\ py_eqb hs hd = true).
  Proof. exact (accept_implies_final_boundary b64dec loads sig_ok now_s now_us exec). Qed.

  (** tamper between two steps is never accepted: if the evaluated links of a closed boundary differ as
      maps, no outcome of the verification is an acceptance *)
  Theorem C04_tamper_rejected : forall files recs missing a l vm chain tr1 reduced s prev item pl,
    stage_pre b64dec loads sig_ok now_s now_us files a = Ok (l, vm) ->
    subs_steps recs missing l vm [] = (Ok chain, tr1) ->
    verify_threshold_constraints l chain = Ok tt -> reduce_chain_links chain = Ok reduced ->
    In s (ly_steps l) -> st_em s = closed_rules Products prev (keys (l_products pl)) ->
    lookup (st_name s) reduced = Some item -> lookup prev reduced = Some pl ->
    ~ same_artifacts (l_materials item) (l_products pl) ->
    forall sum tr, verify_body b64dec loads sig_ok now_s now_us exec files recs missing a <> (Ok sum, tr).
  Proof. exact (boundary_difference_rejects b64dec loads sig_ok now_s now_us exec). Qed.
End C04.

(** non-vacuity: a two-artifact boundary that is accepted, and the same boundary with one hash edited *)
Example C04_example_accept :
  let h1 := JDict [(k_create, JStr [49%N])] in let h2 := JDict [(k_create, JStr [50%N])] in
  let prev := mkLink JNull [] [([97%N], h1); ([98%N], h2)] (JDict []) (JList []) (JDict []) in
  let cur := mkLink JNull [([98%N], h2); ([97%N], h1)] [] (JDict []) (JList []) (JDict []) in
  run_rules glob_match Materials cur [([112%N], prev); ([99%N], cur)] (keys (l_materials cur))
            (closed_rules Products [112%N] (keys (l_products prev))) = Ok [].
Proof. reflexivity. Qed.
Example C04_example_reject :
  let h1 := JDict [(k_create, JStr [49%N])] in let h2 := JDict [(k_create, JStr [50%N])] in
  let prev := mkLink JNull [] [([97%N], h1); ([98%N], h2)] (JDict []) (JList []) (JDict []) in
  let cur := mkLink JNull [([98%N], h2); ([97%N], h2)] [] (JDict []) (JList []) (JDict []) in
  run_rules glob_match Materials cur [([112%N], prev); ([99%N], cur)] (keys (l_materials cur))
            (closed_rules Products [112%N] (keys (l_products prev))) = Err ERule.
Proof. reflexivity. Qed.

Print Assumptions C04_closed_rules_iff_equal.
Print Assumptions C04_difference_detected.
Print Assumptions C04_closed_rules_general.
Print Assumptions C04_accept_step_boundaries.
Print Assumptions C04_accept_final_product.
Print Assumptions C04_tamper_rejected.
