(* generated from C10.v.in by tools/mkc10props.py (only the string literals are expanded) *)
(** C10 — artifact recording is complete, exact and never silently drops a file.

    Model: Model/Fs.v (POSIX tree, symbolic links, normpath, os.walk) and Model/Resolve.v
    (FileResolver, record_artifacts_as_dict).  Spec: Proofs/ResolveSpec.v ([reachable], [name_of]),
    written from the property text.  Oracles: [H] (SHA-256), [excl] (pathspec verdict) — universally
    quantified.  All theorems are about runs that produce a result ([= Ok d]): a run that ends in
    [Err EDiverge] (a link cycle exhausted the fuel) or [Err EUnmodelled] (a path left the tree)
    is outside them.  Theorems are stated for artifact lists served by the file resolver
    ([file_only]: plain paths and `file:` ones); `dir:`/`ostree:` entries are C20's.

    What "one entry per reachable file" means precisely: one entry per reachable PATH.  A file
    that is reachable under two path strings (a linked directory that is followed, or a link
    to a file) is recorded under both, each time with its own content hash. *)
From InToto.Model Require Import Base Fs Resolve.
From InToto.Proofs Require Import FsProofs ResolveSpec ResolveProofs ResolveFold ResolveMain ResolveRecord NormProofs.

(** nothing missed, nothing invented, value exact.  [clean_run]: when there is NO prefix list,
    reachable paths contain no backslash and do not begin with "file:" (see C10_unclean_refuted
    for why this cannot be dropped); with a prefix list there is no side condition. *)
Theorem C10_exact :
  forall (H : list N -> str) (excl : str -> bool) (root : entries) (fuel : nat),
    wf_fs root = true ->
    forall arts bp o cwd d base,
      file_only arts ->
      record H excl root fuel arts bp o cwd = Ok d ->
      enter_base root fuel cwd bp = Ok base ->
      clean_run excl root o base arts ->
      forall name h,
        lookup name d = Some h <->
        exists start f c, In start arts /\ reachable root excl (o_follow o) base start f c /\
                          name_of (o_lstrip o) start f = name /\ h = hash_content H (o_normalize o) c.
Proof. exact record_exact. Qed.
Print Assumptions C10_exact.

(** never silently dropped — unconditionally: the name of every reachable file is a key of the result *)
Theorem C10_never_dropped :
  forall (H : list N -> str) (excl : str -> bool) (root : entries) (fuel : nat),
    wf_fs root = true ->
    forall arts bp o cwd d base start f c,
      file_only arts ->
      record H excl root fuel arts bp o cwd = Ok d ->
      enter_base root fuel cwd bp = Ok base ->
      In start arts -> reachable root excl (o_follow o) base start f c ->
      exists h, lookup (name_of (o_lstrip o) start f) d = Some h.
Proof. exact record_key. Qed.
Print Assumptions C10_never_dropped.

(** two DISTINCT reachable paths that get one name under a prefix list: the recording fails — it
    never returns a dictionary, and raises PrefixError whenever the enumeration itself succeeds.
    [start], [start'] are arbitrary, in particular `file:`-prefixed (the D10 regression). *)
Theorem C10_collision_fails :
  forall (H : list N -> str) (excl : str -> bool) (root : entries) (fuel : nat),
    wf_fs root = true ->
    forall arts bp o cwd base start start' f f' c c',
      file_only arts -> o_lstrip o <> [] ->
      enter_base root fuel cwd bp = Ok base ->
      In start arts -> In start' arts ->
      reachable root excl (o_follow o) base start f c ->
      reachable root excl (o_follow o) base start' f' c' ->
      f <> f' -> name_of (o_lstrip o) start f = name_of (o_lstrip o) start' f' ->
      (forall d, record H excl root fuel arts bp o cwd <> Ok d) /\
      (forall L, all_cands excl root fuel o base arts = Ok L ->
                 record H excl root fuel arts bp o cwd = Err EPrefix).
Proof. exact record_collision. Qed.
Print Assumptions C10_collision_fails.

(** the faithful caveat (fail-closed, allowed by the property): ONE path reached from two start
    paths of the same scheme — overlapping or repeated — under a prefix list also fails *)
Theorem C10_overlap_spurious_failure :
  forall (H : list N -> str) (excl : str -> bool) (root : entries) (fuel : nat),
    wf_fs root = true ->
    forall l1 u l2 u' bp o cwd base f c c',
      file_only (l1 ++ u :: l2 ++ [u']) -> o_lstrip o <> [] ->
      enter_base root fuel cwd bp = Ok base ->
      snd (strip_scheme_prefix u') = snd (strip_scheme_prefix u) ->
      reachable root excl (o_follow o) base u f c -> reachable root excl (o_follow o) base u' f c' ->
      forall d, record H excl root fuel (l1 ++ u :: l2 ++ [u']) bp o cwd <> Ok d.
Proof. exact record_overlap_spurious. Qed.
Print Assumptions C10_overlap_spurious_failure.

(** without a prefix list distinct clean paths get distinct names (so an entry is only ever
    overwritten by the same path reached again, with the same content: [C10_path_is_file]) *)
Theorem C10_no_strip_injective :
  forall start start' f f',
    clean f -> clean f' -> name_of [] start f = name_of [] start' f' ->
    f = f' /\ snd (strip_scheme_prefix start) = snd (strip_scheme_prefix start').
Proof. exact no_strip_injective. Qed.
Print Assumptions C10_no_strip_injective.

(** the key's path, resolved from the base directory, IS the hashed file (so one path, one content) *)
Theorem C10_path_is_file :
  forall (root : entries) (excl : str -> bool) (follow : bool),
    wf_tree root ->
    forall base start f c,
      reachable root excl follow base start f c -> denotes root base (split_on c_slash f) (RFile c).
Proof. exact reachable_denotes. Qed.
Print Assumptions C10_path_is_file.

(** the constructor rejects prefix lists in which one entry is a prefix of another (incl. duplicates) *)
Theorem C10_prefix_list_check :
  forall (H : list N -> str) (excl : str -> bool) (root : entries) (fuel : nat) arts bp o cwd,
    arts <> [] ->
    ~ ForallOrdPairs (fun a b => ~ is_prefix a b /\ ~ is_prefix b a) (o_lstrip o) ->
    record H excl root fuel arts bp o cwd = Err EPrefix.
Proof.
  intros H excl root fuel arts bp o cwd Hne Hbad. apply record_prefix_list_check; [assumption|].
  destruct (prefix_list_ok (o_lstrip o)) eqn:E; [|reflexivity]. exfalso. apply Hbad. apply prefix_list_ok_spec. assumption.
Qed.
Print Assumptions C10_prefix_list_check.

(** nothing excluded is recorded: the start path, the file's own path and every directory path
    between them are not excluded; and what is recorded denotes a regular file — a dangling
    link (denotes nothing) is never in the result *)
Theorem C10_excluded_absent :
  forall (H : list N -> str) (excl : str -> bool) (root : entries) (fuel : nat),
    wf_fs root = true ->
    forall arts bp o cwd d base name h,
      file_only arts -> record H excl root fuel arts bp o cwd = Ok d ->
      enter_base root fuel cwd bp = Ok base -> lookup name d = Some h ->
      exists start f c, In start arts /\ name_of (o_lstrip o) start f = name /\
        excl_start excl (start_path start) = false /\
        (f = start_path start \/
         exists ns, ns <> [] /\ f = fold_left child ns (start_path start) /\
           forall j, (0 < j <= length ns)%nat ->
                     excl (fold_left child (firstn j ns) (start_path start)) = false) /\
        denotes root base (split_on c_slash f) (RFile c).
Proof. exact record_excluded_absent. Qed.
Print Assumptions C10_excluded_absent.

Theorem C10_dangling_skipped :
  forall (root : entries) (excl : str -> bool) (follow : bool),
    wf_tree root ->
    forall base start f c,
      (reachable root excl follow base start f c -> ~ denotes root base (split_on c_slash f) RNone) /\
      (path_denotes root base (start_path start) RNone -> ~ reachable root excl follow base start f c).
Proof.
  intros root excl follow WF base start f c. split.
  - exact (reachable_not_dangling root excl follow WF base start f c).
  - exact (dangling_start_nothing root excl follow base start f c).
Qed.
Print Assumptions C10_dangling_skipped.

(** normpath: idempotent on relative paths; one more path component *)
Theorem C10_normpath_idempotent : forall p, absolute p = false -> normpath (normpath p) = normpath p.
Proof. exact normpath_idem_rel. Qed.
Print Assumptions C10_normpath_idempotent.

Theorem C10_normpath_child : forall b n, base_ok b -> gname n -> normpath (join b n) = child (normpath b) n.
Proof. exact normpath_child. Qed.
Print Assumptions C10_normpath_child.

(** line endings: securesystemslib normalises chunk by chunk (4096 bytes, a chunk ending in CR is
    extended); that equals normalising the whole content, for every chunk size >= 1 — so the value
    recorded ([hash_content], used in C10_exact) is the spec's [value_of] *)
Theorem C10_line_endings :
  (forall fuel n data, (1 <= n)%nat -> (length data < fuel)%nat -> norm_chunked fuel n data = norm_le data) /\
  (forall (H : list N -> str) n c, hash_content H n c = value_of H n c).
Proof. split; [exact norm_chunked_whole | exact hash_content_value]. Qed.
Print Assumptions C10_line_endings.

(** answers do not depend on the fuel once it suffices *)
Theorem C10_fuel_monotone : forall root f loc cs r,
  resolve root f loc cs = r -> r <> RDiverge -> forall f', (f <= f')%nat -> resolve root f' loc cs = r.
Proof. exact resolve_mono. Qed.
Print Assumptions C10_fuel_monotone.

(* ------------------------------------------------------------------ *)
(** * Examples: the hypotheses are satisfiable on a tree with links to a file, a directory, nowhere, a chain *)
Definition ex_tree : entries :=
  [([114]%N, Dir [([102]%N, File [97;13;10;98]%N); ([115;117;98]%N, Dir [([103]%N, File [103]%N)])]);
   ([108;102]%N, Symlink [114;47;102]%N); ([108;100]%N, Symlink [114;47;115;117;98]%N); ([100;97;110;103]%N, Symlink [110;111;119;104;101;114;101]%N); ([99;104]%N, Symlink [108;100]%N);
   ([119]%N, Dir [([117;112]%N, Symlink [46;46;47;114]%N)])].
Definition idH (b : list N) : str := b.
Definition no_excl (p : str) : bool := false.
Definition excl_sub (p : str) : bool := eqs p [114;47;115;117;98]%N.

Example ex_wf : wf_fs ex_tree = true.
Proof. vm_compute. reflexivity. Qed.

(** links followed: the linked directory appears under every path that reaches it; line endings normalised *)
Example ex_follow_result :
  record idH no_excl ex_tree 5 [[46]%N] None (mkFopts true true []) [] =
  Ok [([108;102]%N, [97;10;98]%N); ([114;47;102]%N, [97;10;98]%N); ([114;47;115;117;98;47;103]%N, [103]%N); ([108;100;47;103]%N, [103]%N); ([99;104;47;103]%N, [103]%N);
      ([119;47;117;112;47;102]%N, [97;10;98]%N); ([119;47;117;112;47;115;117;98;47;103]%N, [103]%N)].
Proof. vm_compute. reflexivity. Qed.
(** links not followed; an excluded directory; a `file:` start path; a prefix list *)
Example ex_nofollow_result :
  record idH excl_sub ex_tree 5 [[102;105;108;101;58;114]%N; [108;102]%N; [100;97;110;103]%N; [110;111;110;101;120;105;115;116;101;110;116]%N] None (mkFopts false false [[114;47]%N]) [] =
  Ok [([102;105;108;101;58;102]%N, [97;13;10;98]%N); ([108;102]%N, [97;13;10;98]%N)].
Proof. vm_compute. reflexivity. Qed.
(** out of fuel is a distinct error, not a wrong answer *)
Example ex_diverge :
  record idH no_excl ex_tree 0 [[99;104]%N] None (mkFopts true false []) [] = Err EDiverge.
Proof. vm_compute. reflexivity. Qed.
Example ex_cycle_diverges :
  record idH no_excl [([97]%N, Symlink [98]%N); ([98]%N, Symlink [97]%N)] 40 [[97]%N] None (mkFopts true false []) [] = Err EDiverge.
Proof. vm_compute. reflexivity. Qed.
Example ex_base_path :
  enter_base ex_tree 5 [] (Some [119;47;117;112]%N) = Ok [[114]%N] /\
  record idH no_excl ex_tree 5 [[46]%N] (Some [119;47;117;112]%N) (mkFopts false false []) [] = Ok [([102]%N, [97;13;10;98]%N); ([115;117;98;47;103]%N, [103]%N)].
Proof. vm_compute. split; reflexivity. Qed.
Example ex_clean_run : clean_run no_excl ex_tree (mkFopts false false [[114;47]%N]) [] [[102;105;108;101;58;114]%N].
Proof. intro E. discriminate. Qed.
Example ex_prefix_list : prefix_list_ok [[97;47]%N; [98;47]%N] = true /\ prefix_list_ok [[97]%N; [97;98]%N] = false /\ prefix_list_ok [[120]%N; [120]%N] = false.
Proof. vm_compute. auto. Qed.

(** D10 regression: `file:`-prefixed start paths colliding after prefix stripping raise PrefixError *)
Definition d10_tree : entries := [([98;112]%N, Dir [([120]%N, Dir [([102]%N, File [49]%N)]); ([121]%N, Dir [([102]%N, File [50]%N)])])].
Example ex_D10_fixed :
  record idH no_excl d10_tree 5 [[102;105;108;101;58;98;112;47;120]%N; [102;105;108;101;58;98;112;47;121]%N] None (mkFopts false false [[98;112;47;120;47]%N; [98;112;47;121;47]%N]) [] = Err EPrefix.
Proof. vm_compute. reflexivity. Qed.
(** the code before the fix compared the name WITHOUT the scheme prefix with keys that carry it: *)
Definition mangle_legacy (lstrip : list str) (path : str) (existing : list str) (scheme_prefix : str) : res str :=
  let name := lstrip_first lstrip (replace_c c_bslash c_slash path) in
  if negb (is_nil lstrip) && mem_str name existing then Err EPrefix else Ok (scheme_prefix ++ name).
Fixpoint add_all_legacy (ls : list str) (prefix : str) (cs : list (str * list N)) (acc : dict) : res dict :=
  match cs with
  | [] => Ok acc
  | (p, c) :: r => do name <- mangle_legacy ls p (keys acc) prefix; add_all_legacy ls prefix r (dict_set name (idH c) acc)
  end.
Theorem C10_scheme_collision_legacy_refuted :
  add_all_legacy [[98;112;47;120;47]%N; [98;112;47;121;47]%N] [102;105;108;101;58]%N [([98;112;47;120;47;102]%N, [49]%N); ([98;112;47;121;47;102]%N, [50]%N)] [] = Ok [([102;105;108;101;58;102]%N, [50]%N)] /\
  add_all idH (mkFopts false false [[98;112;47;120;47]%N; [98;112;47;121;47]%N]) [102;105;108;101;58]%N [([98;112;47;120;47;102]%N, [49]%N); ([98;112;47;121;47;102]%N, [50]%N)] [] = Err EPrefix.
Proof. vm_compute. split; reflexivity. Qed.
Print Assumptions C10_scheme_collision_legacy_refuted.

(* ------------------------------------------------------------------ *)
(** * Refuted without [clean_run] (candidate finding, reproduced on the real code):
    with NO prefix list a file whose NAME contains a backslash collides with a path and one of
    the two files is silently dropped (with a prefix list the same tree raises PrefixError).
    Full statement that fails:  C10_exact without the hypothesis [clean_run]. *)
Definition bs_tree : entries := [([97]%N, Dir [([98]%N, File [49]%N)]); ([97;92;98]%N, File [50]%N)].
Theorem C10_unclean_refuted :
  exists (root : entries) arts o d f f' c c',
    wf_fs root = true /\
    record idH no_excl root 5 arts None o [] = Ok d /\ o_lstrip o = [] /\
    reachable root no_excl (o_follow o) [] [46]%N f c /\ reachable root no_excl (o_follow o) [] [46]%N f' c' /\
    f <> f' /\ c <> c' /\ name_of [] [46]%N f = name_of [] [46]%N f' /\ length d = 1%nat.
Proof.
  exists bs_tree, [[46]%N], (mkFopts false false []), [([97;47;98]%N, [49]%N)], [97;47;98]%N, [97;92;98]%N, [49]%N, [50]%N.
  assert (WF : wf_fs bs_tree = true) by (vm_compute; reflexivity).
  assert (C : uri_cands no_excl bs_tree 5 false [] [46]%N = Ok ([], [([97;92;98]%N, [50]%N); ([97;47;98]%N, [49]%N)])) by (vm_compute; reflexivity).
  destruct (uri_cands_spec no_excl bs_tree 5 false (wf_fs_tree _ WF) [] [46]%N _ _ C) as [_ S].
  split; [exact WF|]. split; [vm_compute; reflexivity|]. split; [reflexivity|].
  split; [apply S; right; left; reflexivity|]. split; [apply S; left; reflexivity|].
  split; [discriminate|]. split; [discriminate|]. split; [vm_compute; reflexivity | reflexivity].
Qed.
Print Assumptions C10_unclean_refuted.
(** … and the same tree under any prefix list fails closed: *)
Example ex_backslash_with_prefix_list :
  record idH no_excl bs_tree 5 [[46]%N] None (mkFopts false false [[122;122;122]%N]) [] = Err EPrefix.
Proof. vm_compute. reflexivity. Qed.

(* ------------------------------------------------------------------ *)
(** * The start directory '.' itself is never excluded (D10c, fixed in /repo by 90c1cf0):
    whatever the pattern oracle says about '.', the files reachable from the start path '.' are exactly the
    non-excluded ones below it — a pattern for hidden files ('.*' matches '.') does not empty the recording. *)
Theorem C10_start_dot_never_excluded :
  forall (root : entries) (excl : str -> bool) (follow : bool) (cwd : list str) (u f : str) (c : list N),
    start_path u = [46]%N ->
    (reachable root excl follow cwd u f c <->
     ((path_denotes root cwd [46]%N (RFile c) /\ f = [46]%N) \/
      (exists loc, path_denotes root cwd [46]%N (RDir loc) /\ below root excl follow [46]%N loc f c))).
Proof.
  intros root excl follow cwd u f c Hs. unfold reachable. rewrite Hs.
  assert (excl_start excl [46]%N = false) as -> by reflexivity. tauto.
Qed.
Print Assumptions C10_start_dot_never_excluded.

(** non-vacuity: with an oracle that excludes '.' and every hidden name, recording '.' still yields the plain file *)
Definition hidden_excl (p : str) : bool := match p with 46%N :: _ => true | _ => false end.
Example ex_hidden_pattern_keeps_plain_files :
  record idH hidden_excl [([46;104]%N, File [49]%N); ([97]%N, File [50]%N)] 5 [[46]%N] None (mkFopts false false []) []
  = Ok [([97]%N, [50]%N)].
Proof. vm_compute. reflexivity. Qed.
