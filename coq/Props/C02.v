(** C02 — each step needs a threshold of distinct, authorised, validly signed links.
    Statements only.  Vocabulary: Proofs/ThresholdSpec.v ([counts], [verified_file], [accepted_run],
    [link_ok], [bad_file_b], [file_added]); proofs: Proofs/VerifyThreshold.v, Proofs/VerifyIgnored.v;
    examples and the D2b witness: Proofs/ThresholdExamples.v.

    [verify_body files recs missing a] is in_toto_verify for one layout on the files of one link
    directory ([recs] = verification of the sub-directories); [verify (Dir files subs)] is the
    recursion over the directory tree (C02_verify_is_body), so every statement below applies at
    every nesting depth. *)
From InToto.Model Require Import Base Json Strs Utf8 Canon Rule Glob Rules Expiry Subst Meta Verify.
From InToto.Proofs Require Import VerifySpec ThresholdSpec VerifyThreshold VerifyIgnored LayoutNames ThresholdExamples.

Section C02.
  Variable b64dec : str -> option (list N).
  Variable loads : list N -> option json.
  Variable sig_ok : str -> list N -> str -> bool.
  Variable now_s now_us : Z.
  Variable exec : list json -> exec_result.
  Notation vsig := (verify_signature sig_ok now_s).
  Notation vbody := (verify_body b64dec loads sig_ok now_s now_us exec).
  Notation vfy := (verify b64dec loads sig_ok now_s now_us exec).
  Notation accepted_run := (accepted_run b64dec loads sig_ok now_s now_us exec).
  Notation verified_file := (verified_file b64dec loads sig_ok now_s).
  Notation link_ok := (link_ok sig_ok now_s).
  Notation pre_layout := (pre_layout sig_ok now_s now_us).
  Notation mkof := main_keys_for_subkeys.

  Theorem C02_verify_is_body : forall files subs,
    vfy (Dir files subs) = vbody files (recs_of b64dec loads sig_ok now_s now_us exec subs)
                                 (verify_in_missing_dir b64dec loads sig_ok now_s now_us exec).
  Proof. exact (verify_unfold b64dec loads sig_ok now_s now_us exec). Qed.

  (** what "file <step>.<kid8>.link counts for functionary f" means *)
  Theorem C02_verified_file_means : forall files l s kid md f,
    verified_file files l s kid md f <->
    exists j vk,
      lookup (link_filename (st_name s) kid) files = Some (FJson j) /\   (* the file exists here *)
      from_dict b64dec loads j = Ok md /\                                (* md is its content *)
      counts l s kid vk (JStr f) /\                                      (* the property's relation allows it *)
      vsig md vk = Ok tt /\                                              (* signature check passed ... *)
      carries_valid_sig sig_ok now_s md vk /\                            (* ... on a listed signature by vk *)
      names_step md s = Ok true.                                         (* it names this step (C08) *)
  Proof. intros. reflexivity. Qed.

  (** ... where a passed signature check is a signature the oracle accepts over exactly the bytes
      that this metadata - the metadata handed to the later stages - determines *)
  Theorem C02_valid_sig_is_over_content : forall md vk, vsig md vk = Ok tt ->
    carries_valid_sig sig_ok now_s md vk /\
    exists msg tok v, signed_message md = Ok msg /\ sig_ok tok msg v = true.
  Proof. intros md vk H. split; [|apply (carries_oracle sig_ok now_s md vk)]; apply vsig_carries; exact H. Qed.

  (** the key the code verifies a file with, and the functionary it counts it for, are those of
      the declarative relation *)
  Theorem C02_key_selection : forall l s kid vk mainid,
    verification_key l (mkof l) s kid = Some (Ok (vk, mainid)) -> counts l s kid vk mainid.
  Proof. exact verification_key_counts. Qed.

  (** an individually authorised subkey is verified with an entry that accepts signatures by that
      very key id only: neither its master nor a sibling subkey can supply it *)
  Theorem C02_subkey_alone_exact : forall md vk, carries_valid_sig sig_ok now_s md vk -> subkey_ids vk = [] ->
    exists sg kid, In sg (md_signatures md) /\ jstr_of (jget S_keyid vk) = Some kid /\
                   jstr_of (jget S_keyid sg) = Some kid.
  Proof. exact (sig_by_exact_key sig_ok now_s). Qed.

  (** MAIN: acceptance => for every step, at least threshold DISTINCT functionaries (main key ids)
      each have a verified file in this directory, member of the set handed to the later stages *)
  Theorem C02_threshold_sound : forall files recs missing a sum tr,
    vbody files recs missing a = (Ok sum, tr) ->
    exists l sm vm chain reduced,
      accepted_run files recs missing a sum tr l sm vm chain reduced /\
      Forall2 (fun s e => fst e = st_name s /\
                 exists F : list str, NoDup F /\ (st_threshold s <= Z.of_nat (length F))%Z /\
                   forall f, In f F -> exists kid md, In (kid, md) (snd e) /\ verified_file files l s kid md f)
              (ly_steps l) vm.
  Proof. exact (threshold_sound b64dec loads sig_ok now_s now_us exec). Qed.

  Theorem C02_threshold_sound_verify : forall files subs a sum tr,
    vfy (Dir files subs) a = (Ok sum, tr) ->
    exists l sm vm chain reduced,
      accepted_run files (recs_of b64dec loads sig_ok now_s now_us exec subs)
                   (verify_in_missing_dir b64dec loads sig_ok now_s now_us exec) a sum tr l sm vm chain reduced /\
      Forall2 (fun s e => fst e = st_name s /\
                 exists F : list str, NoDup F /\ (st_threshold s <= Z.of_nat (length F))%Z /\
                   forall f, In f F -> exists kid md, In (kid, md) (snd e) /\ verified_file files l s kid md f)
              (ly_steps l) vm.
  Proof. intros files subs a sum tr H. rewrite C02_verify_is_body in H. exact (C02_threshold_sound _ _ _ _ _ _ H). Qed.

  (** every verified file contributes the main key id it counts for; the number compared with the
      threshold is the number of DISTINCT ones: a master and its subkeys, or several subkeys of one
      master, are one element *)
  Theorem C02_counts_once : forall files recs missing a sum tr,
    vbody files recs missing a = (Ok sum, tr) ->
    exists l sm vm chain reduced,
      accepted_run files recs missing a sum tr l sm vm chain reduced /\
      Forall2 (fun s e => fst e = st_name s /\ exists used,
                 Forall2 (fun kv m => verified_file files l s (fst kv) (snd kv) m) (snd e) used /\
                 NoDup (dedup used) /\ (forall m, In m (dedup used) <-> In m used) /\
                 length (dedup used) <= length (snd e) /\
                 (st_threshold s <= Z.of_nat (length (dedup used)))%Z) (ly_steps l) vm.
  Proof. exact (counts_once b64dec loads sig_ok now_s now_us exec). Qed.

  (** metadata that does not count never supplies artifacts: the set handed on is exactly the loaded
      files that satisfy the verified predicate, every member is a verified file, and the chain
      (what rules, inspections and the summary see, via [accepted_run]) is computed from it entry
      by entry *)
  Theorem C02_never_supplies : forall files recs missing a sum tr,
    vbody files recs missing a = (Ok sum, tr) ->
    exists l sm vm chain reduced,
      accepted_run files recs missing a sum tr l sm vm chain reduced /\
      Forall2 (fun s e => fst e = st_name s /\
                 snd e = filter (link_ok l (mkof l) s) (found_of s sm) /\
                 forall kid md, In (kid, md) (snd e) -> exists m, verified_file files l s kid md m)
              (ly_steps l) vm /\
      Forall2 (fun v c => fst v = fst c /\ Forall2 (chain_link_of recs missing l (fst v)) (snd v) (snd c)) vm chain.
  Proof. exact (never_supplies b64dec loads sig_ok now_s now_us exec). Qed.

  (** NON-INTERFERENCE.  [bad_file_b l fn md]: under every (step, tried key id) whose link file name is
      [fn], metadata [md] is skipped: unauthorised name, no valid signature by the verification key
      (unsigned / edited / signed by another key), expired key, or recorded for another step.
      Adding such a file anywhere in the listing - or removing it - leaves the whole outcome (verdict,
      error class, summary, trace) and the verified set unchanged; the one exception is the
      preliminary file count, where LinkNotFoundError can become another REJECTION, never acceptance.
      Not covered, deliberately: files on which the signature check raises (finding D2b below). *)
  Theorem C02_ignored : forall files files' fn j md recs missing a,
    file_added fn (FJson j) files files' -> from_dict b64dec loads j = Ok md ->
    (forall l, pre_layout a = Ok l ->
       bad_file_b sig_ok now_s l fn md = true /\ NoDup (map st_name (ly_steps l))) ->
    (stage_pre b64dec loads sig_ok now_s now_us files' a = stage_pre b64dec loads sig_ok now_s now_us files a /\
     vbody files' recs missing a = vbody files recs missing a) \/
    (vbody files recs missing a = (Err ELinkNotFound, []) /\ exists e, vbody files' recs missing a = (Err e, [])).
  Proof.
    intros files files' fn j md recs missing a H1 H2.
    exact (ignored b64dec loads sig_ok now_s now_us exec files files' fn j md H1 H2 recs missing a).
  Qed.

  Theorem C02_ignored_accept : forall files files' fn j md recs missing a sum tr,
    file_added fn (FJson j) files files' -> from_dict b64dec loads j = Ok md ->
    (forall l, pre_layout a = Ok l ->
       bad_file_b sig_ok now_s l fn md = true /\ NoDup (map st_name (ly_steps l))) ->
    (vbody files recs missing a = (Ok sum, tr) <-> vbody files' recs missing a = (Ok sum, tr)).
  Proof.
    intros files files' fn j md recs missing a sum tr H1 H2.
    exact (ignored_accept b64dec loads sig_ok now_s now_us exec files files' fn j md H1 H2 recs missing a sum tr).
  Qed.

  (** ... and so for any number of such files, added (or removed) one after the other *)
  Theorem C02_ignored_many_accept : forall a files files' recs missing sum tr,
    bad_files_added b64dec loads sig_ok now_s now_us a files files' ->
    (vbody files recs missing a = (Ok sum, tr) <-> vbody files' recs missing a = (Ok sum, tr)).
  Proof. exact (ignored_many_accept b64dec loads sig_ok now_s now_us exec). Qed.

  (** the guard "distinct step names" holds for every layout loaded from a file (Layout validation),
      before and after parameter substitution *)
  Theorem C02_names_guard_holds : forall j a l, from_dict b64dec loads j = Ok (a_md a) ->
    pre_layout a = Ok l -> NoDup (map st_name (ly_steps l)).
  Proof. exact (evaluated_layout_names b64dec loads sig_ok now_s now_us). Qed.

  (** the expired-key skip: a gpg key past creation + validity makes the check answer
      KeyExpirationError, which [link_skipped] (hence [bad_file_b]) classifies as skipped *)
  Theorem C02_expired_key : forall sg key msg skid mkid sval c v,
    jstr_of (jget S_keyid sg) = Some skid -> jstr_of (jget S_keyid key) = Some mkid ->
    jstr_of (jget S_signature sg) = Some sval -> gpg_sig_schema_ok sg = true -> jget S_subkeys key = None ->
    jget S_creation_time key = Some (JInt c) -> jget S_validity_period key = Some (JInt v) ->
    c <> 0%Z -> v <> 0%Z -> (c + v < now_s)%Z ->
    gpg_verify sig_ok now_s sg key msg = Err EKeyExpired.
  Proof. exact (gpg_verify_expired sig_ok now_s). Qed.
End C02.

(** FINDING D2b (open): the property says invalidly signed metadata is ignored; a link whose
    signature is of the other key family than the authorised key is invalidly signed, yet it is not
    ignored - Metablock.verify_signature raises FormatError (gpg-format signature, securesystemslib
    key; ValueError in the converse case, ex_family_mismatch_aborts_gpg), which in_toto_verify does
    not catch.  Witness: threshold 1, an honest valid link, plus such a file. *)
Theorem C02_family_mismatch_refuted :
  exists b64dec loads sig_ok now_s now_us exec files files' fn j md recs missing a sum tr l,
    file_added fn (FJson j) files files' /\ from_dict b64dec loads j = Ok md /\
    pre_layout sig_ok now_s now_us a = Ok l /\
    (forall kid k sg msg, In (kid, k) (ly_keys l) -> In sg (md_signatures md) ->
       sslib_verify sig_ok sg k msg <> Ok true /\ gpg_verify sig_ok now_s sg k msg <> Ok true) /\
    verify_body b64dec loads sig_ok now_s now_us exec files recs missing a = (Ok sum, tr) /\
    verify_body b64dec loads sig_ok now_s now_us exec files' recs missing a = (Err EFormat, []).
Proof. exact family_mismatch_refuted. Qed.

(** the hypotheses are satisfiable on a non-trivial input (kernel-evaluated, Proofs/ThresholdExamples.v):
    acceptance with two functionaries and threshold 2; a bad-but-well-formed file that is ignored; the
    preliminary-count effect; subkeys counting once; the sibling of an individually authorised subkey
    not counting (regression for the repaired D2a); an expired key skipped *)
Example C02_ex_accept : verdict (run [fA; fB] L2) = None.
Proof. exact ex_accept2. Qed.
Example C02_ex_bad_file_guard :
  match md_of fB_badsig with Ok md => bad_file_b x_sig_ok x_now_s L1 (fst fB_badsig) md | Err _ => false end = true.
Proof. exact ex_bad_file_guard. Qed.
Example C02_ex_bad_file_ignored : run [fA; fB_badsig] L1 = run [fA] L1 /\ verdict (run [fA] L1) = None.
Proof. exact ex_bad_file_ignored. Qed.
Example C02_ex_count_effect :
  verdict (run [fA] L2) = Some ELinkNotFound /\ verdict (run [fA; fB_badsig] L2) = Some EThreshold.
Proof. exact ex_bad_file_count. Qed.
Example C02_ex_subkeys_count_once :
  verdict (run [fM_c1; fM_c2; fM_cc] (LM 1)) = None /\ verdict (run [fM_c1; fM_c2; fM_cc] (LM 2)) = Some EThreshold.
Proof. exact ex_subkeys_count_once. Qed.
Example C02_ex_subkey_alone :
  verdict (run [fS_by_c1] LS) = None /\ verdict (run [fS_by_c2] LS) = Some EThreshold /\
  verdict (run [fS_by_cc] LS) = Some EThreshold /\ verdict (run [fM_c2] LS) = Some ELinkNotFound.
Proof. exact ex_subkey_alone. Qed.
Example C02_ex_expired_skipped : products_of (run [fX; fA] LX) = Some P1 /\ verdict (run [fX] LX) = Some EThreshold.
Proof. exact ex_expired_skipped. Qed.

Print Assumptions C02_verify_is_body.
Print Assumptions C02_verified_file_means.
Print Assumptions C02_valid_sig_is_over_content.
Print Assumptions C02_key_selection.
Print Assumptions C02_subkey_alone_exact.
Print Assumptions C02_threshold_sound.
Print Assumptions C02_threshold_sound_verify.
Print Assumptions C02_counts_once.
Print Assumptions C02_never_supplies.
Print Assumptions C02_ignored.
Print Assumptions C02_ignored_accept.
Print Assumptions C02_ignored_many_accept.
Print Assumptions C02_names_guard_holds.
Print Assumptions C02_expired_key.
Print Assumptions C02_family_mismatch_refuted.
