(** C01 — layout authenticity and freshness gate every acceptance.
    Statements only; proofs in Proofs/VerifyGate.v and Proofs/ExpiryProofs.v.
    Model: Model/Verify.v [verify] = in_toto.verifylib.in_toto_verify, a structural fixpoint over the
    link-directory tree; oracles (base64, json.loads, signature validity, clocks, child processes)
    are universally quantified. *)
From InToto.Model Require Import Base Json Strs Utf8 Canon Rule Glob Rules Expiry Subst Meta Verify.
From InToto.Proofs Require Import CanonProofs VerifySpec GateBase VerifyGate ExpiryProofs VerifyExample.

Section C01.
  Variable b64dec : str -> option (list N).
  Variable loads : list N -> option json.
  Variable sig_ok : str -> list N -> str -> bool.
  Variable now_s : Z.
  Variable now_us : Z.
  Variable exec : list json -> exec_result.

  Notation verify := (verify b64dec loads sig_ok now_s now_us exec).
  Notation verify_signature := (verify_signature sig_ok now_s).
  Notation carries_valid_sig := (carries_valid_sig sig_ok now_s).
  Notation oracle_accepts := (oracle_accepts sig_ok).
  Notation gate := (gate sig_ok now_s now_us).
  Notation recs_of := (recs_of b64dec loads sig_ok now_s now_us exec).
  Notation vmissing := (vmissing b64dec loads sig_ok now_s now_us exec).

  (** Acceptance implies: the key dictionary is non-empty; EVERY supplied key verifies, i.e. the
      metadata lists a signature by that key (or one of its subkeys) which the signature oracle
      accepts over exactly [signed_message md] (canonical JSON of the payload / the DSSE PAE of
      the payload bytes); the payload is a layout [l0] whose expiry instant is strictly later than
      now; and everything the later stages evaluate ([verify_post]: sublayouts, thresholds, rules,
      inspections, summary) is computed from [l0] (after parameter substitution), with the links
      loaded and threshold-verified for it. *)
  Theorem C01_gate : forall d a lk tr,
    verify d a = (Ok lk, tr) ->
    exists ks l0,
      a_keys a = JDict ks /\ ks <> [] /\
      (forall kid k, In (kid, k) ks ->
         verify_signature (a_md a) k = Ok tt /\ carries_valid_sig (a_md a) k /\ oracle_accepts (a_md a) k) /\
      get_payload (a_md a) = Ok (PLayout l0) /\
      (now_us < ly_expires_us l0)%Z /\
      exists l vm,
        layout_for l0 (a_params a) = Ok l /\
        match d with
        | Dir files subs =>
            links_for b64dec loads sig_ok now_s files l = Ok vm /\
            verify d a = verify_post exec (recs_of subs) vmissing l vm (a_step_name a)
        end.
  Proof. exact (gate_theorem b64dec loads sig_ok now_s now_us exec). Qed.

  (** for DSSE the evaluated payload is the parse of the very bytes inside the signed PAE
      (metadata produced by the loader satisfies [md_consistent]) *)
  Theorem C01_dsse_payload_is_signed_bytes : forall j pbytes pt sigs parsed p,
    from_dict b64dec loads j = Ok (Envelope pbytes pt sigs parsed) ->
    get_payload (Envelope pbytes pt sigs parsed) = Ok p ->
    signed_message (Envelope pbytes pt sigs parsed) = Ok (pae (utf8 pt) pbytes) /\
    exists data, loads pbytes = Some data /\ read_payload data = Ok p.
  Proof.
    exact (fun j pbytes pt sigs parsed p H =>
             envelope_payload_of_signed_bytes loads pbytes pt sigs parsed p
               (from_dict_consistent b64dec loads j _ H)).
  Qed.

  (** the gate does not look at the link directory: when signatures / payload / expiry reject,
      they reject against every link directory, with an empty trace (no command ran) ... *)
  Theorem C01_any_links : forall a e,
    gate (a_md a) (a_keys a) = Err e -> forall d, verify d a = (Err e, []).
  Proof. exact (gate_Err_rejects b64dec loads sig_ok now_s now_us exec). Qed.

  (** ... and no link directory gets a document accepted whose gate fails *)
  Theorem C01_acceptance_needs_gate : forall d a lk tr,
    verify d a = (Ok lk, tr) -> exists l0, gate (a_md a) (a_keys a) = Ok l0.
  Proof. exact (accepted_gate b64dec loads sig_ok now_s now_us exec). Qed.

  (** the individual causes, each for every link directory *)
  Theorem C01_no_keys_rejected : forall a,
    check_public_keys (a_keys a) = Ok [] -> forall d, verify d a = (Err ESignature, []).
  Proof. exact (no_keys_rejected b64dec loads sig_ok now_s now_us exec). Qed.

  Theorem C01_key_without_valid_signature_rejected : forall a ks kid k e,
    check_public_keys (a_keys a) = Ok ks -> In (kid, k) ks -> verify_signature (a_md a) k = Err e ->
    exists e', forall d, verify d a = (Err e', []).
  Proof. exact (key_without_valid_sig_rejected b64dec loads sig_ok now_s now_us exec). Qed.

  (** expiry at or before now rejects (after the signature stage passed); strictly later passes *)
  Theorem C01_expiry_boundary : forall a l0 u,
    verify_metadata_signatures sig_ok now_s (a_md a) (a_keys a) = Ok u ->
    get_payload (a_md a) = Ok (PLayout l0) ->
    ((ly_expires_us l0 <= now_us)%Z -> forall d, verify d a = (Err EExpired, [])) /\
    ((now_us < ly_expires_us l0)%Z -> gate (a_md a) (a_keys a) = Ok l0).
  Proof. exact (expiry_boundary b64dec loads sig_ok now_s now_us exec). Qed.

  (** Edited content.  Ideal signatures: a signature value validates at most one message per key.
      If the document keeps the signature list of an accepted one but its content differs
      (traditional format: different canonical content of the payload, i.e. [norm (asdict ..)];
      DSSE: different payload bytes), then every key set that accepted the original rejects it —
      against every link directory, with any parameters, before any command runs.
      Holds for sslib-shaped and gpg-shaped keys alike (DSSE never accepts a gpg key). *)
  Theorem C01_edit_rejected_metablock : forall sigs p p' d a lk tr,
    ideal_sigs sig_ok ->
    a_md a = Metablock sigs p ->
    verify d a = (Ok lk, tr) ->
    wf_json (payload_asdict p) = true -> wf_json (payload_asdict p') = true ->
    norm (payload_asdict p') <> norm (payload_asdict p) ->
    forall d' params name, exists e,
      verify d' (mkArgs (Metablock sigs p') (a_keys a) params name) = (Err e, []).
  Proof. exact (edit_rejected_metablock b64dec loads sig_ok now_s now_us exec). Qed.

  (** DSSE verification accepts if ANY listed signature by the key verifies, so the statement needs
      "at most one signature per key id" (otherwise a second, genuine signature over the other
      payload could be in the list — no edit in the sense of the property) *)
  Theorem C01_edit_rejected_envelope : forall pbytes pbytes' pt sigs parsed parsed' d a lk tr,
    ideal_sigs sig_ok -> unique_sig_keyids sigs ->
    a_md a = Envelope pbytes pt sigs parsed ->
    verify d a = (Ok lk, tr) ->
    pbytes' <> pbytes ->
    forall d' params name, exists e,
      verify d' (mkArgs (Envelope pbytes' pt sigs parsed') (a_keys a) params name) = (Err e, []).
  Proof. exact (edit_rejected_envelope b64dec loads sig_ok now_s now_us exec). Qed.
End C01.

(** the signed bytes determine the content (C09): what "different content" means above *)
Theorem C01_signed_bytes_determine_content : forall a b m,
  wf_json a = true -> wf_json b = true ->
  signable_bytes a = Ok m -> signable_bytes b = Ok m -> norm a = norm b.
Proof. exact signable_bytes_inj. Qed.

(** Date arithmetic: for validated expiry strings the instant is strictly monotone in the
    calendar tuple (year, month, day, hour, minute, second), so no two fields can be confused and
    no date is shifted without changing the comparison *)
Theorem C01_expiry_monotone : forall s1 s2 c1 c2 t1 t2,
  parse_fields s1 = Some c1 -> parse_fields s2 = Some c2 ->
  parse_expires s1 = Ok t1 -> parse_expires s2 = Ok t2 ->
  civil_lt c1 c2 -> (t1 < t2)%Z.
Proof. exact parse_expires_mono. Qed.

Theorem C01_check_expiry : forall e n, check_expiry e n = Ok tt <-> (n < e)%Z.
Proof. exact check_expiry_iff. Qed.

(* ------------------------------------------------------------------ *)
(** * Non-vacuity: a concrete signed supply chain (Proofs/VerifyExample.v), both formats *)
From Coq Require Import String.
Local Open Scope string_scope.

(** accepted one microsecond before expiry; rejected at the expiry instant and after it *)
Example C01_ex_before : is_ok (run (expires_us - 1) ex_exec_ok link_dir (ex_args root_md keys1 (Some params))) = true.
Proof. vm_compute. reflexivity. Qed.
Example C01_ex_at : run expires_us ex_exec_ok link_dir (ex_args root_md keys1 (Some params)) = (Err EExpired, []).
Proof. vm_compute. reflexivity. Qed.
Example C01_ex_after : run (expires_us + 1) ex_exec_ok link_dir (ex_args root_md keys1 (Some params)) = (Err EExpired, []).
Proof. vm_compute. reflexivity. Qed.
Example C01_ex_dsse_before : is_ok (run (expires_us - 1) ex_exec_ok link_dir (ex_args root_envelope keys1 None)) = true.
Proof. vm_compute. reflexivity. Qed.
Example C01_ex_dsse_at : run expires_us ex_exec_ok link_dir (ex_args root_envelope keys1 None) = (Err EExpired, []).
Proof. vm_compute. reflexivity. Qed.
Example C01_ex_expires_us : parse_expires (s "2030-01-01T00:00:00Z") = Ok 1893456000000000%Z.
Proof. vm_compute. reflexivity. Qed.
Example C01_ex_leap_day : parse_expires (s "2024-02-29T23:59:59Z") = Ok 1709251199000000%Z /\
                          parse_expires (s "2023-02-29T00:00:00Z") = Err EFormat.
Proof. vm_compute. split; reflexivity. Qed.

(** every supplied key must verify: a second key without a signature rejects; no key rejects *)
Example C01_ex_superset : run now0 ex_exec_ok link_dir (ex_args root_md keys2 None) = (Err ESignature, []).
Proof. vm_compute. reflexivity. Qed.
Example C01_ex_no_keys : run now0 ex_exec_ok link_dir (ex_args root_md (JDict []) None) = (Err ESignature, []).
Proof. vm_compute. reflexivity. Qed.

(** the oracle of the example is ideal and the payloads are well-formed:
    the hypotheses of the edit theorems are satisfiable, and the edited documents are rejected *)
Example C01_ex_ideal : ideal_sigs ex_sig_ok.
Proof. exact ex_ideal. Qed.
Example C01_ex_edit_hyps :
  (exists sigs p p', root_md = Metablock sigs p /\ edited_md = Metablock sigs p' /\
     wf_json (payload_asdict p) = true /\ wf_json (payload_asdict p') = true /\
     json_eqb (norm (payload_asdict p')) (norm (payload_asdict p)) = false) /\
  check_public_key owner_key = Ok KSslib.
Proof. vm_compute. split; [do 3 eexists; repeat split|reflexivity]. Qed.
Example C01_ex_edited : run now0 ex_exec_ok link_dir (ex_args edited_md keys1 None) = (Err ESignature, []).
Proof. vm_compute. reflexivity. Qed.
Example C01_ex_edited_dsse : run now0 ex_exec_ok link_dir (ex_args edited_envelope keys1 None) = (Err ESignature, []).
Proof. vm_compute. reflexivity. Qed.

Print Assumptions C01_gate.
Print Assumptions C01_dsse_payload_is_signed_bytes.
Print Assumptions C01_any_links.
Print Assumptions C01_acceptance_needs_gate.
Print Assumptions C01_no_keys_rejected.
Print Assumptions C01_key_without_valid_signature_rejected.
Print Assumptions C01_expiry_boundary.
Print Assumptions C01_edit_rejected_metablock.
Print Assumptions C01_edit_rejected_envelope.
Print Assumptions C01_signed_bytes_determine_content.
Print Assumptions C01_expiry_monotone.
Print Assumptions C01_check_expiry.
