(** C17 — every rule parses to one meaning or is rejected.
    Statements only; proofs are in Proofs/RuleProofs.v. *)
From InToto.Model Require Import Base Json Rule.
From InToto.Proofs Require Import RuleProofs.

(** the parser accepts exactly the documented grammar [parses] (RuleProofs.v), with that meaning *)
Theorem C17_grammar : forall (r : list str) (m : meaning),
  unpack_rule (JList (map JStr r)) = Ok m <-> parses r m.
Proof. exact unpack_grammar. Qed.
Print Assumptions C17_grammar.

(** one meaning at most *)
Theorem C17_unambiguous : forall r m1 m2, parses r m1 -> parses r m2 -> m1 = m2.
Proof. exact parses_functional. Qed.
Print Assumptions C17_unambiguous.

(** for every JSON value whatsoever: a meaning or FormatError, never None or another exception *)
Theorem C17_total : forall j : json,
  (exists m, unpack_rule j = Ok m) \/ unpack_rule j = Err EFormat.
Proof. exact unpack_total. Qed.
Print Assumptions C17_total.

(** pack/unpack round trip for every parsed rule whose step name is non-empty *)
Theorem C17_roundtrip : forall j m, unpack_rule j = Ok m ->
  (forall p sp d dp, m <> Match p sp d dp []) ->
  exists r', pack_rule m = Ok r' /\ unpack_rule (JList (map JStr r')) = Ok m.
Proof. exact roundtrip. Qed.
Print Assumptions C17_roundtrip.

(** the documented exception: an empty step name parses but cannot be written back *)
Theorem C17_empty_step_not_packable : forall p sp d dp, pack_rule (Match p sp d dp []) = Err EFormat.
Proof. exact pack_empty_step. Qed.
Print Assumptions C17_empty_step_not_packable.

(** non-vacuity: a non-trivial rule in mixed case parses, and an operand equal to a keyword stays an operand *)
Example C17_example :
  unpack_rule (JList (map JStr [[77;97;84;99;72]; [42]; [105;78]; [119;105;116;104]; [87;73;84;72];
                                [80;114;111;100;117;99;116;115]; [102;114;111;109]; [102;114;111;109]]%N))
  = Ok (Match [42]%N [119;105;116;104]%N Products [] [102;114;111;109]%N).
Proof. reflexivity. Qed.
