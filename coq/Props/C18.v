(** C18 — command-line exit status reports success only when the operation succeeded.

    "in-toto-verify exits 0 exactly when verification passes and 1 on every verification
    failure; in-toto-sign --verify exits 0 exactly when every given key verifies and 1 when a
    signature check fails; in-toto-match-products exits 0 exactly when the local files equal the
    link's products; in-toto-run and in-toto-record exit 0 exactly when the link file (for
    `record start` the preliminary one) was written. Usage errors exit 2, and no failure of any
    kind is reported as success."

    Decided on the effect skeletons of the six main() functions regenerated from /repo on every
    run (Tie/C18.v evaluates the checkers below on them) plus the CLI correspondence check
    (harness/c18.py: exit status vs an independent oracle over the scenario classes).

    Reading: [exec rho s t o]: one run of main with trace t and outcome o; [success o]: the
    process reports status 0 (sys.exit(0) or main returns); an uncaught exception (ORaised) is
    status 1 (interpreter); [ECall a true] in t: the library operation a returned normally;
    [ECall a false]: it raised; [EHandler]: an except clause was entered. *)
From InToto.Model Require Import Base Skel.
From InToto.Proofs Require Import SkelSound.

(** status 0 only after the library operation returned normally, and never through an exception
    handler ("no failure of any kind is reported as success"); g = assumption on stable
    conditions such as args.verify / args.command == 'start' *)
Theorem C18_exit0_only_after : forall (a : str) rho (g : asg) (labels : list str) (s : skel),
  agrees rho g -> exit0_only_after g labels s a = true ->
  forall t o, exec rho s t o -> success o = true ->
  In (ECall a true) t /\ ~ In EHandler t.
Proof. exact exit0_only_after_sound. Qed.
Print Assumptions C18_exit0_only_after.

(** once any except clause was entered, the process ends with a non-zero status (or the
    exception) *)
Theorem C18_handlers_exit_nonzero : forall rho (s : skel),
  handlers_exit_nonzero s = true ->
  forall t o, exec rho s t o -> In EHandler t -> exited_nonzero_or_raised o = true.
Proof. exact handlers_exit_nonzero_sound. Qed.
Print Assumptions C18_handlers_exit_nonzero.

(** the library operation raising leads to status c (verify / run / record / mock: c = 1) *)
Theorem C18_failure_status : forall (a : str) rho (g : asg) (labels : list str) (s : skel) (c : Z),
  agrees rho g -> failure_exits g labels s a c = true ->
  forall t o, exec rho s t o -> In (ECall a false) t ->
  o = OExited c \/ (o = ORaised /\ c = 1%Z).
Proof. exact failure_exits_sound. Qed.
Print Assumptions C18_failure_status.

(** status c (usage: 2) is only produced before the library operation was attempted *)
Theorem C18_usage_before_operation : forall (a : str) rho (s : skel) (c : Z),
  exit_only_before s c a = true ->
  forall t, exec rho s t (OExited c) -> forall ok, ~ In (ECall a ok) t.
Proof. exact exit_only_before_sound. Qed.
Print Assumptions C18_usage_before_operation.

(** in-toto-match-products: with the stable condition l ("only_products or not_in_products or
    differ") true the run never reports success; with l false it never exits with status c = 1 *)
Theorem C18_match_products_data : forall rho (s : skel) (l : str) (c : Z),
  exit_iff_label s l c = true ->
  forall t o, exec rho s t o ->
  (rho l = true -> success o = false) /\ (rho l = false -> o <> OExited c).
Proof. exact exit_iff_label_sound. Qed.
Print Assumptions C18_match_products_data.

(** in-toto-sign --verify: on a path that reports success, every iteration of the loop l over
    the given keys contains a normally returned signature verification a *)
Theorem C18_sign_verify_every_key : forall (l a : str) rho (g : asg) (labels : list str) (s : skel),
  agrees rho g -> iter_requires g labels s l a = true ->
  forall t o, exec rho s t o -> success o = true -> iters_ok l a t false = true.
Proof. exact iter_requires_sound. Qed.
Print Assumptions C18_sign_verify_every_key.

(** ... and the loop cannot be left early with success: a loop body without break / return /
    exit 0 ends each iteration by going on to the next key, by an exception, or a non-zero exit *)
Theorem C18_loop_body_no_early_success : forall rho (b : skel),
  escapes b = false ->
  forall t o, exec rho b t o -> o <> OBroke /\ o <> OReturned /\ o <> OExited 0.
Proof. exact no_escape_sound. Qed.
Print Assumptions C18_loop_body_no_early_success.

(** ordering checkers offered to the other properties (C07, C12) *)
Theorem C18_precedes : forall (a b : str) rho (s : skel),
  precedes s a b = true ->
  forall t o, exec rho s t o ->
  forall t1 ok t2, t = t1 ++ ECall b ok :: t2 -> In (ECall a true) t1.
Proof. exact precedes_sound. Qed.
Print Assumptions C18_precedes.

Theorem C18_last_effect : forall (a : str) rho (s : skel),
  last_effect s a = true ->
  forall t o, exec rho s t o -> success o = true -> last_call t None = Some (a, true).
Proof. exact last_effect_sound. Qed.
Print Assumptions C18_last_effect.

(** * The hypotheses are satisfiable on non-trivial skeletons, and the checkers tell apart *)
(** the shape of in-toto-verify's main: 1 parse_args, 2 load, 3 in_toto_verify *)
Definition ex_main (handler_status : Z) : skel :=
  seqs [Call [1]; If false [4] (Exit 2) Skip;
        Try (seqs [Call [2]; Loop [6] (Call [5]) Skip; Call [3]]) (Exit handler_status) true Skip;
        Exit 0]%N.
Example C18_ex_good :
  exit0_only_after [] [] (ex_main 1) [3]%N = true /\ handlers_exit_nonzero (ex_main 1) = true /\
  failure_exits [] [] (ex_main 1) [3]%N 1 = true /\ exit_only_before (ex_main 1) 2 [3]%N = true.
Proof. vm_compute. repeat split; reflexivity. Qed.
(** a handler that falls through to exit 0 is refused *)
Example C18_ex_bad :
  exit0_only_after [] [] (ex_main 0) [3]%N = false /\ handlers_exit_nonzero (ex_main 0) = false.
Proof. vm_compute. split; reflexivity. Qed.
Example C18_ex_trace :
  exists t, exec (fun _ => true) (ex_main 1) t (OExited 0) /\ t = [ECall [1] true; ECall [2] true; ECall [3] true]%N.
Proof.
  eexists. split.
  - unfold ex_main. simpl seqs.
    eapply XSeqGo; [apply XCallOk|]. eapply XSeqGo; [apply XIfFreeF; constructor|].
    eapply XSeqGo; [|constructor].
    eapply (XTryPass _ _ _ _ _ _ ONormal _ ONormal); [|reflexivity|constructor].
    eapply XSeqGo; [apply XCallOk|]. eapply XSeqGo; [apply XLoopEnd; constructor | apply XCallOk].
  - reflexivity.
Qed.
(** sign --verify: loop 6 over the keys, 3 = verify_signature; an iteration that may skip the
    verification is refused; leaving the loop early (break / return / exit 0) is refused by [escapes] *)
Example C18_ex_iter :
  iter_requires [] [] (seqs [Try (seqs [Loop [6] (Call [3]) Skip; Exit 0]) (Exit 1) true Skip])%N [6]%N [3]%N = true /\
  escapes (seqs [Call [3]; Break])%N = true /\ escapes (Call [3])%N = false /\
  iter_requires [] [] (seqs [Try (seqs [Loop [6] (If false [5] (Call [3]) Skip) Skip; Exit 0]) (Exit 1) true Skip])%N [6]%N [3]%N = false.
Proof. vm_compute. repeat split; reflexivity. Qed.
