(** C09 (codec part) — the signed bytes are an injective function of the content, independent of
    the order in which dictionary entries were supplied.  Statements only; proofs in Proofs/CanonProofs.v. *)
From Coq Require Import Permutation.
From InToto.Model Require Import Base Json Utf8 Canon.
From InToto.Proofs Require Import Utf8Proofs CanonProofs.

(** every float-free value with distinct dict keys has canonical bytes *)
Theorem C09_canon_total : forall j, wf_json j = true -> exists s, canon j = Ok s.
Proof. exact canon_total. Qed.

(** the bytes do not depend on the order of dictionary entries, at any depth ... *)
Theorem C09_canon_norm : forall j, canon (norm j) = canon j.
Proof. exact canon_norm. Qed.
Theorem C09_norm_perm : forall l l', NoDup (map fst l) -> Permutation l l' -> norm (JDict l) = norm (JDict l').
Proof. exact norm_perm. Qed.

(** ... and on nothing less than the whole content: equal bytes, equal content (up to entry order) *)
Theorem C09_canon_inj : forall a b s, wf_json a = true -> wf_json b = true ->
  canon a = Ok s -> canon b = Ok s -> norm a = norm b.
Proof. exact canon_inj. Qed.

Theorem C09_signable_bytes_inj : forall a b s, wf_json a = true -> wf_json b = true ->
  signable_bytes a = Ok s -> signable_bytes b = Ok s -> norm a = norm b.
Proof. exact signable_bytes_inj. Qed.

(** DSSE pre-authentication encoding is injective in (payload type, payload) *)
Theorem C09_pae_inj : forall t p t' p', pae t p = pae t' p' -> t = t' /\ p = p'.
Proof. exact pae_inj. Qed.

Print Assumptions C09_canon_total.
Print Assumptions C09_canon_norm.
Print Assumptions C09_norm_perm.
Print Assumptions C09_canon_inj.
Print Assumptions C09_signable_bytes_inj.
Print Assumptions C09_pae_inj.
