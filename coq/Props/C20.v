(** C20 — directory and OSTree digests follow their documented construction.
    Statements only; proofs in Proofs/Utf8Proofs.v and Proofs/DirDigestProofs.v.
    [H] is SHA-256 (hex text of the digest of a byte string): an oracle, any function. *)
From Coq Require Import Permutation.
From InToto.Model Require Import Base Utf8 DirDigest.
From InToto.Proofs Require Import Utf8Proofs DirDigestProofs.

(** entries as the recorder produces them: hex digest (no blank, no newline), path without newline,
    everything encodable *)
Definition entry_ok (f : str * str) : Prop :=
  (forall c, In c (snd f) -> c <> 32%N /\ c <> 10%N) /\ ~ In 10%N (fst f) /\
  encodable (fst f) = true /\ encodable (snd f) = true.
Definition wf_files (m : list (str * str)) : Prop := NoDup (map fst m) /\ Forall entry_ok m.

(** the text that is hashed: sorted sha256sum lines; the empty directory hashes the empty string *)
Theorem C20_construction : forall H files,
  dir_digest H files = H (utf8 (flat_map (fun f => snd f ++ [32; 32]%N ++ fst f ++ [10]%N) (sort_files files)))
  /\ dir_digest H [] = H [].
Proof. exact construction. Qed.

(** the sort puts paths in ascending code-point order and keeps exactly the given entries *)
Theorem C20_sorted : forall files,
  Permutation (sort_files files) files /\
  (forall pre a b post, sort_files files = pre ++ a :: b :: post -> lex_leb (fst a) (fst b) = true).
Proof. exact sorted_spec. Qed.

(** code-point order is byte order of the UTF-8 encodings (the documented `LC_ALL=C sort`) *)
Theorem C20_utf8_order : forall a b, encodable a = true -> encodable b = true ->
  lex_ltb (utf8 a) (utf8 b) = lex_ltb a b.
Proof. exact utf8_order. Qed.

(** independent of creation / listing order *)
Theorem C20_order_free : forall H m1 m2, NoDup (map fst m1) -> Permutation m1 m2 ->
  dir_digest H m1 = dir_digest H m2.
Proof. exact order_free. Qed.

(** any change of a contained file's content hash or relative name, any addition or removal
    changes the digest — or exhibits a SHA-256 collision *)
Theorem C20_sensitive : forall H m1 m2, wf_files m1 -> wf_files m2 ->
  dir_digest H m1 = dir_digest H m2 ->
  Permutation m1 m2 \/ exists b1 b2, b1 <> b2 /\ H b1 = H b2.
Proof. exact sensitive. Qed.

(** known finding D20: with a newline in a file name the construction is ambiguous *)
Theorem C20_newline_refuted : exists m1 m2, NoDup (map fst m1) /\ NoDup (map fst m2) /\
  ~ Permutation m1 m2 /\ forall H, dir_digest H m1 = dir_digest H m2.
Proof. exact newline_refuted. Qed.

Print Assumptions C20_construction.
Print Assumptions C20_sorted.
Print Assumptions C20_utf8_order.
Print Assumptions C20_order_free.
Print Assumptions C20_sensitive.
Print Assumptions C20_newline_refuted.
