(** C09 — signatures bind exact content across formats, key types and disk round-trips.
    Statements only; proofs in Proofs/SignProofs.v (+ CanonProofs.v, Utf8Proofs.v; codec part: Props/C09canon.v).

    Oracles (Section variables, so every closed theorem quantifies over them):
      [sign tok m]      the signing primitive of the key known to the oracles as [tok]
                        (sslib keys: keyval.public; gpg keys: id of the (sub)key that signs)
      [sig_ok tok m v]  cryptographic validity of value [v] over message [m] under [tok]
      [b64enc]/[b64dec] base64,  [dumps]/[loads] the JSON text layer,  [now_s] time.time() (gpg key expiry).
    "Ideal signatures" = a value validates at most one message per key; "separate keys" = distinct keys do
    not validate each other's signatures.  Both are hypotheses about the schemes (ECDSA is malleable at the
    bit level: what the model can say about "a changed signature value" is [C09_verify_sound_*]: verification
    succeeds only if the oracle accepts a STORED value over EXACTLY the bytes derived from the object at hand). *)
From Coq Require Import Permutation.
From InToto.Model Require Import Base Json Strs Utf8 Canon Rule Rules Expiry Meta Sign.
From InToto.Proofs Require Import Utf8Proofs CanonProofs SignProofs.

Section C09.
  Variable sign : str -> list N -> str.
  Variable sig_ok : str -> list N -> str -> bool.
  Variable b64enc : list N -> str.
  Variable b64dec : str -> option (list N).
  Variable dumps : json -> list N.
  Variable loads : list N -> option json.
  Variable now_s : Z.

  Notation verify := (verify_signature sig_ok now_s).
  Notation create := (create_signature sign).

  (* ------------------------------------------------------------------------------------------ *)
  (** ** C09_roundtrip — signed metadata verifies with the matching key, directly ...            *)

  (** traditional format, securesystemslib key (rsa / ecdsa / ed25519): if the payload has canonical bytes [msg],
      the oracle accepts the signer's own signature over [msg] (written as whole lower/upper-case hex bytes), and
      no earlier entry of the list carries the key's id, signing succeeds and the result verifies *)
  Theorem C09_roundtrip_mb_sslib : forall old p kid pub key msg,
    sslib_key_for key kid pub ->
    signable_bytes (payload_asdict p) = Ok msg ->
    (forall s, In s old -> sig_matches key s = false) ->
    hex_even (sign pub msg) = true -> sig_ok pub msg (sign pub msg) = true ->
    exists md', create (Metablock old p) (SgSslib kid pub) = Ok md' /\ verify md' key = Ok tt.
  Proof. exact (sign_verify_mb_sslib sign sig_ok now_s). Qed.

  (** the hypothesis "the payload has canonical bytes" holds for everything the (strict) loader returns: constructing
      a Link / Layout evaluates its signable_bytes (validate() enumerates the members), so an object with a float or
      a lone surrogate anywhere cannot be constructed *)
  Theorem C09_loaded_is_signable : forall d p, read_payload_s d = Ok p ->
    read_payload d = Ok p /\ exists msg, signable_bytes (payload_asdict p) = Ok msg.
  Proof. exact loaded_is_signable. Qed.

  (** traditional format, gpg key: [sk] is the id of the key gpg signs with — the verification key's own id or
      one of its subkeys' — and that key has not expired at [now_s].  The entry must conform to securesystemslib's
      GPG signature schema ([gpg_entry_ok]: key id, signature and other_headers non-empty hex text, other_headers
      whole bytes); the oracle is asked about signature AND other_headers ([gpg_sig_value]: the signed digest
      covers both) *)
  Theorem C09_roundtrip_mb_gpg : forall old p mkid sk hd key msg,
    gpg_key_for now_s key mkid sk ->
    signable_bytes (payload_asdict p) = Ok msg ->
    (forall s, In s old -> sig_matches key s = false) ->
    gpg_entry_ok sk (sign sk msg) hd = true ->
    sig_ok sk msg (gpg_sig_value (sign sk msg) hd) = true ->
    exists md', create (Metablock old p) (SgGpg sk hd) = Ok md' /\ verify md' key = Ok tt.
  Proof. exact (sign_verify_mb_gpg sign sig_ok now_s). Qed.

  (** a gpg entry whose signature or other_headers were changed: SignatureVerificationError exactly when the oracle
      rejects the changed (signature, other_headers) pair over the signed bytes *)
  Theorem C09_tamper_gpg_entry : forall old rest p key mkid sk sval hd msg,
    gpg_key_for now_s key mkid sk ->
    (forall s, In s old -> sig_matches key s = false) ->
    signable_bytes (payload_asdict p) = Ok msg ->
    gpg_entry_ok sk sval hd = true ->
    verify (Metablock (old ++ gpg_entry sk sval hd :: rest) p) key =
      if sig_ok sk msg (gpg_sig_value sval hd) then Ok tt else Err ESignature.
  Proof. exact (verify_mb_first_gpg sig_ok now_s). Qed.

  (** DSSE: the signature is over PAE(type, payload bytes); earlier entries are irrelevant (any-match);
      a GPGSigner is refused *)
  Theorem C09_roundtrip_env : forall pb pt old parsed kid pub key,
    sslib_key_for key kid pub ->
    hex_even (sign pub (pae (utf8 pt) pb)) = true ->
    sig_ok pub (pae (utf8 pt) pb) (sign pub (pae (utf8 pt) pb)) = true ->
    exists md', create (Envelope pb pt old parsed) (SgSslib kid pub) = Ok md' /\ verify md' key = Ok tt.
  Proof. exact (sign_verify_env sign sig_ok now_s). Qed.

  Theorem C09_env_gpg_refused : forall pb pt old parsed kid hd,
    create (Envelope pb pt old parsed) (SgGpg kid hd) = Err ENotImplemented.
  Proof. exact (sign_env_gpg sign). Qed.

  (** ** ... and after being written to disk and loaded again *)

  (** Metablock: from_dict inverts to_dict for every payload the loader can produce and every list of
      well-shaped signature entries — the loaded object IS the dumped object, so it verifies identically *)
  Theorem C09_disk_mb : forall sigs p d,
    read_payload (payload_asdict p) = Ok p -> sigs_wellformed sigs ->
    to_dict b64enc (Metablock sigs p) = Ok d ->
    from_dict b64dec loads d = Ok (Metablock sigs p).
  Proof. exact (from_dict_to_dict_mb b64enc b64dec loads). Qed.

  (** the hypothesis of [C09_disk_mb] holds for every payload that came out of the loader: Link.read /
      Layout.read are idempotent on attr.asdict of their results *)
  Theorem C09_loader_idempotent : forall d p, read_payload d = Ok p -> read_payload (payload_asdict p) = Ok p.
  Proof. exact read_payload_idem. Qed.

  (** Envelope (payload type = in-toto's constant, signature values lower-case hex as the loader and every
      signer write them): to_dict succeeds and from_dict inverts it *)
  Theorem C09_disk_env : forall md,
    (forall b, b64dec (b64enc b) = Some b) -> wf_envelope loads md ->
    exists d, to_dict b64enc md = Ok d /\ from_dict b64dec loads d = Ok md.
  Proof. exact (from_dict_to_dict_env b64enc b64dec loads). Qed.

  (** with the text layer: dump then load *)
  Theorem C09_dump_load_mb : forall sigs p file,
    (forall v, loads (dumps v) = Some v) ->
    read_payload (payload_asdict p) = Ok p -> sigs_wellformed sigs ->
    dump b64enc dumps (Metablock sigs p) = Ok file ->
    from_dict b64dec loads match loads file with Some d => d | None => JNull end = Ok (Metablock sigs p).
  Proof. exact (load_dump_mb b64enc b64dec dumps loads). Qed.

  (** dump and load with the strict loader (Metadata.load), both formats *)
  Theorem C09_dump_load_mb_strict : (forall v, loads (dumps v) = Some v) -> forall sigs p,
    read_payload_s (payload_asdict p) = Ok p -> sigs_wellformed sigs ->
    exists file, dump b64enc dumps (Metablock sigs p) = Ok file /\ load b64dec loads file = Ok (Metablock sigs p).
  Proof. exact (dump_load_mb b64enc b64dec dumps loads). Qed.
  Theorem C09_dump_load_env : (forall v, loads (dumps v) = Some v) -> forall md,
    (forall b, b64dec (b64enc b) = Some b) -> wf_envelope loads md ->
    exists file, dump b64enc dumps md = Ok file /\ load b64dec loads file = Ok md.
  Proof. exact (dump_load_env b64enc b64dec dumps loads). Qed.

  (** ** C09_reload_same_bytes — whatever file was loaded, in either format: dumping the loaded object and
      loading the dump yields the SAME object; a fortiori the re-derived signed bytes are the same bytes *)
  Theorem C09_reload_fixpoint : forall d md,
    (forall b, b64dec (b64enc b) = Some b) -> (forall s b, b64dec s = Some b -> is_bytes b = true) ->
    from_dict b64dec loads d = Ok md ->
    exists d', to_dict b64enc md = Ok d' /\ from_dict b64dec loads d' = Ok md.
  Proof. exact (load_fixpoint b64enc b64dec loads). Qed.

  Theorem C09_reload_same_bytes : forall d md,
    (forall b, b64dec (b64enc b) = Some b) -> (forall s b, b64dec s = Some b -> is_bytes b = true) ->
    from_dict b64dec loads d = Ok md ->
    exists d' md', to_dict b64enc md = Ok d' /\ from_dict b64dec loads d' = Ok md' /\ signed_msg md' = signed_msg md.
  Proof. exact (load_same_bytes b64enc b64dec loads). Qed.

  (* ------------------------------------------------------------------------------------------ *)
  (** ** C09_tamper                                                                              *)

  (** soundness of verification, the statement everything else follows from: a Metablock verifies only if the
      FIRST entry carrying the key's id (or a subkey's) is accepted by the oracle, with the key token and the
      stored value that entry and key determine, over exactly the canonical bytes of the payload at hand *)
  Theorem C09_verify_sound_mb : forall sigs p key,
    verify (Metablock sigs p) key = Ok tt ->
    exists sig msg tok v, find (sig_matches key) sigs = Some sig /\ signable_bytes (payload_asdict p) = Ok msg /\
      entry_token key sig = Some (tok, v) /\ sig_ok tok msg v = true.
  Proof. exact (verify_mb_sound_tok sig_ok now_s). Qed.

  (** an Envelope verifies only if SOME entry is accepted over exactly PAE(type, payload bytes) *)
  Theorem C09_verify_sound_env : forall pb pt sigs parsed key,
    verify (Envelope pb pt sigs parsed) key = Ok tt ->
    exists sig, In sig sigs /\ sslib_verify sig_ok sig key (pae (utf8 pt) pb) = Ok true.
  Proof. exact (verify_env_sound sig_ok now_s). Qed.

  (** changed content, traditional format: two Metablocks with the same signature list that both verify with
      one key have the same content (equal up to dict entry order at every depth) *)
  Theorem C09_tamper_content_mb : forall sigs p1 p2 key,
    ideal sig_ok ->
    wf_json (payload_asdict p1) = true -> wf_json (payload_asdict p2) = true ->
    verify (Metablock sigs p1) key = Ok tt -> verify (Metablock sigs p2) key = Ok tt ->
    norm (payload_asdict p1) = norm (payload_asdict p2).
  Proof. exact (tamper_content_mb sig_ok now_s). Qed.

  (** ... in the form "the tampered file is rejected with SignatureVerificationError": the entry that is looked at
      was valid for content 1; for any loadable content 2 that differs, verification raises *)
  Theorem C09_tamper_content_mb_err : forall old rest p1 p2 key kid pub v m1 m2,
    ideal sig_ok -> sslib_key_for key kid pub ->
    (forall s, In s old -> sig_matches key s = false) ->
    signable_bytes (payload_asdict p1) = Ok m1 -> signable_bytes (payload_asdict p2) = Ok m2 ->
    wf_json (payload_asdict p1) = true -> wf_json (payload_asdict p2) = true ->
    norm (payload_asdict p1) <> norm (payload_asdict p2) ->
    sig_ok pub m1 v = true ->
    verify (Metablock (old ++ sslib_entry kid v :: rest) p2) key = Err ESignature.
  Proof. exact (tamper_content_mb_err sig_ok now_s). Qed.

  (** changed content, DSSE: if every entry the oracle accepts under this key was made over (type1, payload1),
      an envelope that verifies carries exactly that type and those payload BYTES *)
  Theorem C09_tamper_content_env : forall sigs pb1 pt1 pb2 pt2 parsed2 key,
    ideal sig_ok ->
    (forall s, In s sigs -> forall m, sslib_verify sig_ok s key m = Ok true -> m = pae (utf8 pt1) pb1) ->
    verify (Envelope pb2 pt2 sigs parsed2) key = Ok tt ->
    pb2 = pb1 /\ pt2 = pt1.
  Proof. exact (tamper_content_env sig_ok now_s). Qed.
  Theorem C09_tamper_content_env_err : forall sigs pb1 pt1 pb2 pt2 parsed2 key kid pub,
    sslib_key_for key kid pub ->
    (forall s, In s sigs -> forall m, sslib_verify sig_ok s key m = Ok true -> m = pae (utf8 pt1) pb1) ->
    (pb2 <> pb1 \/ pt2 <> pt1) ->
    verify (Envelope pb2 pt2 sigs parsed2) key = Err ESignature.
  Proof. exact (tamper_content_env_err sig_ok now_s). Qed.
  (** ... and that premise follows from ideal signatures when the entries verified over the original *)
  Theorem C09_entries_bound : forall sigs key m0,
    ideal sig_ok ->
    (forall s, In s sigs -> sig_matches key s = true -> sslib_verify sig_ok s key m0 = Ok true) ->
    forall s, In s sigs -> forall m, sslib_verify sig_ok s key m = Ok true -> m = m0.
  Proof. exact (entries_bound sig_ok). Qed.

  (** changed signature value under the same key id: the result is SignatureVerificationError exactly when the
      oracle rejects the new value over the signed bytes (all the model can say: see header) *)
  Theorem C09_tamper_sigvalue : forall old rest p key kid pub v' msg,
    sslib_key_for key kid pub -> (forall s, In s old -> sig_matches key s = false) ->
    signable_bytes (payload_asdict p) = Ok msg ->
    sig_ok pub msg v' = false ->
    verify (Metablock (old ++ sslib_entry kid v' :: rest) p) key = Err ESignature.
  Proof. exact (tamper_sigvalue_mb sig_ok now_s). Qed.

  (** any other key (also one presented under a signer's key id): metadata all of whose entries were made by
      signers not holding the verification key's material is rejected *)
  Theorem C09_other_key_mb : forall p signers key kid2 pub2 msg,
    keys_separate sig_ok -> sslib_key_for key kid2 pub2 ->
    signable_bytes (payload_asdict p) = Ok msg ->
    sslib_signers signers -> oracle_honest sign sig_ok msg signers ->
    (forall k, ~ In (SgSslib k pub2) signers) ->
    verify (Metablock (map (entry_of sign msg) signers) p) key = Err ESignature.
  Proof. exact (other_key_mb sign sig_ok now_s). Qed.

  Theorem C09_other_key_env : forall pb pt parsed signers key kid2 pub2,
    keys_separate sig_ok -> sslib_key_for key kid2 pub2 ->
    sslib_signers signers -> oracle_honest sign sig_ok (pae (utf8 pt) pb) signers ->
    (forall k, ~ In (SgSslib k pub2) signers) ->
    verify (Envelope pb pt (map (entry_of sign (pae (utf8 pt) pb)) signers) parsed) key = Err ESignature.
  Proof. exact (other_key_env sign sig_ok now_s). Qed.

  (* ------------------------------------------------------------------------------------------ *)
  (** ** C09_content_only — the signed bytes are a function of the content alone                 *)

  (** independent of the order of dict entries at any depth (C09canon: C09_canon_norm, C09_norm_perm) and of the
      order in which the fields of the object are supplied to the loader / constructor *)
  Theorem C09_field_order_free : forall l l', NoDup (map fst l) -> Permutation l l' ->
    read_payload (JDict l) = read_payload (JDict l').
  Proof. exact read_payload_order_free. Qed.

  Theorem C09_bytes_order_free : forall j, signable_bytes (norm j) = signable_bytes j.
  Proof. exact signable_bytes_norm. Qed.

  (** and of nothing less: equal signed bytes, equal content; equal PAE, equal payload bytes *)
  Theorem C09_bytes_determine_content : forall a b s, wf_json a = true -> wf_json b = true ->
    signable_bytes a = Ok s -> signable_bytes b = Ok s -> norm a = norm b.
  Proof. exact signable_bytes_inj. Qed.

  (* ------------------------------------------------------------------------------------------ *)
  (** ** C09_sign_ops — in-toto-sign: Replace (default) and Append                               *)

  (** the signature list after any sequence of runs: what survives of the initial list ([base]: all of it, or
      nothing once a Replace ran) followed by one entry per [live] signer — those of the last Replace and of all
      later Appends — all made over the unchanged signed bytes *)
  Theorem C09_sign_ops_list : forall os md md' msg,
    signed_msg md = Ok msg -> apply_ops sign md os = Ok md' ->
    md' = set_sigs md (base os (md_sigs md) ++ map (entry_of sign msg) (live os [])).
  Proof. exact (apply_ops_sigs sign). Qed.

  (** DSSE: every live key verifies, whatever the initial list held *)
  Theorem C09_sign_ops_env : forall os pb pt s0 parsed md' kid pub key,
    apply_ops sign (Envelope pb pt s0 parsed) os = Ok md' ->
    In (SgSslib kid pub) (live os []) ->
    sslib_key_for key kid pub ->
    hex_even (sign pub (pae (utf8 pt) pb)) = true ->
    sig_ok pub (pae (utf8 pt) pb) (sign pub (pae (utf8 pt) pb)) = true ->
    verify md' key = Ok tt.
  Proof. exact (sign_ops_env sign sig_ok now_s). Qed.

  (** traditional format: the first-match rule forces two hypotheses — (1) no entry surviving from the initial
      list carries the key's id (automatic after a Replace: [base] is empty), (2) every live signer whose entry
      carries the key's id is this key (a key id names one key).  Without (1): [C09_sign_ops_mb_refuted] below
      (same root cause as known finding D14a: first-match vs any-match). *)
  Theorem C09_sign_ops_mb : forall os s0 p md' kid pub key msg,
    apply_ops sign (Metablock s0 p) os = Ok md' ->
    signable_bytes (payload_asdict p) = Ok msg ->
    In (SgSslib kid pub) (live os []) ->
    sslib_key_for key kid pub ->
    (forall s, In s (base os s0) -> sig_matches key s = false) ->
    (forall sg, In sg (live os []) -> sig_matches key (entry_of sign msg sg) = true -> sg = SgSslib kid pub) ->
    hex_even (sign pub msg) = true -> sig_ok pub msg (sign pub msg) = true ->
    verify md' key = Ok tt.
  Proof. exact (sign_ops_mb sign sig_ok now_s). Qed.
End C09.

(* ---------------------------------------------------------------------------------------------- *)
(** * Non-vacuity: a concrete key, payload and oracle                                               *)

Example ex_payload_loads : read_payload_s ex_file_signed = Ok ex_payload.
Proof. vm_compute. reflexivity. Qed.
Example ex_msg_is_signed_bytes : signable_bytes (payload_asdict ex_payload) = Ok ex_msg /\ length ex_msg = 157%nat.
Proof. split; vm_compute; reflexivity. Qed.
Example ex_payload_wf : wf_json (payload_asdict ex_payload) = true.
Proof. vm_compute. reflexivity. Qed.
Example ex_key_ok : sslib_key_for ex_key ex_kid ex_pub.
Proof. split; [reflexivity|]. split; [reflexivity|]. eexists. split; reflexivity. Qed.
Example ex_key2_ok : sslib_key_for ex_key2 ex_kid ex_pub2.
Proof. split; [reflexivity|]. split; [reflexivity|]. eexists. split; reflexivity. Qed.

Example ex_ideal : ideal ex_sig_ok.
Proof.
  intros tok m1 m2 v H1 H2. unfold ex_sig_ok in *.
  apply andb_true_iff in H1. destruct H1 as [H1 _]. apply andb_true_iff in H1. destruct H1 as [_ H1].
  apply andb_true_iff in H2. destruct H2 as [H2 _]. apply andb_true_iff in H2. destruct H2 as [_ H2].
  apply eqs_eq in H1. apply eqs_eq in H2. congruence.
Qed.
Example ex_separate : keys_separate ex_sig_ok.
Proof.
  intros t1 t2 m v Hne H. unfold ex_sig_ok in *.
  apply andb_true_iff in H. destruct H as [H _]. apply andb_true_iff in H. destruct H as [H _]. apply eqs_eq in H. subst t1.
  destruct (eqs t2 ex_pub) eqn:E; [apply eqs_eq in E; congruence|reflexivity].
Qed.
Example ex_oracle_accepts_own : hex_even (ex_sign ex_pub ex_msg) = true /\ ex_sig_ok ex_pub ex_msg (ex_sign ex_pub ex_msg) = true.
Proof. split; vm_compute; reflexivity. Qed.

(** sign, verify; edit the content / the value / use the look-alike key: SignatureVerificationError *)
Definition ex_signed : metadata :=
  match create_signature ex_sign (Metablock [] ex_payload) (SgSslib ex_kid ex_pub) with Ok m => m | Err _ => Metablock [] ex_payload end.
Example ex_roundtrip : verify_signature ex_sig_ok 0 ex_signed ex_key = Ok tt.
Proof. vm_compute. reflexivity. Qed.
Example ex_roundtrip_env :
  let e := Envelope [123;125]%N S_envelope_payload_type [] None in
  let m := pae (utf8 S_envelope_payload_type) [123;125]%N in
  let ok := fun tok msg v => eqs tok ex_pub && eqs msg m && eqs v ex_val in
  match create_signature ex_sign e (SgSslib ex_kid ex_pub) with
  | Ok e' => verify_signature ok 0 e' ex_key = Ok tt /\ verify_signature ok 0 e' ex_key2 = Err ESignature
  | Err _ => False
  end.
Proof. vm_compute. split; reflexivity. Qed.
Example ex_tamper_content :
  match ex_signed, ex_payload with
  | Metablock sigs _, PLink l =>
      verify_signature ex_sig_ok 0 (Metablock sigs (PLink (mkLink (JStr [98]%N) (l_materials l) (l_products l) (l_byproducts l) (l_command l) (l_environment l)))) ex_key
      = Err ESignature
  | _, _ => False
  end.
Proof. vm_compute. reflexivity. Qed.
Example ex_tamper_value :
  verify_signature ex_sig_ok 0 (Metablock [sslib_entry ex_kid [97;98;48;50]%N] ex_payload) ex_key = Err ESignature.
Proof. vm_compute. reflexivity. Qed.
Example ex_other_key : verify_signature ex_sig_ok 0 ex_signed ex_key2 = Err ESignature.
Proof. vm_compute. reflexivity. Qed.
Example ex_disk :
  let enc := fun b : list N => b in let dec := fun s : str => Some s in let lds := fun _ : list N => @None json in
  match to_dict enc ex_signed with
  | Ok d => from_dict dec lds d = Ok ex_signed
  | Err _ => False
  end.
Proof. vm_compute. reflexivity. Qed.

(** op sequences: Replace [k2]; Append [k]; Append [k]  — live signers k2, k, k *)
Definition ex_ops : list sign_op :=
  [Append [SgSslib ex_kid ex_pub]; Replace [SgSslib [102;102]%N ex_pub2]; Append [SgSslib ex_kid ex_pub]; Append [SgSslib ex_kid ex_pub]].
Example ex_live : live ex_ops [] = [SgSslib [102;102]%N ex_pub2; SgSslib ex_kid ex_pub; SgSslib ex_kid ex_pub]
                  /\ base ex_ops [JNull] = [].
Proof. split; reflexivity. Qed.
Example ex_ops_verify :
  match apply_ops ex_sign (Metablock [sslib_entry ex_kid [48;48]%N] ex_payload) ex_ops with
  | Ok md => verify_signature ex_sig_ok 0 md ex_key = Ok tt /\ length (md_sigs md) = 3%nat
  | Err _ => False
  end.
Proof. vm_compute. split; reflexivity. Qed.

(** ** The first-match rule (D14a): without hypothesis (1) of [C09_sign_ops_mb] the statement is false.
    Initial list: one entry under the key's id that the oracle rejects (a stale or damaged signature);
    `in-toto-sign --append -k key`: the fresh valid signature comes second and is never looked at.
    The same sequence on an Envelope verifies. *)
Theorem C09_sign_ops_mb_refuted :
  exists sign sig_ok now_s os s0 p md' kid pub key msg,
    apply_ops sign (Metablock s0 p) os = Ok md' /\
    signable_bytes (payload_asdict p) = Ok msg /\
    In (SgSslib kid pub) (live os []) /\
    sslib_key_for key kid pub /\
    (forall sg, In sg (live os []) -> sig_matches key (entry_of sign msg sg) = true -> sg = SgSslib kid pub) /\
    hex_even (sign pub msg) = true /\ sig_ok pub msg (sign pub msg) = true /\
    verify_signature sig_ok now_s md' key = Err ESignature.
Proof. exact sign_ops_mb_refuted. Qed.

Example ex_same_sequence_on_envelope_verifies :
  let m := pae (utf8 S_envelope_payload_type) [123;125]%N in
  let ok := fun tok msg v => eqs tok ex_pub && eqs msg m && eqs v ex_val in
  match apply_ops ex_sign (Envelope [123;125]%N S_envelope_payload_type [sslib_entry ex_kid [48;48]%N] None) [Append [SgSslib ex_kid ex_pub]] with
  | Ok md => verify_signature ok 0 md ex_key = Ok tt
  | Err _ => False
  end.
Proof. vm_compute. reflexivity. Qed.

Print Assumptions C09_roundtrip_mb_sslib.
Print Assumptions C09_loaded_is_signable.
Print Assumptions C09_roundtrip_mb_gpg.
Print Assumptions C09_tamper_gpg_entry.
Print Assumptions C09_roundtrip_env.
Print Assumptions C09_env_gpg_refused.
Print Assumptions C09_disk_mb.
Print Assumptions C09_loader_idempotent.
Print Assumptions C09_disk_env.
Print Assumptions C09_dump_load_mb.
Print Assumptions C09_dump_load_mb_strict.
Print Assumptions C09_dump_load_env.
Print Assumptions C09_reload_fixpoint.
Print Assumptions C09_reload_same_bytes.
Print Assumptions C09_verify_sound_mb.
Print Assumptions C09_verify_sound_env.
Print Assumptions C09_tamper_content_mb.
Print Assumptions C09_tamper_content_mb_err.
Print Assumptions C09_tamper_content_env.
Print Assumptions C09_tamper_content_env_err.
Print Assumptions C09_entries_bound.
Print Assumptions C09_tamper_sigvalue.
Print Assumptions C09_other_key_mb.
Print Assumptions C09_other_key_env.
Print Assumptions C09_field_order_free.
Print Assumptions C09_bytes_order_free.
Print Assumptions C09_bytes_determine_content.
Print Assumptions C09_sign_ops_list.
Print Assumptions C09_sign_ops_env.
Print Assumptions C09_sign_ops_mb.
Print Assumptions C09_sign_ops_mb_refuted.
