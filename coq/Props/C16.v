(** C16 — parameter substitution is late, verbatim, single-pass and leaves inputs intact.
    Statements only; proofs in Proofs/SubstProofs.v and Proofs/SeqProofs.v.
    Model: Model/Subst.v [py_format] (str.format with keyword parameters on the template
    fragment layouts use), Model/Verify.v [substitute_parameters], Model/VerifySeq.v
    [verify_md_after] (the caller's object after a call, Python aliasing made explicit) and
    [verify_seq] (consecutive verifications of ONE loaded object). *)
From InToto.Model Require Import Base Json Strs Utf8 Canon Rule Glob Rules Expiry Subst Meta Verify VerifySeq.
From InToto.Proofs Require Import VerifySpec GateBase VerifyGate SubstProofs SeqProofs VerifyExample.

(* ------------------------------------------------------------------ *)
(** * The replacement itself *)

(** The character scanner of the model equals tokenise-then-render, for every template and every
    parameter list, error classes included.  [tok_out] never looks at the parameters, so a
    substituted value is never scanned again (single pass); [render] copies values verbatim.
    In particular the fuel of [py_format] never runs out. *)
Theorem C16_spec : forall ps s, py_format ps s = render ps (tok_out s).
Proof. exact py_format_spec. Qed.

(** the tokens: literal text, doubled braces, {name} *)
Theorem C16_spec_literal : forall s t, no_brace s = true -> tok_out (s ++ t) = map TChar s ++ tok_out t.
Proof. exact tok_out_literal. Qed.
Theorem C16_spec_open : forall t, tok_out (123 :: 123 :: t)%N = TChar 123 :: tok_out t.
Proof. exact tok_out_open. Qed.
Theorem C16_spec_close : forall t, tok_out (125 :: 125 :: t)%N = TChar 125 :: tok_out t.
Proof. exact tok_out_close. Qed.
Theorem C16_spec_hole : forall n t, plain_name n = true ->
  tok_out (123%N :: n ++ 125%N :: t) = THole n :: tok_out t.
Proof. exact tok_out_hole. Qed.

(** "{x}" with x ↦ v gives v — for EVERY v: braces, "{x}" itself, "{{" stay as they are *)
Theorem C16_verbatim : forall x v ps,
  plain_name x = true -> lookup x ps = Some v -> py_format ps (123%N :: x ++ [125%N]) = Ok v.
Proof. exact format_verbatim. Qed.

Theorem C16_in_context : forall pre x post v ps,
  no_brace pre = true -> no_brace post = true -> plain_name x = true -> lookup x ps = Some v ->
  py_format ps (pre ++ 123%N :: x ++ 125%N :: post) = Ok (pre ++ v ++ post).
Proof. exact format_in_context. Qed.

(** a placeholder without a value fails the call; it is never left in place *)
Theorem C16_missing_fails : forall ps s n,
  In (THole n) (tok_out s) -> lookup n ps = None -> exists e, py_format ps s = Err e.
Proof. exact format_missing_fails. Qed.

Theorem C16_missing_is_keyerror : forall ps pre n post,
  no_brace pre = true -> plain_name n = true -> lookup n ps = None ->
  py_format ps (pre ++ 123%N :: n ++ 125%N :: post) = Err EKeyError.
Proof. exact format_missing_keyerror. Qed.

(** parameter sets: a dict of non-empty [a-zA-Z0-9_-]+ names to strings, anything else FormatError *)
Theorem C16_params_wellformed : forall j ps,
  check_params j = Ok ps -> exists l, j = JDict l /\ Forall2 param_ok l ps.
Proof. exact check_params_Ok. Qed.

Theorem C16_bad_params_are_format_errors : forall j e, check_params j = Err e -> e = EFormat.
Proof. exact check_params_Err. Qed.

(** substitution reaches every rule token of every step and inspection, every expected-command
    element and every inspection-run element; nothing else changes *)
Theorem C16_everywhere : forall l params l',
  substitute_parameters l params = Ok l' ->
  exists ps, check_params params = Ok ps /\
    Forall2 (step_subst ps) (ly_steps l) (ly_steps l') /\
    Forall2 (insp_subst ps) (ly_inspect l) (ly_inspect l') /\
    ly_keys l' = ly_keys l /\ ly_expires l' = ly_expires l /\
    ly_expires_us l' = ly_expires_us l /\ ly_readme l' = ly_readme l.
Proof. exact substitute_everywhere. Qed.

Section C16.
  Variable b64dec : str -> option (list N).
  Variable loads : list N -> option json.
  Variable sig_ok : str -> list N -> str -> bool.
  Variable now_s : Z.
  Variable now_us : Z.

  Notation verify := (verify b64dec loads sig_ok now_s now_us).
  Notation verify_metadata_signatures := (verify_metadata_signatures sig_ok now_s).
  Notation gate := (gate sig_ok now_s now_us).
  Notation stage_pre := (stage_pre b64dec loads sig_ok now_s now_us).
  Notation md_after := (verify_md_after sig_ok now_s now_us).
  Notation verify_seq := (verify_seq b64dec loads sig_ok now_s now_us).

  (** Late.  The signature stage is evaluated on the caller's (unsubstituted) object and does not
      depend on the parameters; when it fails, the verdict is the same for every parameter set
      (well-formed or not) and nothing was executed; the layout that is substituted is the payload
      of the object whose signatures passed. *)
  Theorem C16_late_sig_failure : forall exec md keys e,
    verify_metadata_signatures md keys = Err e ->
    forall d ps name, verify exec d (mkArgs md keys ps name) = (Err e, []).
  Proof. exact (sig_failure_before_substitution b64dec loads sig_ok now_s now_us). Qed.

  Theorem C16_late : forall files a l vm,
    stage_pre files a = Ok (l, vm) ->
    exists l0, gate (a_md a) (a_keys a) = Ok l0 /\
               get_payload (a_md a) = Ok (PLayout l0) /\
               layout_for l0 (a_params a) = Ok l.
  Proof. exact (substitution_after_gate b64dec loads sig_ok now_s now_us). Qed.

  (** verification fails on a malformed parameter set and on a placeholder without value *)
  Theorem C16_bad_params_fail : forall exec a ps l0 e,
    gate (a_md a) (a_keys a) = Ok l0 -> a_params a = Some ps -> check_params ps = Err e ->
    forall d, verify exec d a = (Err EFormat, []).
  Proof. exact (bad_params_rejected b64dec loads sig_ok now_s now_us). Qed.

  Theorem C16_failed_substitution_fails : forall exec a ps l0 e,
    gate (a_md a) (a_keys a) = Ok l0 -> a_params a = Some ps -> substitute_parameters l0 ps = Err e ->
    forall d, verify exec d a = (Err e, []).
  Proof. exact (substitution_failure_rejected b64dec loads sig_ok now_s now_us). Qed.

  (** Inputs intact.  FULL STATEMENT (property text): for every call,
        [md_after a = a_md a]  (C16_no_mutation)
      and hence consecutive verifications of one object equal independent ones.
      It holds for DSSE metadata and whenever no substitution changes anything; it is FALSE for
      traditional metadata on a faithful model of the current code (finding D16,
      [C16_no_mutation_refuted] below). *)
  Theorem C16_no_mutation_dsse : forall a pb pt sigs parsed,
    a_md a = Envelope pb pt sigs parsed -> md_after a = a_md a.
  Proof. exact (md_after_envelope sig_ok now_s now_us). Qed.

  Theorem C16_no_mutation_without_params : forall a, a_params a = None -> md_after a = a_md a.
  Proof. exact (md_after_no_params sig_ok now_s now_us). Qed.

  (** the object changes only if signatures and expiry passed and substitution rewrote something *)
  Theorem C16_mutation_only_by_substitution : forall a,
    md_after a <> a_md a ->
    exists sigs l0 ps u,
      a_md a = Metablock sigs (PLayout l0) /\ a_params a = Some ps /\
      verify_metadata_signatures (a_md a) (a_keys a) = Ok u /\ (now_us < ly_expires_us l0)%Z /\
      md_after a = Metablock sigs (PLayout (layout_after l0 ps)) /\ layout_after l0 ps <> l0.
  Proof. exact (md_after_changed sig_ok now_s now_us). Qed.

  (** the modelled post-state agrees with the substitution result when substitution succeeds *)
  Theorem C16_after_is_substituted : forall l params l',
    substitute_parameters l params = Ok l' -> layout_after l params = l'.
  Proof. exact layout_after_Ok. Qed.

  (** repeatable: as long as no run changes the object, run k of a sequence is the independent
      verification of the original object with run k's parameters (and process oracle) *)
  Theorem C16_repeatable : forall d md keys sname runs,
    Forall (fun run => md_after (mkArgs md keys (snd run) sname) = md) runs ->
    verify_seq d md keys sname runs =
    map (fun run => (verify (fst run) d (mkArgs md keys (snd run) sname), md)) runs.
  Proof. exact (repeatable b64dec loads sig_ok now_s now_us). Qed.

  Theorem C16_repeatable_dsse : forall d pb pt sigs parsed keys sname runs,
    let md := Envelope pb pt sigs parsed in
    verify_seq d md keys sname runs =
    map (fun run => (verify (fst run) d (mkArgs md keys (snd run) sname), md)) runs.
  Proof. exact (repeatable_envelope b64dec loads sig_ok now_s now_us). Qed.
End C16.

(* ------------------------------------------------------------------ *)
(** * The refuted full statement (known finding D16) and non-vacuity *)
From Coq Require Import String.
Local Open Scope string_scope.

Definition ex_md_after (md : metadata) (ps : option json) : metadata :=
  verify_md_after ex_sig_ok 0%Z now0 (ex_args md keys1 ps).
Definition ex_seq (md : metadata) (pss : list (option json)) : list (option err) :=
  map (fun rm => err_of (fst rm))
      (verify_seq ex_b64 ex_loads ex_sig_ok 0%Z now0 link_dir md keys1 (JStr []) (map (fun p => (ex_exec_ok, p)) pss)).

(** traditional metadata: an accepted verification with parameters changes the caller's object,
    and the second verification of the same object fails its signature check *)
Theorem C16_no_mutation_refuted :
  exists b64dec loads sig_ok now_s now_us exec d a,
    (exists lk tr, verify b64dec loads sig_ok now_s now_us exec d a = (Ok lk, tr)) /\
    verify_md_after sig_ok now_s now_us a <> a_md a /\
    fst (verify b64dec loads sig_ok now_s now_us exec d
           (mkArgs (verify_md_after sig_ok now_s now_us a) (a_keys a) (a_params a) (a_step_name a)))
      = Err ESignature.
Proof.
  exists ex_b64, ex_loads, ex_sig_ok, 0%Z, now0, ex_exec_ok, link_dir, (ex_args root_md keys1 (Some params)).
  split; [|split].
  - vm_compute. eexists. eexists. reflexivity.
  - vm_compute. intro H. discriminate H.
  - vm_compute. reflexivity.
Qed.

(** the sequence view: traditional format accepts, then rejects; DSSE accepts every time;
    without parameters the traditional format is repeatable too *)
Example C16_ex_seq_metablock : ex_seq root_md [Some params; Some params; None] = [None; Some ESignature; Some ESignature].
Proof. vm_compute. reflexivity. Qed.
Example C16_ex_seq_dsse : ex_seq root_envelope [Some params; Some params; None] = [None; None; None].
Proof. vm_compute. reflexivity. Qed.
Example C16_ex_seq_no_params : ex_seq root_md [None; None] = [None; None].
Proof. vm_compute. reflexivity. Qed.

(** substitution result is visible in the executed command: verbatim, not expanded again *)
Example C16_ex_substituted_command :
  snd (run now0 ex_exec_ok link_dir (ex_args root_envelope keys1 (Some params))) = [cmd_echo "all"; cmd_true].
Proof. vm_compute. reflexivity. Qed.
Example C16_ex_braces_verbatim :
  snd (run now0 ex_exec_ok link_dir (ex_args root_envelope keys1 (Some params_braces))) = [cmd_echo "{T}{{"; cmd_true].
Proof. vm_compute. reflexivity. Qed.
(** missing value: KeyError (a crash of the verification), nothing runs; malformed set: FormatError *)
Example C16_ex_missing : run now0 ex_exec_ok link_dir (ex_args root_envelope keys1 (Some (jd []))) = (Err EKeyError, []).
Proof. vm_compute. reflexivity. Qed.
Example C16_ex_bad_params : run now0 ex_exec_ok link_dir (ex_args root_envelope keys1 (Some (jd [("T x", js "v")]))) = (Err EFormat, []).
Proof. vm_compute. reflexivity. Qed.
(** late: an unauthenticated layout is rejected by its signature whatever the parameters are *)
Example C16_ex_late : run now0 ex_exec_ok link_dir (ex_args edited_md keys1 (Some (jd [("T x", js "v")]))) = (Err ESignature, []).
Proof. vm_compute. reflexivity. Qed.
Example C16_ex_plain_name : plain_name (s "T") = true /\ plain_name (s "P-1") = true /\ plain_name (s "0") = false.
Proof. vm_compute. repeat split. Qed.

Print Assumptions C16_spec.
Print Assumptions C16_spec_literal.
Print Assumptions C16_spec_open.
Print Assumptions C16_spec_close.
Print Assumptions C16_spec_hole.
Print Assumptions C16_verbatim.
Print Assumptions C16_in_context.
Print Assumptions C16_missing_fails.
Print Assumptions C16_missing_is_keyerror.
Print Assumptions C16_params_wellformed.
Print Assumptions C16_bad_params_are_format_errors.
Print Assumptions C16_everywhere.
Print Assumptions C16_late_sig_failure.
Print Assumptions C16_late.
Print Assumptions C16_bad_params_fail.
Print Assumptions C16_failed_substitution_fails.
Print Assumptions C16_no_mutation_dsse.
Print Assumptions C16_no_mutation_without_params.
Print Assumptions C16_mutation_only_by_substitution.
Print Assumptions C16_after_is_substituted.
Print Assumptions C16_repeatable.
Print Assumptions C16_repeatable_dsse.
Print Assumptions C16_no_mutation_refuted.
