(** C08 — evidence is bound to its step: a link counts only for the step it names.
    Statements only.  Proofs: Proofs/VerifyThreshold.v.

    Sublayout metadata (payload of type layout) carry no step name and are exempt from the name
    check: their binding to the step is by file name <step>.<kid8>.link, by the functionary's key, and
    by the sub-directory <step>.<kid8> their own links are loaded from (C06). *)
From InToto.Model Require Import Base Json Strs Utf8 Canon Rule Glob Rules Expiry Subst Meta Verify.
From InToto.Proofs Require Import VerifySpec ThresholdSpec VerifyThreshold ThresholdExamples.

Section C08.
  Variable b64dec : str -> option (list N).
  Variable loads : list N -> option json.
  Variable sig_ok : str -> list N -> str -> bool.
  Variable now_s now_us : Z.
  Variable exec : list json -> exec_result.
  Notation vbody := (verify_body b64dec loads sig_ok now_s now_us exec).
  Notation vfy := (verify b64dec loads sig_ok now_s now_us exec).
  Notation accepted_run := (accepted_run b64dec loads sig_ok now_s now_us exec).

  (** MAIN: acceptance => every link in the verified set of a step carries that step's name in its
      signed content *)
  Theorem C08_bound : forall files recs missing a sum tr,
    vbody files recs missing a = (Ok sum, tr) ->
    exists l sm vm chain reduced,
      accepted_run files recs missing a sum tr l sm vm chain reduced /\
      Forall2 (fun s e => fst e = st_name s /\
                 forall kid md lk, In (kid, md) (snd e) -> get_payload md = Ok (PLink lk) ->
                                   l_name lk = JStr (st_name s)) (ly_steps l) vm.
  Proof. exact (name_bound b64dec loads sig_ok now_s now_us exec). Qed.

  Theorem C08_bound_verify : forall files subs a sum tr,
    vfy (Dir files subs) a = (Ok sum, tr) ->
    exists l sm vm chain reduced,
      accepted_run files (recs_of b64dec loads sig_ok now_s now_us exec subs)
                   (verify_in_missing_dir b64dec loads sig_ok now_s now_us exec) a sum tr l sm vm chain reduced /\
      Forall2 (fun s e => fst e = st_name s /\
                 forall kid md lk, In (kid, md) (snd e) -> get_payload md = Ok (PLink lk) ->
                                   l_name lk = JStr (st_name s)) (ly_steps l) vm.
  Proof.
    intros files subs a sum tr H. rewrite (verify_unfold b64dec loads sig_ok now_s now_us exec) in H.
    exact (C08_bound _ _ _ _ _ _ H).
  Qed.

  (** ... and so does every chain entry (what rules and the summary see) that came from a link file *)
  Theorem C08_bound_at_use : forall recs missing l s good kl,
    (forall kid md lk, In (kid, md) good -> get_payload md = Ok (PLink lk) -> l_name lk = JStr (st_name s)) ->
    Forall2 (chain_link_of recs missing l (st_name s)) good kl ->
    forall kid lk, In (kid, lk) kl ->
      l_name lk = JStr (st_name s) \/
      exists md sub, In (kid, md) good /\ get_payload md = Ok (PLayout sub).
  Proof. exact chain_name_bound. Qed.

  (** a link recorded for another step, under whatever file name and however validly signed, never
      satisfies the verified predicate of this step *)
  Theorem C08_replay_never_verified : forall l mk s kid md lk,
    get_payload md = Ok (PLink lk) -> l_name lk <> JStr (st_name s) ->
    link_ok sig_ok now_s l mk s (kid, md) = false.
  Proof. exact (replay_not_ok sig_ok now_s). Qed.
End C08.

(** example / regression for the repaired D8: the validly signed link of step s2 presented as
    s1.bb.link does not count for s1 *)
Example C08_ex_replayed : verdict (run [fA; fB_replayed] L2) = Some EThreshold /\ verdict (run [fA; fB] L2) = None.
Proof. split; [exact ex_replayed_not_counted|exact ex_accept2]. Qed.

(** regression witness: the stage as it was before the fix (no name comparison) counted the replayed
    link towards the threshold of s1 and handed it on; the repaired stage drops exactly that link *)
Theorem C08_legacy_refuted :
  exists used good kid md lk,
    verify_step_links_legacy x_sig_ok x_now_s L2 (main_keys_for_subkeys L2) st1 (loaded [fA; fB_replayed] L2 st1) [] []
      = Ok (used, good) /\
    length (dedup used) = 2 /\ In (kid, md) good /\ get_payload md = Ok (PLink lk) /\
    l_name lk <> JStr (st_name st1) /\
    (exists used', verify_step_links x_sig_ok x_now_s L2 (main_keys_for_subkeys L2) st1 (loaded [fA; fB_replayed] L2 st1) [] []
                   = Ok (used', filter (fun kv => eqs (fst kv) [97; 97]%N) good) /\ length (dedup used') = 1).
Proof. exact legacy_replay_refuted. Qed.

Print Assumptions C08_legacy_refuted.
Print Assumptions C08_bound.
Print Assumptions C08_bound_verify.
Print Assumptions C08_bound_at_use.
Print Assumptions C08_replay_never_verified.
