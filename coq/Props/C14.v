(** C14 — traditional (Metablock) and DSSE (Envelope) metadata are interchangeable.
    Statements only; proofs in Proofs/FormatEquiv.v (verification) and Proofs/FormatSig.v
    (containers).  The tools that only move payloads around (run, record, sign, match-products,
    the command lines) are covered by the correspondence check harness/c14.py, not by theorems. *)
From InToto.Model Require Import Base Json Strs Utf8 Canon Rule Glob Rules Expiry Subst Meta Verify.
From InToto.Proofs Require Import VerifySpec VerifyRec FormatEquiv FormatSig.
From Coq Require Import String Ascii.

Section C14.
  Variable b64dec : str -> option (list N).
  Variable loads : list N -> option json.
  Variable sig_ok : str -> list N -> str -> bool.
  Variable now_s : Z.
  Variable now_us : Z.
  Variable exec : list json -> exec_result.
  (** [K]: any class of keys containing every key the run can use (see [keys_in_K], [keyset_ok]) *)
  Variable K : json -> Prop.

  Local Notation vfy := (vfy b64dec loads sig_ok now_s now_us exec).
  Local Notation vsig := (verify_signature sig_ok now_s).
  Local Notation md_rel := (md_rel sig_ok now_s K).
  Local Notation mdo_rel := (mdo_rel sig_ok now_s K).
  Local Notation md_ok := (md_ok K).
  Local Notation keys_in_K := (keys_in_K K).
  Local Notation keyset_ok := (keyset_ok K).
  Local Notation dir_rel := (dir_rel b64dec loads sig_ok now_s K).
  Local Notation files_rel := (files_rel b64dec loads sig_ok now_s K).
  Local Notation file_rel := (file_rel b64dec loads sig_ok now_s K).
  Local Notation args_rel := (args_rel sig_ok now_s K).
  Local Notation fmt_equiv := (fmt_equiv sig_ok now_s).
  Local Notation sslib_valid := (sslib_valid sig_ok).
  Local Notation first_match_decides := (first_match_decides sig_ok).

  (** *** C14_verify_payload_only.
      [md_rel m m'] : equal [get_payload] results and equal [verify_signature] results for every key
      of the class [K].  [dir_rel d d'] : same sub-directory names; in every directory the same
      file names ([files_rel]: by name) and files that load to related metadata (or fail to load
      alike).  Side conditions ([md_ok], [keys_in_K]): the keys the run can use — the verifier's
      key dict and the keys of every layout in the tree — are in [K].
      Then in_toto_verify returns the same verdict, summary link and trace — at every depth,
      whatever mixture of formats each threshold and each sublayout sees. *)
  Theorem C14_verify_payload_only : forall d d' a a',
    dir_rel d d' -> args_rel a a' -> vfy d a = vfy d' a'.
  Proof. exact (verify_rel b64dec loads sig_ok now_s now_us exec K). Qed.

  (** the vocabulary, unfolded for the reader *)
  Theorem C14_md_rel_is : forall m m',
    md_rel m m' <-> (get_payload m = get_payload m' /\ forall key, K key -> vsig m key = vsig m' key).
  Proof. intros; reflexivity. Qed.
  Theorem C14_mdo_rel_is : forall m m',
    mdo_rel m m' <-> (md_rel m m' /\ forall ly, get_payload m = Ok (PLayout ly) -> keyset_ok (ly_keys ly)).
  Proof. intros; reflexivity. Qed.
  Theorem C14_keys_in_K_is : forall keys,
    keys_in_K keys <-> forall ks, check_public_keys keys = Ok ks -> Forall (fun kv => K (snd kv)) ks.
  Proof. intros; reflexivity. Qed.
  Theorem C14_keyset_ok_is : forall keys,
    keyset_ok keys <->
    forall l, ly_keys l = keys ->
      (forall s kid vk mainid,
         verification_key l (main_keys_for_subkeys l) s kid = Some (Ok (vk, mainid)) -> K vk) /\
      (forall kid, keys_in_K (JDict [(kid, match lookup kid (ly_keys l) with Some k => k | None => JNull end)])).
  Proof. intros; reflexivity. Qed.
  Theorem C14_args_rel_is : forall a a',
    args_rel a a' <-> (mdo_rel (a_md a) (a_md a') /\ keys_in_K (a_keys a) /\ a_keys a = a_keys a' /\
                       a_params a = a_params a' /\ a_step_name a = a_step_name a').
  Proof. intros; reflexivity. Qed.
  Theorem C14_files_rel_is : forall fs fs',
    files_rel fs fs' <->
    forall name, match lookup name fs, lookup name fs' with
                 | Some f, Some f' => file_rel f f'
                 | None, None => True
                 | _, _ => False
                 end.
  Proof. intros; reflexivity. Qed.
  Theorem C14_file_rel_is : forall f f',
    file_rel f f' <->
    match f, f' with
    | FMalformed, FMalformed => True
    | FJson j, FJson j' =>
        match from_dict b64dec loads j, from_dict b64dec loads j' with
        | Ok m, Ok m' => mdo_rel m m'
        | Err e, Err e' => e = e'
        | _, _ => False
        end
    | _, _ => False
    end.
  Proof. intros [|j] [|j']; reflexivity. Qed.

  (** the side conditions hold for key sets whose keys are in [K] and carry no subkeys *)
  Theorem C14_keyset_ok_sufficient : forall keys,
    Forall (fun kv => K (snd kv) /\ subkey_ids (snd kv) = []) keys -> keyset_ok keys.
  Proof. exact (keyset_ok_of_Forall K). Qed.
  Theorem C14_keys_in_K_sufficient : forall ks,
    Forall (fun kv => K (snd kv)) ks -> keys_in_K (JDict ks).
  Proof. exact (keys_in_K_of_Forall K). Qed.

  (** *** C14_envelope_roundtrip: an envelope built as in-toto builds it
      (payload bytes = json.dumps(attr.asdict(p)), json.loads inverts json.dumps) reads back as
      [read_payload (payload_asdict p)] ... *)
  Theorem C14_envelope_roundtrip : forall (dumps : json -> list N),
    (forall v, loads (dumps v) = Some v) ->
    forall p pt sigs,
      get_payload (Envelope (dumps (payload_asdict p)) pt sigs (loads (dumps (payload_asdict p)))) =
      read_payload (payload_asdict p).
  Proof. exact (envelope_roundtrip loads). Qed.

  (** ... and the loader is idempotent: asdict-then-read is the identity on every object a loader
      call can return (links and layouts with all their validators) ... *)
  Theorem C14_loader_idempotent : forall data p,
    read_payload data = Ok p -> read_payload (payload_asdict p) = Ok p.
  Proof. exact read_payload_idempotent. Qed.

  (** ... so both containers of a validated object hold the same payload; every Metablock that
      [from_dict] returns holds a validated object *)
  Theorem C14_same_payload : forall (dumps : json -> list N),
    (forall v, loads (dumps v) = Some v) ->
    forall p pt sigs sigs', validated p ->
      get_payload (Envelope (dumps (payload_asdict p)) pt sigs (loads (dumps (payload_asdict p)))) =
      get_payload (Metablock sigs' p).
  Proof. exact (envelope_of_validated loads). Qed.
  Theorem C14_loaded_metablock_validated : forall data sigs p,
    from_dict b64dec loads data = Ok (Metablock sigs p) -> validated p.
  Proof. exact (from_dict_metablock_validated b64dec loads). Qed.

  (** *** C14_sigcheck_equiv: for a plain securesystemslib key, the same signers in the same order,
      a consistent oracle (each signature valid for the message of its own format, or for neither),
      and the first signature matching the key deciding, both containers give the same
      [verify_signature] result. *)
  Theorem C14_sigcheck_equiv : forall key kid sigs p msg pb pt sigs' parsed,
    sslib_key key kid ->
    Forall sig_wf sigs -> signed_bytes_mb p = Ok msg ->
    Forall2 (fun s s' => kid_matches kid s = kid_matches kid s' /\
                         sslib_valid s key msg = sslib_valid s' key (pae (utf8 pt) pb)) sigs sigs' ->
    first_match_decides kid key msg sigs ->
    vsig (Metablock sigs p) key = vsig (Envelope pb pt sigs' parsed) key.
  Proof. exact (sigcheck_equiv sig_ok now_s). Qed.

  (** the exclusion holds when there is at most one signature per key id, or the first matching one is valid *)
  Theorem C14_at_most_one_signature : forall kid key msg sigs,
    (List.length (filter (kid_matches kid) sigs) <= 1)%nat -> first_match_decides kid key msg sigs.
  Proof. exact (at_most_one_decides sig_ok). Qed.
  Theorem C14_first_valid : forall kid key msg sigs s,
    find (kid_matches kid) sigs = Some s -> sslib_valid s key msg = true -> first_match_decides kid key msg sigs.
  Proof. exact (first_valid_decides sig_ok). Qed.
End C14.

(** *** "the same content in the other format", for the plain securesystemslib keys that non-gpg
    in-toto uses ([plain_key] = [sslib_key] for some key id): one validated payload, the same signers,
    a consistent oracle, outside D14a  =>  [fmt_equiv]  =>  related in the sense of
    C14_verify_payload_only with K := plain_key. *)
Section C14b.
  Variable sig_ok : str -> list N -> str -> bool.
  Variable now_s : Z.
  Local Notation vsig := (verify_signature sig_ok now_s).

  Theorem C14_fmt_equiv_is : forall sigs p pb pt sigs' parsed,
    fmt_equiv sig_ok now_s (Metablock sigs p) (Envelope pb pt sigs' parsed) <->
    (get_payload (Envelope pb pt sigs' parsed) = Ok p /\
     forall key, plain_key key -> vsig (Metablock sigs p) key = vsig (Envelope pb pt sigs' parsed) key).
  Proof. intros; reflexivity. Qed.

  Theorem C14_reformat_related : forall sigs p pb pt sigs' parsed msg,
    get_payload (Envelope pb pt sigs' parsed) = Ok p ->
    Forall sig_wf sigs -> signed_bytes_mb p = Ok msg ->
    (forall key kid, sslib_key key kid ->
       Forall2 (fun s s' => kid_matches kid s = kid_matches kid s' /\
                            sslib_valid sig_ok s key msg = sslib_valid sig_ok s' key (pae (utf8 pt) pb)) sigs sigs' /\
       first_match_decides sig_ok kid key msg sigs) ->
    fmt_equiv sig_ok now_s (Metablock sigs p) (Envelope pb pt sigs' parsed).
  Proof. exact (reformat_related sig_ok now_s). Qed.

  Theorem C14_other_format_related : forall md md',
    fmt_equiv sig_ok now_s md md' -> md_rel sig_ok now_s plain_key md md'.
  Proof. exact (fmt_equiv_md_rel sig_ok now_s). Qed.
End C14b.

(* ------------------------------------------------------------------ *)
(** * Examples and the refutation of the unrestricted statement (finding D14a).
    Toy oracles: base64 = identity, json.loads = the model's parser, a signature value is valid
    for a key iff it is the key's public token (traditional: as is; DSSE: its bytes in hex). *)
Module Ex.
  Fixpoint s2l (s : string) : list N :=
    match s with EmptyString => [] | String c r => N_of_ascii c :: s2l r end.
  Definition J (s : string) : json := match parse_json (s2l s) with Some j => j | None => JNull end.

  Definition sig_ok (pub : str) (msg : list N) (sval : str) : bool := eqs sval pub || eqs sval (bytes_to_hex pub).
  Definition b64 (s : str) : option (list N) := Some s.
  Definition exec (cmd : list json) : exec_result := ExDone (JInt 0) [] [].
  Definition now_us : Z := 1790424000000000.
  Definition V := VerifySpec.vfy b64 parse_json sig_ok 0 now_us exec.

  Definition key (id pub : string) : string :=
    ("{""keyid"":""" ++ id ++ """,""keytype"":""ed25519"",""scheme"":""ed25519"",""keyval"":{""public"":""" ++ pub ++ """}}")%string.
  Definition layout_body : string :=
    ("{""_type"":""layout"",""steps"":[{""_type"":""step"",""name"":""build"",""expected_materials"":[],""expected_products"":[[""ALLOW"",""foo""],[""DISALLOW"",""*""]],""pubkeys"":[""0b"",""0c""],""expected_command"":[],""threshold"":2}],""inspect"":[],""keys"":{""0b"":"
     ++ key "0b" "bb" ++ ",""0c"":" ++ key "0c" "cc" ++ "},""expires"":""2030-01-01T00:00:00Z"",""readme"":""""}")%string.
  Definition link_body : string :=
    "{""_type"":""link"",""name"":""build"",""materials"":{},""products"":{""foo"":{""sha256"":""cd""}},""byproducts"":{},""command"":[],""environment"":{}}".

  (** the two renderings of one content with one list of signatures *)
  Definition mb (body sigs : string) : json :=
    J ("{""signatures"":" ++ sigs ++ ",""signed"":" ++ body ++ "}").
  Definition dsse (body sigs : string) : json :=
    JDict [(S_payload, JStr (s2l body)); (S_payloadType, JStr S_envelope_payload_type); (S_signatures, J sigs)].

  Definition owner_keys : json := J ("{""0a"":" ++ key "0a" "aa" ++ "}").
  Definition one (kid v : string) : string := ("[{""keyid"":""" ++ kid ++ """,""sig"":""" ++ v ++ """}]")%string.
  Definition two (kid v1 v2 : string) : string :=
    ("[{""keyid"":""" ++ kid ++ """,""sig"":""" ++ v1 ++ """},{""keyid"":""" ++ kid ++ """,""sig"":""" ++ v2 ++ """}]")%string.

  Definition run (root : json) (files : list (str * file)) : res Rules.link * list ev :=
    match from_dict b64 parse_json root with
    | Ok md => V (Dir files []) (mkArgs md owner_keys None (JStr []))
    | Err e => (Err e, [])
    end.

  Definition files (fb fc : string -> string -> json) (sigs_c : string) : list (str * file) :=
    [(s2l "build.0b.link", FJson (fb link_body (one "0b" "bb")));
     (s2l "build.0c.link", FJson (fc link_body sigs_c))].

  Definition summary : Rules.link :=
    mkLink (JStr []) [] [(s2l "foo", J "{""sha256"":""cd""}")] (JDict []) (JList []) (JDict []).

  (** for the container-level witness *)
  Definition the_key : json := J (key "0c" "cc").
  Definition the_link : payload :=
    PLink (mkLink (JStr (s2l "build")) [] [(s2l "foo", J "{""sha256"":""cd""}")] (JDict []) (JList []) (JDict [])).
  Definition bad_good : list json := match J (two "0c" "00" "cc") with JList l => l | _ => [] end.
End Ex.

(** a threshold of two met by one traditional and one DSSE link, under a traditional or a DSSE
    layout: all four assignments accept with the same summary *)
Example C14_example_mixed_threshold :
  Ex.run (Ex.mb Ex.layout_body (Ex.one "0a" "aa")) (Ex.files Ex.mb Ex.mb (Ex.one "0c" "cc")) = (Ok Ex.summary, []) /\
  Ex.run (Ex.mb Ex.layout_body (Ex.one "0a" "aa")) (Ex.files Ex.mb Ex.dsse (Ex.one "0c" "cc")) = (Ok Ex.summary, []) /\
  Ex.run (Ex.dsse Ex.layout_body (Ex.one "0a" "aa")) (Ex.files Ex.dsse Ex.mb (Ex.one "0c" "cc")) = (Ok Ex.summary, []) /\
  Ex.run (Ex.dsse Ex.layout_body (Ex.one "0a" "aa")) (Ex.files Ex.dsse Ex.dsse (Ex.one "0c" "cc")) = (Ok Ex.summary, []).
Proof. vm_compute. repeat split; reflexivity. Qed.

(** ... and an invalid signature rejects alike *)
Example C14_example_mixed_threshold_bad :
  fst (Ex.run (Ex.mb Ex.layout_body (Ex.one "0a" "aa")) (Ex.files Ex.mb Ex.mb (Ex.one "0c" "00"))) = Err EThreshold /\
  fst (Ex.run (Ex.mb Ex.layout_body (Ex.one "0a" "aa")) (Ex.files Ex.mb Ex.dsse (Ex.one "0c" "00"))) = Err EThreshold.
Proof. vm_compute. split; reflexivity. Qed.

(** the hypotheses of C14_sigcheck_equiv are satisfiable: functionary 0c's single good signature,
    as it appears in a traditional file ("cc") and in a loaded envelope (hex of the raw bytes) *)
Example C14_example_sigcheck :
  let kid := Ex.s2l "0c" in
  let sigs := match Ex.J (Ex.one "0c" "cc") with JList l => l | _ => [] end in
  let sigs' := match Ex.J (Ex.one "0c" "6363") with JList l => l | _ => [] end in
  let pb := Ex.s2l Ex.link_body in
  exists msg,
    sslib_key Ex.the_key kid /\ Forall sig_wf sigs /\ signed_bytes_mb Ex.the_link = Ok msg /\
    Forall2 (fun s s' => kid_matches kid s = kid_matches kid s' /\
                         sslib_valid Ex.sig_ok s Ex.the_key msg =
                         sslib_valid Ex.sig_ok s' Ex.the_key (pae (utf8 S_envelope_payload_type) pb)) sigs sigs' /\
    (List.length (filter (kid_matches kid) sigs) <= 1)%nat /\
    verify_signature Ex.sig_ok 0 (Metablock sigs Ex.the_link) Ex.the_key = Ok tt /\
    verify_signature Ex.sig_ok 0 (Envelope pb S_envelope_payload_type sigs' (parse_json pb)) Ex.the_key = Ok tt.
Proof.
  cbv zeta. destruct (signed_bytes_mb Ex.the_link) as [msg|e] eqn:E; [|vm_compute in E; discriminate].
  exists msg. vm_compute in E. inversion E; subst msg.
  split; [vm_compute; auto|].
  split; [repeat constructor; try (eexists; vm_compute; reflexivity)|].
  split; [reflexivity|].
  split; [repeat constructor|].
  split; [vm_compute; auto|].
  split; vm_compute; reflexivity.
Qed.

(** the hypotheses of C14_verify_payload_only are satisfiable on a cross-format pair: the all-traditional
    and the mixed materialisation of the threshold example are [dir_rel]-related for
    K := the three keys of the example; the theorem (not computation) then equates the runs *)
Module ExRel.
  Definition ka := Eval vm_compute in Ex.J (Ex.key "0a" "aa").
  Definition kb := Eval vm_compute in Ex.J (Ex.key "0b" "bb").
  Definition kc := Eval vm_compute in Ex.J (Ex.key "0c" "cc").
  Definition K (key : json) : Prop := key = ka \/ key = kb \/ key = kc.
  Definition get_ok (r : res metadata) : metadata := match r with Ok m => m | Err _ => Envelope [] [] [] None end.
  Definition j_root := Eval vm_compute in Ex.mb Ex.layout_body (Ex.one "0a" "aa").
  Definition j_b := Eval vm_compute in Ex.mb Ex.link_body (Ex.one "0b" "bb").
  Definition j_c := Eval vm_compute in Ex.mb Ex.link_body (Ex.one "0c" "cc").
  Definition j_c' := Eval vm_compute in Ex.dsse Ex.link_body (Ex.one "0c" "cc").
  Definition m_root := Eval vm_compute in get_ok (from_dict Ex.b64 parse_json j_root).
  Definition m_b := Eval vm_compute in get_ok (from_dict Ex.b64 parse_json j_b).
  Definition m_c := Eval vm_compute in get_ok (from_dict Ex.b64 parse_json j_c).
  Definition m_c' := Eval vm_compute in get_ok (from_dict Ex.b64 parse_json j_c').
  Definition n_b := Eval vm_compute in Ex.s2l "build.0b.link".
  Definition n_c := Eval vm_compute in Ex.s2l "build.0c.link".
  Definition fs1 := [(n_b, FJson j_b); (n_c, FJson j_c)].
  Definition fs2 := [(n_b, FJson j_b); (n_c, FJson j_c')].
  Definition keys := Eval vm_compute in Ex.owner_keys.
  Definition a := mkArgs m_root keys None (JStr []).
End ExRel.

Example C14_ex_same_files :
  ExRel.fs1 = Ex.files Ex.mb Ex.mb (Ex.one "0c" "cc") /\ ExRel.fs2 = Ex.files Ex.mb Ex.dsse (Ex.one "0c" "cc") /\
  ExRel.j_root = Ex.mb Ex.layout_body (Ex.one "0a" "aa") /\ ExRel.keys = Ex.owner_keys.
Proof. vm_compute. repeat split; reflexivity. Qed.
Example C14_ex_load_root : from_dict Ex.b64 parse_json ExRel.j_root = Ok ExRel.m_root.
Proof. vm_compute. reflexivity. Qed.
Example C14_ex_load_b : from_dict Ex.b64 parse_json ExRel.j_b = Ok ExRel.m_b.
Proof. vm_compute. reflexivity. Qed.
Example C14_ex_load_c : from_dict Ex.b64 parse_json ExRel.j_c = Ok ExRel.m_c.
Proof. vm_compute. reflexivity. Qed.
Example C14_ex_load_c' : from_dict Ex.b64 parse_json ExRel.j_c' = Ok ExRel.m_c'.
Proof. vm_compute. reflexivity. Qed.
Example C14_ex_formats_differ :
  (exists s p, ExRel.m_c = Metablock s p) /\ (exists b t s p, ExRel.m_c' = Envelope b t s p).
Proof. split; repeat eexists. Qed.
Example C14_ex_c_related : md_rel Ex.sig_ok 0 ExRel.K ExRel.m_c ExRel.m_c'.
Proof.
  split; [vm_compute; reflexivity|].
  intros key [Hk|[Hk|Hk]]; rewrite Hk; vm_compute; reflexivity.
Qed.
Example C14_ex_links : (exists lk, get_payload ExRel.m_b = Ok (PLink lk)) /\ (exists lk, get_payload ExRel.m_c = Ok (PLink lk)).
Proof. split; eexists; vm_compute; reflexivity. Qed.
Example C14_ex_root_keys : exists ly, get_payload ExRel.m_root = Ok (PLayout ly) /\
  ly_keys ly = [(Ex.s2l "0b", ExRel.kb); (Ex.s2l "0c", ExRel.kc)] /\ ExRel.keys = JDict [(Ex.s2l "0a", ExRel.ka)] /\
  subkey_ids ExRel.kb = [] /\ subkey_ids ExRel.kc = [].
Proof. eexists. vm_compute. repeat split; reflexivity. Qed.

Example C14_example_related :
  dir_rel Ex.b64 parse_json Ex.sig_ok 0 ExRel.K (Dir ExRel.fs1 []) (Dir ExRel.fs2 []) /\
  args_rel Ex.sig_ok 0 ExRel.K ExRel.a ExRel.a /\
  Ex.V (Dir ExRel.fs1 []) ExRel.a = Ex.V (Dir ExRel.fs2 []) ExRel.a.
Proof.
  assert (Hlink : forall j j' m m',
            from_dict Ex.b64 parse_json j = Ok m -> from_dict Ex.b64 parse_json j' = Ok m' ->
            (exists lk, get_payload m = Ok (PLink lk)) ->
            md_rel Ex.sig_ok 0 ExRel.K m m' ->
            file_rel Ex.b64 parse_json Ex.sig_ok 0 ExRel.K (FJson j) (FJson j')).
  { intros j j' m m' H1 H2 [lk Hl] Hr. unfold file_rel. rewrite H1, H2. split; [exact Hr|].
    intros ly Hly. rewrite Hl in Hly. discriminate. }
  assert (Hd : dir_rel Ex.b64 parse_json Ex.sig_ok 0 ExRel.K (Dir ExRel.fs1 []) (Dir ExRel.fs2 [])).
  { constructor; [|constructor]. apply files_rel_Forall2. unfold ExRel.fs1, ExRel.fs2.
    constructor; [|constructor; [|constructor]]; (split; [reflexivity|]); unfold snd.
    - exact (Hlink _ _ _ _ C14_ex_load_b C14_ex_load_b (proj1 C14_ex_links) (md_rel_refl _ _ _ _)).
    - exact (Hlink _ _ _ _ C14_ex_load_c C14_ex_load_c' (proj2 C14_ex_links) C14_ex_c_related). }
  assert (Ha : args_rel Ex.sig_ok 0 ExRel.K ExRel.a ExRel.a).
  { destruct C14_ex_root_keys as [ly [Hly [Hkeys [Hvk [Hsb Hsc]]]]].
    unfold ExRel.a. split; [split; [apply md_rel_refl|]|].
    - intros ly' Hly'. unfold a_md in Hly'. rewrite Hly in Hly'. inversion Hly'; subst ly'. rewrite Hkeys.
      apply keyset_ok_of_Forall.
      constructor; [|constructor; [|constructor]]; unfold snd; (split; [|assumption]).
      + right; left; reflexivity.
      + right; right; reflexivity.
    - unfold a_keys, a_params, a_step_name. split; [|auto]. rewrite Hvk.
      apply keys_in_K_of_Forall. constructor; [left; reflexivity | constructor]. }
  split; [exact Hd|]. split; [exact Ha|].
  exact (C14_verify_payload_only Ex.b64 parse_json Ex.sig_ok 0 Ex.now_us Ex.exec ExRel.K _ _ _ _ Hd Ha).
Qed.

(** *** Finding D14a.  The statement of C14_sigcheck_equiv WITHOUT [first_match_decides] is false:
    signatures [bad, good] by one key — the traditional container checks only the first matching
    signature and rejects, the envelope accepts any matching valid one. *)
Theorem C14_first_vs_any_refuted :
  exists sig_ok now_s key kid sigs p msg pb pt sigs' parsed,
    sslib_key key kid /\ Forall sig_wf sigs /\ signed_bytes_mb p = Ok msg /\
    Forall2 (fun s s' => kid_matches kid s = kid_matches kid s' /\
                         sslib_valid sig_ok s key msg = sslib_valid sig_ok s' key (pae (utf8 pt) pb)) sigs sigs' /\
    verify_signature sig_ok now_s (Metablock sigs p) key = Err ESignature /\
    verify_signature sig_ok now_s (Envelope pb pt sigs' parsed) key = Ok tt.
Proof.
  exists Ex.sig_ok, 0%Z, Ex.the_key, (Ex.s2l "0c"), Ex.bad_good, Ex.the_link.
  destruct (signed_bytes_mb Ex.the_link) as [msg|e] eqn:E; [|vm_compute in E; discriminate].
  exists msg, (Ex.s2l Ex.link_body), S_envelope_payload_type, Ex.bad_good, (parse_json (Ex.s2l Ex.link_body)).
  split; [vm_compute; auto|].
  split; [repeat constructor; try (eexists; vm_compute; reflexivity)|].
  split; [reflexivity|].
  split; [repeat constructor|].
  split.
  - vm_compute in E. inversion E; subst msg. vm_compute. reflexivity.
  - vm_compute. reflexivity.
Qed.

(** ... and it reaches the verdict of in_toto_verify: the same supply chain, the same signers,
    accepted when functionary 0c's link is an envelope, rejected when it is traditional metadata *)
Theorem C14_verify_first_vs_any_refuted :
  Ex.run (Ex.mb Ex.layout_body (Ex.one "0a" "aa")) (Ex.files Ex.mb Ex.dsse (Ex.two "0c" "00" "cc")) = (Ok Ex.summary, []) /\
  fst (Ex.run (Ex.mb Ex.layout_body (Ex.one "0a" "aa")) (Ex.files Ex.mb Ex.mb (Ex.two "0c" "00" "cc"))) = Err EThreshold.
Proof. vm_compute. split; reflexivity. Qed.

Print Assumptions C14_verify_payload_only.
Print Assumptions C14_md_rel_is.
Print Assumptions C14_mdo_rel_is.
Print Assumptions C14_keys_in_K_is.
Print Assumptions C14_keyset_ok_is.
Print Assumptions C14_args_rel_is.
Print Assumptions C14_files_rel_is.
Print Assumptions C14_file_rel_is.
Print Assumptions C14_keyset_ok_sufficient.
Print Assumptions C14_keys_in_K_sufficient.
Print Assumptions C14_other_format_related.
Print Assumptions C14_reformat_related.
Print Assumptions C14_fmt_equiv_is.
Print Assumptions C14_envelope_roundtrip.
Print Assumptions C14_loader_idempotent.
Print Assumptions C14_same_payload.
Print Assumptions C14_loaded_metablock_validated.
Print Assumptions C14_sigcheck_equiv.
Print Assumptions C14_at_most_one_signature.
Print Assumptions C14_first_valid.
Print Assumptions C14_first_vs_any_refuted.
Print Assumptions C14_verify_first_vs_any_refuted.
