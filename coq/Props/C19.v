(** C19 — match-products reports exactly the differences between disk and link.
    [P] = the link's products, [A] = the freshly recorded local artifacts (recording itself: C10). *)
From InToto.Model Require Import Base Json Match.
From InToto.Proofs Require Import MatchProofs.

(** every name lands in exactly the right report *)
Theorem C19_partition : forall P A n,
  (In n (only_p (match_products P A)) <-> In n (keys P) /\ ~ In n (keys A)) /\
  (In n (notin_p (match_products P A)) <-> In n (keys A) /\ ~ In n (keys P)) /\
  (In n (differ_p (match_products P A)) <->
     exists x y, lookup n P = Some x /\ lookup n A = Some y /\ py_eqb x y = false).
Proof. exact partition_spec. Qed.

(** none in two reports *)
Theorem C19_disjoint : forall P A n,
  ~ (In n (only_p (match_products P A)) /\ In n (notin_p (match_products P A))) /\
  ~ (In n (only_p (match_products P A)) /\ In n (differ_p (match_products P A))) /\
  ~ (In n (notin_p (match_products P A)) /\ In n (differ_p (match_products P A))).
Proof. exact reports_disjoint. Qed.

(** all three empty iff the local tree is identical to the recorded products *)
Theorem C19_all_empty_iff_equal : forall P A,
  (only_p (match_products P A) = [] /\ notin_p (match_products P A) = [] /\ differ_p (match_products P A) = [])
  <-> same_artifacts P A.
Proof. exact all_empty_iff_equal. Qed.

Example C19_example :
  match_products [([97]%N, JStr [49]%N); ([98]%N, JStr [50]%N); ([99]%N, JStr [51]%N)]
                 [([98]%N, JStr [57]%N); ([99]%N, JStr [51]%N); ([100]%N, JStr [52]%N)]
  = ([[97]%N], [[100]%N], [[98]%N]).
Proof. reflexivity. Qed.

Print Assumptions C19_partition.
Print Assumptions C19_disjoint.
Print Assumptions C19_all_empty_iff_equal.
