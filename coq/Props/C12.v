(** C12 — two-phase recording keeps start-time materials and is crash safe.

    Property text: "Finishing a two-phase recording yields a signed link holding exactly the
    materials captured at start and the products present at stop, and does so only if the
    preliminary record exists, is unaltered and was signed by the same key; otherwise it fails and
    writes no final link.  The preliminary record is deleted only after the final link has been
    completely written, so at whatever point the process dies at least one of the two remains on
    disk and a retry can succeed."

    Model: Model/Record.v ([record_start], [record_stop]: result + ORDERED list of file-system
    operations; [apply_partial]: a crash = a prefix of that list, cut also inside the write;
    [apply_exc]: an I/O exception at an operation + Python's clean-up).  All oracles (signing,
    signature validity, JSON text layer, base64, gpg key export, clock) and the artifact records
    are universally quantified. *)
From InToto.Model Require Import Base Json Strs Utf8 Canon Glob Rules Meta Record.
From InToto.Proofs Require Import RecordFs RecordGlob RecordProofs RecordIso RecordResult RecordGuard.

Section C12.
  Variable sign : str -> list N -> res (list N).
  Variable gpg_sign : option str -> list N -> res json.
  Variable export_pubkey : str -> res json.
  Variable sig_ok : str -> list N -> str -> bool.
  Variable dumps : bool -> json -> list N.
  Variable loads : list N -> option json.
  Variable b64enc : list N -> str.
  Variable b64dec : str -> option (list N).
  Variable now_s : Z.

  Notation stop := (record_stop sign gpg_sign export_pubkey sig_ok dumps loads b64enc b64dec now_s).
  Notation start := (record_start sign gpg_sign dumps loads b64enc).
  Notation load := (load_link loads b64dec).
  Notation verify := (verify_signature sig_ok now_s).

  (* ---------------------------------------------------------------- *)
  (** ** C12_result — what a successful stop leaves.
      For every directory, every argument record (all four key-argument branches, both formats,
      optional metadata_directory / command / byproducts / environment) and every artifact record
      taken at stop: if stop returns normally then
      - the preliminary file existed, loads as metadata [mdpre] with link [lpre], and its signature
        verified under the finishing key BEFORE anything was written (the key the branch determines:
        the signer's / signing key's public key, the exported gpg bundle);
      - the final file is complete and holds, when loaded again, the metadata object that was signed
        ([w_md]) whose link is [finish_link lpre pr a]: name, materials (and whatever else start
        recorded) of the preliminary record, products = the record taken at stop, command /
        byproducts / environment replaced only if given;
      - in the preliminary file's format; the preliminary file is gone; no other file changed.
      Hypotheses: the text layer and base64 invert on what was written; gpg returns a signature
      dict; guards: optional arguments well-typed ([stop_args_wf], which the DSSE path of the code
      does NOT check — see C12_dsse_illtyped_args), recorded products are hash dicts. *)
  Theorem C12_result :
    (forall p j, loads (dumps p j) = Some j) -> (forall b, b64dec (b64enc b) = Some b) ->
    (forall kid m sj, gpg_sign kid m = Ok sj -> exists sh, check_signature sj = Ok sh) ->
    forall prods d a w ops,
    stop prods d a = (Ok w, ops) ->
    stop_args_wf a = true ->
    (forall pr, prods = Ok pr -> exists y, mapM (fun kv => check_hash_dict (snd kv)) pr = Ok y) ->
    exists st mdpre lpre pr vkey kid br,
      dget d (w_unfinished w) = Some st /\
      load (fbytes st) = Ok (mdpre, lpre) /\ prods = Ok pr /\
      stop_prepare d a = Ok (br, w_unfinished w) /\ stop_key export_pubkey br mdpre = Ok (vkey, kid) /\
      verify mdpre vkey = Ok tt /\
      w_final w = final_path a kid /\
      load (w_bytes w) = Ok (w_md w, finish_link lpre pr a) /\
      is_dsse (w_md w) = is_dsse mdpre /\
      dget (apply d ops) (w_final w) = Some (Complete (w_bytes w)) /\
      dget (apply d ops) (w_unfinished w) = None /\
      (forall g, g <> w_unfinished w -> g <> w_final w -> dget (apply d ops) g = dget d g).
  Proof. exact (stop_result sign gpg_sign export_pubkey sig_ok dumps loads b64enc b64dec now_s). Qed.

  (** the completed link: exactly the start-time fields and the stop-time products *)
  Theorem C12_result_fields : forall l pr a,
    let l' := finish_link l pr a in
    l_name l' = l_name l /\ l_materials l' = l_materials l /\ l_products l' = pr /\
    l_command l' = (if jtruthy (sa_command a) then sa_command a else l_command l) /\
    l_byproducts l' = (if jtruthy (sa_byproducts a) then sa_byproducts a else l_byproducts l) /\
    l_environment l' = (if jtruthy (sa_environment a) then sa_environment a else l_environment l).
  Proof. intros. repeat split. Qed.

  (** ... signed by the finishing key: with a signer / signing key argument the written object
      verifies under that key, given that a fresh signature is valid ([sig_ok k m (sign k m)]).
      PARTIAL for the two gpg branches: there the same conclusion additionally needs that gpg signs
      with a valid, unexpired key of the bundle [export_pubkey] returned; C12_result already says
      the object carries exactly the one signature gpg returned over the signed bytes of the
      completed link; the correspondence check verifies the real gpg signatures. *)
  Theorem C12_result_signed_partial :
    (forall tok m sb, sign tok m = Ok sb -> sig_ok tok m (bytes_to_hex sb) = true) ->
    (forall tok m sb, sign tok m = Ok sb -> hex_even (bytes_to_hex sb) = true) ->
    forall prods d a w ops br u k,
    stop prods d a = (Ok w, ops) -> stop_prepare d a = Ok (br, u) ->
    br = BSigner k \/ br = BSigningKey k -> check_public_key k = Ok KSslib ->
    verify (w_md w) k = Ok tt.
  Proof. exact (stop_result_verifies sign gpg_sign export_pubkey sig_ok dumps loads b64enc b64dec now_s). Qed.

  (* ---------------------------------------------------------------- *)
  (** ** C12_guard — otherwise it fails and writes nothing. *)

  (** every failure (whatever the cause: arguments, lookup, load, signature, recording, signing):
      the operation list consists of reads only — no open-for-writing, write or remove — and the
      directory is unchanged: no final link is written, the preliminary file is untouched *)
  Theorem C12_guard : forall prods d a e ops,
    stop prods d a = (Err e, ops) -> forallb is_read ops = true /\ apply d ops = d.
  Proof. exact (stop_err_no_write sign gpg_sign export_pubkey sig_ok dumps loads b64enc b64dec now_s). Qed.

  (** success implies that the preliminary file was present, parsed, and verified under the finishing key *)
  Theorem C12_guard_only_if : forall prods d a w ops,
    stop prods d a = (Ok w, ops) ->
    exists st data md vkey kid br,
      dget d (w_unfinished w) = Some st /\ loads (fbytes st) = Some data /\ from_dict b64dec loads data = Ok md /\
      stop_prepare d a = Ok (br, w_unfinished w) /\
      stop_key export_pubkey br md = Ok (vkey, kid) /\ verify md vkey = Ok tt.
  Proof. exact (stop_ok_verified sign gpg_sign export_pubkey sig_ok dumps loads b64enc b64dec now_s). Qed.

  (** preliminary file missing *)
  Theorem C12_guard_missing : forall prods d a br u,
    stop_prepare d a = Ok (br, u) -> dget d u = None -> stop prods d a = (Err EIOError, [Read u]).
  Proof. exact (stop_missing sign gpg_sign export_pubkey sig_ok dumps loads b64enc b64dec now_s). Qed.

  (** preliminary file not parsable (cut short, garbage) *)
  Theorem C12_guard_unparsable : forall prods d a br u st,
    stop_prepare d a = Ok (br, u) -> dget d u = Some st -> loads (fbytes st) = None ->
    stop prods d a = (Err EValueError, [Read u]).
  Proof. exact (stop_unparsable sign gpg_sign export_pubkey sig_ok dumps loads b64enc b64dec now_s). Qed.

  (** signature check of the preliminary record fails under the finishing key *)
  Theorem C12_guard_unverified : forall prods d a br u st data md,
    stop_prepare d a = Ok (br, u) -> dget d u = Some st -> loads (fbytes st) = Some data ->
    from_dict b64dec loads data = Ok md ->
    (forall vkey kid, stop_key export_pubkey br md = Ok (vkey, kid) -> verify md vkey <> Ok tt) ->
    exists e, stop prods d a = (Err e, [Read u]).
  Proof. exact (stop_unverified sign gpg_sign export_pubkey sig_ok dumps loads b64enc b64dec now_s). Qed.

  (** ... which is the case when the content was edited after signing, under ideal signatures
      (no valid signature exists for the bytes the edited content canonicalises to) ... *)
  Theorem C12_guard_edited : forall md key m,
    msg_of md = Ok m -> (forall t s, sig_ok t m s = false) -> verify md key <> Ok tt.
  Proof.
    intros md key m Hm Hideal H. destruct (verify_ok_sig sig_ok now_s md key H) as (m' & t & s & E & G).
    rewrite Hm in E. inversion E; subst m'. rewrite Hideal in G. discriminate.
  Qed.

  (** ... and when it was (re-)signed by another key only: no signature entry carries the finishing
      key's id or the id of one of its subkeys *)
  Theorem C12_guard_other_key : forall md key,
    (forall s k, In s (md_sigs md) -> jstr_of (jget S_keyid s) = Some k ->
                 jstr_of (jget S_keyid key) <> Some k /\ ~ In k (subkey_ids key)) ->
    verify md key <> Ok tt.
  Proof.
    intros md key Hno H. destruct (verify_ok_keyid sig_ok now_s md key H) as (s & k & I & K & [E|E]);
      destruct (Hno s k I K) as [N1 N2]; contradiction.
  Qed.

  (* ---------------------------------------------------------------- *)
  (** ** C12_order — the preliminary record is deleted only after the final link is complete.
      In every successful run every [Remove] is the LAST operation, removes the preliminary file,
      is preceded by the [Close] of the final link, after which that file is complete with all
      its bytes, and nothing before it removes anything. *)
  Theorem C12_order : forall prods d a w ops i g,
    stop prods d a = (Ok w, ops) -> nth_error ops i = Some (Remove g) ->
    g = w_unfinished w /\ S i = length ops /\
    exists c, c < i /\ nth_error ops c = Some (Close (w_final w)) /\
              dget (apply d (firstn (S c) ops)) (w_final w) = Some (Complete (w_bytes w)) /\
              forallb (fun o => match o with Remove _ => false | _ => true end) (firstn i ops) = true.
  Proof. exact (stop_order sign gpg_sign export_pubkey sig_ok dumps loads b64enc b64dec now_s). Qed.

  Theorem C12_ops : forall prods d a w ops,
    stop prods d a = (Ok w, ops) ->
    ops = [Read (w_unfinished w); OpenTrunc (w_final w); Write (w_final w) (w_bytes w); Close (w_final w);
           Remove (w_unfinished w)] /\ w_unfinished w <> w_final w.
  Proof.
    intros. split; [eapply stop_ok_ops | eapply stop_names_differ]; eassumption.
  Qed.

  (* ---------------------------------------------------------------- *)
  (** ** C12_crash_invariant — whenever the process dies.
      For EVERY cut point of the operation list ([k] whole operations, and [j] bytes of the write
      if the cut falls inside it) the directory satisfies: the preliminary record is exactly as it
      was, OR the final link is complete with the content C12_result describes. *)
  Theorem C12_crash_invariant : forall prods d a w ops k j,
    stop prods d a = (Ok w, ops) ->
    let dc := apply_partial d ops k j in
    dget dc (w_unfinished w) = dget d (w_unfinished w) \/ dget dc (w_final w) = Some (Complete (w_bytes w)).
  Proof. intros. eapply stop_crash_safe. eassumption. Qed.

  Theorem C12_crash_states : forall prods d a w ops,
    stop prods d a = (Ok w, ops) -> Forall (safe d w) (crash_states d ops).
  Proof. exact (crash_states_safe sign gpg_sign export_pubkey sig_ok dumps loads b64enc b64dec now_s). Qed.

  (** the same for an I/O exception raised by any operation (also after part of the write) *)
  Theorem C12_exception_invariant : forall prods d a w ops k j,
    stop prods d a = (Ok w, ops) ->
    let dc := apply_exc d ops k j in
    dget dc (w_unfinished w) = dget d (w_unfinished w) \/ dget dc (w_final w) = Some (Complete (w_bytes w)).
  Proof. intros. eapply stop_exc_safe. eassumption. Qed.

  (* ---------------------------------------------------------------- *)
  (** ** C12_retry — from every crash / exception state in which the preliminary record is still
      there, stop (same arguments, same tree) succeeds again with the same result and ends in the
      state of an undisturbed run, overwriting whatever partial final file the crash left. *)
  Theorem C12_retry : forall prods d a w ops dc,
    stop prods d a = (Ok w, ops) ->
    (exists k j, dc = apply_partial d ops k j \/ dc = apply_exc d ops k j) ->
    dget dc (w_unfinished w) = dget d (w_unfinished w) ->
    stop prods dc a = (Ok w, ops) /\
    dget (apply dc ops) (w_final w) = Some (Complete (w_bytes w)) /\
    dget (apply dc ops) (w_unfinished w) = None /\
    forall g, g <> w_unfinished w -> g <> w_final w -> dget (apply dc ops) g = dget d g.
  Proof. exact (stop_retry sign gpg_sign export_pubkey sig_ok dumps loads b64enc b64dec now_s). Qed.

  (** more generally: whatever occupies the place of the final link *)
  Theorem C12_retry_general : forall prods d a w ops dc,
    stop prods d a = (Ok w, ops) -> (forall g, g <> w_final w -> dget dc g = dget d g) ->
    stop prods dc a = (Ok w, ops).
  Proof. exact (stop_retry_general sign gpg_sign export_pubkey sig_ok dumps loads b64enc b64dec now_s). Qed.

  (* ---------------------------------------------------------------- *)
  (** ** C12_isolation — several (step, key) pairs in one directory.
      Every call is CONFINED to a set of names ([call_set]): it touches only names of the set and
      its behaviour depends only on them.  For a start: its preliminary file.  For a stop with a
      signer / signing key: its two files.  For a stop with a gpg argument (the record is looked up
      by step name): every name ".<step>.<dot-free>.link-unfinished" and its final link. *)
  Theorem C12_confined : forall c, confined (call_set sign gpg_sign dumps loads b64enc c)
                                            (call_of sign gpg_sign export_pubkey sig_ok dumps loads b64enc b64dec now_s c).
  Proof. exact (call_confined sign gpg_sign export_pubkey sig_ok dumps loads b64enc b64dec now_s). Qed.

  (** hence, for every schedule [cs] of complete start / stop calls and every set [S] of names such
      that the calls flagged [mine] stay inside [S] and all other calls stay outside: the files of
      [S] end up exactly as if the other calls had not run, and the flagged calls perform the same
      operations (hence return the same results). *)
  Theorem C12_isolation : forall (mine : rcall -> bool) (S : fname -> Prop) (cs : list rcall),
    (forall c, In c cs ->
       if mine c then (forall g, call_set sign gpg_sign dumps loads b64enc c g -> S g)
       else (forall g, call_set sign gpg_sign dumps loads b64enc c g -> ~ S g)) ->
    forall d d', agree S d d' ->
    let tagged := map (fun c => (mine c, call_of sign gpg_sign export_pubkey sig_ok dumps loads b64enc b64dec now_s c)) cs in
    agree S (fst (run_calls d tagged)) (fst (run_calls d' (filter fst tagged))) /\
    snd (run_calls d tagged) = snd (run_calls d' (filter fst tagged)).
  Proof. exact (isolation sign gpg_sign export_pubkey sig_ok dumps loads b64enc b64dec now_s). Qed.
End C12.

(** the exact side conditions under which the name sets of two pairs are disjoint:
    step names without path separator, key-id prefixes without '.' and '/' (hexadecimal ids), the
    same metadata directory, and
    - two key-argument pairs: distinct (step name, 8-character key-id prefix) — a step name
      extending another by a dot, or containing glob metacharacters, is fine;
    - a gpg stop against a key pair: distinct STEP NAMES (the gpg lookup goes by step name: a
      second preliminary record of the same step under any key makes it fail with "more than one"). *)
Theorem C12_disjoint_key_pairs : forall a a' k k' kid kid',
  sel a = Ok (BSigner k) \/ sel a = Ok (BSigningKey k) ->
  sel a' = Ok (BSigner k') \/ sel a' = Ok (BSigningKey k') ->
  key_id k = Ok kid -> key_id k' = Ok kid' ->
  sa_mdir a = sa_mdir a' -> plain_step (sa_step a) = true -> plain_step (sa_step a') = true ->
  plain_kid (kid8 kid) = true -> plain_kid (kid8 kid') = true ->
  (sa_step a, kid8 kid) <> (sa_step a', kid8 kid') ->
  forall g, stop_set a g -> ~ stop_set a' g.
Proof. exact key_pairs_disjoint. Qed.

Theorem C12_disjoint_gpg_pair : forall a a' k' kid' gb,
  sel a = Ok gb -> is_gpg_branch gb = true ->
  sel a' = Ok (BSigner k') \/ sel a' = Ok (BSigningKey k') -> key_id k' = Ok kid' ->
  sa_mdir a = sa_mdir a' -> plain_step (sa_step a) = true -> plain_step (sa_step a') = true ->
  plain_kid (kid8 kid') = true -> (forall kid, plain_kid (kid8 kid) = true) ->
  sa_step a <> sa_step a' ->
  forall g, stop_set a g -> ~ stop_set a' g.
Proof. exact gpg_pair_disjoint. Qed.

(** the lookup of the gpg branches accepts exactly ".<step>.<dot-free>.link-unfinished" — for EVERY
    step name without '/', glob metacharacters included (current code: glob.escape + dot filter) *)
Theorem C12_lookup_exact : forall d step, has_sep step = false ->
  exists l, glob_unfinished d step = Ok l /\
  forall x, In x l -> exists mid, x = 46%N :: step ++ 46%N :: mid ++ S_dot_link_unfinished /\ has_c 46 mid = false.
Proof.
  intros d step H. rewrite glob_unfinished_eq by assumption. eexists. split; [reflexivity|].
  intros x I. apply filter_In in I. apply unf_pred_shape. apply I.
Qed.

Print Assumptions C12_result.
Print Assumptions C12_result_fields.
Print Assumptions C12_result_signed_partial.
Print Assumptions C12_guard.
Print Assumptions C12_guard_only_if.
Print Assumptions C12_guard_missing.
Print Assumptions C12_guard_unparsable.
Print Assumptions C12_guard_unverified.
Print Assumptions C12_guard_edited.
Print Assumptions C12_guard_other_key.
Print Assumptions C12_order.
Print Assumptions C12_ops.
Print Assumptions C12_crash_invariant.
Print Assumptions C12_crash_states.
Print Assumptions C12_exception_invariant.
Print Assumptions C12_retry.
Print Assumptions C12_retry_general.
Print Assumptions C12_confined.
Print Assumptions C12_isolation.
Print Assumptions C12_disjoint_key_pairs.
Print Assumptions C12_disjoint_gpg_pair.
Print Assumptions C12_lookup_exact.

(* ------------------------------------------------------------------ *)
(** * Regression witnesses for the two repaired lookup defects, and non-vacuity *)

Definition n_bud_unf : str := [46;98;117;100;46;99;53;97;48;97;98;101;54;46;108;105;110;107;45;117;110;102;105;110;105;115;104;101;100]%N.          (* .bud.c5a0abe6.link-unfinished *)
Definition n_buildx_unf : str := [46;98;117;105;108;100;46;120;46;99;53;97;48;97;98;101;54;46;108;105;110;107;45;117;110;102;105;110;105;115;104;101;100]%N.    (* .build.x.c5a0abe6.link-unfinished *)
Definition s_bsd : str := [98;42;100]%N.              (* b*d *)
Definition s_bcd : str := [98;91;117;105;93;100]%N.              (* b[ui]d *)
Definition s_build : str := [98;117;105;108;100]%N.          (* build *)
Definition s_bud : str := [98;117;100]%N.              (* bud *)

(** D12b (fixed by glob.escape): with the unescaped pattern, stopping "b*d" or "b[ui]d" picked up
    the record of step "bud"; the current lookup does not, and finds "bud" for "bud" *)
Theorem C12_lookup_legacy_refuted :
  let d := [(n_bud_unf, Complete [])] in
  glob_unfinished_gen false true d s_bsd = Ok [n_bud_unf] /\
  glob_unfinished_gen false true d s_bcd = Ok [n_bud_unf] /\
  glob_unfinished d s_bsd = Ok [] /\ glob_unfinished d s_bcd = Ok [] /\ glob_unfinished d s_bud = Ok [n_bud_unf].
Proof. vm_compute. repeat split. Qed.

(** D12 (fixed by the dot filter): without it, stopping "build" picked up the record of "build.x" *)
Theorem C12_lookup_legacy0_refuted :
  let d := [(n_buildx_unf, Complete [])] in
  glob_unfinished_gen false false d s_build = Ok [n_buildx_unf] /\ glob_unfinished d s_build = Ok [].
Proof. vm_compute. repeat split. Qed.

Print Assumptions C12_lookup_legacy_refuted.
Print Assumptions C12_lookup_legacy0_refuted.

(** concrete oracles: signatures are the two bytes 1 2, valid for every key; the text layer is the
    printer / parser of Json.v; base64 is the identity *)
Definition x_sign (t : str) (m : list N) : res (list N) := Ok [1; 2]%N.
Definition x_gpg (k : option str) (m : list N) : res json := Err EUnmodelled.
Definition x_export (k : str) : res json := Err EUnmodelled.
Definition x_sig_ok (t : str) (m : list N) (s : str) : bool := eqs s (bytes_to_hex [1; 2]%N).
Definition x_dumps (p : bool) (j : json) : list N := print_json j.
Definition x_loads (b : list N) : option json := parse_json b.
Definition x_b64enc (b : list N) : str := b.
Definition x_b64dec (s : str) : option (list N) := Some s.

Definition x_key : json :=
  JDict [(S_keytype, JStr S_ed25519); (S_scheme, JStr S_ed25519); (S_keyid, JStr [101;48;101;48;101;48;101;48;97;97;98;98;99;99;100;100]%N);
         (S_keyval, JDict [(S_public, JStr [99;49;55;102]%N)])].
Definition x_mats : amap := [([102;111;111]%N, JDict [([115;104;97;50;53;54]%N, JStr [54;98;56;54]%N)])].
Definition x_prods : amap := [([102;111;111]%N, JDict [([115;104;97;50;53;54]%N, JStr [100;52;55;51]%N)]); ([98;97;114;47;98;97;122]%N, JDict [([115;104;97;50;53;54]%N, JStr [54;98;56;54]%N)])].
Definition x_start (dsse : bool) := mkStartArgs s_build (Some x_key) None None false dsse true.
Definition x_stop := mkStopArgs s_build (Some x_key) None None false None (JList [JStr s_bud]) JNull JNull.

Definition x_run (dsse : bool) :=
  let '(r1, ops1) := record_start x_sign x_gpg x_dumps x_loads x_b64enc (Ok x_mats) [47;119]%N (x_start dsse) in
  let d1 := apply [] ops1 in
  let '(r2, ops2) := record_stop x_sign x_gpg x_export x_sig_ok x_dumps x_loads x_b64enc x_b64dec 0%Z (Ok x_prods) d1 x_stop in
  (d1, r2, ops2, apply d1 ops2).

Definition is_ok {A} (r : res A) : bool := match r with Ok _ => true | Err _ => false end.
Definition all_reads (ops : list fsop) : bool := forallb is_read ops.

(** start then stop succeeds in both formats; the final link holds the start-time materials and the
    stop-time products, the given command, the environment start recorded; it verifies under the key;
    every one of the > 100 cut points is safe; the guards of the theorems hold on this input
    (all conjuncts as one boolean, evaluated by the kernel's VM) *)
Definition x_check (dsse : bool) : bool :=
  let '(d1, r2, ops2, d2) := x_run dsse in
  match r2 with
  | Err _ => false
  | Ok w =>
      Nat.eqb (length ops2) 5 && stop_args_wf x_stop &&
      (match dget d1 (w_unfinished w) with Some (Complete _) => true | _ => false end) &&
      (match dget d2 (w_unfinished w) with None => true | _ => false end) &&
      (match dget d2 (w_final w) with Some (Complete b) => eqs b (w_bytes w) | _ => false end) &&
      (match load_link x_loads x_b64dec (w_bytes w) with
       | Ok (md, l) =>
           Bool.eqb (is_dsse md) dsse &&
           json_eqb (JDict (l_materials l)) (JDict x_mats) && json_eqb (JDict (l_products l)) (JDict x_prods) &&
           json_eqb (l_name l) (JStr s_build) && json_eqb (l_command l) (JList [JStr s_bud]) &&
           negb (json_eqb (l_environment l) (JDict [])) &&
           is_ok (verify_signature x_sig_ok 0%Z md x_key)
       | Err _ => false
       end) &&
      Nat.ltb 100 (length (crash_states d1 ops2)) &&
      forallb (fun dc => match dget dc (w_unfinished w), dget dc (w_final w) with
                         | Some (Complete _), _ => true
                         | _, Some (Complete b) => eqs b (w_bytes w)
                         | _, _ => false end) (crash_states d1 ops2)
  end.

Example C12_nonvacuous : x_check false = true /\ x_check true = true.
Proof. vm_compute. split; reflexivity. Qed.

(** no preliminary record / signatures that verify nothing / a cut-short preliminary file:
    stop fails and its operation list holds reads only *)
Definition x_guard_check : bool :=
  let '(d1, _, _, _) := x_run false in
  let r0 := record_stop x_sign x_gpg x_export x_sig_ok x_dumps x_loads x_b64enc x_b64dec 0%Z (Ok x_prods) [] x_stop in
  let r1 := record_stop x_sign x_gpg x_export (fun _ _ _ => false) x_dumps x_loads x_b64enc x_b64dec 0%Z (Ok x_prods) d1 x_stop in
  let r2 := record_stop x_sign x_gpg x_export x_sig_ok x_dumps x_loads x_b64enc x_b64dec 0%Z (Ok x_prods)
              (map (fun e => (fst e, Complete (firstn 40 (fbytes (snd e))))) d1) x_stop in
  negb (is_ok (fst r0)) && all_reads (snd r0) && Nat.eqb (length (snd r0)) 1 &&
  negb (is_ok (fst r1)) && all_reads (snd r1) && Nat.eqb (length (snd r1)) 1 &&
  negb (is_ok (fst r2)) && all_reads (snd r2) && Nat.eqb (length (snd r2)) 1.

Example C12_guard_nonvacuous : x_guard_check = true.
Proof. vm_compute. reflexivity. Qed.

(** the DSSE path of the code does not validate ill-typed optional arguments: stop succeeds, writes a
    final "link" that no longer loads, and removes the preliminary record ([stop_args_wf] excludes
    this in C12_result; the traditional format raises FormatError before anything is written) *)
Definition x_illtyped_check : bool :=
  let bad := mkStopArgs s_build (Some x_key) None None false None (JStr s_bud) JNull JNull in
  let run := fun dsse =>
    let '(_, ops1) := record_start x_sign x_gpg x_dumps x_loads x_b64enc (Ok x_mats) [47;119]%N (x_start dsse) in
    record_stop x_sign x_gpg x_export x_sig_ok x_dumps x_loads x_b64enc x_b64dec 0%Z (Ok x_prods) (apply [] ops1) bad in
  negb (stop_args_wf bad) &&
  (match run false with (Err EFormat, [Read _]) => true | _ => false end) &&
  (match run true with
   | (Ok w, [_; _; _; _; Remove _]) => negb (is_ok (load_link x_loads x_b64dec (w_bytes w)))
   | _ => false end).

Example C12_dsse_illtyped_args : x_illtyped_check = true.
Proof. vm_compute. reflexivity. Qed.
