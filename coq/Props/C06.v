(** C06 — delegated steps (sublayouts) are verified completely and recursively.
    Statements only; vocabulary in Proofs/VerifySpec.v and Proofs/VerifyRec.v (definitions
    [sub_dir], [sub_args], [sub_call], [entry_ok], [step_ok], [entry_reached], [reaches],
    [local_failure], [deep_ok]); proofs in Proofs/VerifyRec.v.

    [vfy d a] is in_toto_verify(a.md, a.keys, link_dir_path = d, a.params, a.step_name) over a
    link directory tree [d] of ANY depth; oracles (base64, json.loads, signature validity, the two
    clocks, the execution of inspection commands) are section variables, every theorem holds for
    all of them. *)
From InToto.Model Require Import Base Json Strs Utf8 Canon Rule Glob Rules Expiry Subst Meta Verify.
From InToto.Proofs Require Import VerifySpec VerifyRec.
From Coq Require Import String Ascii.

Section C06.
  Variable b64dec : str -> option (list N).
  Variable loads : list N -> option json.
  Variable sig_ok : str -> list N -> str -> bool.
  Variable now_s : Z.
  Variable now_us : Z.
  Variable exec : list json -> exec_result.

  Local Notation vfy := (vfy b64dec loads sig_ok now_s now_us exec).
  Local Notation vbody := (vbody b64dec loads sig_ok now_s now_us exec).
  Local Notation recs_of := (recs_of b64dec loads sig_ok now_s now_us exec).
  Local Notation vmissing := (vmissing b64dec loads sig_ok now_s now_us exec).
  Local Notation vsig := (vsig sig_ok now_s).
  Local Notation stage_pre := (stage_pre b64dec loads sig_ok now_s now_us).
  Local Notation stage_final := (stage_final exec).
  Local Notation sub_call := (sub_call b64dec loads sig_ok now_s now_us exec).
  Local Notation entry_ok := (entry_ok b64dec loads sig_ok now_s now_us exec).
  Local Notation step_ok := (step_ok b64dec loads sig_ok now_s now_us exec).
  Local Notation entry_reached := (entry_reached b64dec loads sig_ok now_s now_us exec).
  Local Notation reaches := (reaches b64dec loads sig_ok now_s now_us exec).
  Local Notation local_failure := (local_failure b64dec loads sig_ok now_s now_us exec).
  Local Notation deep_ok := (deep_ok b64dec loads sig_ok now_s now_us).

  (** *** C06_recursive.
      If the verification of a layout against directory [Dir files subs] accepts, then with
      [(l, vm)] = the layout evaluated and the metadata that passed the step's signature/threshold
      check ([stage_pre], verifylib.py:1621-1627), the chain evaluated by threshold agreement,
      reduction and the rules is position by position ([Forall2], same steps, same file-name key
      ids, same order) related to [vm] by [entry_ok]:
        - a link metadata contributes its payload;
        - a layout metadata of step [s] under file-name key id [kid] contributes EXACTLY the summary
          returned by [sub_call] = [vfy] of that metadata with key dict {kid: l.keys.get(kid)},
          directory [s ++ "." ++ take 8 kid] of [subs] (the empty tree if there is none), no
          parameters, name [s] — and that call returned [Ok]. *)
  Theorem C06_recursive : forall files subs a summary tr,
    vfy (Dir files subs) a = (Ok summary, tr) ->
    exists l vm chain reduced,
      stage_pre files a = Ok (l, vm) /\
      Forall2 (step_ok subs l) vm chain /\
      verify_threshold_constraints l chain = Ok tt /\
      reduce_chain_links chain = Ok reduced /\
      verify_all_item_rules glob_match (step_items l) reduced = Ok tt /\
      get_summary_link l reduced (a_step_name a) = Ok summary.
  Proof. exact (verify_recursive b64dec loads sig_ok now_s now_us exec). Qed.

  (** the same, read pointwise *)
  Theorem C06_recursive_pointwise : forall files subs a summary tr,
    vfy (Dir files subs) a = (Ok summary, tr) ->
    exists l vm chain,
      stage_pre files a = Ok (l, vm) /\
      (exists reduced, stage_mid l chain = Ok reduced /\ get_summary_link l reduced (a_step_name a) = Ok summary) /\
      map fst chain = map fst vm /\
      forall s kms kid md ly, In (s, kms) vm -> In (kid, md) kms -> get_payload md = Ok (PLayout ly) ->
        exists sub_summary str kl,
          sub_call subs l s kid md = (Ok sub_summary, str) /\
          In (s, kl) chain /\ In (kid, sub_summary) kl /\ map fst kl = map fst kms.
  Proof. exact (verify_recursive_pointwise b64dec loads sig_ok now_s now_us exec). Qed.

  (** the recursive call is literally this (definition unfolded for the reader) *)
  Theorem C06_sub_call_is : forall subs l s kid md,
    sub_call subs l s kid md =
    vfy (match lookup (s ++ [46%N] ++ take 8 kid) subs with Some t => t | None => Dir [] [] end)
        (mkArgs md (JDict [(kid, match lookup kid (ly_keys l) with Some k => k | None => JNull end)])
                None (JStr s)).
  Proof. reflexivity. Qed.

  (** a sub-directory that does not exist behaves as the empty directory *)
  Theorem C06_missing_dir : forall a, vmissing a = vfy (Dir [] []) a.
  Proof. exact (vmissing_is_verify_empty b64dec loads sig_ok now_s now_us exec). Qed.

  (** *** C06_summary_shape.
      materials of the FIRST step's representative, products / byproducts / command of the LAST
      step's, the name handed down; an empty layout gives the empty link *)
  Theorem C06_summary_shape : forall l reduced name summary,
    get_summary_link l reduced name = Ok summary ->
    match ly_steps l with
    | [] => summary = empty_link
    | first :: _ =>
        exists f la,
          lookup (st_name first) reduced = Some f /\
          lookup (st_name (last (ly_steps l) first)) reduced = Some la /\
          summary = mkLink name (l_materials f) (l_products la) (l_byproducts la) (l_command la) (JDict [])
    end.
  Proof. exact summary_shape. Qed.

  (** the representative of a step is its first verified entry in load order (after sublayouts
      were replaced by their summaries) *)
  Theorem C06_representative : forall chain reduced,
    reduce_chain_links chain = Ok reduced ->
    Forall2 (fun c r => fst r = fst c /\ exists kid rest, snd c = (kid, snd r) :: rest) chain reduced.
  Proof. exact reduce_chain_links_spec. Qed.

  (** the summary of a sublayout carries the delegating step's name *)
  Theorem C06_summary_name : forall subs l s kid md summary str,
    sub_call subs l s kid md = (Ok summary, str) -> l_name summary = JStr s \/ summary = empty_link.
  Proof. exact (sub_summary_name b64dec loads sig_ok now_s now_us exec). Qed.

  (** what the parent receives as the delegating functionary's evidence: the sublayout is the
      metadata's own payload (no parameters reach it); the summary is the sublayout's FIRST step's
      representative's materials and its LAST step's representative's products (byproducts, command),
      the representatives having passed the sublayout's own threshold agreement *)
  Theorem C06_sub_summary_shape : forall subs l s kid md summary str,
    sub_call subs l s kid md = (Ok summary, str) ->
    exists ly chain reduced,
      get_payload md = Ok (PLayout ly) /\
      reduce_chain_links chain = Ok reduced /\
      verify_threshold_constraints ly chain = Ok tt /\
      match ly_steps ly with
      | [] => summary = empty_link
      | first :: _ =>
          exists f la,
            lookup (st_name first) reduced = Some f /\
            lookup (st_name (last (ly_steps ly) first)) reduced = Some la /\
            summary = mkLink (JStr s) (l_materials f) (l_products la) (l_byproducts la) (l_command la) (JDict [])
      end.
  Proof. exact (sub_summary_shape b64dec loads sig_ok now_s now_us exec). Qed.

  (** *** C06_failure_propagates.
      An [Err] returned by a recursive call that is reached (everything before it in load order
      went through) is the parent's result, with the events seen so far. *)
  Theorem C06_failure_propagates : forall files subs a l vm s kid md tr2 ly e str,
    stage_pre files a = Ok (l, vm) ->
    entry_reached subs l vm s kid md tr2 ->
    get_payload md = Ok (PLayout ly) ->
    sub_call subs l s kid md = (Err e, str) ->
    vfy (Dir files subs) a = (Err e, tr2 ++ str).
  Proof. exact (sub_failure_propagates b64dec loads sig_ok now_s now_us exec). Qed.

  (** ... at every depth: an error of any call reached from the root is the root's error *)
  Theorem C06_failure_propagates_deep : forall d a d' a' e,
    reaches d a d' a' -> fst (vfy d' a') = Err e -> fst (vfy d a) = Err e.
  Proof. exact (failure_propagates_deep b64dec loads sig_ok now_s now_us exec). Qed.

  (** ... and conversely every error of the root is the local failure (own signature / expiry /
      loading / thresholds / unreadable payload / agreement / rules / inspections) of a reached call *)
  Theorem C06_failure_origin : forall d a e,
    fst (vfy d a) = Err e -> exists d' a', reaches d a d' a' /\ local_failure d' a' e.
  Proof. exact (failure_origin b64dec loads sig_ok now_s now_us exec). Qed.

  (** *** C06_complete_verification.
      The recursive call is the same function as the root call: [vfy] of a tree is [verify_body]
      of its files with the verifiers of its sub-directories, for the root and for every
      sublayout alike; so every theorem about [vbody]/[vfy] (C01 gate, C02, C03, C05, C07, C08)
      applies verbatim to [sub_call]. *)
  Theorem C06_complete_verification : forall files subs,
    vfy (Dir files subs) = vbody files (recs_of subs) vmissing.
  Proof. exact (verify_unfold b64dec loads sig_ok now_s now_us exec). Qed.

  Theorem C06_sub_lookup : forall subs name a,
    match lookup name (recs_of subs) with Some f => f a | None => vmissing a end =
    vfy (sub_dir subs name) a.
  Proof. exact (sub_verifier_eq b64dec loads sig_ok now_s now_us exec). Qed.

  (** instance: what every accepted call (root or nested) has checked about its own layout *)
  Theorem C06_accept_gate : forall d a summary tr,
    vfy d a = (Ok summary, tr) ->
    exists ks ly,
      check_public_keys (a_keys a) = Ok ks /\ ks <> [] /\
      Forall (fun kv => vsig (a_md a) (snd kv) = Ok tt) ks /\
      get_payload (a_md a) = Ok (PLayout ly) /\
      check_expiry (ly_expires_us ly) now_us = Ok tt.
  Proof. exact (verify_accept_gate b64dec loads sig_ok now_s now_us exec). Qed.

  (** ... for a sublayout: signed by exactly the delegating functionary's key as the parent layout
      lists it (which must exist), a layout, not expired *)
  Theorem C06_sub_gate : forall subs l s kid md summary str,
    sub_call subs l s kid md = (Ok summary, str) ->
    exists key ly,
      lookup kid (ly_keys l) = Some key /\
      vsig md key = Ok tt /\
      get_payload md = Ok (PLayout ly) /\
      check_expiry (ly_expires_us ly) now_us = Ok tt.
  Proof. exact (sub_accept_gate b64dec loads sig_ok now_s now_us exec). Qed.

  (** *** C06_keys_and_dir.
      (directories) sibling directories do not matter: verdict, summary and trace are unchanged
      when [subs] is replaced by any [subs'] that agrees on the sub-directories of the verified
      sublayout metadata *)
  Theorem C06_keys_and_dir : forall files subs subs' a,
    (forall l vm s kms kid md ly,
       stage_pre files a = Ok (l, vm) -> In (s, kms) vm -> In (kid, md) kms ->
       get_payload md = Ok (PLayout ly) ->
       lookup (sublayout_dirname s kid) subs = lookup (sublayout_dirname s kid) subs') ->
    vfy (Dir files subs) a = vfy (Dir files subs') a.
  Proof. exact (verify_sibling_indep b64dec loads sig_ok now_s now_us exec). Qed.

  (** (keys, files) the recursive call depends on the parent only through the sub-directory, the
      metadata, the delegating key id, that key's entry in the parent layout and the step name:
      not on the parent's files, its other keys, the verifier's key store, the parameters *)
  Theorem C06_sub_call_only_depends : forall subs subs' l l' s kid md,
    lookup (sublayout_dirname s kid) subs = lookup (sublayout_dirname s kid) subs' ->
    lookup kid (ly_keys l) = lookup kid (ly_keys l') ->
    sub_call subs l s kid md = sub_call subs' l' s kid md.
  Proof. exact (sub_call_only_depends b64dec loads sig_ok now_s now_us exec). Qed.

  (** *** C06_depth.
      No depth bound: for EVERY tree, acceptance means that the whole tree of delegations was
      verified — [deep_ok] states C06_recursive hereditarily for every nested sublayout. *)
  Theorem C06_depth : forall d a summary tr, vfy d a = (Ok summary, tr) -> deep_ok d a summary.
  Proof. exact (verify_deep b64dec loads sig_ok now_s now_us exec). Qed.
End C06.

(* ------------------------------------------------------------------ *)
(** * Examples: a concrete two-level delegation, accepted, and three failing variants.
    Toy oracles: a signature value is valid for a key iff it equals the key's public token
    (whatever the message); base64 is the identity; json.loads is the model's parser. *)
Module Ex.
  Fixpoint s2l (s : string) : list N :=
    match s with EmptyString => [] | String c r => N_of_ascii c :: s2l r end.
  Definition J (s : string) : json := match parse_json (s2l s) with Some j => j | None => JNull end.

  Definition sig_ok (pub : str) (msg : list N) (sval : str) : bool := eqs sval pub.
  Definition b64 (s : str) : option (list N) := Some s.
  Definition exec (cmd : list json) : exec_result := ExDone (JInt 0) [] [].
  Definition now_us : Z := 1790424000000000.   (* 2026-09-26T12:00:00Z *)
  Definition V := VerifySpec.vfy b64 parse_json sig_ok 0 now_us exec.

  Definition key (id pub : string) : string :=
    ("{""keyid"":""" ++ id ++ """,""keytype"":""ed25519"",""scheme"":""ed25519"",""keyval"":{""public"":""" ++ pub ++ """}}")%string.

  (** root layout: one step "build", functionary 0b; signed by the owner 0a *)
  Definition root_layout : string :=
    ("{""signatures"":[{""keyid"":""0a"",""sig"":""aa""}],""signed"":{""_type"":""layout"",""steps"":[{""_type"":""step"",""name"":""build"",""expected_materials"":[],""expected_products"":[[""ALLOW"",""foo""],[""DISALLOW"",""*""]],""pubkeys"":[""0b""],""expected_command"":[],""threshold"":1}],""inspect"":[],""keys"":{""0b"":"
     ++ key "0b" "bb" ++ "},""expires"":""2030-01-01T00:00:00Z"",""readme"":""""}}")%string.
  (** functionary 0b delegates: a layout with steps "fetch", "compile" (functionary 0c), signed with [sigval] *)
  Definition sub_layout (sigkid sigval expires : string) : string :=
    ("{""signatures"":[{""keyid"":""" ++ sigkid ++ """,""sig"":""" ++ sigval ++ """}],""signed"":{""_type"":""layout"",""steps"":[{""_type"":""step"",""name"":""fetch"",""expected_materials"":[],""expected_products"":[[""ALLOW"",""*""]],""pubkeys"":[""0c""],""expected_command"":[],""threshold"":1},{""_type"":""step"",""name"":""compile"",""expected_materials"":[[""MATCH"",""*"",""WITH"",""PRODUCTS"",""FROM"",""fetch""],[""DISALLOW"",""*""]],""expected_products"":[[""ALLOW"",""*""]],""pubkeys"":[""0c""],""expected_command"":[],""threshold"":1}],""inspect"":[],""keys"":{""0c"":"
     ++ key "0c" "cc" ++ "},""expires"":""" ++ expires ++ """,""readme"":""""}}")%string.
  Definition linkf (name mats prods sigval : string) : string :=
    ("{""signatures"":[{""keyid"":""0c"",""sig"":""" ++ sigval ++ """}],""signed"":{""_type"":""link"",""name"":""" ++ name ++ """,""materials"":" ++ mats ++ ",""products"":" ++ prods ++ ",""byproducts"":{},""command"":[],""environment"":{}}}")%string.
  Definition src : string := "{""src"":{""sha256"":""ab""}}".
  Definition foo : string := "{""foo"":{""sha256"":""cd""}}".

  Definition owner_keys : json := J ("{""0a"":" ++ key "0a" "aa" ++ "}").
  Definition sub_links (sigval : string) : list (str * file) :=
    [(s2l "fetch.0c.link", FJson (J (linkf "fetch" "{}" src "cc")));
     (s2l "compile.0c.link", FJson (J (linkf "compile" src foo sigval)))].

  Definition tree (sub : string) (subdir : list (str * dirtree)) (extra : list (str * file)) : dirtree :=
    Dir ((s2l "build.0b.link", FJson (J sub)) :: extra) subdir.
  Definition good_sub := sub_layout "0b" "bb" "2030-01-01T00:00:00Z".

  Definition run (d : dirtree) : res Rules.link * list ev :=
    match from_dict b64 parse_json (J root_layout) with
    | Ok md => V d (mkArgs md owner_keys None (JStr []))
    | Err e => (Err e, [])
    end.

  Definition t_good := tree good_sub [(s2l "build.0b", Dir (sub_links "cc") [])] [].
  (** inner link "compile" carries an invalid signature *)
  Definition t_bad_inner_sig := tree good_sub [(s2l "build.0b", Dir (sub_links "00") [])] [].
  (** the sublayout is signed by another (authorised elsewhere) key, not by the functionary 0b *)
  Definition t_other_signer := tree (sub_layout "0c" "cc" "2030-01-01T00:00:00Z") [(s2l "build.0b", Dir (sub_links "cc") [])] [].
  (** the sublayout is expired *)
  Definition t_expired := tree (sub_layout "0b" "bb" "2020-01-01T00:00:00Z") [(s2l "build.0b", Dir (sub_links "cc") [])] [].
  (** the sub-links lie in the parent's directory *)
  Definition t_links_in_parent := tree good_sub [] (sub_links "cc").
  (** three levels: functionary 0c of the inner step "compile" delegates again *)
  Definition sub_sub_layout : string :=
    ("{""signatures"":[{""keyid"":""0c"",""sig"":""cc""}],""signed"":{""_type"":""layout"",""steps"":[{""_type"":""step"",""name"":""cc1"",""expected_materials"":[],""expected_products"":[],""pubkeys"":[""0c""],""expected_command"":[],""threshold"":1}],""inspect"":[],""keys"":{""0c"":"
     ++ key "0c" "cc" ++ "},""expires"":""2030-01-01T00:00:00Z"",""readme"":""""}}")%string.
  Definition t_three_levels (sigval : string) :=
    tree good_sub
      [(s2l "build.0b",
        Dir [(s2l "fetch.0c.link", FJson (J (linkf "fetch" "{}" src "cc")));
             (s2l "compile.0c.link", FJson (J sub_sub_layout))]
            [(s2l "compile.0c", Dir [(s2l "cc1.0c.link", FJson (J (linkf "cc1" src foo sigval)))] [])])] [].

  Definition expected_summary : Rules.link :=
    mkLink (JStr []) [] [(s2l "foo", J "{""sha256"":""cd""}")] (JDict []) (JList []) (JDict []).
End Ex.

(** accepted; the root summary has the sublayout's first step's materials (none) and its last
    step's products (foo) *)
Example C06_example_two_levels_accepted : Ex.run Ex.t_good = (Ok Ex.expected_summary, []).
Proof. vm_compute. reflexivity. Qed.

Example C06_example_three_levels_accepted :
  Ex.run (Ex.t_three_levels "cc") = (Ok Ex.expected_summary, []) /\ dir_depth (Ex.t_three_levels "cc") = 3%nat.
Proof. vm_compute. split; reflexivity. Qed.

(** a bad signature two / three levels down fails the root *)
Example C06_example_inner_link_bad : fst (Ex.run Ex.t_bad_inner_sig) = Err EThreshold.
Proof. vm_compute. reflexivity. Qed.
Example C06_example_innermost_link_bad : fst (Ex.run (Ex.t_three_levels "00")) = Err EThreshold.
Proof. vm_compute. reflexivity. Qed.

(** sublayout signed by another key: it does not even count as the functionary's evidence *)
Example C06_example_other_signer : fst (Ex.run Ex.t_other_signer) = Err EThreshold.
Proof. vm_compute. reflexivity. Qed.

Example C06_example_expired_sublayout : fst (Ex.run Ex.t_expired) = Err EExpired.
Proof. vm_compute. reflexivity. Qed.

Example C06_example_links_in_parent_dir : fst (Ex.run Ex.t_links_in_parent) = Err ELinkNotFound.
Proof. vm_compute. reflexivity. Qed.

Print Assumptions C06_recursive.
Print Assumptions C06_recursive_pointwise.
Print Assumptions C06_sub_call_is.
Print Assumptions C06_missing_dir.
Print Assumptions C06_summary_shape.
Print Assumptions C06_representative.
Print Assumptions C06_summary_name.
Print Assumptions C06_sub_summary_shape.
Print Assumptions C06_failure_propagates.
Print Assumptions C06_failure_propagates_deep.
Print Assumptions C06_failure_origin.
Print Assumptions C06_complete_verification.
Print Assumptions C06_sub_lookup.
Print Assumptions C06_accept_gate.
Print Assumptions C06_sub_gate.
Print Assumptions C06_keys_and_dir.
Print Assumptions C06_sub_call_only_depends.
Print Assumptions C06_depth.
