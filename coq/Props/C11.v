(** C11 — running a step records before/after state faithfully; honest chains verify.
    Recording (C10) and the child process are oracles over an abstract world: the theorems say WHEN each
    observation is taken and how the link is assembled from them.  The honest-chain half is stated on the rule
    evaluator: under the derived layouts every rule list passes for honestly recorded links
    (Proofs/ChainProofs.v); the remaining stages of an honest verification (signatures by the authorised
    functionaries, thresholds) are C01/C02's converse direction and are covered by the correspondence run
    (harness/c11.py runs every recorded chain through the real in_toto_verify and the model). *)
From InToto.Model Require Import Base Json Strs Rule Glob Rules Meta Run Match.
From InToto.Proofs Require Import RulesSpec MatchProofs ChainProofs RunProofs.

Section C11.
  Variable world : Type.
  Variable record_materials : world -> res amap.     (* record_artifacts_as_dict(material_list, options) *)
  Variable record_products : world -> res amap.      (* record_artifacts_as_dict(product_list, options) *)
  Variable exec : world -> list json -> exec_out world.

  (** materials are the state BEFORE the command started, products the state AFTER it ended, and the link
      records the command line, its exit status and (see below) its output *)
  Theorem C11_before_after : forall w name cmd o lk w',
    runnable cmd -> run_link world record_materials record_products exec w name cmd o = Ok (lk, w') ->
    exists rc out err,
      record_materials w = Ok (l_materials lk) /\
      exec w cmd = ExOk w' rc out err /\
      record_products w' = Ok (l_products lk) /\
      l_byproducts lk = byproducts_of o rc out err /\
      l_name lk = JStr name /\ l_command lk = JList cmd /\ l_environment lk = environment_of o.
  Proof. exact (run_with_command world record_materials record_products exec). Qed.

  (** a run without command records the same world twice and no byproducts *)
  Theorem C11_no_command : forall w name o lk w',
    run_link world record_materials record_products exec w name [] o = Ok (lk, w') ->
    w' = w /\ record_materials w = Ok (l_materials lk) /\ record_products w = Ok (l_products lk) /\
    l_byproducts lk = JDict [] /\ l_name lk = JStr name /\ l_command lk = JList [] /\
    l_environment lk = environment_of o.
  Proof. exact (run_without_command world record_materials record_products exec). Qed.

  (** output is recorded iff requested; the exit status always *)
  Theorem C11_streams : forall o rc out err,
    (ro_record_streams o = true ->
       byproducts_of o rc out err = JDict [(S_stdout, JStr out); (S_stderr_, JStr err); (S_return_value, JInt rc)]) /\
    (ro_record_streams o = false ->
       byproducts_of o rc out err = JDict [(S_stdout, JStr []); (S_stderr_, JStr []); (S_return_value, JInt rc)]).
  Proof. intros o rc out err. split; [apply streams_if_requested | apply streams_only_if_requested]. Qed.

  (** failing closed: a recording failure or a time-out yields no link *)
  Theorem C11_fails_closed : forall w name cmd o,
    (record_materials w = Err EPrefix ->
       run_link world record_materials record_products exec w name cmd o = Err EPrefix) /\
    (runnable cmd -> exec w cmd = ExTimedOut -> forall m, record_materials w = Ok m ->
       run_link world record_materials record_products exec w name cmd o = Err ETimeout).
  Proof. exact (run_fails_closed world record_materials record_products exec). Qed.
End C11.

(** the link file is named after the step and the first eight characters of the signature's key id *)
Theorem C11_file_name : forall name kid o,
  ro_metadata_dir o = None -> link_file_name name kid o = name ++ [46%N] ++ firstn 8 kid ++ S_dot_link.
Proof. exact link_file_name_plain. Qed.

(** honest chains, rule level: the product rules of the derived layouts
    [MATCH * WITH MATERIALS FROM self; CREATE *; MODIFY *; DISALLOW *] pass for EVERY link
    (each product is unchanged, created or modified) ... *)
Theorem C11_product_rules_pass : forall item ls self,
  lookup self ls = Some item ->
  (forall a hm hp, lookup a (l_materials item) = Some hm -> lookup a (l_products item) = Some hp ->
                   py_eqb hp hm = py_eqb hm hp) ->
  run_rules glob_match Products item ls (keys (l_products item)) (product_rules self) = Ok [].
Proof. exact product_rules_pass. Qed.

(** ... and the closed material rules pass whenever the next step started from exactly what the previous
    step left (materials of step i+1 = products of step i as maps) *)
Theorem C11_material_rules_pass : forall item ls prev pl,
  lookup prev ls = Some pl -> same_artifacts (l_materials item) (l_products pl) ->
  exists q, run_rules glob_match Materials item ls (keys (l_materials item))
                      (closed_rules Products prev (keys (l_products pl))) = Ok q.
Proof. exact closed_rules_pass. Qed.

(** non-vacuity: a concrete run whose command changes the world *)
Example C11_example :
  let rm := fun w : bool => Ok [([97%N], JDict [(k_create, JStr (if w then [50%N] else [49%N]))])] in
  exists lk, run_link bool rm rm (fun _ _ => ExOk true 0%Z [111%N] []) false [115%N] [JStr [120%N]]
                      (mkRunOpts true None None false) = Ok (lk, true) /\
             l_materials lk <> l_products lk.
Proof. eexists. split; [reflexivity|]. cbn. intro H. inversion H. Qed.

Print Assumptions C11_before_after.
Print Assumptions C11_no_command.
Print Assumptions C11_streams.
Print Assumptions C11_fails_closed.
Print Assumptions C11_file_name.
Print Assumptions C11_product_rules_pass.
Print Assumptions C11_material_rules_pass.
