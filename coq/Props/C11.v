(** C11 — running a step records before/after state faithfully; honest chains verify.
    Recording (C10) and the child process are oracles over an abstract world: the theorems say WHEN each
    observation is taken and how the link is assembled from them.  The honest-chain half is stated twice:
    on the rule evaluator (under the derived layouts every rule list passes for honestly recorded links,
    Proofs/ChainProofs.v) and END TO END on the executable model of in_toto_verify
    (C11_honest_verifies / C11_honest_verifies_inspection, Proofs/HonestChain.v): for a chain of ANY length,
    if the layout is authentic and fresh (C01's business, hypothesis H1), is the chain layout derived from the
    run (H2), holds the functionaries' keys (H3), every step's link file is in the directory, loads, names its
    step and carries the authorised functionary's valid signature (H4), and every step started from what the
    previous one left (H5, which is what C11_before_after says an honest run records), then verification
    accepts, runs nothing (resp. exactly the closing inspection), and returns the summary link with the first
    step's materials and the last step's products — whatever else is in the link directory or around it. *)
From InToto.Model Require Import Base Json Strs Utf8 Canon Rule Glob Rules Expiry Subst Meta Verify Run Match.
From InToto.Proofs Require Import RulesSpec MatchProofs ChainProofs RunProofs HonestChain.

Section C11.
  Variable world : Type.
  Variable record_materials : world -> res amap.     (* record_artifacts_as_dict(material_list, options) *)
  Variable record_products : world -> res amap.      (* record_artifacts_as_dict(product_list, options) *)
  Variable exec : world -> list json -> exec_out world.

  (** materials are the state BEFORE the command started, products the state AFTER it ended, and the link
      records the command line, its exit status and (see below) its output *)
  Theorem C11_before_after : forall w name cmd o lk w',
    runnable cmd -> run_link world record_materials record_products exec w name cmd o = Ok (lk, w') ->
    exists rc out err,
      record_materials w = Ok (l_materials lk) /\
      exec w cmd = ExOk w' rc out err /\
      record_products w' = Ok (l_products lk) /\
      l_byproducts lk = byproducts_of o rc out err /\
      l_name lk = JStr name /\ l_command lk = JList cmd /\ l_environment lk = environment_of o.
  Proof. exact (run_with_command world record_materials record_products exec). Qed.

  (** a run without command records the same world twice and no byproducts *)
  Theorem C11_no_command : forall w name o lk w',
    run_link world record_materials record_products exec w name [] o = Ok (lk, w') ->
    w' = w /\ record_materials w = Ok (l_materials lk) /\ record_products w = Ok (l_products lk) /\
    l_byproducts lk = JDict [] /\ l_name lk = JStr name /\ l_command lk = JList [] /\
    l_environment lk = environment_of o.
  Proof. exact (run_without_command world record_materials record_products exec). Qed.

  (** output is recorded iff requested; the exit status always *)
  Theorem C11_streams : forall o rc out err,
    (ro_record_streams o = true ->
       byproducts_of o rc out err = JDict [(S_stdout, JStr out); (S_stderr_, JStr err); (S_return_value, JInt rc)]) /\
    (ro_record_streams o = false ->
       byproducts_of o rc out err = JDict [(S_stdout, JStr []); (S_stderr_, JStr []); (S_return_value, JInt rc)]).
  Proof. intros o rc out err. split; [apply streams_if_requested | apply streams_only_if_requested]. Qed.

  (** failing closed: a recording failure or a time-out yields no link *)
  Theorem C11_fails_closed : forall w name cmd o,
    (record_materials w = Err EPrefix ->
       run_link world record_materials record_products exec w name cmd o = Err EPrefix) /\
    (runnable cmd -> exec w cmd = ExTimedOut -> forall m, record_materials w = Ok m ->
       run_link world record_materials record_products exec w name cmd o = Err ETimeout).
  Proof. exact (run_fails_closed world record_materials record_products exec). Qed.
End C11.

(** the link file is named after the step and the first eight characters of the signature's key id *)
Theorem C11_file_name : forall name kid o,
  ro_metadata_dir o = None -> link_file_name name kid o = name ++ [46%N] ++ firstn 8 kid ++ S_dot_link.
Proof. exact link_file_name_plain. Qed.

(** honest chains, rule level: the product rules of the derived layouts
    [MATCH * WITH MATERIALS FROM self; CREATE *; MODIFY *; DISALLOW *] pass for EVERY link
    (each product is unchanged, created or modified) ... *)
Theorem C11_product_rules_pass : forall item ls self,
  lookup self ls = Some item ->
  (forall a hm hp, lookup a (l_materials item) = Some hm -> lookup a (l_products item) = Some hp ->
                   py_eqb hp hm = py_eqb hm hp) ->
  run_rules glob_match Products item ls (keys (l_products item)) (product_rules self) = Ok [].
Proof. exact product_rules_pass. Qed.

(** ... and the closed material rules pass whenever the next step started from exactly what the previous
    step left (materials of step i+1 = products of step i as maps) *)
Theorem C11_material_rules_pass : forall item ls prev pl,
  lookup prev ls = Some pl -> same_artifacts (l_materials item) (l_products pl) ->
  exists q, run_rules glob_match Materials item ls (keys (l_materials item))
                      (closed_rules Products prev (keys (l_products pl))) = Ok q.
Proof. exact closed_rules_pass. Qed.

(** non-vacuity: a concrete run whose command changes the world *)
Example C11_example :
  let rm := fun w : bool => Ok [([97%N], JDict [(k_create, JStr (if w then [50%N] else [49%N]))])] in
  exists lk, run_link bool rm rm (fun _ _ => ExOk true 0%Z [111%N] []) false [115%N] [JStr [120%N]]
                      (mkRunOpts true None None false) = Ok (lk, true) /\
             l_materials lk <> l_products lk.
Proof. eexists. split; [reflexivity|]. cbn. intro H. inversion H. Qed.

(** * Honest chains verify, end to end (any number of steps)

    The honest scenario [honest b64dec loads sig_ok now_s now_us md keys files l h0 rest] (Proofs/HonestChain.v)
    is about the layout metadata [md], the verifier's key dict [keys], the files of the link directory, the
    layout [l] and the chain as it was carried out, [h0 :: rest], one [hstep] per step: the step entry of the
    layout, the functionary's key id and key, the link file as stored, its metadata object and link.  It says:
    (H1) [verify_metadata_signatures sig_ok now_s md keys = Ok tt], [get_payload md = Ok (PLayout l)],
         [check_expiry (ly_expires_us l) now_us = Ok tt];
    (H2) [ly_steps l = map h_step (h0 :: rest)], step names pairwise distinct, and for every step: [name_ok],
         [st_pubkeys = [h_kid]], [st_thr_raw = JInt 1], [st_ep = product_rules name];
         [st_em] of the first step is [[]] and of each later step [closed_rules Products prev_name req] for some
         [req] among the previous link's product names (the derived layouts use all of them);
    (H3) [lookup h_kid (ly_keys l) = Some h_key], the key's "keyid" field is [h_kid], it has no subkeys;
    (H4) [lookup (link_filename name h_kid) files = Some (FJson h_file)], [from_dict h_file = Ok h_md],
         [get_payload h_md = Ok (PLink h_link)], [verify_signature sig_ok now_s h_md h_key = Ok tt],
         [l_name h_link = JStr name];
    (H5) [same_artifacts (l_materials next) (l_products prev)] for consecutive links, and [own_sym]: [py_eqb]
         is symmetric on the hash records a link lists for one path as material and product (a theorem,
         C11_hash_records_symmetric, for records that are dicts of strings with each key listed once).
    [files] is any list containing the required entries under [lookup] (the first entry of a name counts, as
    for [load_file]); other entries, malformed ones included, and all sub-directories are irrelevant. *)
Section C11_honest.
  Variable b64dec : str -> option (list N).
  Variable loads : list N -> option json.
  Variable sig_ok : str -> list N -> str -> bool.
  Variable now_s : Z.
  Variable now_us : Z.
  Variable exec : list json -> exec_result.

  (** no inspections: accepted, nothing is executed *)
  Theorem C11_honest_verifies : forall md keys files subs l h0 rest,
    honest b64dec loads sig_ok now_s now_us md keys files l h0 rest -> ly_inspect l = [] ->
    let a := mkArgs md keys None (JStr []) in
    let summary := summary_of (JStr []) h0 rest in
    verify_body b64dec loads sig_ok now_s now_us exec files []
                (verify_in_missing_dir b64dec loads sig_ok now_s now_us exec) a = (Ok summary, []) /\
    verify b64dec loads sig_ok now_s now_us exec (Dir files subs) a = (Ok summary, []) /\
    l_materials summary = l_materials (h_link h0) /\
    l_products summary = l_products (h_link (last rest h0)).
  Proof. exact (honest_verifies b64dec loads sig_ok now_s now_us exec). Qed.

  (** one closing inspection [i] ([closing_inspection]: its name is not a step name, it has a command of
      strings, the command exits 0 in a directory whose recorded state equals the last step's products as
      maps, [in_em i = closed_rules Products last_name req], [in_ep i = []]): accepted, and exactly that
      command is executed *)
  Theorem C11_honest_verifies_inspection : forall md keys files subs l h0 rest i,
    honest b64dec loads sig_ok now_s now_us md keys files l h0 rest -> ly_inspect l = [i] ->
    closing_inspection exec i h0 rest ->
    let a := mkArgs md keys None (JStr []) in
    let summary := summary_of (JStr []) h0 rest in
    verify_body b64dec loads sig_ok now_s now_us exec files []
                (verify_in_missing_dir b64dec loads sig_ok now_s now_us exec) a = (Ok summary, [Exec (in_run i)]) /\
    verify b64dec loads sig_ok now_s now_us exec (Dir files subs) a = (Ok summary, [Exec (in_run i)]) /\
    l_materials summary = l_materials (h_link h0) /\
    l_products summary = l_products (h_link (last rest h0)).
  Proof. exact (honest_verifies_inspection b64dec loads sig_ok now_s now_us exec). Qed.
End C11_honest.

(** (H5) symmetry of Python equality on hash records, and hence [own_sym] for links holding such records *)
Theorem C11_hash_records_symmetric : forall a b, hash_record a -> hash_record b -> py_eqb a b = py_eqb b a.
Proof. exact py_eqb_sym_hash. Qed.
Theorem C11_hash_records_own_sym : forall lk,
  (forall a h, lookup a (l_materials lk) = Some h -> hash_record h) ->
  (forall a h, lookup a (l_products lk) = Some h -> hash_record h) -> own_sym lk.
Proof. exact hash_records_own_sym. Qed.

(** non-vacuity: a concrete two-step chain "s" (key aa) -> "t" (key bb) under a layout signed by cc, with a
    concrete signature oracle (a signature is valid iff its value equals the public key token), an unrelated
    malformed file in the directory, with and without the closing inspection *)
Module Ex.
  Definition sig_ok0 (pub : str) (msg : list N) (sval : str) : bool := eqs pub sval.
  Definition b64dec0 (_ : str) : option (list N) := None.
  Definition loads0 (_ : list N) : option json := None.
  Definition mkkey (kid pub : str) : json :=
    JDict [(S_keyid, JStr kid); (S_keytype, JStr S_ed25519); (S_scheme, JStr S_ed25519);
           (S_keyval, JDict [(S_public, JStr pub)])].
  Definition mksig (kid sval : str) : json := JDict [(S_keyid, JStr kid); (S_sig, JStr sval)].
  Definition k0 : str := [97;97]%N.   Definition p0 : str := [97;48]%N.     (* "aa", "a0" *)
  Definition k1 : str := [98;98]%N.   Definition p1 : str := [98;49]%N.     (* "bb", "b1" *)
  Definition ko : str := [99;99]%N.   Definition po : str := [99;50]%N.     (* "cc", "c2": the project owner *)
  Definition n0 : str := [115]%N.     Definition n1 : str := [116]%N.       (* steps "s", "t" *)
  Definition hrec (d : N) : json := JDict [([104]%N, JStr [48%N; d])].      (* {"h": "0<d>"} *)
  Definition f : str := [102]%N.      Definition g : str := [103]%N.
  Definition lk0 := mkLink (JStr n0) [] [(f, hrec 49)] (JDict []) (JList []) (JDict []).
  Definition lk1 := mkLink (JStr n1) [(f, hrec 49)] [(f, hrec 50); (g, hrec 51)] (JDict []) (JList []) (JDict []).
  Definition s0 := mkStep n0 [] (product_rules n0) [k0] [] (JInt 1).
  Definition s1 := mkStep n1 (closed_rules Products n0 (keys (l_products lk0))) (product_rules n1) [k1] [] (JInt 1).
  Definition lay (ins : list insp) :=
    mkLayout [s0; s1] ins [(k0, mkkey k0 p0); (k1, mkkey k1 p1)] [50]%N 10%Z [].
  Definition lmd (ins : list insp) := Metablock [mksig ko po] (PLayout (lay ins)).
  Definition vkeys := JDict [(ko, mkkey ko po)].
  Definition file_of (kid pub : str) (lk : link) : json :=
    JDict [(S_signatures, JList [mksig kid pub]); (S_signed, link_asdict lk)].
  Definition files : list (str * file) :=
    [([122]%N, FMalformed);                                                   (* an unrelated file *)
     ([115;46;97;97;46;108;105;110;107]%N, FJson (file_of k0 p0 lk0));        (* s.aa.link *)
     ([116;46;98;98;46;108;105;110;107]%N, FJson (file_of k1 p1 lk1))].       (* t.bb.link *)
  Definition h0 := mkH s0 k0 (mkkey k0 p0) (file_of k0 p0 lk0) (Metablock [mksig k0 p0] (PLink lk0)) lk0.
  Definition h1 := mkH s1 k1 (mkkey k1 p1) (file_of k1 p1 lk1) (Metablock [mksig k1 p1] (PLink lk1)) lk1.
  Definition final : insp :=
    mkInsp [105]%N (closed_rules Products n1 (keys (l_products lk1))) [] [JStr [120]%N].
  Definition exec0 (_ : list json) : exec_result := ExDone (JInt 0) [(g, hrec 51); (f, hrec 50)] [].

  Lemma example_honest : forall ins,
    verify_metadata_signatures sig_ok0 0 (lmd ins) vkeys = Ok tt ->
    honest b64dec0 loads0 sig_ok0 0 0 (lmd ins) vkeys files (lay ins) h0 [h1].
  Proof.
    intros ins Hsig. constructor.
    - exact Hsig.
    - reflexivity.
    - reflexivity.
    - reflexivity.
    - apply NoDup_cons; [intros [H|[]]; discriminate|]. apply NoDup_cons; [intros []|]. apply NoDup_nil.
    - intros h [<-|[<-|[]]]; (split; [|split; [|split]]).
      + repeat split.
      + repeat split.
      + repeat split; vm_compute; reflexivity.
      + intros a hm hp Em. discriminate.
      + repeat split.
      + repeat split.
      + repeat split; vm_compute; reflexivity.
      + intros a hm hp Em Ep. cbn [lookup h_link h1 lk1 l_materials l_products] in Em, Ep.
        destruct (eqs a f); [|discriminate]. inversion Em; inversion Ep; reflexivity.
    - reflexivity.
    - split; [|exact I]. split.
      + exists (keys (l_products lk0)). split; [auto | reflexivity].
      + intro n. cbn [lookup h_link h1 h0 lk0 lk1 l_materials l_products].
        destruct (eqs n f); [reflexivity | exact I].
  Qed.
End Ex.
Import Ex.

Example C11_honest_example :
  honest b64dec0 loads0 sig_ok0 0 0 (lmd []) vkeys files (lay []) h0 [h1] /\
  honest b64dec0 loads0 sig_ok0 0 0 (lmd [final]) vkeys files (lay [final]) h0 [h1].
Proof. split; apply example_honest; vm_compute; reflexivity. Qed.

Example C11_honest_example_inspection : closing_inspection exec0 final h0 [h1].
Proof.
  unfold closing_inspection. cbv zeta. split; [|split; [|split; [|split; [|split]]]].
  - cbn. intros [H|[H|[]]]; discriminate.
  - discriminate.
  - reflexivity.
  - exists (keys (l_products lk1)). split; [auto | reflexivity].
  - reflexivity.
  - eexists _, _. split; [reflexivity|]. intro n.
    cbn [lookup last h_link h1 lk1 l_products].
    destruct (eqs n g) eqn:Eg; destruct (eqs n f) eqn:Ef; try reflexivity; try exact I.
    apply eqs_eq in Eg. apply eqs_eq in Ef. subst n. discriminate.
Qed.

(** ... and evaluating the model on that input gives what the theorems say *)
Example C11_honest_example_runs :
  verify b64dec0 loads0 sig_ok0 0 0 exec0 (Dir files []) (mkArgs (lmd []) vkeys None (JStr [])) =
    (Ok (mkLink (JStr []) [] [(f, hrec 50); (g, hrec 51)] (JDict []) (JList []) (JDict [])), []) /\
  verify b64dec0 loads0 sig_ok0 0 0 exec0 (Dir files []) (mkArgs (lmd [final]) vkeys None (JStr [])) =
    (Ok (mkLink (JStr []) [] [(f, hrec 50); (g, hrec 51)] (JDict []) (JList []) (JDict [])), [Exec [JStr [120]%N]]).
Proof. split; vm_compute; reflexivity. Qed.

Print Assumptions C11_before_after.
Print Assumptions C11_no_command.
Print Assumptions C11_streams.
Print Assumptions C11_fails_closed.
Print Assumptions C11_file_name.
Print Assumptions C11_product_rules_pass.
Print Assumptions C11_material_rules_pass.
Print Assumptions C11_honest_verifies.
Print Assumptions C11_honest_verifies_inspection.
Print Assumptions C11_hash_records_symmetric.
Print Assumptions C11_hash_records_own_sym.
Print Assumptions C11_honest_example.
Print Assumptions C11_honest_example_inspection.
Print Assumptions C11_honest_example_runs.
