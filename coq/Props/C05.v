(** C05 — artifacts used for a step are attested identically by a threshold of signers.
    Statements only.  Vocabulary: Proofs/ThresholdSpec.v ([agrees], [wf_amap], [same_artifacts],
    [step_agreement], [accepted_run], [chain_link_of], [verified_file]); proofs: Proofs/VerifyAgreement.v.

    The code is STRICTER than the property: for a step with threshold > 1 every link of the verified
    set must agree with the first one (C05_dissent_rejects); it does not look for an agreeing
    sub-group of threshold size.  Hence acceptance implies that ALL verified links agree. *)
From Coq Require Import Permutation.
From InToto.Model Require Import Base Json Strs Utf8 Canon Rule Glob Rules Expiry Subst Meta Verify.
From InToto.Proofs Require Import VerifySpec ThresholdSpec VerifyThreshold VerifyAgreement ThresholdExamples.

(** Python's == on two artifact maps (what verify_threshold_constraints evaluates) is equality as
    maps: same paths, and per path the same algorithm -> digest record, whatever the storage order *)
Theorem C05_dict_equality_is_map_equality : forall a b, wf_amap a -> wf_amap b ->
  (amap_eqb a b = true <-> same_artifacts a b).
Proof. exact amap_eqb_spec. Qed.

Theorem C05_storage_order_irrelevant : forall a a' b, wf_amap a -> wf_amap a' -> wf_amap b -> Permutation a a' ->
  amap_eqb a b = amap_eqb a' b.
Proof. exact amap_eqb_perm. Qed.

(** verify_threshold_constraints is the per-step check [step_agreement] applied to the chain entry
    found under each step's name *)
Theorem C05_check_is_stepwise : forall l chain,
  verify_threshold_constraints l chain = (do _ <- mapM (step_check chain) (ly_steps l); Ok tt).
Proof. exact vtc_steps. Qed.

Section C05.
  Variable b64dec : str -> option (list N).
  Variable loads : list N -> option json.
  Variable sig_ok : str -> list N -> str -> bool.
  Variable now_s now_us : Z.
  Variable exec : list json -> exec_result.
  Notation vbody := (verify_body b64dec loads sig_ok now_s now_us exec).
  Notation vfy := (verify b64dec loads sig_ok now_s now_us exec).
  Notation accepted_run := (accepted_run b64dec loads sig_ok now_s now_us exec).
  Notation verified_file := (verified_file b64dec loads sig_ok now_s).

  (** what every consumer sees for step [s]: the verified set [good] found under the step's name,
      its chain entry [kl] (each link file contributes its payload, each sublayout file the summary of
      its own accepted verification - [chain_link_of]), and the representative [ref] = first of [kl],
      which is what [accepted_run]'s step rules, inspection rules and summary link look up *)
  Theorem C05_step_view_means : forall recs missing l vm chain reduced s good kl ref,
    step_view recs missing l vm chain reduced s good kl ref <->
    lookup (st_name s) vm = Some good /\
    lookup (st_name s) chain = Some kl /\
    Forall2 (chain_link_of recs missing l (st_name s)) good kl /\
    (exists k0 rest, kl = (k0, ref) :: rest) /\
    lookup (st_name s) reduced = Some ref.
  Proof. intros. reflexivity. Qed.

  (** MAIN: acceptance => for every step the representative is the first member of the verified set
      (after sublayout summarisation), and when threshold > 1 ALL members - at least threshold of them -
      report materials and products equal to the representative's *)
  Theorem C05_agreement : forall files recs missing a sum tr,
    vbody files recs missing a = (Ok sum, tr) ->
    exists l sm vm chain reduced,
      accepted_run files recs missing a sum tr l sm vm chain reduced /\
      forall s, In s (ly_steps l) ->
        exists good kl ref, step_view recs missing l vm chain reduced s good kl ref /\
          ((1 < st_threshold s)%Z ->
           (st_threshold s <= Z.of_nat (length kl))%Z /\ forall k lk, In (k, lk) kl -> agrees ref lk = true).
  Proof. exact (run_agreement b64dec loads sig_ok now_s now_us exec). Qed.

  Theorem C05_agreement_verify : forall files subs a sum tr,
    vfy (Dir files subs) a = (Ok sum, tr) ->
    exists l sm vm chain reduced,
      accepted_run files (recs_of b64dec loads sig_ok now_s now_us exec subs)
                   (verify_in_missing_dir b64dec loads sig_ok now_s now_us exec) a sum tr l sm vm chain reduced /\
      forall s, In s (ly_steps l) ->
        exists good kl ref,
          step_view (recs_of b64dec loads sig_ok now_s now_us exec subs)
                    (verify_in_missing_dir b64dec loads sig_ok now_s now_us exec) l vm chain reduced s good kl ref /\
          ((1 < st_threshold s)%Z ->
           (st_threshold s <= Z.of_nat (length kl))%Z /\ forall k lk, In (k, lk) kl -> agrees ref lk = true).
  Proof.
    intros files subs a sum tr H. rewrite (verify_unfold b64dec loads sig_ok now_s now_us exec) in H.
    exact (C05_agreement _ _ _ _ _ _ H).
  Qed.

  (** with C02: at least threshold DISTINCT functionaries each supplied a verified file whose
      artifacts equal those of the representative that every rule evaluates *)
  Theorem C05_attested_by_threshold : forall files recs missing a sum tr,
    vbody files recs missing a = (Ok sum, tr) ->
    exists l sm vm chain reduced,
      accepted_run files recs missing a sum tr l sm vm chain reduced /\
      (NoDup (map st_name (ly_steps l)) ->
       forall s, In s (ly_steps l) -> (1 < st_threshold s)%Z ->
       exists ref F, lookup (st_name s) reduced = Some ref /\ NoDup F /\ (st_threshold s <= Z.of_nat (length F))%Z /\
         forall f, In f F -> exists kid md lk,
           verified_file files l s kid md f /\ chain_link_of recs missing l (st_name s) (kid, md) (kid, lk) /\
           agrees ref lk = true).
  Proof. exact (run_attested b64dec loads sig_ok now_s now_us exec). Qed.

  (** any disagreement among the verified links of a threshold>1 step: ThresholdVerificationError *)
  Theorem C05_dissent_rejects : forall files recs missing a l vm chain tr1,
    stage_pre b64dec loads sig_ok now_s now_us files a = Ok (l, vm) ->
    subs_steps recs missing l vm [] = (Ok chain, tr1) ->
    forall s k0 ref rest k lk, In s (ly_steps l) -> (1 < st_threshold s)%Z ->
      lookup (st_name s) chain = Some ((k0, ref) :: rest) -> In (k, lk) ((k0, ref) :: rest) ->
      agrees ref lk = false ->
      vbody files recs missing a = (Err EThreshold, tr1).
  Proof. exact (run_dissent_rejects b64dec loads sig_ok now_s now_us exec). Qed.

  (** threshold <= 1: the representative is the (summary of the) FIRST verified file in load order,
      and nothing is compared *)
  Theorem C05_threshold_one : forall files recs missing a sum tr,
    vbody files recs missing a = (Ok sum, tr) ->
    exists l sm vm chain reduced,
      accepted_run files recs missing a sum tr l sm vm chain reduced /\
      forall s, In s (ly_steps l) ->
        exists good kl ref kid md rest, step_view recs missing l vm chain reduced s good kl ref /\
          good = (kid, md) :: rest /\ chain_link_of recs missing l (st_name s) (kid, md) (kid, ref).
  Proof. exact (run_threshold_one b64dec loads sig_ok now_s now_us exec). Qed.
End C05.

Theorem C05_threshold_one_no_comparison : forall s kl, (st_threshold s <= 1)%Z -> step_agreement s kl = Ok tt.
Proof. exact step_agreement_thr1. Qed.

(** the verdict does not depend on where in load order a dissenting link sits: the code compares
    with the first link only, but on well-formed artifact maps that comparison is an equivalence *)
Theorem C05_position_independent_step : forall s kl kl',
  Forall (fun kv => wf_link (snd kv)) kl -> Permutation kl kl' -> step_agreement s kl = step_agreement s kl'.
Proof. exact step_agreement_perm. Qed.

Theorem C05_position_independent : forall l chain chain',
  Forall2 (fun c c' => fst c = fst c' /\ Permutation (snd c) (snd c')) chain chain' ->
  Forall (fun c => Forall (fun kv => wf_link (snd kv)) (snd c)) chain ->
  verify_threshold_constraints l chain = verify_threshold_constraints l chain'.
Proof. exact vtc_perm. Qed.

(** examples (kernel-evaluated): two agreeing signers accepted; a dissenter rejected whether it is
    loaded last or first; threshold 1 takes the first verified link; well-formed links exist *)
Example C05_ex_accept : verdict (run [fA; fB] L2) = None.
Proof. exact ex_accept2. Qed.
Example C05_ex_dissent_last : verdict (run [fA; fB_dissent] L2) = Some EThreshold.
Proof. exact ex_dissent_rejected. Qed.
Example C05_ex_dissent_first : verdict (run [fB_dissent; fA] L2) = Some EThreshold.
Proof. exact ex_dissent_first_rejected. Qed.
Example C05_ex_thr1_first : products_of (run [fB_dissent; fA] L1) = Some P1.
Proof. exact ex_thr1_first. Qed.
Example C05_ex_thr1_invalid_first_skipped : products_of (run [fA_badsig; fB_dissent] L1) = Some P2.
Proof. exact ex_thr1_invalid_first_skipped. Qed.
Example C05_ex_wf : wf_link (mkLink (JStr [115; 49]%N) [] P1 (JDict []) (JList []) (JDict [])).
Proof. exact ex_wf_link. Qed.

Print Assumptions C05_dict_equality_is_map_equality.
Print Assumptions C05_storage_order_irrelevant.
Print Assumptions C05_check_is_stepwise.
Print Assumptions C05_step_view_means.
Print Assumptions C05_agreement.
Print Assumptions C05_agreement_verify.
Print Assumptions C05_attested_by_threshold.
Print Assumptions C05_dissent_rejects.
Print Assumptions C05_threshold_one.
Print Assumptions C05_threshold_one_no_comparison.
Print Assumptions C05_position_independent_step.
Print Assumptions C05_position_independent.
