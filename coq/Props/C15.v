(** C15 — library calls leave working directory, settings and temp space unchanged.

    "When any in-toto library call returns or raises, the process's working directory and
    in-toto's global settings are what they were before the call, and no temporary file it
    created remains. This holds on every failure path [...] as well as on success."

    Decided on effect skeletons (Model/Skel.v) regenerated from /repo on every run: the theorems
    below hold for EVERY skeleton s that passes the computable checker; Tie/C15.v evaluates the
    checkers on today's skeletons of FileResolver/OSTreeResolver.hash_artifacts,
    run_all_inspections, _subprocess_run_duplicate_streams and their callers.

    Reading: [exec rho s t o] = one run of s (every call may return or raise, loops run any
    number of times, conditions go either way; stable conditions consistently by rho) with
    trace t and outcome o (normal, raised, exited, returned ...).  [bapply save set restore V
    target t (v, saved)] replays the effect of t's successful save/set/restore operations on the
    pair (value of the piece of process state, local backup variable).
    [no_excuse ... t]: the restoring operation itself did not fail in t (if chdir back fails,
    nobody can restore; the fault-injection harness excludes exactly that case too). *)
From InToto.Model Require Import Base Skel.
From InToto.Proofs Require Import SkelSound SkelEffects.

(** working directory: D = directories; save = "original_cwd = os.getcwd()",
    set = "os.chdir(self._base_path)", restore = "os.chdir(original_cwd)" *)
Theorem C15_cwd : forall (D : Type) (labels : list str) (s : skel) (save set restore : str),
  bracketed labels s save set restore = true ->
  forall rho t o, exec rho s t o ->
  no_excuse [] (Some save) set restore t ->
  forall (base cwd0 saved0 : D),
    fst (bapply (Some save) set restore D base t (cwd0, saved0)) = cwd0.
Proof. exact bracketed_restores. Qed.
Print Assumptions C15_cwd.

(** the ARTIFACT_BASE_PATH setting: values are optional paths, the set operation writes None *)
Theorem C15_setting : forall (labels : list str) (s : skel) (save set restore : str),
  bracketed labels s save set restore = true ->
  forall rho t o, exec rho s t o ->
  no_excuse [] (Some save) set restore t ->
  forall (v0 saved0 : option str),
    fst (bapply (Some save) set restore (option str) None t (v0, saved0)) = v0.
Proof. exact (fun labels s save set restore H rho t o Hex Hne v0 saved0 =>
                bracketed_restores (option str) labels s save set restore H rho t o Hex Hne None v0 saved0). Qed.
Print Assumptions C15_setting.

(** a temporary file: false = absent; created by [create], removed by [remove]; absent on entry
    => absent whenever s is left, unless its own removal (or a listed preparatory operation such
    as closing its descriptor) failed *)
Theorem C15_tmp : forall (labels excuse : list str) (s : skel) (create remove : str),
  bracketed_res labels excuse s create remove = true ->
  forall rho t o, exec rho s t o ->
  no_excuse excuse None create remove t ->
  fst (bapply None create remove bool true t (false, false)) = false.
Proof. exact bracketed_res_removes. Qed.
Print Assumptions C15_tmp.

(** compositionality: a caller that makes no primitive state-changing call itself (no call whose
    name satisfies [eff], e.g. mentions os.chdir) and whose callees each leave the observed state
    as they found it — returning or raising — leaves it as it found it, on every path *)
Theorem C15_callers : forall (St V : Type) (obs : St -> V) (E : str -> bool -> St -> St -> Prop)
    (eff : str -> bool) (s : skel),
  no_effect_calls eff s = true ->
  (forall n, eff n = false -> forall ok a b, E n ok a b -> obs b = obs a) ->
  forall rho t o x y, exec rho s t o -> steps St E t x y -> obs y = obs x.
Proof. exact caller_restores. Qed.
Print Assumptions C15_callers.

(** * The hypotheses are satisfiable on non-trivial skeletons, and the checker tells apart *)
(** names: 1 = save, 2 = set, 3 = restore, 9 = the work in between, label 7 = "if base" *)
Definition ex_good : skel :=
  seqs [If true [7] (seqs [Call [1]; Call [2]]) Skip;
        Try (Loop [8] (seqs [Call [9]; If false [5] Continue Skip; Call [9]]) Skip) Raise false
            (If true [7] (Call [3]) Skip);
        Return]%N.
(** the repaired defect D15a: the same without try/finally *)
Definition ex_bad : skel :=
  seqs [If true [7] (seqs [Call [1]; Call [2]]) Skip;
        Loop [8] (seqs [Call [9]; If false [5] Continue Skip; Call [9]]) Skip;
        If true [7] (Call [3]) Skip;
        Return]%N.

Example C15_ex_good : bracketed [[7]%N] ex_good [1]%N [2]%N [3]%N = true.
Proof. vm_compute. reflexivity. Qed.
Example C15_ex_bad : bracketed [[7]%N] ex_bad [1]%N [2]%N [3]%N = false.
Proof. vm_compute. reflexivity. Qed.
(** without the same-label refinement the good skeleton is (rightly, for that semantics) refused *)
Example C15_ex_needs_labels : bracketed [] ex_good [1]%N [2]%N [3]%N = false.
Proof. vm_compute. reflexivity. Qed.

(** a run of ex_good that changes the directory, raises in the loop, and is restored *)
Example C15_ex_trace :
  exec (fun _ => true) ex_good
       ([ECall [1] true; ECall [2] true] ++ ([EIter [8]; ECall [9] false] ++ [ECall [3] true]))%N ORaised.
Proof.
  unfold ex_good. simpl seqs.
  eapply XSeqGo.
  - apply XIfStable. simpl. apply (XSeqGo _ _ _ [ECall [1]%N true] [ECall [2]%N true]); constructor.
  - apply XSeqStop; [|reflexivity].
    apply (XTryProp _ _ _ _ [EIter [8]%N; ECall [9]%N false] [ECall [3]%N true] ONormal).
    + apply XLoopAbort; [|reflexivity]. apply XSeqStop; [constructor | reflexivity].
    + apply XIfStable. simpl. constructor.
Qed.
Example C15_ex_trace_restored :
  fst (bapply (Some [1]%N) [2]%N [3]%N nat 5
        [ECall [1]%N true; ECall [2]%N true; EIter [8]%N; ECall [9]%N false; ECall [3]%N true] (0, 77)) = 0.
Proof. reflexivity. Qed.

Example C15_ex_tmp :
  bracketed_res [] [] (seqs [Call [2]; Try (Call [9]) Raise false (Call [3])])%N [2]%N [3]%N = true
  /\ bracketed_res [] [] (seqs [Call [2]; Call [9]; Call [3]])%N [2]%N [3]%N = false.
Proof. vm_compute. split; reflexivity. Qed.
