(** Extraction of the executable model for the correspondence check.
    Directives used: ExtrOcamlBasic only (bool, option, list, prod, unit, sumbool, sumor -> OCaml natives).
    No Extract Constant.  N, Z, positive, nat stay inductive datatypes.
    The file is written to the directory coqc is run from (../ocaml/gen, see Makefile.local). *)
From Coq Require Import Extraction ExtrOcamlBasic.
From InToto.Model Require Import Base Json Entry.
Extraction "model.ml" run_line.
