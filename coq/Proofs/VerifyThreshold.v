(** VerifyThreshold.v — lemmas for C02 / C08: loading, authorisation, signature check,
    the verified set as a filter of the loaded files, threshold soundness. *)
From InToto.Model Require Import Base Json Strs Utf8 Canon Rule Glob Rules Expiry Subst Meta Verify.
From InToto.Proofs Require Import VerifySpec ThresholdSpec.

(* ------------------------------------------------------------------ *)
(** * association lists                                                  *)

Lemma lookup_In : forall {A} k (l : list (str * A)) v, lookup k l = Some v -> In (k, v) l.
Proof.
  induction l as [|[k' v'] l IH]; simpl; intros v H; [discriminate|].
  destruct (eqs k k') eqn:E.
  - apply eqs_eq in E. inversion H; subst. left; reflexivity.
  - right. apply IH. exact H.
Qed.

Lemma lookup_None_notin : forall {A} k (l : list (str * A)), lookup k l = None <-> ~ In k (keys l).
Proof.
  induction l as [|[k' v'] l IH]; simpl.
  - split; [intros _ []|reflexivity].
  - destruct (eqs k k') eqn:E.
    + apply eqs_eq in E. subst. split; [discriminate|intro H; exfalso; apply H; left; reflexivity].
    + apply eqs_neq in E. rewrite IH. split; intro H.
      * intros [H1|H1]; [congruence|contradiction].
      * intro H1. apply H. right. exact H1.
Qed.

Lemma In_keys : forall {A} k (v : A) l, In (k, v) l -> In k (keys l).
Proof. intros A k v l H. unfold keys. change k with (fst (k, v)). apply in_map. exact H. Qed.

Lemma In_lookup_nodup : forall {A} k (v : A) l, NoDup (keys l) -> In (k, v) l -> lookup k l = Some v.
Proof.
  induction l as [|[k' v'] l IH]; simpl; intros ND H; [contradiction|].
  inversion ND as [|x xs Hn ND']; subst.
  destruct H as [H|H].
  - inversion H; subst. rewrite eqs_refl. reflexivity.
  - destruct (eqs k k') eqn:E.
    + apply eqs_eq in E. subst. exfalso. apply Hn. eapply In_keys; eauto.
    + apply IH; assumption.
Qed.

Lemma dict_set_In : forall {A} k (v : A) l k' v',
  In (k', v') (dict_set k v l) -> (k' = k /\ v' = v) \/ In (k', v') l.
Proof.
  induction l as [|[k0 v0] l IH]; simpl; intros k' v' H.
  - destruct H as [H|[]]. inversion H; subst. left; split; reflexivity.
  - destruct (eqs k k0) eqn:E.
    + apply eqs_eq in E. subst. destruct H as [H|H].
      * inversion H; subst. left; split; reflexivity.
      * right; right; exact H.
    + destruct H as [H|H].
      * right; left; exact H.
      * apply IH in H. destruct H as [H|H]; [left; exact H|right; right; exact H].
Qed.

Lemma dict_set_fresh : forall {A} k (v : A) l, ~ In k (keys l) -> dict_set k v l = l ++ [(k, v)].
Proof.
  induction l as [|[k0 v0] l IH]; simpl; intro H; [reflexivity|].
  destruct (eqs k k0) eqn:E.
  - apply eqs_eq in E. subst. exfalso. apply H. left; reflexivity.
  - rewrite IH; [reflexivity|]. intro H1. apply H. right; exact H1.
Qed.

Lemma dict_set_keys_incl : forall {A} k (v : A) l x, In x (keys (dict_set k v l)) -> x = k \/ In x (keys l).
Proof.
  induction l as [|[k0 v0] l IH]; simpl; intros x H.
  - destruct H as [H|[]]; left; congruence.
  - destruct (eqs k k0) eqn:E; simpl in H.
    + right. exact H.
    + destruct H as [H|H]; [right; left; exact H|].
      apply IH in H. destruct H; [left|right; right]; assumption.
Qed.

Lemma dict_set_keys_nodup : forall {A} k (v : A) l, NoDup (keys l) -> NoDup (keys (dict_set k v l)).
Proof.
  induction l as [|[k0 v0] l IH]; simpl; intro ND.
  - constructor; [intros []|constructor].
  - inversion ND as [|x xs Hn ND']; subst.
    destruct (eqs k k0) eqn:E; simpl.
    + constructor; assumption.
    + constructor; [|apply IH; exact ND'].
      intro H. apply dict_set_keys_incl in H. destruct H as [H|H].
      * apply eqs_neq in E. congruence.
      * contradiction.
Qed.

Lemma length_dict_set_ge : forall {A} k (v : A) l, length l <= length (dict_set k v l).
Proof.
  induction l as [|[k0 v0] l IH]; simpl; [lia|].
  destruct (eqs k k0); simpl; lia.
Qed.

(** filtering an association list by a predicate on keys commutes with assignment *)
Lemma filter_dict_set_keep : forall {A} (q : str -> bool) k (v : A) l, q k = true ->
  filter (fun kv => q (fst kv)) (dict_set k v l) = dict_set k v (filter (fun kv => q (fst kv)) l).
Proof.
  induction l as [|[k0 v0] l IH]; simpl; intro Hq.
  - rewrite Hq. reflexivity.
  - destruct (eqs k k0) eqn:E; simpl.
    + apply eqs_eq in E. subst. rewrite Hq. simpl. rewrite eqs_refl. reflexivity.
    + destruct (q k0) eqn:Q0; simpl; rewrite ?E, IH by exact Hq; reflexivity.
Qed.

Lemma filter_dict_set_drop : forall {A} (q : str -> bool) k (v : A) l, q k = false ->
  filter (fun kv => q (fst kv)) (dict_set k v l) = filter (fun kv => q (fst kv)) l.
Proof.
  induction l as [|[k0 v0] l IH]; simpl; intro Hq.
  - rewrite Hq. reflexivity.
  - destruct (eqs k k0) eqn:E; simpl.
    + apply eqs_eq in E. subst. rewrite Hq. reflexivity.
    + rewrite IH by exact Hq. reflexivity.
Qed.

(* ------------------------------------------------------------------ *)
(** * mapM                                                               *)

Lemma mapM_Forall2 : forall {A B} (f : A -> res B) l l', mapM f l = Ok l' -> Forall2 (fun x y => f x = Ok y) l l'.
Proof.
  induction l as [|x l IH]; simpl; intros l' H.
  - inversion H. constructor.
  - destruct (f x) as [y|e] eqn:E; simpl in H; [|discriminate].
    destruct (mapM f l) as [ys|e] eqn:E2; simpl in H; [|discriminate].
    inversion H; subst. constructor; [exact E|apply IH; reflexivity].
Qed.

Lemma Forall2_mapM : forall {A B} (f : A -> res B) l l', Forall2 (fun x y => f x = Ok y) l l' -> mapM f l = Ok l'.
Proof.
  induction 1 as [|x y l l' H _ IH]; simpl; [reflexivity|].
  rewrite H. simpl. rewrite IH. reflexivity.
Qed.

Lemma mapM_ext_in : forall {A B} (f g : A -> res B) l, (forall x, In x l -> f x = g x) -> mapM f l = mapM g l.
Proof.
  induction l as [|x l IH]; simpl; intro H; [reflexivity|].
  rewrite H by (left; reflexivity). rewrite IH; [reflexivity|]. intros y Hy. apply H. right; exact Hy.
Qed.

Lemma mapM_err_in : forall {A B} (f : A -> res B) l e, mapM f l = Err e -> exists x, In x l /\ f x = Err e.
Proof.
  induction l as [|x l IH]; simpl; intros e H; [discriminate|].
  destruct (f x) as [y|e'] eqn:E; simpl in H.
  - destruct (mapM f l) as [ys|e''] eqn:E2; simpl in H; [discriminate|].
    inversion H; subst. destruct (IH e eq_refl) as [z [Hz1 Hz2]]. exists z. split; [right|]; assumption.
  - inversion H; subst. exists x. split; [left; reflexivity|exact E].
Qed.

Lemma Forall2_In_l : forall {A B} (R : A -> B -> Prop) l l' x, Forall2 R l l' -> In x l -> exists y, In y l' /\ R x y.
Proof.
  induction 1 as [|a b l l' H _ IH]; intro Hin; [contradiction|].
  destruct Hin as [->|Hin].
  - exists b. split; [left; reflexivity|exact H].
  - destruct (IH Hin) as [y [H1 H2]]. exists y. split; [right|]; assumption.
Qed.

Lemma Forall2_In_r : forall {A B} (R : A -> B -> Prop) l l' y, Forall2 R l l' -> In y l' -> exists x, In x l /\ R x y.
Proof.
  induction 1 as [|a b l l' H _ IH]; intro Hin; [contradiction|].
  destruct Hin as [->|Hin].
  - exists a. split; [left; reflexivity|exact H].
  - destruct (IH Hin) as [x [H1 H2]]. exists x. split; [right|]; assumption.
Qed.

Lemma Forall2_impl : forall {A B} (R R' : A -> B -> Prop) l l',
  (forall x y, R x y -> R' x y) -> Forall2 R l l' -> Forall2 R' l l'.
Proof. induction 2; constructor; auto. Qed.

(** two association lists with the same keys position by position: lookups correspond *)
Lemma Forall2_lookup : forall {A B} (R : A -> B -> Prop) (l : list (str * A)) (l' : list (str * B)) k v,
  Forall2 (fun x y => fst x = fst y /\ R (snd x) (snd y)) l l' ->
  lookup k l = Some v -> exists w, lookup k l' = Some w /\ R v w.
Proof.
  induction 1 as [|[k1 v1] [k2 v2] l l' [H1 H2] _ IH]; simpl; intro H; [discriminate|].
  simpl in H1, H2. subst k2.
  destruct (eqs k k1).
  - inversion H; subst. exists v2. split; [reflexivity|exact H2].
  - apply IH. exact H.
Qed.

Lemma Forall2_lookup_None : forall {A B} (R : A -> B -> Prop) (l : list (str * A)) (l' : list (str * B)) k,
  Forall2 (fun x y => fst x = fst y /\ R (snd x) (snd y)) l l' ->
  lookup k l = None -> lookup k l' = None.
Proof.
  induction 1 as [|[k1 v1] [k2 v2] l l' [H1 H2] _ IH]; simpl; intro H; [reflexivity|].
  simpl in H1. subst k2. destruct (eqs k k1); [discriminate|apply IH; exact H].
Qed.

Lemma Forall2_lookup_k : forall {A B} (R : str -> A -> B -> Prop) (l : list (str * A)) (l' : list (str * B)) k v,
  Forall2 (fun x y => fst x = fst y /\ R (fst x) (snd x) (snd y)) l l' ->
  lookup k l = Some v -> exists w, lookup k l' = Some w /\ R k v w.
Proof.
  induction 1 as [|[k1 v1] [k2 v2] l l' [H1 H2] _ IH]; simpl; intro H; [discriminate|].
  simpl in H1, H2. subst k2.
  destruct (eqs k k1) eqn:E.
  - apply eqs_eq in E. subst. inversion H; subst. exists v2. split; [reflexivity|exact H2].
  - apply IH. exact H.
Qed.

(** entries produced step by step and consulted by name: the entry found under a step's name is
    that of the first step with this name — the step itself when step names are distinct *)
Lemma Forall2_key_lookup_first : forall {A B} (f : A -> str) (P : A -> B -> Prop) (l : list A) (l' : list (str * B)) x,
  Forall2 (fun x e => fst e = f x /\ P x (snd e)) l l' -> In x l ->
  exists x' g, In x' l /\ f x' = f x /\ lookup (f x) l' = Some g /\ P x' g.
Proof.
  induction 1 as [|y [k g] l l' [H1 H2] _ IH]; intro Hin; [contradiction|]. cbn [fst snd] in *. subst k.
  simpl. destruct (eqs (f x) (f y)) eqn:E.
  - apply eqs_eq in E. exists y, g. repeat split; auto.
  - destruct Hin as [->|Hin]; [rewrite eqs_refl in E; discriminate|].
    destruct (IH Hin) as [x' [g' [Ha [Hb [Hc Hd]]]]]. exists x', g'. repeat split; auto.
Qed.

Lemma Forall2_key_lookup : forall {A B} (f : A -> str) (P : A -> B -> Prop) (l : list A) (l' : list (str * B)) x,
  Forall2 (fun x e => fst e = f x /\ P x (snd e)) l l' -> NoDup (map f l) -> In x l ->
  exists g, lookup (f x) l' = Some g /\ P x g.
Proof.
  induction 1 as [|y [k g] l l' [H1 H2] _ IH]; intros ND Hin; [contradiction|]. cbn [fst snd] in *. subst k.
  simpl in ND. inversion ND as [|z zs Hn ND']; subst. simpl.
  destruct Hin as [->|Hin].
  - rewrite eqs_refl. exists g. split; [reflexivity|exact H2].
  - destruct (eqs (f x) (f y)) eqn:E.
    + apply eqs_eq in E. exfalso. apply Hn. rewrite <- E. apply in_map. exact Hin.
    + apply IH; assumption.
Qed.

Lemma Forall2_lookup_None_k : forall {A B} (R : str -> A -> B -> Prop) (l : list (str * A)) (l' : list (str * B)) k,
  Forall2 (fun x y => fst x = fst y /\ R (fst x) (snd x) (snd y)) l l' ->
  lookup k l = None -> lookup k l' = None.
Proof.
  induction 1 as [|[k1 v1] [k2 v2] l l' [H1 H2] _ IH]; simpl; intro H; [reflexivity|].
  simpl in H1. subst k2. destruct (eqs k k1); [discriminate|apply IH; exact H].
Qed.

(* ------------------------------------------------------------------ *)
(** * dedup                                                              *)

Lemma dedup_In : forall x l, In x (dedup l) <-> In x l.
Proof.
  induction l as [|y l IH]; simpl; [tauto|].
  destruct (mem_str y l) eqn:E.
  - rewrite IH. split; [right; assumption|]. intros [H|H]; [subst; apply mem_str_In; exact E|exact H].
  - simpl. rewrite IH. tauto.
Qed.

Lemma dedup_NoDup : forall l, NoDup (dedup l).
Proof.
  induction l as [|y l IH]; simpl; [constructor|].
  destruct (mem_str y l) eqn:E; [exact IH|].
  constructor; [|exact IH]. rewrite dedup_In. apply mem_str_false. exact E.
Qed.

Lemma dedup_length : forall l, length (dedup l) <= length l.
Proof.
  induction l as [|y l IH]; simpl; [lia|]. destruct (mem_str y l); simpl; lia.
Qed.

Section Threshold.
  Variable b64dec : str -> option (list N).
  Variable loads : list N -> option json.
  Variable sig_ok : str -> list N -> str -> bool.
  Variable now_s : Z.
  Variable now_us : Z.
  Variable exec : list json -> exec_result.

  Notation vsig := (verify_signature sig_ok now_s).
  Notation vsl := (verify_step_links sig_ok now_s).
  Notation link_ok := (link_ok sig_ok now_s).
  Notation link_skipped := (link_skipped sig_ok now_s).
  Notation vlst := (verify_link_signature_thresholds sig_ok now_s).
  Notation load_file := (load_file b64dec loads).
  Notation load_keyids := (load_keyids b64dec loads).
  Notation load_step := (load_step b64dec loads).
  Notation vbody := (verify_body b64dec loads sig_ok now_s now_us exec).
  Notation pre_layout := (pre_layout sig_ok now_s now_us).

  (* ---------------------------------------------------------------- *)
  (** * one loaded file: counted, skipped, or fatal                      *)

  Lemma vsl_ok : forall l mk s kv found used acc,
    link_ok l mk s kv = true ->
    vsl l mk s (kv :: found) used acc =
    vsl l mk s found (used ++ [main_of l mk s kv]) (dict_set (fst kv) (snd kv) acc).
  Proof.
    intros l mk s [kid md] found used acc H. unfold ThresholdSpec.link_ok, main_of in *.
    cbn [verify_step_links fst snd] in *.
    destruct (verification_key l mk s kid) as [[[vk mid]|e]|]; try discriminate.
    destruct mid; try discriminate.
    destruct (vsig md vk) as [[]|e]; try discriminate.
    destruct (names_step md s) as [[|]|e]; try discriminate. reflexivity.
  Qed.

  Lemma vsl_skip : forall l mk s kv found used acc,
    link_skipped l mk s kv = true ->
    vsl l mk s (kv :: found) used acc = vsl l mk s found used acc.
  Proof.
    intros l mk s [kid md] found used acc H. unfold ThresholdSpec.link_skipped in *.
    cbn [verify_step_links fst snd] in *.
    destruct (verification_key l mk s kid) as [[[vk mid]|e]|]; try discriminate; [|reflexivity].
    destruct (vsig md vk) as [[]|e].
    - destruct (names_step md s) as [[|]|e]; try discriminate. reflexivity.
    - destruct e; try discriminate; reflexivity.
  Qed.

  Lemma vsl_fatal : forall l mk s kv found used acc,
    link_ok l mk s kv = false -> link_skipped l mk s kv = false ->
    exists e, vsl l mk s (kv :: found) used acc = Err e.
  Proof.
    intros l mk s [kid md] found used acc H1 H2. unfold ThresholdSpec.link_ok, ThresholdSpec.link_skipped in *.
    cbn [verify_step_links fst snd] in *.
    destruct (verification_key l mk s kid) as [[[vk mid]|e]|]; try discriminate; [|eexists; reflexivity].
    destruct (vsig md vk) as [[]|e].
    - destruct (names_step md s) as [[|]|e]; simpl; try discriminate.
      + destruct mid; try discriminate; eexists; reflexivity.
      + eexists; reflexivity.
    - destruct e; try discriminate; eexists; reflexivity.
  Qed.

  Lemma vsl_fatal_same : forall l mk s kv f1 f2 used acc,
    link_ok l mk s kv = false -> link_skipped l mk s kv = false ->
    vsl l mk s (kv :: f1) used acc = vsl l mk s (kv :: f2) used acc.
  Proof.
    intros l mk s [kid md] f1 f2 used acc H1 H2. unfold ThresholdSpec.link_ok, ThresholdSpec.link_skipped in *.
    cbn [verify_step_links fst snd] in *.
    destruct (verification_key l mk s kid) as [[[vk mid]|e]|]; try discriminate; [|reflexivity].
    destruct (vsig md vk) as [[]|e].
    - destruct (names_step md s) as [[|]|e]; simpl; try discriminate; try reflexivity.
      destruct mid; try discriminate; reflexivity.
    - destruct e; try discriminate; reflexivity.
  Qed.

  Lemma ok_not_skipped : forall l mk s kv, link_ok l mk s kv = true -> link_skipped l mk s kv = false.
  Proof.
    intros l mk s [kid md] H. unfold ThresholdSpec.link_ok, ThresholdSpec.link_skipped in *. simpl in *.
    destruct (verification_key l mk s kid) as [[[vk mid]|e]|]; try discriminate.
    destruct mid; try discriminate.
    destruct (vsig md vk) as [[]|e]; try discriminate.
    destruct (names_step md s) as [[|]|e]; try discriminate. reflexivity.
  Qed.

  (** the verified set is the loaded files filtered by the verified predicate *)
  Definition collect (good : list (str * metadata)) (acc : list (str * metadata)) :=
    fold_left (fun a kv => dict_set (fst kv) (snd kv) a) good acc.

  Lemma vsl_inv : forall l mk s found used acc used' good,
    vsl l mk s found used acc = Ok (used', good) ->
    Forall (fun kv => link_ok l mk s kv = true \/ link_skipped l mk s kv = true) found /\
    used' = used ++ map (main_of l mk s) (filter (link_ok l mk s) found) /\
    good = collect (filter (link_ok l mk s) found) acc.
  Proof.
    induction found as [|kv found IH]; intros used acc used' good H.
    - simpl in H. inversion H; subst. simpl. rewrite app_nil_r. repeat split. constructor.
    - destruct (link_ok l mk s kv) eqn:E1.
      + rewrite vsl_ok in H by exact E1. apply IH in H. destruct H as [H1 [H2 H3]].
        simpl. rewrite E1. simpl. rewrite <- app_assoc in H2. simpl in H2.
        repeat split; try assumption. constructor; [left; exact E1|exact H1].
      + destruct (link_skipped l mk s kv) eqn:E2.
        * rewrite vsl_skip in H by exact E2. apply IH in H. destruct H as [H1 [H2 H3]].
          simpl. rewrite E1. repeat split; try assumption. constructor; [right; exact E2|exact H1].
        * destruct (vsl_fatal l mk s kv found used acc E1 E2) as [e He]. congruence.
  Qed.

  Lemma vsl_total : forall l mk s found used acc,
    Forall (fun kv => link_ok l mk s kv = true \/ link_skipped l mk s kv = true) found ->
    vsl l mk s found used acc =
    Ok (used ++ map (main_of l mk s) (filter (link_ok l mk s) found), collect (filter (link_ok l mk s) found) acc).
  Proof.
    induction found as [|kv found IH]; intros used acc H.
    - simpl. rewrite app_nil_r. reflexivity.
    - inversion H as [|x xs Hx Hxs]; subst. destruct (link_ok l mk s kv) eqn:E1.
      + rewrite vsl_ok by exact E1. rewrite IH by exact Hxs. simpl. rewrite E1. simpl.
        rewrite <- app_assoc. reflexivity.
      + destruct Hx as [Hx|Hx]; [discriminate|].
        rewrite vsl_skip by exact Hx. rewrite IH by exact Hxs. simpl. rewrite E1. reflexivity.
  Qed.

  (** removing skipped files from the loaded list changes nothing *)
  Lemma vsl_filter_skipped : forall l mk s (q : str * metadata -> bool) found used acc,
    (forall kv, In kv found -> q kv = false -> link_skipped l mk s kv = true) ->
    vsl l mk s found used acc = vsl l mk s (filter q found) used acc.
  Proof.
    induction found as [|kv found IH]; intros used acc H; [reflexivity|].
    cbn [filter]. destruct (q kv) eqn:Q.
    - destruct (link_ok l mk s kv) eqn:E1.
      + rewrite !vsl_ok by exact E1. apply IH. intros; apply H; [right|]; assumption.
      + destruct (link_skipped l mk s kv) eqn:E2.
        * rewrite !vsl_skip by exact E2. apply IH. intros; apply H; [right|]; assumption.
        * apply vsl_fatal_same; assumption.
    - rewrite vsl_skip by (apply H; [left; reflexivity|exact Q]).
      apply IH. intros; apply H; [right|]; assumption.
  Qed.

  Lemma collect_fresh : forall good acc,
    NoDup (keys good) -> (forall k, In k (keys good) -> ~ In k (keys acc)) ->
    collect good acc = acc ++ good.
  Proof.
    induction good as [|[k v] good IH]; intros acc ND Hd; simpl.
    - rewrite app_nil_r. reflexivity.
    - inversion ND as [|x xs Hn ND']; subst.
      rewrite dict_set_fresh by (apply Hd; left; reflexivity).
      rewrite IH; [rewrite <- app_assoc; reflexivity|exact ND'|].
      intros k' Hk' Hin. unfold keys in Hin. rewrite map_app in Hin. apply in_app_or in Hin.
      destruct Hin as [Hin|Hin].
      + apply (Hd k'); [right; exact Hk'|exact Hin].
      + simpl in Hin. destruct Hin as [Hin|[]]. subst. contradiction.
  Qed.

  Lemma keys_filter_NoDup : forall {A} (q : str * A -> bool) l, NoDup (keys l) -> NoDup (keys (filter q l)).
  Proof.
    induction l as [|[k v] l IH]; simpl; intro ND; [constructor|].
    inversion ND as [|x xs Hn ND']; subst.
    destruct (q (k, v)); simpl; [|apply IH; exact ND'].
    constructor; [|apply IH; exact ND'].
    intro H. apply Hn. unfold keys in *. apply in_map_iff in H. destruct H as [[k' v'] [H1 H2]].
    apply filter_In in H2. destruct H2 as [H2 _]. apply in_map_iff. exists (k', v'). split; assumption.
  Qed.

  (** ... so with the distinct file-name key ids that loading produces, the verified set is
      literally the sub-list of verified files, in load order *)
  Lemma vsl_filter : forall l mk s found used good,
    NoDup (keys found) ->
    vsl l mk s found [] [] = Ok (used, good) ->
    good = filter (link_ok l mk s) found /\ used = map (main_of l mk s) good /\
    Forall (fun kv => link_ok l mk s kv = true \/ link_skipped l mk s kv = true) found.
  Proof.
    intros l mk s found used good ND H. apply vsl_inv in H. destruct H as [H1 [H2 H3]].
    rewrite collect_fresh in H3; [|apply keys_filter_NoDup; exact ND|intros k _ []].
    simpl in H2, H3. subst. repeat split. exact H1.
  Qed.

  (* ---------------------------------------------------------------- *)
  (** * authorisation: the key chosen by the code is one the property allows *)

  Definition mk_inv (l : layout) (acc : list (str * json)) : Prop :=
    forall a m, In (a, m) acc -> exists mid, In (mid, m) (ly_keys l) /\ In a (subkey_ids m).

  Lemma mk_inner : forall l mid k sks acc,
    In (mid, k) (ly_keys l) -> (forall x, In x sks -> In x (subkey_ids k)) -> mk_inv l acc ->
    mk_inv l (fold_left (fun acc' sk => dict_set sk k acc') sks acc).
  Proof.
    induction sks as [|sk sks IH]; intros acc Hk Hs Hacc; simpl; [exact Hacc|].
    apply IH; [exact Hk|intros x Hx; apply Hs; right; exact Hx|].
    intros a m H. apply dict_set_In in H. destruct H as [[-> ->]|H].
    - exists mid. split; [exact Hk|apply Hs; left; reflexivity].
    - apply Hacc. exact H.
  Qed.

  Lemma mk_outer : forall l ks acc,
    (forall kv, In kv ks -> In kv (ly_keys l)) -> mk_inv l acc ->
    mk_inv l (fold_left (fun acc kv => fold_left (fun acc' sk => dict_set sk (snd kv) acc') (subkey_ids (snd kv)) acc) ks acc).
  Proof.
    induction ks as [|[mid k] ks IH]; intros acc Hin Hacc; simpl; [exact Hacc|].
    apply IH; [intros kv Hkv; apply Hin; right; exact Hkv|].
    apply (mk_inner l mid k); [apply Hin; left; reflexivity|auto|exact Hacc].
  Qed.

  Lemma main_keys_sound : forall l a m,
    lookup a (main_keys_for_subkeys l) = Some m -> exists mid, In (mid, m) (ly_keys l) /\ In a (subkey_ids m).
  Proof.
    intros l a m H. apply lookup_In in H. revert a m H. unfold main_keys_for_subkeys.
    apply mk_outer; [auto|]. intros a m [].
  Qed.

  Lemma verification_key_counts : forall l s kid vk mainid,
    verification_key l (main_keys_for_subkeys l) s kid = Some (Ok (vk, mainid)) -> counts l s kid vk mainid.
  Proof.
    intros l s kid vk mainid H. unfold verification_key in H.
    remember (st_pubkeys s) as auth eqn:Ha in H.
    assert (Hin : forall a, In a auth -> In a (st_pubkeys s)) by (subst; auto).
    clear Ha. revert H. induction auth as [|a auth IH]; intro H; [discriminate|].
    assert (Ha : In a (st_pubkeys s)) by (apply Hin; left; reflexivity).
    assert (IH' := IH (fun x Hx => Hin x (or_intror Hx))). clear IH.
    cbn beta iota in H.
    change (match lookup a (ly_keys l) with Some k => if jtruthy k then Some k else None | None => None end)
      with (store l a) in H.
    destruct (store l a) as [k|] eqn:Es.
    - destruct (eqs kid a) eqn:E1.
      + apply eqs_eq in E1. destruct (jget S_keyid k) eqn:Ek; inversion H; subst. eapply C_key; eauto.
      + destruct (mem_str kid (subkey_ids k)) eqn:E2.
        * apply mem_str_In in E2. destruct (jget S_keyid k) eqn:Ek; inversion H; subst.
          eapply C_sub_of_master; eauto.
        * apply IH'. exact H.
    - destruct (lookup a (main_keys_for_subkeys l)) as [m|] eqn:Em; [|apply IH'; exact H].
      destruct (jtruthy m); [|apply IH'; exact H].
      destruct (eqs kid a) eqn:E1; [|apply IH'; exact H].
      apply eqs_eq in E1.
      destruct (subkey_entry m a) eqn:Ese; destruct (jget S_keyid m) eqn:Ek; inversion H; subst.
      apply main_keys_sound in Em. destruct Em as [mid [Hm _]]. eapply C_sub_alone; eauto.
  Qed.

  (* ---------------------------------------------------------------- *)
  (** * an accepted signature check: a listed signature by that key, valid over exactly
        the bytes this metadata determines *)

  Lemma vsig_carries : forall md vk, vsig md vk = Ok tt -> carries_valid_sig sig_ok now_s md vk.
  Proof.
    intros md vk H. destruct md as [sigs p|pbytes pt sigs parsed]; unfold verify_signature in H.
    - destruct (check_public_key vk) as [shape|e]; [|discriminate]. cbn [bind] in H.
      destruct (jstr_of (jget S_keyid vk)) as [kid|] eqn:Ek; [|discriminate].
      match type of H with match find ?f _ with _ => _ end = _ => destruct (find f sigs) as [sg|] eqn:Ef end.
      2:{ destruct (forallb _ sigs); discriminate. }
      apply find_some in Ef. destruct Ef as [Hin Hp].
      destruct (jstr_of (jget S_keyid sg)) as [k|] eqn:Eks; [|discriminate].
      destruct (signed_bytes_mb p) as [msg|e] eqn:Em; [|discriminate]. cbn [bind] in H.
      exists sg, msg. split; [exact Hin|]. split.
      { exists kid, k. repeat split; try assumption. apply orb_true_iff in Hp. destruct Hp as [Hp|Hp].
        - left. apply eqs_eq. exact Hp.
        - right. apply mem_str_In. exact Hp. }
      split; [exact Em|].
      destruct (has S_signature sg && has S_other_headers sg).
      + destruct shape; [|discriminate]. right.
        destruct (gpg_verify sig_ok now_s sg vk msg) as [[|]|e]; try discriminate. reflexivity.
      + destruct shape; [discriminate|]. left.
        destruct (has S_sig sg); [|discriminate].
        destruct (sslib_verify sig_ok sg vk msg) as [[|]|e]; try discriminate. reflexivity.
    - destruct (jget S_keyid vk) as [[| | | |kid| |]|] eqn:Ek; try discriminate.
      destruct (check_public_key vk) as [shape|e]; [|discriminate]. cbn [bind] in H.
      destruct shape; [discriminate|].
      match type of H with (if existsb ?f _ then _ else _) = _ => destruct (existsb f sigs) eqn:Ex end; [|discriminate].
      apply existsb_exists in Ex. destruct Ex as [sg [Hin Hp]].
      destruct (jstr_of (jget S_keyid sg)) as [k|] eqn:Eks; [|discriminate].
      apply andb_true_iff in Hp. destruct Hp as [Hp1 Hp2]. apply eqs_eq in Hp1. subst k.
      exists sg, (pae (utf8 pt) pbytes). split; [exact Hin|]. split.
      { exists kid, kid. rewrite Ek. repeat split; try assumption. left; reflexivity. }
      split; [reflexivity|]. left.
      destruct (sslib_verify sig_ok sg vk (pae (utf8 pt) pbytes)) as [[|]|e]; try discriminate. reflexivity.
  Qed.

  (** ... and such a signature is one the oracle accepts for that message *)
  Lemma sslib_verify_oracle : forall sg key msg, sslib_verify sig_ok sg key msg = Ok true ->
    exists tok v, sig_ok tok msg v = true.
  Proof.
    intros sg key msg H. unfold sslib_verify in H.
    destruct (jstr_of (jget S_keyid sg)) as [skid|]; [|discriminate].
    destruct (jstr_of (jget S_keyid key)) as [kid|]; [|discriminate].
    destruct (jstr_of (jget S_sig sg)) as [sval|]; [|discriminate].
    destruct (negb (eqs skid kid)); [discriminate|].
    destruct (negb (hex_even sval)); [discriminate|].
    destruct (jget S_keyval key) as [kv|]; [|discriminate].
    destruct (jstr_of (jget S_public kv)) as [pub|]; [|discriminate].
    exists pub, sval. congruence.
  Qed.

  Lemma gpg_verify_oracle : forall sg key msg, gpg_verify sig_ok now_s sg key msg = Ok true ->
    exists tok v, sig_ok tok msg v = true.
  Proof.
    intros sg key msg H. unfold gpg_verify in H.
    destruct (jstr_of (jget S_keyid sg)) as [skid|]; [|discriminate].
    destruct (jstr_of (jget S_keyid key)) as [mkid|]; [|discriminate].
    destruct (jstr_of (jget S_signature sg)) as [sval|]; [|discriminate].
    destruct (negb (gpg_sig_schema_ok sg)); [discriminate|].
    cbv zeta in H.
    match type of H with context [fst ?s] => set (sel := s) in * end.
    match type of H with context [gpg_sig_value sval ?o] => set (oh := o) in * end.
    assert (G : (if Nat.even (length oh) then Ok (sig_ok (fst sel) msg (gpg_sig_value sval oh)) else Err EValueError) = Ok true ->
                exists tok v, sig_ok tok msg v = true).
    { destruct (Nat.even (length oh)); [|discriminate]. intro G. exists (fst sel), (gpg_sig_value sval oh). congruence. }
    destruct (jget S_creation_time (snd sel)) as [[| |c| | | |]|]; try (apply G; exact H).
    destruct (jget S_validity_period (snd sel)) as [[| |v| | | |]|]; try (apply G; exact H).
    destruct (negb (c =? 0)%Z && negb (v =? 0)%Z && (c + v <? now_s)%Z); [discriminate|]. apply G; exact H.
  Qed.

  Lemma carries_oracle : forall md vk, carries_valid_sig sig_ok now_s md vk ->
    exists msg tok v, signed_message md = Ok msg /\ sig_ok tok msg v = true.
  Proof.
    intros md vk [sg [msg [_ [_ [Hm [H|H]]]]]].
    - apply sslib_verify_oracle in H. destruct H as [tok [v H]]. exists msg, tok, v. split; assumption.
    - apply gpg_verify_oracle in H. destruct H as [tok [v H]]. exists msg, tok, v. split; assumption.
  Qed.

  (** the expired-key skip (for a signature dict that passes the schema check) *)
  Lemma gpg_verify_expired : forall sg key msg skid mkid sval c v,
    jstr_of (jget S_keyid sg) = Some skid -> jstr_of (jget S_keyid key) = Some mkid ->
    jstr_of (jget S_signature sg) = Some sval -> gpg_sig_schema_ok sg = true ->
    jget S_subkeys key = None ->
    jget S_creation_time key = Some (JInt c) -> jget S_validity_period key = Some (JInt v) ->
    c <> 0%Z -> v <> 0%Z -> (c + v < now_s)%Z ->
    gpg_verify sig_ok now_s sg key msg = Err EKeyExpired.
  Proof.
    intros sg key msg skid mkid sval c v H1 H2 H3 Hs H4 H5 H6 Hc Hv Hlt. unfold gpg_verify.
    rewrite H1, H2, H3, Hs, H4. cbn [negb snd fst]. rewrite H5, H6.
    apply Z.eqb_neq in Hc. apply Z.eqb_neq in Hv. apply Z.ltb_lt in Hlt. rewrite Hc, Hv, Hlt. reflexivity.
  Qed.

  Lemma names_step_true : forall md s, names_step md s = Ok true ->
    forall lk, get_payload md = Ok (PLink lk) -> l_name lk = JStr (st_name s).
  Proof.
    intros md s H lk Hp. unfold names_step in H. rewrite Hp in H. cbn [bind] in H.
    destruct (l_name lk) as [| | | |n| |]; try discriminate. inversion H as [H1]. apply eqs_eq in H1. subst. reflexivity.
  Qed.

  (* ---------------------------------------------------------------- *)
  (** * loading: every loaded entry is the parsed content of the file named after step and key id *)

  Lemma load_file_some : forall files n md, load_file files n = Ok (Some md) ->
    exists j, lookup n files = Some (FJson j) /\ from_dict b64dec loads j = Ok md.
  Proof.
    intros files n md H. unfold Verify.load_file in H.
    destruct (lookup n files) as [[|j]|]; try discriminate.
    destruct (from_dict b64dec loads j) as [m|e] eqn:E; [|discriminate]. cbn [bind] in H.
    inversion H; subst. exists j. split; [reflexivity|exact E].
  Qed.

  Lemma load_keyids_inv : forall files name kids acc found,
    load_keyids files name kids acc = Ok found ->
    (NoDup (keys acc) -> NoDup (keys found)) /\
    length acc <= length found /\
    forall kid md, In (kid, md) found ->
      In (kid, md) acc \/ (In kid kids /\ load_file files (link_filename name kid) = Ok (Some md)).
  Proof.
    induction kids as [|kid kids IH]; intros acc found H; simpl in H.
    - inversion H; subst. split; [auto|]. split; [lia|]. intros; left; assumption.
    - destruct (load_file files (link_filename name kid)) as [m|e] eqn:E; [|discriminate]. cbn [bind] in H.
      apply IH in H. destruct H as [H1 [H2 H3]]. destruct m as [md0|].
      + split; [intro ND; apply H1; apply dict_set_keys_nodup; exact ND|].
        split; [pose proof (length_dict_set_ge kid md0 acc); lia|].
        intros k md Hin. apply H3 in Hin. destruct Hin as [Hin|[Hin Hl]].
        * apply dict_set_In in Hin. destruct Hin as [[-> ->]|Hin]; [right; split; [left; reflexivity|exact E]|left; exact Hin].
        * right. split; [right; exact Hin|exact Hl].
      + split; [exact H1|]. split; [exact H2|].
        intros k md Hin. apply H3 in Hin. destruct Hin as [Hin|[Hin Hl]]; [left; exact Hin|].
        right. split; [right; exact Hin|exact Hl].
  Qed.

  Lemma load_step_inv : forall files l s found, load_step files l s = Ok found ->
    NoDup (keys found) /\ (st_threshold s <= Z.of_nat (length found))%Z /\
    forall kid md, In (kid, md) found ->
      In kid (flat_map (keyids_to_try l) (st_pubkeys s)) /\
      exists j, lookup (link_filename (st_name s) kid) files = Some (FJson j) /\ from_dict b64dec loads j = Ok md.
  Proof.
    intros files l s found H. unfold Verify.load_step in H.
    destruct (negb (name_ok (st_name s))); [discriminate|].
    destruct (load_keyids files (st_name s) (flat_map (keyids_to_try l) (st_pubkeys s)) []) as [f|e] eqn:E; [|discriminate].
    cbn [bind] in H. destruct (Z.of_nat (length f) <? st_threshold s)%Z eqn:Et; [discriminate|].
    inversion H; subst. apply load_keyids_inv in E. destruct E as [H1 [_ H3]].
    split; [apply H1; constructor|]. split; [apply Z.ltb_ge in Et; exact Et|].
    intros kid md Hin. apply H3 in Hin. destruct Hin as [[]|[Hin Hl]]. split; [exact Hin|].
    apply load_file_some. exact Hl.
  Qed.

  Lemma load_links_inv : forall files l sm, load_links_for_layout b64dec loads files l = Ok sm ->
    Forall2 (fun s e => fst e = st_name s /\ load_step files l s = Ok (snd e)) (ly_steps l) sm.
  Proof.
    intros files l sm H. unfold load_links_for_layout in H. apply mapM_Forall2 in H.
    eapply Forall2_impl; [|exact H]. intros s e He. cbn beta in He.
    destruct (load_step files l s) as [f|er]; [|discriminate]. cbn [bind] in He. inversion He; subst. split; reflexivity.
  Qed.

  Definition found_of (s : step) (sm : list (str * list (str * metadata))) :=
    match lookup (st_name s) sm with Some f => f | None => [] end.

  Lemma found_of_inv : forall files l sm s, load_links_for_layout b64dec loads files l = Ok sm ->
    NoDup (keys (found_of s sm)) /\
    forall kid md, In (kid, md) (found_of s sm) ->
      exists j, lookup (link_filename (st_name s) kid) files = Some (FJson j) /\ from_dict b64dec loads j = Ok md.
  Proof.
    intros files l sm s H. apply load_links_inv in H. unfold found_of.
    destruct (lookup (st_name s) sm) as [f|] eqn:E; [|split; [constructor|intros ? ? []]].
    apply lookup_In in E. destruct (Forall2_In_r _ _ _ _ H E) as [s' [_ [Hn Hl]]]. cbn [fst snd] in *.
    apply load_step_inv in Hl. destruct Hl as [ND [_ Hf]]. split; [exact ND|].
    intros kid md Hin. apply Hf in Hin. destruct Hin as [_ Hin]. rewrite Hn. exact Hin.
  Qed.

  Lemma vlst_inv : forall l sm vm, vlst l sm = Ok vm ->
    Forall2 (fun s e => fst e = st_name s /\ exists used,
                          vsl l (main_keys_for_subkeys l) s (found_of s sm) [] [] = Ok (used, snd e) /\
                          (st_threshold s <= Z.of_nat (length (dedup used)))%Z) (ly_steps l) vm.
  Proof.
    intros l sm vm H. unfold verify_link_signature_thresholds in H. apply mapM_Forall2 in H.
    eapply Forall2_impl; [|exact H]. intros s e He. cbn beta zeta in He. fold (found_of s sm) in He.
    destruct (vsl l (main_keys_for_subkeys l) s (found_of s sm) [] []) as [[used good]|er]; [|discriminate].
    cbn [bind] in He. destruct (Z.of_nat (length (dedup used)) <? st_threshold s)%Z eqn:Et; [discriminate|].
    inversion He; subst. split; [reflexivity|]. exists used. split; [reflexivity|]. apply Z.ltb_ge in Et. exact Et.
  Qed.

  (* ---------------------------------------------------------------- *)
  (** * one step: the verified set, who it counts for                    *)

  Notation verified_file := (verified_file b64dec loads sig_ok now_s).
  Notation step_evidence := (step_evidence b64dec loads sig_ok now_s).

  Lemma Forall_Forall2_map : forall {A B} (R : A -> B -> Prop) (f : A -> B) l,
    Forall (fun x => R x (f x)) l -> Forall2 R l (map f l).
  Proof. induction 1; simpl; constructor; auto. Qed.

  Lemma link_ok_verified : forall files l s kid md,
    (exists j, lookup (link_filename (st_name s) kid) files = Some (FJson j) /\ from_dict b64dec loads j = Ok md) ->
    link_ok l (main_keys_for_subkeys l) s (kid, md) = true ->
    verified_file files l s kid md (main_of l (main_keys_for_subkeys l) s (kid, md)).
  Proof.
    intros files l s kid md [j [Hj1 Hj2]] H. unfold ThresholdSpec.link_ok, main_of in *. cbn [fst snd] in *.
    destruct (verification_key l (main_keys_for_subkeys l) s kid) as [[[vk mid]|e]|] eqn:Ev; try discriminate.
    destruct mid as [| | | |m| |]; try discriminate.
    destruct (vsig md vk) as [[]|e] eqn:Es; try discriminate.
    destruct (names_step md s) as [[|]|e] eqn:En; try discriminate.
    exists j, vk. repeat split; try assumption.
    - apply verification_key_counts. exact Ev.
    - apply vsig_carries. exact Es.
  Qed.

  Lemma step_sound : forall files l sm s used good,
    load_links_for_layout b64dec loads files l = Ok sm ->
    vsl l (main_keys_for_subkeys l) s (found_of s sm) [] [] = Ok (used, good) ->
    good = filter (link_ok l (main_keys_for_subkeys l) s) (found_of s sm) /\
    NoDup (keys good) /\
    used = map (main_of l (main_keys_for_subkeys l) s) good /\
    Forall2 (fun kv m => verified_file files l s (fst kv) (snd kv) m) good used.
  Proof.
    intros files l sm s used good Hl Hv.
    destruct (found_of_inv files l sm s Hl) as [ND Hf].
    apply vsl_filter in Hv; [|exact ND]. destruct Hv as [H1 [H2 _]].
    split; [exact H1|]. split; [subst good; apply keys_filter_NoDup; exact ND|]. split; [exact H2|].
    subst used. apply Forall_Forall2_map. apply Forall_forall. intros [kid md] Hin. cbn [fst snd].
    subst good. apply filter_In in Hin. destruct Hin as [Hin Hok].
    apply link_ok_verified; [apply Hf; exact Hin|exact Hok].
  Qed.

  Lemma Forall2_In_r' : forall {A B} (R : A -> B -> Prop) l l' y, Forall2 R l l' -> In y l' -> exists x, In x l /\ R x y.
  Proof. intros. eapply Forall2_In_r; eauto. Qed.

  Lemma step_evidence_of : forall files l s good used,
    Forall2 (fun kv m => verified_file files l s (fst kv) (snd kv) m) good used ->
    (st_threshold s <= Z.of_nat (length (dedup used)))%Z ->
    step_evidence files l s good.
  Proof.
    intros files l s good used HF Ht. exists (dedup used). split; [apply dedup_NoDup|]. split; [exact Ht|].
    intros f Hf. apply (proj1 (dedup_In _ _)) in Hf. destruct (Forall2_In_r _ _ _ _ HF Hf) as [[kid md] [Hin Hv]].
    exists kid, md. split; assumption.
  Qed.

  (* ---------------------------------------------------------------- *)
  (** * decomposition of an accepting run                               *)

  Lemma stage_pre_split : forall files a,
    stage_pre b64dec loads sig_ok now_s now_us files a =
    (do l <- pre_layout a; do sm <- load_links_for_layout b64dec loads files l; do vm <- vlst l sm; Ok (l, vm)).
  Proof.
    intros files a. unfold stage_pre, ThresholdSpec.pre_layout.
    destruct (verify_metadata_signatures sig_ok now_s (a_md a) (a_keys a)); [|reflexivity]. cbn [bind].
    destruct (get_payload (a_md a)) as [p|]; [|reflexivity]. cbn [bind].
    destruct p as [lk|l0]; [reflexivity|]. cbn [bind].
    destruct (check_expiry (ly_expires_us l0) now_us); [|reflexivity]. cbn [bind].
    destruct (a_params a); reflexivity.
  Qed.

  (** in_toto_verify on a directory is verify_body on its files, with the recursion's own results
      for the sub-directories *)
  Lemma verify_unfold : forall files subs,
    verify b64dec loads sig_ok now_s now_us exec (Dir files subs) =
    vbody files (recs_of b64dec loads sig_ok now_s now_us exec subs)
          (verify_in_missing_dir b64dec loads sig_ok now_s now_us exec).
  Proof.
    intros files subs. cbn [verify]. f_equal. unfold recs_of, vfy.
    induction subs as [|[n t] subs IH]; [reflexivity|]. cbn [map fst snd]. rewrite <- IH. reflexivity.
  Qed.

  Lemma vbody_accept_inv : forall files recs missing a sum tr,
    vbody files recs missing a = (Ok sum, tr) ->
    exists l sm vm chain reduced,
      accepted_run b64dec loads sig_ok now_s now_us exec files recs missing a sum tr l sm vm chain reduced.
  Proof.
    intros files recs missing a sum tr H. unfold verify_body in H. rewrite stage_pre_split in H.
    destruct (pre_layout a) as [l|e] eqn:E1; [|discriminate]. cbn [bind] in H.
    destruct (load_links_for_layout b64dec loads files l) as [sm|e] eqn:E2; [|discriminate]. cbn [bind] in H.
    destruct (vlst l sm) as [vm|e] eqn:E3; [|discriminate]. cbn [bind] in H.
    destruct (subs_steps recs missing l vm []) as [[chain|e] tr1] eqn:E4; [|discriminate].
    destruct (stage_mid l chain) as [reduced|e] eqn:E5; [|discriminate].
    unfold stage_mid in E5.
    destruct (verify_threshold_constraints l chain) as [[]|e] eqn:E6; [|discriminate]. cbn [bind] in E5.
    destruct (reduce_chain_links chain) as [red|e] eqn:E7; [|discriminate]. cbn [bind] in E5.
    destruct (verify_all_item_rules glob_match (step_items l) red) as [[]|e] eqn:E8; [|discriminate]. cbn [bind] in E5.
    inversion E5; subst red.
    exists l, sm, vm, chain, reduced. constructor; try assumption.
    exists tr1. split; [exact E4|exact H].
  Qed.

  (* ---------------------------------------------------------------- *)
  (** * from the verified set to the chain                              *)

  Lemma subs_links_inv : forall recs missing l sname kms tr kl tr',
    subs_links recs missing l sname kms tr = (Ok kl, tr') ->
    Forall2 (chain_link_of recs missing l sname) kms kl.
  Proof.
    induction kms as [|[kid md] kms IH]; intros tr kl tr' H; simpl in H.
    - inversion H; subst. constructor.
    - destruct (get_payload md) as [[lk|sub]|e] eqn:Ep; [| |discriminate].
      + destruct (subs_links recs missing l sname kms tr) as [[rest|e] tr1] eqn:Er; simpl in H; [|discriminate].
        inversion H; subst. constructor; [|eapply IH; exact Er].
        split; [reflexivity|]. left. exact Ep.
      + match type of H with context [match ?x with Some f => f ?a | None => missing ?a end] =>
          destruct (match x with Some f => f a | None => missing a end) as [sr str] eqn:Es end.
        destruct sr as [summary|e]; [|discriminate].
        destruct (subs_links recs missing l sname kms (tr ++ str)) as [[rest|e] tr1] eqn:Er; simpl in H; [|discriminate].
        inversion H; subst. constructor; [|eapply IH; exact Er].
        split; [reflexivity|]. right. exists sub. split; [exact Ep|]. exists str. cbn [fst snd].
        destruct (lookup (sublayout_dirname sname kid) recs); exact Es.
  Qed.

  Lemma subs_steps_inv : forall recs missing l vm tr chain tr',
    subs_steps recs missing l vm tr = (Ok chain, tr') ->
    Forall2 (fun v c => fst v = fst c /\ Forall2 (chain_link_of recs missing l (fst v)) (snd v) (snd c)) vm chain.
  Proof.
    induction vm as [|[sname kms] vm IH]; intros tr chain tr' H; simpl in H.
    - inversion H; subst. constructor.
    - destruct (subs_links recs missing l sname kms tr) as [[kl|e] tr1] eqn:E1; [|discriminate].
      destruct (subs_steps recs missing l vm tr1) as [[rest|e] tr2] eqn:E2; simpl in H; [|discriminate].
      inversion H; subst. constructor; [|eapply IH; exact E2].
      split; [reflexivity|]. cbn [fst snd]. eapply subs_links_inv. exact E1.
  Qed.

  (* ---------------------------------------------------------------- *)
  (** * C02 / C08 at the level of one layout                            *)

  Notation accepted_run := (accepted_run b64dec loads sig_ok now_s now_us exec).
  Notation mkof := main_keys_for_subkeys.

  (** everything acceptance says about the link-signature stage, step by step *)
  Definition step_facts (files : list (str * file)) (l : layout) (sm : list (str * list (str * metadata)))
             (s : step) (good : list (str * metadata)) : Prop :=
    exists used,
      good = filter (link_ok l (mkof l) s) (found_of s sm) /\
      NoDup (keys good) /\
      used = map (main_of l (mkof l) s) good /\
      Forall2 (fun kv m => verified_file files l s (fst kv) (snd kv) m) good used /\
      (st_threshold s <= Z.of_nat (length (dedup used)))%Z.

  Lemma run_step_facts : forall files l sm vm,
    load_links_for_layout b64dec loads files l = Ok sm -> vlst l sm = Ok vm ->
    Forall2 (fun s e => fst e = st_name s /\ step_facts files l sm s (snd e)) (ly_steps l) vm.
  Proof.
    intros files l sm vm Hl Hv. apply vlst_inv in Hv. eapply Forall2_impl; [|exact Hv].
    intros s e [Hn [used [Hu Ht]]]. split; [exact Hn|].
    destruct (step_sound files l sm s used (snd e) Hl Hu) as [H1 [H2 [H3 H4]]].
    exists used. repeat split; assumption.
  Qed.

  Theorem threshold_sound : forall files recs missing a sum tr,
    vbody files recs missing a = (Ok sum, tr) ->
    exists l sm vm chain reduced,
      accepted_run files recs missing a sum tr l sm vm chain reduced /\
      Forall2 (fun s e => fst e = st_name s /\ step_evidence files l s (snd e)) (ly_steps l) vm.
  Proof.
    intros files recs missing a sum tr H. apply vbody_accept_inv in H.
    destruct H as [l [sm [vm [chain [reduced R]]]]]. exists l, sm, vm, chain, reduced. split; [exact R|].
    pose proof (run_step_facts files l sm vm (ar_loaded _ _ _ _ _ _ _ _ _ _ _ _ _ _ _ _ _ R)
                               (ar_verified _ _ _ _ _ _ _ _ _ _ _ _ _ _ _ _ _ R)) as HF.
    eapply Forall2_impl; [|exact HF]. intros s e [Hn [used [_ [_ [_ [H4 H5]]]]]]. split; [exact Hn|].
    eapply step_evidence_of; eassumption.
  Qed.

  (** each verified file contributes its main key id to [used]; the count is |dedup used|:
      several files that count for one main key (a master and its subkeys, two subkeys of one
      master) are one element *)
  Theorem counts_once : forall files recs missing a sum tr,
    vbody files recs missing a = (Ok sum, tr) ->
    exists l sm vm chain reduced,
      accepted_run files recs missing a sum tr l sm vm chain reduced /\
      Forall2 (fun s e => fst e = st_name s /\ exists used,
                 Forall2 (fun kv m => verified_file files l s (fst kv) (snd kv) m) (snd e) used /\
                 NoDup (dedup used) /\ (forall m, In m (dedup used) <-> In m used) /\
                 length (dedup used) <= length (snd e) /\
                 (st_threshold s <= Z.of_nat (length (dedup used)))%Z) (ly_steps l) vm.
  Proof.
    intros files recs missing a sum tr H. apply vbody_accept_inv in H.
    destruct H as [l [sm [vm [chain [reduced R]]]]]. exists l, sm, vm, chain, reduced. split; [exact R|].
    pose proof (run_step_facts files l sm vm (ar_loaded _ _ _ _ _ _ _ _ _ _ _ _ _ _ _ _ _ R)
                               (ar_verified _ _ _ _ _ _ _ _ _ _ _ _ _ _ _ _ _ R)) as HF.
    eapply Forall2_impl; [|exact HF]. intros s e [Hn [used [_ [_ [H3 [H4 H5]]]]]]. split; [exact Hn|].
    exists used. split; [exact H4|]. split; [apply dedup_NoDup|]. split; [intro m; apply dedup_In|].
    split; [|exact H5]. pose proof (dedup_length used). subst used. rewrite map_length in *. assumption.
  Qed.

  (** only verified files are handed on: the verified set of a step is the sub-list of its loaded
      files that satisfy the verified predicate, and the chain is computed from it entry by entry *)
  Theorem never_supplies : forall files recs missing a sum tr,
    vbody files recs missing a = (Ok sum, tr) ->
    exists l sm vm chain reduced,
      accepted_run files recs missing a sum tr l sm vm chain reduced /\
      Forall2 (fun s e => fst e = st_name s /\
                 snd e = filter (link_ok l (mkof l) s) (found_of s sm) /\
                 forall kid md, In (kid, md) (snd e) -> exists m, verified_file files l s kid md m)
              (ly_steps l) vm /\
      Forall2 (fun v c => fst v = fst c /\ Forall2 (chain_link_of recs missing l (fst v)) (snd v) (snd c)) vm chain.
  Proof.
    intros files recs missing a sum tr H. apply vbody_accept_inv in H.
    destruct H as [l [sm [vm [chain [reduced R]]]]]. exists l, sm, vm, chain, reduced. split; [exact R|].
    pose proof (run_step_facts files l sm vm (ar_loaded _ _ _ _ _ _ _ _ _ _ _ _ _ _ _ _ _ R)
                               (ar_verified _ _ _ _ _ _ _ _ _ _ _ _ _ _ _ _ _ R)) as HF.
    split.
    - eapply Forall2_impl; [|exact HF]. intros s e [Hn [used [H1 [_ [_ [H4 _]]]]]]. split; [exact Hn|].
      split; [exact H1|]. intros kid md Hin.
      destruct (Forall2_In_l _ _ _ _ H4 Hin) as [m [_ Hm]]. exists m. exact Hm.
    - destruct (ar_chain _ _ _ _ _ _ _ _ _ _ _ _ _ _ _ _ _ R) as [tr1 [Hc _]].
      eapply subs_steps_inv. exact Hc.
  Qed.

  (** C08: every link in the verified set of a step names that step *)
  Theorem name_bound : forall files recs missing a sum tr,
    vbody files recs missing a = (Ok sum, tr) ->
    exists l sm vm chain reduced,
      accepted_run files recs missing a sum tr l sm vm chain reduced /\
      Forall2 (fun s e => fst e = st_name s /\
                 forall kid md lk, In (kid, md) (snd e) -> get_payload md = Ok (PLink lk) ->
                                   l_name lk = JStr (st_name s)) (ly_steps l) vm.
  Proof.
    intros files recs missing a sum tr H. apply never_supplies in H.
    destruct H as [l [sm [vm [chain [reduced [R [HF _]]]]]]]. exists l, sm, vm, chain, reduced. split; [exact R|].
    eapply Forall2_impl; [|exact HF]. intros s e [Hn [_ Hv]]. split; [exact Hn|].
    intros kid md lk Hin Hp. destruct (Hv kid md Hin) as [m [j [vk [_ [_ [_ [_ [_ Hnm]]]]]]]].
    eapply names_step_true; eassumption.
  Qed.

  (** a link recorded for another step is never in the verified set *)
  Lemma replay_not_ok : forall l mk s kid md lk,
    get_payload md = Ok (PLink lk) -> l_name lk <> JStr (st_name s) -> link_ok l mk s (kid, md) = false.
  Proof.
    intros l mk s kid md lk Hp Hn. unfold ThresholdSpec.link_ok. cbn [fst snd].
    destruct (verification_key l mk s kid) as [[[vk mid]|e]|]; try reflexivity.
    destruct mid; try reflexivity. destruct (vsig md vk) as [[]|e]; try reflexivity.
    unfold names_step. rewrite Hp. cbn [bind].
    destruct (l_name lk) as [| | | |n| |]; try reflexivity.
    destruct (eqs n (st_name s)) eqn:E; [|reflexivity]. apply eqs_eq in E. subst. congruence.
  Qed.

  (** an individually authorised subkey: the entry has no subkeys of its own, so the accepted
      signature is by exactly that key id - not by the master, not by a sibling *)
  Lemma sig_by_exact_key : forall md vk, carries_valid_sig sig_ok now_s md vk -> subkey_ids vk = [] ->
    exists sg kid, In sg (md_signatures md) /\ jstr_of (jget S_keyid vk) = Some kid /\
                   jstr_of (jget S_keyid sg) = Some kid.
  Proof.
    intros md vk [sg [msg [Hin [[kid [k [H1 [H2 H3]]]] _]]]] He. rewrite He in H3.
    destruct H3 as [->|[]]. exists sg, kid. repeat split; assumption.
  Qed.

  Lemma counts_authorised : forall l s kid vk m, counts l s kid vk m -> authorised l s kid vk.
  Proof.
    intros l s kid vk m [a H1 H2 H3 _|a H1 H2 H3 _|a mid mk0 H1 _ H3 H4 H5 _].
    - unfold store in H2. destruct (lookup a (ly_keys l)) as [k|] eqn:E; [|discriminate].
      destruct (jtruthy k); inversion H2; subst. eapply A_key; eauto.
    - unfold store in H2. destruct (lookup a (ly_keys l)) as [k|] eqn:E; [|discriminate].
      destruct (jtruthy k); inversion H2; subst. eapply A_subkey_of_master; eauto.
    - eapply A_subkey_alone; eauto.
  Qed.

  (** the same at the point of use: a chain entry that came from a link file carries the step's name *)
  Lemma chain_name_bound : forall recs missing l s good kl,
    (forall kid md lk, In (kid, md) good -> get_payload md = Ok (PLink lk) -> l_name lk = JStr (st_name s)) ->
    Forall2 (chain_link_of recs missing l (st_name s)) good kl ->
    forall kid lk, In (kid, lk) kl ->
      l_name lk = JStr (st_name s) \/
      exists md sub, In (kid, md) good /\ get_payload md = Ok (PLayout sub).
  Proof.
    intros recs missing l s good kl Hb HF kid lk Hin.
    destruct (Forall2_In_r _ _ _ _ HF Hin) as [[kid' md] [Hin' [Hk Hc]]]. cbn [fst snd] in *. subst kid'.
    destruct Hc as [Hp|[sub [Hp _]]].
    - left. eapply Hb; eassumption.
    - right. exists md, sub. split; assumption.
  Qed.
End Threshold.
