(** RecordGlob.v — the lookup of the preliminary file in the gpg branches:
    glob.escape + fnmatch + the dot filter select exactly ".<step>.<dot-free>.link-unfinished". *)
From InToto.Model Require Import Base Json Strs Utf8 Canon Glob Rules Meta Record.
From InToto.Proofs Require Import RecordFs.
From Coq Require Import Permutation.

Definition esc_tok (c : N) : tok := if is_magic c then TClass false [CSingle c] else TLit c.

Lemma parse_glob_lit : forall c f r, is_magic c = false ->
  parse_glob (S f) (c :: r) = match parse_glob f r with Some l => Some (TLit c :: l) | None => None end.
Proof.
  intros c f r H. unfold is_magic in H.
  destruct c as [|p]; [reflexivity|].
  do 7 (try (destruct p as [p|p|]; try reflexivity; try discriminate H)).
Qed.

Lemma parse_glob_magic : forall c f r, is_magic c = true ->
  parse_glob (S f) (91%N :: c :: 93%N :: r) =
  match parse_glob f r with Some l => Some (TClass false [CSingle c] :: l) | None => None end.
Proof.
  intros c f r H. unfold is_magic in H.
  apply orb_true_iff in H. destruct H as [H|H]; [apply orb_true_iff in H; destruct H as [H|H]|];
    apply N.eqb_eq in H; subst c; reflexivity.
Qed.

Lemma parse_escape : forall s f rest toks,
  (forall f', f <= f' -> parse_glob f' rest = Some toks) ->
  forall f'', length s + f <= f'' ->
  parse_glob f'' (glob_escape s ++ rest) = Some (map esc_tok s ++ toks).
Proof.
  induction s as [|c s IH]; intros f rest toks Hr f'' Hf.
  - simpl in *. apply Hr. assumption.
  - simpl length in Hf. destruct f'' as [|n]; [lia|].
    unfold glob_escape. cbn [flat_map map]. fold (glob_escape s).
    unfold esc_tok at 1. destruct (is_magic c) eqn:M.
    + cbn [app]. rewrite parse_glob_magic by assumption.
      rewrite (IH f rest toks Hr n) by lia. reflexivity.
    + cbn [app]. rewrite parse_glob_lit by assumption.
      rewrite (IH f rest toks Hr n) by lia. reflexivity.
Qed.

Definition tail_toks : list tok := TLit 46 :: TStar :: map TLit S_dot_link_unfinished.

Lemma parse_tail : forall f, 19 <= f -> parse_glob f ([46; 42]%N ++ S_dot_link_unfinished) = Some tail_toks.
Proof.
  intros f H. replace f with (19 + (f - 19)) by lia. reflexivity.
Qed.

Lemma escape_length : forall s, length s <= length (glob_escape s).
Proof.
  induction s as [|c s IH]; simpl; [lia|]. destruct (is_magic c); simpl; rewrite ?app_length; simpl; lia.
Qed.

Lemma parse_unfinished_glob : forall step,
  let pat := unfinished_glob true step in
  parse_glob (S (length pat)) pat = Some (TLit 46 :: map esc_tok step ++ tail_toks).
Proof.
  intros step pat. subst pat. unfold unfinished_glob.
  assert (M : is_magic 46 = false) by reflexivity.
  rewrite parse_glob_lit by assumption.
  rewrite (parse_escape step 19 _ tail_toks parse_tail); [reflexivity|].
  cbn [length]. rewrite !app_length. pose proof (escape_length step). simpl. lia.
Qed.

(** matching *)
Lemma gm_lit : forall l x, gm (map TLit l) x = true -> x = l.
Proof.
  induction l as [|c l IH]; intros x H; simpl in H.
  - destruct x; [reflexivity | discriminate].
  - destruct x as [|y x]; [discriminate|]. apply andb_true_iff in H. destruct H as [H1 H2].
    apply N.eqb_eq in H1. subst. f_equal. apply IH. assumption.
Qed.

Lemma gm_star_lit : forall l x, gm (TStar :: map TLit l) x = true -> exists mid, x = mid ++ l.
Proof.
  intros l. induction x as [|y x IH]; intro H; simpl in H.
  - apply orb_true_iff in H. destruct H as [H|H]; [|discriminate].
    apply gm_lit in H. exists []. assumption.
  - apply orb_true_iff in H. destruct H as [H|H].
    + apply gm_lit in H. exists []. assumption.
    + destruct (IH H) as [mid E]. exists (y :: mid). simpl. congruence.
Qed.

Lemma gm_esc : forall s toks x, gm (map esc_tok s ++ toks) x = true -> exists r, x = s ++ r /\ gm toks r = true.
Proof.
  induction s as [|c s IH]; intros toks x H; simpl in H.
  - exists x. auto.
  - unfold esc_tok in H at 1. destruct (is_magic c); simpl in H; (destruct x as [|y x]; [discriminate|]);
      apply andb_true_iff in H; destruct H as [H1 H2].
    + unfold in_class in H1. simpl in H1. destruct (N.eqb y c) eqn:Ey; [|discriminate H1]. apply N.eqb_eq in Ey. subst y.
      destruct (IH toks x H2) as [r [E G]]. exists r. simpl. split; congruence.
    + apply N.eqb_eq in H1. subst y.
      destruct (IH toks x H2) as [r [E G]]. exists r. simpl. split; congruence.
Qed.

Lemma gm_unfinished : forall step x,
  gm (TLit 46 :: map esc_tok step ++ tail_toks) x = true ->
  exists mid, x = 46%N :: step ++ 46%N :: mid ++ S_dot_link_unfinished.
Proof.
  intros step x H. simpl in H. destruct x as [|y x]; [discriminate|].
  apply andb_true_iff in H. destruct H as [H1 H2]. apply N.eqb_eq in H1. subst y.
  apply gm_esc in H2. destruct H2 as [r [E G]]. subst x.
  unfold tail_toks in G. cbn [gm] in G. destruct r as [|z r]; [discriminate|].
  apply andb_true_iff in G. destruct G as [G1 G2]. apply N.eqb_eq in G1. subst z.
  apply gm_star_lit in G2. destruct G2 as [mid E]. exists mid. subst r. reflexivity.
Qed.

(** the filter predicate of the lookup *)
Definition unf_pred (step : str) (fn : fname) : bool :=
  negb (has_sep fn) && gm (TLit 46 :: map esc_tok step ++ tail_toks) fn &&
  (negb true || negb (has_c 46 (slice_mid (length step + 2) 16 fn))).

Lemma glob_unfinished_eq : forall d step, has_sep step = false ->
  glob_unfinished d step = Ok (filter (unf_pred step) (dnames d)).
Proof.
  intros d step H. unfold glob_unfinished, glob_unfinished_gen. rewrite H.
  rewrite parse_unfinished_glob. reflexivity.
Qed.

Lemma glob_unfinished_sep : forall d step, has_sep step = true -> glob_unfinished d step = Err EUnmodelled.
Proof. intros d step H. unfold glob_unfinished, glob_unfinished_gen. rewrite H. reflexivity. Qed.

Lemma slice_mid_exact : forall a mid e, slice_mid (length a) (length e) (a ++ mid ++ e) = mid.
Proof.
  intros a mid e. unfold slice_mid. rewrite skipn_app, skipn_all, Nat.sub_diag. simpl.
  rewrite !app_length. replace (length a + (length mid + length e) - length e - length a) with (length mid) by lia.
  rewrite firstn_app, firstn_all, Nat.sub_diag. simpl. apply app_nil_r.
Qed.

(** what the lookup accepts *)
Lemma unf_pred_shape : forall step x, unf_pred step x = true ->
  exists mid, x = 46%N :: step ++ 46%N :: mid ++ S_dot_link_unfinished /\ has_c 46 mid = false.
Proof.
  intros step x H. unfold unf_pred in H.
  apply andb_true_iff in H. destruct H as [H H3]. apply andb_true_iff in H. destruct H as [H1 H2].
  destruct (gm_unfinished step x H2) as [mid E]. exists mid. split; [assumption|].
  simpl in H3. apply negb_true_iff in H3.
  replace x with ((46%N :: step ++ [46%N]) ++ mid ++ S_dot_link_unfinished) in H3
    by (subst x; simpl; rewrite <- app_assoc; reflexivity).
  replace (length step + 2) with (length (46%N :: step ++ [46%N])) in H3
    by (simpl; rewrite app_length; simpl; lia).
  change 16 with (length S_dot_link_unfinished) in H3.
  rewrite slice_mid_exact in H3. assumption.
Qed.

Lemma last_app_ne : forall (a b : str) d, b <> [] -> last (a ++ b) d = last b d.
Proof.
  induction a as [|x a IH]; intros b d H; simpl; [reflexivity|].
  destruct (a ++ b) eqn:E.
  - apply app_eq_nil in E. destruct E. contradiction.
  - rewrite <- E. apply IH. assumption.
Qed.

Lemma unf_pred_last : forall step x, unf_pred step x = true -> last x 0%N = 100%N.
Proof.
  intros step x H. destruct (unf_pred_shape step x H) as [mid [E _]]. subst x.
  replace (46%N :: step ++ 46%N :: mid ++ S_dot_link_unfinished)
    with ((46%N :: step ++ 46%N :: mid) ++ S_dot_link_unfinished)
    by (simpl; rewrite <- app_assoc; reflexivity).
  rewrite last_app_ne by discriminate. reflexivity.
Qed.

(** names *)
Lemma unfinished_name_last : forall step kid, last (unfinished_name step kid) 0%N = 100%N.
Proof.
  intros. unfold unfinished_name.
  replace (46%N :: step ++ 46%N :: kid8 kid ++ S_dot_link_unfinished)
    with ((46%N :: step ++ 46%N :: kid8 kid) ++ S_dot_link_unfinished)
    by (simpl; rewrite <- app_assoc; reflexivity).
  rewrite last_app_ne by discriminate. reflexivity.
Qed.

Lemma final_name_last : forall step kid, last (final_name step kid) 0%N = 107%N.
Proof.
  intros. unfold final_name.
  replace (step ++ 46%N :: kid8 kid ++ S_dot_link) with ((step ++ 46%N :: kid8 kid) ++ S_dot_link)
    by (rewrite <- app_assoc; reflexivity).
  rewrite last_app_ne by discriminate. reflexivity.
Qed.

Lemma final_name_ne : forall step kid, final_name step kid <> [].
Proof. intros step kid H. unfold final_name in H. apply app_eq_nil in H. destruct H; discriminate. Qed.

Lemma posix_join_cases : forall a b,
  posix_join a b = b \/ posix_join a b = a ++ b \/ posix_join a b = a ++ 47%N :: b.
Proof.
  intros a b. unfold posix_join.
  assert (G : match a with [] => b | _ :: _ => if ends_with_c 47 a then a ++ b else a ++ 47%N :: b end = b
              \/ match a with [] => b | _ :: _ => if ends_with_c 47 a then a ++ b else a ++ 47%N :: b end = a ++ b
              \/ match a with [] => b | _ :: _ => if ends_with_c 47 a then a ++ b else a ++ 47%N :: b end = a ++ 47%N :: b).
  { destruct a as [|y a]; [left; reflexivity|]. destruct (ends_with_c 47 (y :: a)); auto. }
  destruct b as [|c b]; [exact G|]. destruct c as [|p]; [exact G|].
  do 6 (try (destruct p as [p|p|]; try exact G)). left. reflexivity.
Qed.

Lemma posix_join_last : forall a b, b <> [] -> last (posix_join a b) 0%N = last b 0%N.
Proof.
  intros a b H. destruct (posix_join_cases a b) as [E|[E|E]]; rewrite E.
  - reflexivity.
  - apply last_app_ne. assumption.
  - change (a ++ 47%N :: b) with (a ++ [47%N] ++ b). rewrite app_assoc. apply last_app_ne. assumption.
Qed.

(** the decision of the lookup depends only on the SET of accepted names *)
Definition pick (l : list fname) : res fname :=
  match l with [] => Err ELinkNotFound | [u] => Ok u | _ :: _ :: _ => Err ELinkNotFound end.

Lemma pick_perm : forall l l', Permutation l l' -> pick l = pick l'.
Proof.
  intros l l' P. pose proof (Permutation_length P) as L.
  destruct l as [|a [|b l]].
  - destruct l'; [reflexivity | discriminate].
  - apply Permutation_length_1_inv in P. subst. reflexivity.
  - destruct l' as [|a' [|b' l']]; try discriminate. reflexivity.
Qed.

Definition same_view (step : str) (d d' : dirstate) : Prop :=
  forall g, unf_pred step g = true -> (dget d g = None <-> dget d' g = None).

Lemma view_perm : forall step d d', same_view step d d' ->
  Permutation (filter (unf_pred step) (dnames d)) (filter (unf_pred step) (dnames d')).
Proof.
  intros step d d' V. apply NoDup_Permutation.
  - apply NoDup_filter. apply dedup_NoDup.
  - apply NoDup_filter. apply dedup_NoDup.
  - intro x. rewrite !filter_In, !dnames_In. split; intros [H1 H2]; (split; [|assumption]);
      specialize (V x H2); tauto.
Qed.
