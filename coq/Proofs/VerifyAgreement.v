(** VerifyAgreement.v — lemmas for C05: Python dict equality on artifact maps is
    order-insensitive equality, threshold agreement, the representative link. *)
From Coq Require Import Permutation.
From InToto.Model Require Import Base Json Strs Utf8 Canon Rule Glob Rules Expiry Subst Meta Verify.
From InToto.Proofs Require Import VerifySpec ThresholdSpec VerifyThreshold.

(* ------------------------------------------------------------------ *)
(** * Python == on dicts                                                 *)

Definition dict_sub (a b : list (str * json)) : bool :=
  forallb (fun kv => match lookup (fst kv) b with Some w => py_eqb (snd kv) w | None => false end) a.

Lemma py_eqb_dict : forall a b, py_eqb (JDict a) (JDict b) = Nat.eqb (length a) (length b) && dict_sub a b.
Proof.
  intros a b. cbn [py_eqb]. f_equal. unfold dict_sub. induction a as [|[k v] a IH]; [reflexivity|].
  cbn [forallb fst snd]. rewrite <- IH. reflexivity.
Qed.

Lemma py_eqb_dict_spec : forall a b, py_eqb (JDict a) (JDict b) = true <->
  length a = length b /\ forall k v, In (k, v) a -> exists w, lookup k b = Some w /\ py_eqb v w = true.
Proof.
  intros a b. rewrite py_eqb_dict, andb_true_iff, Nat.eqb_eq. unfold dict_sub. rewrite forallb_forall.
  split; intros [H1 H2]; (split; [exact H1|]).
  - intros k v Hin. specialize (H2 (k, v) Hin). cbn [fst snd] in H2.
    destruct (lookup k b) as [w|]; [|discriminate]. exists w. split; [reflexivity|exact H2].
  - intros [k v] Hin. cbn [fst snd]. destruct (H2 k v Hin) as [w [Hw1 Hw2]]. rewrite Hw1. exact Hw2.
Qed.

(** maps with distinct keys: "same size and every entry of a found in b" is equality of the
    lookup functions up to the value relation E *)
Lemma keys_In_lookup : forall {A} k (l : list (str * A)), In k (keys l) -> exists v, lookup k l = Some v.
Proof.
  intros A k l H. destruct (lookup k l) as [v|] eqn:E; [exists v; reflexivity|].
  apply lookup_None_notin in E. contradiction.
Qed.

Lemma lookup_Some_keys : forall {A} k (l : list (str * A)) v, lookup k l = Some v -> In k (keys l).
Proof. intros A k l v H. apply lookup_In in H. eapply In_keys; exact H. Qed.

Lemma dict_eq_lookup : forall (E : json -> json -> Prop) (a b : list (str * json)),
  NoDup (keys a) -> NoDup (keys b) ->
  ((length a = length b /\ forall k v, In (k, v) a -> exists w, lookup k b = Some w /\ E v w) <->
   (forall k, match lookup k a, lookup k b with
              | Some v, Some w => E v w
              | None, None => True
              | _, _ => False
              end)).
Proof.
  intros E a b NDa NDb. split.
  - intros [Hlen Hsub] k.
    assert (Hincl : incl (keys a) (keys b)).
    { intros k' Hk'. destruct (keys_In_lookup k' a Hk') as [v Hv]. apply lookup_In in Hv.
      destruct (Hsub k' v Hv) as [w [Hw _]]. eapply lookup_Some_keys; exact Hw. }
    assert (Hincl' : incl (keys b) (keys a)).
    { apply NoDup_length_incl; [exact NDa| |exact Hincl]. unfold keys. rewrite !map_length. lia. }
    destruct (lookup k a) as [v|] eqn:Ea.
    + apply lookup_In in Ea. destruct (Hsub k v Ea) as [w [Hw1 Hw2]]. rewrite Hw1. exact Hw2.
    + destruct (lookup k b) as [w|] eqn:Eb; [|exact I].
      apply lookup_None_notin in Ea. apply Ea. apply Hincl'. eapply lookup_Some_keys; exact Eb.
  - intro H. split.
    + assert (H1 : incl (keys a) (keys b)).
      { intros k Hk. destruct (keys_In_lookup k a Hk) as [v Hv]. specialize (H k). rewrite Hv in H.
        destruct (lookup k b) as [w|] eqn:Eb; [|contradiction]. eapply lookup_Some_keys; exact Eb. }
      assert (H2 : incl (keys b) (keys a)).
      { intros k Hk. destruct (keys_In_lookup k b Hk) as [v Hv]. specialize (H k). rewrite Hv in H.
        destruct (lookup k a) as [w|] eqn:Ea; [|contradiction]. eapply lookup_Some_keys; exact Ea. }
      pose proof (NoDup_incl_length NDa H1). pose proof (NoDup_incl_length NDb H2).
      unfold keys in *. rewrite !map_length in *. lia.
    + intros k v Hin. apply In_lookup_nodup in Hin; [|exact NDa]. specialize (H k). rewrite Hin in H.
      destruct (lookup k b) as [w|]; [|contradiction]. exists w. split; [reflexivity|exact H].
Qed.

(* ------------------------------------------------------------------ *)
(** * artifact maps                                                      *)

Lemma wf_hashrec_lookup : forall h alg v, Forall (fun kv => exists d, snd kv = JStr d) h ->
  lookup alg h = Some v -> exists d, v = JStr d.
Proof.
  intros h alg v HF H. apply lookup_In in H. rewrite Forall_forall in HF. apply (HF (alg, v)). exact H.
Qed.

Lemma hashrec_eqb_spec : forall v w, wf_hashrec v -> wf_hashrec w ->
  (py_eqb v w = true <-> same_hashrec v w).
Proof.
  intros v w [h1 [-> [ND1 HF1]]] [h2 [-> [ND2 HF2]]]. cbn [same_hashrec].
  rewrite py_eqb_dict_spec. rewrite (dict_eq_lookup (fun v w => py_eqb v w = true) h1 h2 ND1 ND2).
  split; intros H alg; specialize (H alg).
  - destruct (lookup alg h1) as [x|] eqn:E1; destruct (lookup alg h2) as [y|] eqn:E2; try contradiction; [|reflexivity].
    destruct (wf_hashrec_lookup _ _ _ HF1 E1) as [d1 ->]. destruct (wf_hashrec_lookup _ _ _ HF2 E2) as [d2 ->].
    cbn [py_eqb] in H. apply eqs_eq in H. subst. reflexivity.
  - destruct (lookup alg h1) as [x|] eqn:E1; rewrite <- H; [|exact I].
    destruct (wf_hashrec_lookup _ _ _ HF1 E1) as [d1 ->]. cbn [py_eqb]. apply eqs_refl.
Qed.

Lemma wf_amap_lookup : forall a p v, wf_amap a -> lookup p a = Some v -> wf_hashrec v.
Proof.
  intros a p v [_ HF] H. apply lookup_In in H. rewrite Forall_forall in HF. apply (HF (p, v)). exact H.
Qed.

(** the comparison of verify_threshold_constraints on one artifact map is equality as maps *)
Theorem amap_eqb_spec : forall a b, wf_amap a -> wf_amap b -> (amap_eqb a b = true <-> same_artifacts a b).
Proof.
  intros a b Wa Wb. unfold amap_eqb, same_artifacts. rewrite py_eqb_dict_spec.
  rewrite (dict_eq_lookup (fun v w => py_eqb v w = true) a b (proj1 Wa) (proj1 Wb)).
  split; intros H p; specialize (H p);
    destruct (lookup p a) as [v|] eqn:Ea; destruct (lookup p b) as [w|] eqn:Eb; try contradiction; try exact I.
  - apply (proj1 (hashrec_eqb_spec v w (wf_amap_lookup _ _ _ Wa Ea) (wf_amap_lookup _ _ _ Wb Eb))). exact H.
  - apply (proj2 (hashrec_eqb_spec v w (wf_amap_lookup _ _ _ Wa Ea) (wf_amap_lookup _ _ _ Wb Eb))). exact H.
Qed.

(** storage order is irrelevant *)
Lemma lookup_perm : forall {A} (a b : list (str * A)) k, NoDup (keys a) -> Permutation a b -> lookup k a = lookup k b.
Proof.
  intros A a b k ND HP.
  assert (NDb : NoDup (keys b)) by (eapply Permutation_NoDup; [apply Permutation_map; exact HP|exact ND]).
  destruct (lookup k a) as [v|] eqn:Ea.
  - apply lookup_In in Ea. symmetry. apply In_lookup_nodup; [exact NDb|]. eapply Permutation_in; eassumption.
  - destruct (lookup k b) as [w|] eqn:Eb; [|reflexivity].
    apply lookup_In in Eb. apply lookup_None_notin in Ea. exfalso. apply Ea.
    apply (In_keys k w). eapply Permutation_in; [apply Permutation_sym; exact HP|exact Eb].
Qed.

Lemma same_hashrec_refl : forall v, wf_hashrec v -> same_hashrec v v.
Proof. intros v [h [-> _]]. cbn. reflexivity. Qed.
Lemma same_hashrec_sym : forall v w, same_hashrec v w -> same_hashrec w v.
Proof. intros [] []; cbn; try tauto. intros H alg. symmetry. apply H. Qed.
Lemma same_hashrec_trans : forall u v w, same_hashrec u v -> same_hashrec v w -> same_hashrec u w.
Proof. intros [] [] []; cbn; try tauto. intros H1 H2 alg. rewrite H1. apply H2. Qed.

Lemma same_artifacts_refl : forall a, wf_amap a -> same_artifacts a a.
Proof.
  intros a W p. destruct (lookup p a) as [v|] eqn:E; [|exact I].
  apply same_hashrec_refl. eapply wf_amap_lookup; eassumption.
Qed.
Lemma same_artifacts_sym : forall a b, same_artifacts a b -> same_artifacts b a.
Proof.
  intros a b H p. specialize (H p). destruct (lookup p a), (lookup p b); try tauto. apply same_hashrec_sym. exact H.
Qed.
Lemma same_artifacts_trans : forall a b c, same_artifacts a b -> same_artifacts b c -> same_artifacts a c.
Proof.
  intros a b c H1 H2 p. specialize (H1 p). specialize (H2 p).
  destruct (lookup p a), (lookup p b), (lookup p c); try tauto. eapply same_hashrec_trans; eassumption.
Qed.

Theorem amap_eqb_perm : forall a a' b, wf_amap a -> wf_amap a' -> wf_amap b -> Permutation a a' ->
  amap_eqb a b = amap_eqb a' b.
Proof.
  intros a a' b Wa Wa' Wb HP.
  assert (HS : same_artifacts a a').
  { intro p. rewrite <- (lookup_perm a a' p (proj1 Wa) HP). apply same_artifacts_refl. exact Wa. }
  destruct (amap_eqb a b) eqn:E1; destruct (amap_eqb a' b) eqn:E2; try reflexivity.
  - apply amap_eqb_spec in E1; try assumption.
    assert (amap_eqb a' b = true) by (apply amap_eqb_spec; try assumption;
      eapply same_artifacts_trans; [apply same_artifacts_sym; exact HS|exact E1]). congruence.
  - apply amap_eqb_spec in E2; try assumption.
    assert (amap_eqb a b = true) by (apply amap_eqb_spec; try assumption;
      eapply same_artifacts_trans; [exact HS|exact E2]). congruence.
Qed.

(** [agrees] on well-formed links: an equivalence *)
Lemma agrees_spec : forall x y, wf_link x -> wf_link y ->
  (agrees x y = true <-> same_artifacts (l_materials x) (l_materials y) /\ same_artifacts (l_products x) (l_products y)).
Proof.
  intros x y [Wx1 Wx2] [Wy1 Wy2]. unfold agrees. rewrite andb_true_iff.
  rewrite (amap_eqb_spec _ _ Wx1 Wy1), (amap_eqb_spec _ _ Wx2 Wy2). reflexivity.
Qed.

Lemma agrees_refl : forall x, wf_link x -> agrees x x = true.
Proof. intros x W. apply agrees_spec; try assumption. destruct W. split; apply same_artifacts_refl; assumption. Qed.
Lemma agrees_sym : forall x y, wf_link x -> wf_link y -> agrees x y = true -> agrees y x = true.
Proof.
  intros x y Wx Wy H. apply agrees_spec in H; try assumption. apply agrees_spec; try assumption.
  destruct H. split; apply same_artifacts_sym; assumption.
Qed.
Lemma agrees_trans : forall x y z, wf_link x -> wf_link y -> wf_link z ->
  agrees x y = true -> agrees y z = true -> agrees x z = true.
Proof.
  intros x y z Wx Wy Wz H1 H2. apply agrees_spec in H1; try assumption. apply agrees_spec in H2; try assumption.
  apply agrees_spec; try assumption. destruct H1, H2. split; eapply same_artifacts_trans; eassumption.
Qed.

(* ------------------------------------------------------------------ *)
(** * verify_threshold_constraints, step by step                        *)

Definition step_check (chain : list (str * list (str * link))) (s : step) : res unit :=
  match lookup (st_name s) chain with
  | None => if (st_threshold s <=? 1)%Z then Ok tt else Err EKeyError
  | Some kl => step_agreement s kl
  end.

Lemma vtc_steps : forall l chain,
  verify_threshold_constraints l chain = (do _ <- mapM (step_check chain) (ly_steps l); Ok tt).
Proof.
  intros l chain. unfold verify_threshold_constraints. f_equal. apply mapM_ext_in. intros s _.
  unfold step_check, step_agreement, agrees.
  destruct (st_threshold s <=? 1)%Z; [destruct (lookup (st_name s) chain); reflexivity|].
  destruct (lookup (st_name s) chain) as [kl|]; [|reflexivity].
  destruct (Z.of_nat (length kl) <? st_threshold s)%Z; [reflexivity|].
  destruct kl as [|[k ref] kl]; reflexivity.
Qed.

Lemma step_agreement_cases : forall s kl, step_agreement s kl = Ok tt \/ step_agreement s kl = Err EThreshold.
Proof.
  intros s kl. unfold step_agreement. destruct (st_threshold s <=? 1)%Z eqn:E1; [left; reflexivity|].
  destruct (Z.of_nat (length kl) <? st_threshold s)%Z eqn:E2; [right; reflexivity|].
  destruct kl as [|[k ref] kl].
  - simpl in E2. apply Z.leb_gt in E1. apply Z.ltb_ge in E2. lia.
  - destruct (forallb _ _); [left|right]; reflexivity.
Qed.

Lemma step_agreement_ok : forall s kl, step_agreement s kl = Ok tt -> (1 < st_threshold s)%Z ->
  exists k0 ref rest, kl = (k0, ref) :: rest /\ (st_threshold s <= Z.of_nat (length kl))%Z /\
    forall k lk, In (k, lk) kl -> agrees ref lk = true.
Proof.
  intros s kl H Ht. unfold step_agreement in H.
  destruct (st_threshold s <=? 1)%Z eqn:E1; [apply Z.leb_le in E1; lia|].
  destruct (Z.of_nat (length kl) <? st_threshold s)%Z eqn:E2; [discriminate|].
  destruct kl as [|[k0 ref] rest]; [discriminate|].
  destruct (forallb (fun kv => agrees ref (snd kv)) ((k0, ref) :: rest)) eqn:E3; [|discriminate].
  exists k0, ref, rest. split; [reflexivity|]. split; [apply Z.ltb_ge in E2; exact E2|].
  intros k lk Hin. rewrite forallb_forall in E3. apply (E3 (k, lk)). exact Hin.
Qed.

Lemma step_agreement_dissent : forall s k0 ref rest k lk, (1 < st_threshold s)%Z ->
  In (k, lk) ((k0, ref) :: rest) -> agrees ref lk = false ->
  step_agreement s ((k0, ref) :: rest) = Err EThreshold.
Proof.
  intros s k0 ref rest k lk Ht Hin Hd. unfold step_agreement.
  destruct (st_threshold s <=? 1)%Z eqn:E1; [apply Z.leb_le in E1; lia|].
  destruct (Z.of_nat (length ((k0, ref) :: rest)) <? st_threshold s)%Z; [reflexivity|].
  destruct (forallb (fun kv => agrees ref (snd kv)) ((k0, ref) :: rest)) eqn:E3; [|reflexivity].
  rewrite forallb_forall in E3. specialize (E3 (k, lk) Hin). cbn [snd] in E3. congruence.
Qed.

Lemma step_agreement_thr1 : forall s kl, (st_threshold s <= 1)%Z -> step_agreement s kl = Ok tt.
Proof. intros s kl H. unfold step_agreement. apply Z.leb_le in H. rewrite H. reflexivity. Qed.

Lemma mapM_unit_ok : forall {A} (f : A -> res unit) l, (forall x, In x l -> f x = Ok tt) ->
  exists us, mapM f l = Ok us.
Proof.
  induction l as [|x l IH]; intro H; simpl; [eexists; reflexivity|].
  rewrite H by (left; reflexivity). cbn [bind]. destruct IH as [us Hus]; [intros; apply H; right; assumption|].
  rewrite Hus. eexists; reflexivity.
Qed.

Lemma mapM_unit_err : forall {A} (f : A -> res unit) l e,
  (forall x, In x l -> f x = Ok tt \/ f x = Err e) -> (exists x, In x l /\ f x = Err e) ->
  mapM f l = Err e.
Proof.
  induction l as [|x l IH]; intros e H [y [Hy He]]; [contradiction|]. simpl.
  destruct (H x (or_introl eq_refl)) as [Hx|Hx]; rewrite Hx; cbn [bind]; [|reflexivity].
  destruct Hy as [->|Hy]; [congruence|].
  rewrite (IH e); [reflexivity|intros; apply H; right; assumption|exists y; split; assumption].
Qed.

Theorem agreement : forall l chain, verify_threshold_constraints l chain = Ok tt ->
  forall s, In s (ly_steps l) -> (1 < st_threshold s)%Z ->
  exists kl k0 ref rest, lookup (st_name s) chain = Some kl /\ kl = (k0, ref) :: rest /\
    (st_threshold s <= Z.of_nat (length kl))%Z /\ forall k lk, In (k, lk) kl -> agrees ref lk = true.
Proof.
  intros l chain H s Hs Ht. rewrite vtc_steps in H.
  destruct (mapM (step_check chain) (ly_steps l)) as [us|e] eqn:E; [|discriminate].
  apply mapM_Forall2 in E. destruct (Forall2_In_l _ _ _ _ E Hs) as [u [_ Hu]].
  unfold step_check in Hu. destruct (lookup (st_name s) chain) as [kl|] eqn:El.
  - destruct u. destruct (step_agreement_ok s kl Hu Ht) as [k0 [ref [rest [H1 [H2 H3]]]]].
    exists kl, k0, ref, rest. repeat split; assumption.
  - destruct (st_threshold s <=? 1)%Z eqn:E1; [apply Z.leb_le in E1; lia|discriminate].
Qed.

(** any disagreement among the links of a threshold>1 step rejects (the code is stricter than the
    property: it does not look for an agreeing sub-group of threshold size) *)
Theorem dissent_rejects : forall l chain,
  (forall s, In s (ly_steps l) -> lookup (st_name s) chain <> None) ->
  forall s k0 ref rest k lk, In s (ly_steps l) -> (1 < st_threshold s)%Z ->
    lookup (st_name s) chain = Some ((k0, ref) :: rest) -> In (k, lk) ((k0, ref) :: rest) ->
    agrees ref lk = false ->
    verify_threshold_constraints l chain = Err EThreshold.
Proof.
  intros l chain Hall s k0 ref rest k lk Hs Ht Hl Hin Hd. rewrite vtc_steps.
  rewrite (mapM_unit_err (step_check chain) (ly_steps l) EThreshold); [reflexivity| |].
  - intros s' Hs'. unfold step_check. specialize (Hall s' Hs').
    destruct (lookup (st_name s') chain) as [kl|]; [apply step_agreement_cases|congruence].
  - exists s. split; [exact Hs|]. unfold step_check. rewrite Hl. eapply step_agreement_dissent; eassumption.
Qed.

(* ------------------------------------------------------------------ *)
(** * the representative                                                 *)

Lemma reduce_inv : forall chain reduced, reduce_chain_links chain = Ok reduced ->
  Forall2 (fun c r => fst c = fst r /\ exists k rest, snd c = (k, snd r) :: rest) chain reduced.
Proof.
  intros chain reduced H. unfold reduce_chain_links in H. apply mapM_Forall2 in H.
  eapply Forall2_impl; [|exact H]. intros [n kl] r Hr. cbn [fst snd] in *.
  destruct kl as [|[k lk] rest]; [discriminate|]. inversion Hr; subst. cbn [fst snd].
  split; [reflexivity|]. exists k, rest. reflexivity.
Qed.

Lemma reduce_lookup : forall chain reduced n kl, reduce_chain_links chain = Ok reduced ->
  lookup n chain = Some kl -> exists k ref rest, kl = (k, ref) :: rest /\ lookup n reduced = Some ref.
Proof.
  intros chain reduced n kl H Hl. apply reduce_inv in H.
  destruct (Forall2_lookup (fun kl r => exists k rest, kl = (k, r) :: rest) chain reduced n kl H Hl) as [ref [H1 [k [rest H2]]]].
  exists k, ref, rest. split; assumption.
Qed.

(* ------------------------------------------------------------------ *)
(** * independence of the dissenter's position                          *)

Definition agree_all (kl : list (str * link)) : bool :=
  match kl with
  | [] => true
  | (_, ref) :: _ => forallb (fun kv => agrees ref (snd kv)) kl
  end.

Lemma agree_all_pairwise : forall kl, Forall (fun kv => wf_link (snd kv)) kl ->
  (agree_all kl = true <-> forall x y, In x kl -> In y kl -> agrees (snd x) (snd y) = true).
Proof.
  intros kl W. rewrite Forall_forall in W. destruct kl as [|[k0 ref] rest]; [split; [intros _ ? ? []|reflexivity]|].
  cbn [agree_all]. rewrite forallb_forall. split.
  - intros H x y Hx Hy. pose proof (H x Hx) as Hx'. pose proof (H y Hy) as Hy'.
    assert (Wr : wf_link ref) by (apply (W (k0, ref)); left; reflexivity).
    eapply agrees_trans; [apply W; exact Hx|exact Wr|apply W; exact Hy| |exact Hy'].
    apply agrees_sym; [exact Wr|apply W; exact Hx|exact Hx'].
  - intros H x Hx. apply (H (k0, ref) x); [left; reflexivity|exact Hx].
Qed.

Lemma agree_all_perm : forall kl kl', Forall (fun kv => wf_link (snd kv)) kl -> Permutation kl kl' ->
  agree_all kl = agree_all kl'.
Proof.
  intros kl kl' W HP.
  assert (W' : Forall (fun kv => wf_link (snd kv)) kl').
  { rewrite Forall_forall in *. intros x Hx. apply W. eapply Permutation_in; [apply Permutation_sym; exact HP|exact Hx]. }
  destruct (agree_all kl) eqn:E1; destruct (agree_all kl') eqn:E2; try reflexivity.
  - rewrite (agree_all_pairwise kl W) in E1.
    assert (agree_all kl' = true).
    { apply (agree_all_pairwise kl' W'). intros x y Hx Hy.
      apply E1; eapply Permutation_in; try (apply Permutation_sym; exact HP); assumption. }
    congruence.
  - rewrite (agree_all_pairwise kl' W') in E2.
    assert (agree_all kl = true).
    { apply (agree_all_pairwise kl W). intros x y Hx Hy. apply E2; eapply Permutation_in; eassumption. }
    congruence.
Qed.

Lemma step_agreement_agree_all : forall s kl, step_agreement s kl =
  if (st_threshold s <=? 1)%Z then Ok tt else
  if (Z.of_nat (length kl) <? st_threshold s)%Z then Err EThreshold else
  match kl with [] => Err EIndexError | _ => if agree_all kl then Ok tt else Err EThreshold end.
Proof. intros s kl. unfold step_agreement. destruct kl as [|[k ref] rest]; reflexivity. Qed.

(** the verdict on a step does not depend on the order in which its links were loaded *)
Theorem step_agreement_perm : forall s kl kl', Forall (fun kv => wf_link (snd kv)) kl -> Permutation kl kl' ->
  step_agreement s kl = step_agreement s kl'.
Proof.
  intros s kl kl' W HP. rewrite !step_agreement_agree_all.
  rewrite (Permutation_length HP). rewrite (agree_all_perm kl kl' W HP).
  destruct kl as [|x kl]; destruct kl' as [|y kl']; try reflexivity.
  - apply Permutation_nil in HP. discriminate.
  - apply Permutation_sym in HP. apply Permutation_nil in HP. discriminate.
Qed.

Theorem vtc_perm : forall l chain chain',
  Forall2 (fun c c' => fst c = fst c' /\ Permutation (snd c) (snd c')) chain chain' ->
  Forall (fun c => Forall (fun kv => wf_link (snd kv)) (snd c)) chain ->
  verify_threshold_constraints l chain = verify_threshold_constraints l chain'.
Proof.
  intros l chain chain' HF W. rewrite !vtc_steps. f_equal. apply mapM_ext_in. intros s _. unfold step_check.
  destruct (lookup (st_name s) chain) as [kl|] eqn:E.
  - destruct (Forall2_lookup (fun a b => Permutation a b) chain chain' _ _ HF E) as [kl' [E' HP]]. rewrite E'.
    apply step_agreement_perm; [|exact HP]. rewrite Forall_forall in W. apply lookup_In in E. apply (W _ E).
  - rewrite (Forall2_lookup_None (fun a b => Permutation a b) chain chain' _ HF E). reflexivity.
Qed.

(* ------------------------------------------------------------------ *)
(** * C05 for an accepting run of one layout                            *)

Section Agreement.
  Variable b64dec : str -> option (list N).
  Variable loads : list N -> option json.
  Variable sig_ok : str -> list N -> str -> bool.
  Variable now_s : Z.
  Variable now_us : Z.
  Variable exec : list json -> exec_result.

  Notation vbody := (verify_body b64dec loads sig_ok now_s now_us exec).
  Notation accepted_run := (accepted_run b64dec loads sig_ok now_s now_us exec).
  Notation verified_file := (verified_file b64dec loads sig_ok now_s).
  Notation step_facts := (step_facts b64dec loads sig_ok now_s).

  Lemma run_facts : forall files recs missing a sum tr l sm vm chain reduced,
    accepted_run files recs missing a sum tr l sm vm chain reduced ->
    Forall2 (fun s e => fst e = st_name s /\ step_facts files l sm s (snd e)) (ly_steps l) vm /\
    Forall2 (fun v c => fst v = fst c /\ Forall2 (chain_link_of recs missing l (fst v)) (snd v) (snd c)) vm chain.
  Proof.
    intros files recs missing a sum tr l sm vm chain reduced R. split.
    - apply run_step_facts; [exact (ar_loaded _ _ _ _ _ _ _ _ _ _ _ _ _ _ _ _ _ R)|exact (ar_verified _ _ _ _ _ _ _ _ _ _ _ _ _ _ _ _ _ R)].
    - destruct (ar_chain _ _ _ _ _ _ _ _ _ _ _ _ _ _ _ _ _ R) as [tr1 [Hc _]]. eapply subs_steps_inv. exact Hc.
  Qed.

  (** what every consumer sees for a step: verified set -> chain entry -> representative *)
  Definition step_view (recs : list (str * (args -> result))) (missing : args -> result) (l : layout)
             (vm : list (str * list (str * metadata))) (chain : list (str * list (str * link))) (reduced : links)
             (s : step) (good : list (str * metadata)) (kl : list (str * link)) (ref : link) : Prop :=
    lookup (st_name s) vm = Some good /\
    lookup (st_name s) chain = Some kl /\
    Forall2 (chain_link_of recs missing l (st_name s)) good kl /\
    (exists k0 rest, kl = (k0, ref) :: rest) /\
    lookup (st_name s) reduced = Some ref.

  Lemma run_view : forall files recs missing a sum tr l sm vm chain reduced,
    accepted_run files recs missing a sum tr l sm vm chain reduced ->
    forall s, In s (ly_steps l) ->
    exists s' good kl ref, In s' (ly_steps l) /\ st_name s' = st_name s /\
      step_facts files l sm s' good /\ step_view recs missing l vm chain reduced s good kl ref /\
      (NoDup (map st_name (ly_steps l)) -> s' = s).
  Proof.
    intros files recs missing a sum tr l sm vm chain reduced R s Hs.
    destruct (run_facts _ _ _ _ _ _ _ _ _ _ _ R) as [HF HC].
    destruct (Forall2_key_lookup_first st_name _ _ _ s HF Hs) as [s' [good [Hs' [Hn [Hl Hf]]]]].
    destruct (Forall2_lookup_k (fun n g kl => Forall2 (chain_link_of recs missing l n) g kl) vm chain _ _ HC Hl)
      as [kl [Hkl Hcl]].
    destruct (reduce_lookup chain reduced _ _ (ar_reduced _ _ _ _ _ _ _ _ _ _ _ _ _ _ _ _ _ R) Hkl) as [k0 [ref [rest [Hk Hr]]]].
    exists s', good, kl, ref. split; [exact Hs'|]. split; [exact Hn|]. split; [exact Hf|].
    split; [repeat split; try assumption; exists k0, rest; exact Hk|].
    intro ND. destruct (Forall2_key_lookup st_name _ _ _ s HF ND Hs) as [g [Hg _]].
    (* two steps with one name in a duplicate-free name list are the same step *)
    clear -ND Hs Hs' Hn. induction (ly_steps l) as [|x xs IH]; [contradiction|].
    simpl in ND. inversion ND as [|z zs Hz ND']; subst.
    destruct Hs as [->|Hs]; destruct Hs' as [->|Hs'']; auto.
    - exfalso. apply Hz. rewrite <- Hn. apply in_map. exact Hs''.
    - exfalso. apply Hz. rewrite Hn. apply in_map. exact Hs.
  Qed.

  Theorem run_agreement : forall files recs missing a sum tr,
    vbody files recs missing a = (Ok sum, tr) ->
    exists l sm vm chain reduced,
      accepted_run files recs missing a sum tr l sm vm chain reduced /\
      forall s, In s (ly_steps l) ->
        exists good kl ref, step_view recs missing l vm chain reduced s good kl ref /\
          ((1 < st_threshold s)%Z ->
           (st_threshold s <= Z.of_nat (length kl))%Z /\ forall k lk, In (k, lk) kl -> agrees ref lk = true).
  Proof.
    intros files recs missing a sum tr H. apply vbody_accept_inv in H.
    destruct H as [l [sm [vm [chain [reduced R]]]]]. exists l, sm, vm, chain, reduced. split; [exact R|].
    intros s Hs. destruct (run_view _ _ _ _ _ _ _ _ _ _ _ R s Hs) as [s' [good [kl [ref [_ [_ [_ [Hv _]]]]]]]].
    exists good, kl, ref. split; [exact Hv|]. intro Ht.
    destruct (agreement l chain (ar_agree _ _ _ _ _ _ _ _ _ _ _ _ _ _ _ _ _ R) s Hs Ht) as [kl' [k0 [ref' [rest [H1 [H2 [H3 H4]]]]]]].
    destruct Hv as [_ [Hkl [_ [[k1 [rest1 Hk1]] _]]]]. rewrite Hkl in H1. injection H1 as <-.
    rewrite Hk1 in H2. injection H2 as E1 E2 E3. subst k0 ref' rest. split; [exact H3|exact H4].
  Qed.

  (** C02 + C05: at least threshold distinct functionaries each supplied a verified file whose
      artifacts (after sublayout summarisation) equal those of the representative every rule sees *)
  Theorem run_attested : forall files recs missing a sum tr,
    vbody files recs missing a = (Ok sum, tr) ->
    exists l sm vm chain reduced,
      accepted_run files recs missing a sum tr l sm vm chain reduced /\
      (NoDup (map st_name (ly_steps l)) ->
       forall s, In s (ly_steps l) -> (1 < st_threshold s)%Z ->
       exists ref F, lookup (st_name s) reduced = Some ref /\ NoDup F /\ (st_threshold s <= Z.of_nat (length F))%Z /\
         forall f, In f F -> exists kid md lk,
           verified_file files l s kid md f /\ chain_link_of recs missing l (st_name s) (kid, md) (kid, lk) /\
           agrees ref lk = true).
  Proof.
    intros files recs missing a sum tr H. apply vbody_accept_inv in H.
    destruct H as [l [sm [vm [chain [reduced R]]]]]. exists l, sm, vm, chain, reduced. split; [exact R|].
    intros ND s Hs Ht.
    destruct (run_view _ _ _ _ _ _ _ _ _ _ _ R s Hs) as [s' [good [kl [ref [_ [_ [Hf [Hv Heq]]]]]]]].
    specialize (Heq ND). subst s'.
    destruct (agreement l chain (ar_agree _ _ _ _ _ _ _ _ _ _ _ _ _ _ _ _ _ R) s Hs Ht) as [kl' [k0 [ref' [rest [H1 [H2 [H3 H4]]]]]]].
    destruct Hv as [_ [Hkl [Hcl [[k1 [rest1 Hk1]] Hred]]]]. rewrite Hkl in H1. injection H1 as <-.
    rewrite Hk1 in H2. injection H2 as E1 E2 E3. subst k0 ref' rest.
    destruct Hf as [used [_ [_ [_ [HF2 Hthr]]]]].
    exists ref, (dedup used). split; [exact Hred|]. split; [apply dedup_NoDup|]. split; [exact Hthr|].
    intros f Hf. apply (proj1 (dedup_In _ _)) in Hf.
    destruct (Forall2_In_r _ _ _ _ HF2 Hf) as [[kid md] [Hin Hver]]. cbn [fst snd] in Hver.
    destruct (Forall2_In_l _ _ _ _ Hcl Hin) as [[kid' lk] [Hin' Hc]].
    assert (kid' = kid) by (destruct Hc as [Hc _]; exact Hc). subst kid'.
    exists kid, md, lk. split; [exact Hver|]. split; [exact Hc|]. apply (H4 kid lk). exact Hin'.
  Qed.

  (** disagreement among the links of a threshold>1 step: ThresholdVerificationError *)
  Theorem run_dissent_rejects : forall files recs missing a l vm chain tr1,
    stage_pre b64dec loads sig_ok now_s now_us files a = Ok (l, vm) ->
    subs_steps recs missing l vm [] = (Ok chain, tr1) ->
    forall s k0 ref rest k lk, In s (ly_steps l) -> (1 < st_threshold s)%Z ->
      lookup (st_name s) chain = Some ((k0, ref) :: rest) -> In (k, lk) ((k0, ref) :: rest) ->
      agrees ref lk = false ->
      vbody files recs missing a = (Err EThreshold, tr1).
  Proof.
    intros files recs missing a l vm chain tr1 Hp Hc s k0 ref rest k lk Hs Ht Hl Hin Hd.
    unfold verify_body. rewrite Hp, Hc. unfold stage_mid.
    rewrite (dissent_rejects l chain) with (s := s) (k0 := k0) (ref := ref) (rest := rest) (k := k) (lk := lk);
      try assumption; [reflexivity|].
    (* every step name is present in the chain *)
    intros s' Hs'. rewrite stage_pre_split in Hp.
    destruct (ThresholdSpec.pre_layout sig_ok now_s now_us a) as [l'|] eqn:E1; [|discriminate]. cbn [bind] in Hp.
    destruct (load_links_for_layout b64dec loads files l') as [sm|] eqn:E2; [|discriminate]. cbn [bind] in Hp.
    destruct (verify_link_signature_thresholds sig_ok now_s l' sm) as [vm'|] eqn:E3; [|discriminate]. cbn [bind] in Hp.
    inversion Hp; subst l' vm'.
    pose proof (run_step_facts b64dec loads sig_ok now_s files l sm vm E2 E3) as HF.
    destruct (Forall2_key_lookup_first st_name _ _ _ s' HF Hs') as [s'' [good [_ [_ [Hlk _]]]]].
    apply subs_steps_inv in Hc.
    destruct (Forall2_lookup_k (fun n g kl => Forall2 (chain_link_of recs missing l n) g kl) vm chain _ _ Hc Hlk) as [kl [Hkl _]].
    congruence.
  Qed.

  (** threshold <= 1: no comparison takes place; the representative is the (summary of the) first
      verified file in load order whatever the others say *)
  Theorem run_threshold_one : forall files recs missing a sum tr,
    vbody files recs missing a = (Ok sum, tr) ->
    exists l sm vm chain reduced,
      accepted_run files recs missing a sum tr l sm vm chain reduced /\
      forall s, In s (ly_steps l) ->
        exists good kl ref kid md rest, step_view recs missing l vm chain reduced s good kl ref /\
          good = (kid, md) :: rest /\ chain_link_of recs missing l (st_name s) (kid, md) (kid, ref).
  Proof.
    intros files recs missing a sum tr H. apply vbody_accept_inv in H.
    destruct H as [l [sm [vm [chain [reduced R]]]]]. exists l, sm, vm, chain, reduced. split; [exact R|].
    intros s Hs. destruct (run_view _ _ _ _ _ _ _ _ _ _ _ R s Hs) as [s' [good [kl [ref [_ [_ [_ [Hv _]]]]]]]].
    pose proof Hv as [_ [_ [Hcl [[k0 [rest Hk]] _]]]]. subst kl.
    inversion Hcl as [|[kid md] y good' kl' Hc Hrest]; subst.
    assert (k0 = kid) by (destruct Hc as [Hc _]; exact Hc). subst k0.
    exists ((kid, md) :: good'), ((kid, ref) :: rest), ref, kid, md, good'. split; [exact Hv|]. split; [reflexivity|exact Hc].
  Qed.
End Agreement.
