(** RecordFs.v — the file-system layer of Model/Record.v: directory maps, operation lists,
    crash prefixes (used by RecordProofs.v). *)
From InToto.Model Require Import Base Json Strs Utf8 Canon Glob Rules Meta Record.
From Coq Require Import Permutation.

Lemma bind_ok' : forall (A B : Type) (r : res A) (f : A -> res B) b,
  bind r f = Ok b -> exists a, r = Ok a /\ f a = Ok b.
Proof. intros A B [a|e] f b H; simpl in H; [exists a; auto | discriminate]. Qed.

Ltac inv_bind H :=
  let a := fresh "x" in let H1 := fresh "E" in
  apply bind_ok' in H; destruct H as [a [H1 H]].

(* ------------------------------------------------------------------ *)
(** * dget / dset / drem                                                 *)

Lemma dget_drem_same : forall d f, dget (drem d f) f = None.
Proof.
  induction d as [|[g s] d IH]; intro f; simpl; [reflexivity|].
  destruct (eqs f g) eqn:E; simpl; [apply IH | rewrite E; apply IH].
Qed.

Lemma dget_drem_other : forall d f g, f <> g -> dget (drem d f) g = dget d g.
Proof.
  induction d as [|[h s] d IH]; intros f g N; simpl; [reflexivity|].
  destruct (eqs f h) eqn:E; simpl.
  - apply eqs_eq in E. subst h. destruct (eqs g f) eqn:E2.
    + apply eqs_eq in E2. congruence.
    + apply IH; assumption.
  - destruct (eqs g h); [reflexivity | apply IH; assumption].
Qed.

Lemma dget_dset_same : forall d f s, dget (dset d f s) f = Some s.
Proof. intros. unfold dset. simpl. rewrite eqs_refl. reflexivity. Qed.

Lemma dget_dset_other : forall d f g s, f <> g -> dget (dset d f s) g = dget d g.
Proof.
  intros d f g s N. unfold dset. simpl. destruct (eqs g f) eqn:E.
  - apply eqs_eq in E. congruence.
  - apply dget_drem_other; assumption.
Qed.

Lemma apply_op_other : forall d o g, op_file o <> g -> dget (apply_op d o) g = dget d g.
Proof.
  intros d o g N. destruct o as [f|f|f c|f|f]; simpl in *.
  - reflexivity.
  - apply dget_dset_other; assumption.
  - destruct (dget d f); apply dget_dset_other; assumption.
  - destruct (dget d f) as [[b|b]|]; try reflexivity. apply dget_dset_other; assumption.
  - apply dget_drem_other; assumption.
Qed.

Lemma apply_other : forall ops d g, Forall (fun o => op_file o <> g) ops -> dget (apply d ops) g = dget d g.
Proof.
  induction ops as [|o ops IH]; intros d g H; simpl; [reflexivity|].
  inversion H; subst. unfold apply in *. simpl. rewrite IH by assumption. apply apply_op_other; assumption.
Qed.

Lemma apply_app : forall a b d, apply d (a ++ b) = apply (apply d a) b.
Proof. intros. unfold apply. apply fold_left_app. Qed.

Lemma apply_reads : forall ops d, forallb is_read ops = true -> apply d ops = d.
Proof.
  induction ops as [|o ops IH]; intros d H; [reflexivity|].
  simpl in H. apply andb_true_iff in H. destruct H as [H1 H2].
  destruct o; try discriminate. unfold apply in *. simpl. apply IH; assumption.
Qed.

(** names listed in a directory *)
Lemma dedup_In' : forall x l, In x (dedup l) <-> In x l.
Proof.
  induction l as [|y l IH]; simpl; [tauto|].
  destruct (mem_str y l) eqn:E.
  - rewrite IH. apply mem_str_In in E. split; [auto | intros [->|H]; auto].
  - simpl. rewrite IH. tauto.
Qed.

Lemma dedup_NoDup : forall l, NoDup (dedup l).
Proof.
  induction l as [|y l IH]; simpl; [constructor|].
  destruct (mem_str y l) eqn:E; [assumption|].
  constructor; [|assumption]. rewrite dedup_In'. apply mem_str_false. assumption.
Qed.

Lemma dget_None_iff : forall d f, dget d f = None <-> ~ In f (map fst d).
Proof.
  induction d as [|[g s] d IH]; intro f; simpl; [tauto|].
  destruct (eqs f g) eqn:E.
  - apply eqs_eq in E. subst. split; [discriminate | intro H; exfalso; apply H; auto].
  - rewrite IH. apply eqs_neq in E. split; [intros H [H1|H1]; [congruence | auto] | intros H H1; apply H; auto].
Qed.

Lemma dnames_In : forall d f, In f (dnames d) <-> dget d f <> None.
Proof.
  intros d f. unfold dnames. rewrite dedup_In'. rewrite dget_None_iff.
  destruct (in_dec str_eq_dec f (map fst d)); tauto.
Qed.

(* ------------------------------------------------------------------ *)
(** * the operation list of a successful stop                            *)
Arguments dset : simpl never.
Arguments dget : simpl never.
Arguments drem : simpl never.

Section StopOps.
  Variables (u f : fname) (b : bytes).
  Hypothesis Huf : u <> f.
  Let ops := [Read u; OpenTrunc f; Write f b; Close f; Remove u].

  Lemma firstn_app_le : forall (n : nat) (c : bytes), firstn n c = c \/ length (firstn n c) < length c.
  Proof.
    intros n c. destruct (Nat.le_gt_cases (length c) n) as [H|H].
    - left. apply firstn_all2. assumption.
    - right. rewrite firstn_length. lia.
  Qed.

  (** state of the two files at every cut point *)
  Lemma cut_cases : forall d k j,
    let dc := apply_partial d ops k j in
    (dget dc u = dget d u /\
     (dget dc f = dget d f \/ exists n, dget dc f = Some (Partial (firstn n b))))
    \/ (k >= 4 /\ dget dc f = Some (Complete b) /\ (dget dc u = dget d u \/ dget dc u = None)).
  Proof.
    intros d k j dc. subst dc. unfold apply_partial.
    assert (Hfu : f <> u) by congruence.
    destruct k as [|[|[|[|[|k]]]]]; simpl.
    - left. destruct j; simpl; auto.
    - left. destruct j; simpl; auto.
    - left. destruct j as [n|]; simpl.
      + rewrite dget_dset_same. simpl.
        rewrite !dget_dset_other by assumption. split; [reflexivity|].
        right. exists n. rewrite dget_dset_same. reflexivity.
      + rewrite dget_dset_other by assumption. split; [reflexivity|]. right. exists 0.
        rewrite dget_dset_same. reflexivity.
    - left. rewrite dget_dset_same. simpl.
      assert (E : forall x, dget (dset (dset d f (Partial [])) f x) u = dget d u).
      { intro x. rewrite !dget_dset_other by assumption. reflexivity. }
      destruct j; simpl; rewrite E; (split; [reflexivity|]); right; exists (length b);
        rewrite dget_dset_same, firstn_all; reflexivity.
    - right. rewrite dget_dset_same. simpl. rewrite dget_dset_same.
      split; [lia|]. split.
      + destruct j; simpl; rewrite dget_dset_same; reflexivity.
      + left. destruct j; simpl; rewrite !dget_dset_other by assumption; reflexivity.
    - right. rewrite dget_dset_same. simpl. rewrite dget_dset_same.
      split; [lia|].
      assert (E : firstn k (@nil fsop) = []) by (destruct k; reflexivity).
      assert (E2 : nth_error (@nil fsop) k = None) by (destruct k; reflexivity).
      rewrite E, E2. simpl.
      split.
      + destruct j; rewrite dget_drem_other by assumption; rewrite dget_dset_same; reflexivity.
      + right. destruct j; apply dget_drem_same.
  Qed.

  (** the complete run *)
  Lemma full_run : forall d,
    dget (apply d ops) f = Some (Complete b) /\ dget (apply d ops) u = None /\
    forall g, g <> u -> g <> f -> dget (apply d ops) g = dget d g.
  Proof.
    intro d. assert (Hfu : f <> u) by congruence. unfold apply. simpl.
    rewrite dget_dset_same. simpl. rewrite dget_dset_same.
    split; [rewrite dget_drem_other by assumption; apply dget_dset_same|].
    split; [apply dget_drem_same|].
    intros g G1 G2. rewrite dget_drem_other by congruence.
    rewrite !dget_dset_other by congruence. reflexivity.
  Qed.

  (** an I/O exception at operation k: what Python's clean-up leaves *)
  Lemma exc_cases : forall d k j,
    let dc := apply_exc d ops k j in
    (dget dc u = dget d u) \/ (dget dc f = Some (Complete b) /\ dget dc u = None).
  Proof.
    intros d k j dc. subst dc. unfold apply_exc, apply_partial.
    assert (Hfu : f <> u) by congruence.
    destruct k as [|[|[|[|[|k]]]]]; simpl.
    - left. destruct j; reflexivity.
    - left. destruct j; reflexivity.
    - left. destruct j; simpl; repeat (rewrite ?dget_dset_same; simpl);
        rewrite !dget_dset_other by assumption; reflexivity.
    - left. repeat (rewrite ?dget_dset_same; simpl).
      destruct j; simpl; repeat (rewrite ?dget_dset_same; simpl);
        rewrite !dget_dset_other by assumption; reflexivity.
    - left. repeat (rewrite ?dget_dset_same; simpl).
      destruct j; simpl; rewrite !dget_dset_other by assumption; reflexivity.
    - right. repeat (rewrite ?dget_dset_same; simpl).
      assert (E : firstn k (@nil fsop) = []) by (destruct k; reflexivity).
      assert (E2 : nth_error (@nil fsop) k = None) by (destruct k; reflexivity).
      rewrite E, E2. simpl.
      split; destruct j; simpl; rewrite ?dget_drem_same; try reflexivity;
        rewrite dget_drem_other by assumption; apply dget_dset_same.
  Qed.
End StopOps.
