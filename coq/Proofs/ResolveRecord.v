(** ResolveRecord.v — lift of the file-resolver theorems to record_artifacts_as_dict for artifact
    lists that only use the file resolver (plain paths and file:-prefixed ones); the constructor's
    prefix-list check. *)
From InToto.Model Require Import Base Fs Resolve.
From InToto.Proofs Require Import FsProofs ResolveSpec ResolveProofs ResolveFold ResolveMain.
Local Arguments N.eqb : simpl never.

Definition file_only (arts : list str) : Prop := forall a, In a arts -> scheme_of a = SFile.

Definition group_step (seen : list scheme) (a : str) : list scheme :=
  let s := scheme_of a in if existsb (scheme_eqb s) seen then seen else seen ++ [s].

Lemma group_order_file : forall arts seen, file_only arts -> seen = [] \/ seen = [SFile] ->
  fold_left group_step arts seen = match arts with [] => seen | _ => [SFile] end.
Proof.
  induction arts as [|a arts IH]; intros seen F S; [reflexivity|].
  simpl fold_left. assert (Ea : scheme_of a = SFile) by (apply F; left; reflexivity).
  assert (Es : group_step seen a = [SFile]).
  { unfold group_step. rewrite Ea. destruct S as [->| ->]; reflexivity. }
  rewrite Es, IH; [destruct arts; reflexivity | intros b Hb; apply F; right; assumption | auto].
Qed.

Lemma filter_file_only : forall l, file_only l -> filter (fun a => scheme_eqb (scheme_of a) SFile) l = l.
Proof.
  induction l as [|b l IH]; intro F; [reflexivity|]. simpl.
  rewrite (F b) by (left; reflexivity). simpl. f_equal. apply IH. intros x Hx. apply F. right. assumption.
Qed.

Lemma scheme_groups_file : forall arts, arts <> [] -> file_only arts -> scheme_groups arts = [(SFile, arts)].
Proof.
  intros arts Hne F. unfold scheme_groups. change (fold_left _ arts []) with (fold_left group_step arts []).
  rewrite group_order_file by auto. destruct arts as [|a arts]; [congruence|].
  cbv beta iota. cbn [map]. f_equal. f_equal. apply (filter_file_only (a :: arts)). assumption.
Qed.

(** the pairwise check of FileResolver.__init__, declaratively *)
Definition is_prefix (a b : str) : Prop := exists r, b = a ++ r.
Theorem prefix_list_ok_spec : forall l,
  prefix_list_ok l = true <-> ForallOrdPairs (fun a b => ~ is_prefix a b /\ ~ is_prefix b a) l.
Proof.
  induction l as [|a l IH]; simpl.
  - split; [constructor | reflexivity].
  - rewrite andb_true_iff, IH, forallb_forall. split.
    + intros [A B]. constructor; [|assumption]. apply Forall_forall. intros b Hb. specialize (A b Hb).
      apply negb_true_iff, orb_false_iff in A. destruct A as [A1 A2].
      split; intro P; apply starts_with_spec in P; congruence.
    + intro P. inversion P as [|? ? F P']; subst. split; [|assumption]. intros b Hb.
      rewrite Forall_forall in F. destruct (F b Hb) as [N1 N2].
      apply negb_true_iff, orb_false_iff. split.
      * destruct (starts_with b a) eqn:E; [|reflexivity]. exfalso. apply N2. apply starts_with_spec. assumption.
      * destruct (starts_with a b) eqn:E; [|reflexivity]. exfalso. apply N1. apply starts_with_spec. assumption.
Qed.

Section Rec.
  Variable H : list N -> str.
  Variable excl : str -> bool.
  Variable root : entries.
  Variable fuel : nat.

  Notation rec := (record H excl root fuel).

  Theorem record_prefix_list_check : forall arts bp o cwd,
    arts <> [] -> prefix_list_ok (o_lstrip o) = false -> rec arts bp o cwd = Err EPrefix.
  Proof.
    intros arts bp o cwd Hne P. unfold record. apply is_nil_false in Hne. rewrite Hne, P. reflexivity.
  Qed.

  Lemma hash_uris_nodup : forall o cwd uris d,
    hash_uris H excl root fuel o cwd uris [] = Ok d -> NoDup (keys d).
  Proof.
    intros o cwd uris d Hd. destruct (hash_uris_cands _ _ _ _ _ _ _ _ _ Hd) as [L HL].
    rewrite (hash_uris_flat H excl root fuel o cwd uris L [] HL) in Hd.
    eapply add_flat_nodup_keys; eauto. constructor.
  Qed.

  (** for file-resolver artifacts the record IS the FileResolver's dictionary, taken in the base directory *)
  Theorem record_file_only : forall arts bp o cwd d,
    arts <> [] -> file_only arts -> rec arts bp o cwd = Ok d ->
    prefix_list_ok (o_lstrip o) = true /\
    exists base, enter_base root fuel cwd bp = Ok base /\ hash_uris H excl root fuel o base arts [] = Ok d.
  Proof.
    intros arts bp o cwd d Hne F R. unfold record in R.
    apply is_nil_false in Hne. rewrite Hne in R. apply is_nil_false in Hne.
    destruct (prefix_list_ok (o_lstrip o)); [|discriminate]. split; [reflexivity|]. simpl in R.
    rewrite scheme_groups_file in R by assumption. simpl in R.
    apply bind_ok in R. destruct R as [d' [Hf R]]. inversion R; subst. clear R.
    unfold file_hash_artifacts in Hf. apply bind_ok in Hf. destruct Hf as [base [Hb Hd]].
    exists base. split; [assumption|].
    rewrite dict_update_fresh; [assumption | eapply hash_uris_nodup; eauto | intros ? ? []].
  Qed.

  Theorem record_file_only_conv : forall arts bp o cwd base,
    arts <> [] -> file_only arts -> prefix_list_ok (o_lstrip o) = true ->
    enter_base root fuel cwd bp = Ok base ->
    rec arts bp o cwd =
    match hash_uris H excl root fuel o base arts [] with Ok d => Ok d | Err e => Err e end.
  Proof.
    intros arts bp o cwd base Hne F P Hb. unfold record.
    rewrite (proj2 (is_nil_false _) Hne), P. cbn [negb].
    rewrite scheme_groups_file by assumption.
    cbn [merge_groups resolver_hash fst snd]. unfold file_hash_artifacts. rewrite Hb. cbn [bind].
    destruct (hash_uris H excl root fuel o base arts []) as [d|e] eqn:E; cbn [bind]; [|reflexivity].
    rewrite dict_update_fresh; [reflexivity | eapply hash_uris_nodup; eauto | intros ? ? []].
  Qed.
End Rec.

(* ------------------------------------------------------------------ *)
(** * C10 at the level of record_artifacts_as_dict *)
Section Final.
  Variable H : list N -> str.
  Variable excl : str -> bool.
  Variable root : entries.
  Variable fuel : nat.
  Hypothesis WFb : wf_fs root = true.

  Notation rec := (record H excl root fuel).
  Let WF : wf_tree root := wf_fs_tree root WFb.

  Lemma rec_base : forall arts bp o cwd d base,
    arts <> [] -> file_only arts -> rec arts bp o cwd = Ok d -> enter_base root fuel cwd bp = Ok base ->
    hash_uris H excl root fuel o base arts [] = Ok d.
  Proof.
    intros arts bp o cwd d base Hne F R Hb.
    destruct (record_file_only H excl root fuel arts bp o cwd d Hne F R) as [_ [b' [Hb' Hd]]]. congruence.
  Qed.

  Theorem record_exact : forall arts bp o cwd d base,
    file_only arts -> rec arts bp o cwd = Ok d -> enter_base root fuel cwd bp = Ok base ->
    clean_run excl root o base arts ->
    forall k h, lookup k d = Some h <->
      exists u f c, In u arts /\ reachable root excl (o_follow o) base u f c /\
                    name_of (o_lstrip o) u f = k /\ h = hash_content H (o_normalize o) c.
  Proof.
    intros arts bp o cwd d base F R Hb Hc k h. destruct arts as [|a arts].
    - unfold record in R. simpl in R. inversion R; subst. simpl. split; [discriminate | intros [? [? [? [[] _]]]]].
    - eapply hash_uris_exact; eauto. eapply rec_base; eauto. discriminate.
  Qed.

  (** never silently dropped, without any hypothesis on names *)
  Theorem record_key : forall arts bp o cwd d base u f c,
    file_only arts -> rec arts bp o cwd = Ok d -> enter_base root fuel cwd bp = Ok base ->
    In u arts -> reachable root excl (o_follow o) base u f c ->
    exists h, lookup (name_of (o_lstrip o) u f) d = Some h.
  Proof.
    intros arts bp o cwd d base u f c F R Hb Hu Hr. destruct arts as [|a arts]; [contradiction|].
    eapply hash_uris_key; eauto. eapply rec_base; eauto. discriminate.
  Qed.

  Theorem record_collision : forall arts bp o cwd base u u' f f' c c',
    file_only arts -> o_lstrip o <> [] -> enter_base root fuel cwd bp = Ok base ->
    In u arts -> In u' arts ->
    reachable root excl (o_follow o) base u f c -> reachable root excl (o_follow o) base u' f' c' ->
    f <> f' -> name_of (o_lstrip o) u f = name_of (o_lstrip o) u' f' ->
    (forall d, rec arts bp o cwd <> Ok d) /\
    (forall L, all_cands excl root fuel o base arts = Ok L -> rec arts bp o cwd = Err EPrefix).
  Proof.
    intros arts bp o cwd base u u' f f' c c' F Hls Hb Hu Hu' R R' Hne En.
    assert (Ha : arts <> []) by (destruct arts; [contradiction | discriminate]).
    destruct (hash_uris_collision H excl root fuel o base WF arts u u' f f' c c' Hls Hu Hu' R R' Hne En) as [K1 K2].
    split.
    - intros d Hd. apply (K1 d). eapply rec_base; eauto.
    - intros L HL. destruct (prefix_list_ok (o_lstrip o)) eqn:P.
      + rewrite (record_file_only_conv H excl root fuel arts bp o cwd base Ha F P Hb), (K2 L HL). reflexivity.
      + apply record_prefix_list_check; assumption.
  Qed.

  Theorem record_overlap_spurious : forall l1 u l2 u' bp o cwd base f c c',
    file_only (l1 ++ u :: l2 ++ [u']) -> o_lstrip o <> [] -> enter_base root fuel cwd bp = Ok base ->
    snd (strip_scheme_prefix u') = snd (strip_scheme_prefix u) ->
    reachable root excl (o_follow o) base u f c -> reachable root excl (o_follow o) base u' f c' ->
    forall d, rec (l1 ++ u :: l2 ++ [u']) bp o cwd <> Ok d.
  Proof.
    intros l1 u l2 u' bp o cwd base f c c' F Hls Hb Ep R R' d Hd.
    apply (hash_uris_overlap_spurious H excl root fuel o base WF l1 u l2 f c c' Hls R u' Ep R' d).
    eapply rec_base; eauto. destruct l1; discriminate.
  Qed.

  (** what is in the result was not excluded: neither the start path, nor the file's own path, nor any
      directory path between them; and it denotes a regular file (never a dangling link) *)
  Theorem record_excluded_absent : forall arts bp o cwd d base k h,
    file_only arts -> rec arts bp o cwd = Ok d -> enter_base root fuel cwd bp = Ok base ->
    lookup k d = Some h ->
    exists u f c, In u arts /\ name_of (o_lstrip o) u f = k /\
      excl_start excl (start_path u) = false /\
      (f = start_path u \/
       exists ns, ns <> [] /\ f = fold_left child ns (start_path u) /\
                  forall j, (0 < j <= length ns)%nat -> excl (fold_left child (firstn j ns) (start_path u)) = false) /\
      denotes root base (split_on c_slash f) (RFile c).
  Proof.
    intros arts bp o cwd d base k h F R Hb Hl. destruct arts as [|a arts].
    - unfold record in R. simpl in R. inversion R; subst. discriminate.
    - assert (Hd : hash_uris H excl root fuel o base (a :: arts) [] = Ok d) by (eapply rec_base; eauto; discriminate).
      destruct (hash_uris_sound H excl root fuel o base WF _ _ _ _ Hd Hl) as [u [f [c [Hu [Hr [Hn _]]]]]].
      exists u, f, c. split; [assumption|]. split; [assumption|].
      pose proof (reachable_denotes root excl (o_follow o) WF base u f c Hr) as D.
      destruct Hr as [Hx [[_ ->]|[loc [_ Hbel]]]].
      + split; [assumption|]. split; [left; reflexivity | assumption].
      + split; [assumption|]. split; [right; eapply below_chain; eauto | assumption].
  Qed.
End Final.
