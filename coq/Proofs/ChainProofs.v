(** ChainProofs.v — closed chain rule lists (C04, C11): what acceptance of
    [REQUIRE f ...; MATCH * WITH <kind> FROM <step>; DISALLOW *] says about two artifact maps.
    Everything here is a corollary of the C03 theorems (RulesProofs) for the glob model. *)
From InToto.Model Require Import Base Json Rule Glob Rules Match.
From InToto.Proofs Require Import RulesSpec RulesProofs MatchProofs.

Definition S_star : str := [42%N].
Definition K_DISALLOW : str := upper k_disallow.
Definition K_REQUIRE : str := upper k_require.

(** ["REQUIRE", f] *)
Definition rule_require (f : str) : json := JList [JStr K_REQUIRE; JStr f].
(** ["MATCH", "*", "WITH", "PRODUCTS"|"MATERIALS", "FROM", step] *)
Definition rule_match_all (d : dkind) (step : str) : json :=
  JList [JStr K_MATCH; JStr S_star; JStr K_WITH; JStr (upper (dkind_name d)); JStr K_FROM; JStr step].
(** ["DISALLOW", "*"] *)
Definition rule_disallow_all : json := JList [JStr K_DISALLOW; JStr S_star].

(** a closed rule list: every artifact of the referenced link is required, everything must match, nothing else allowed *)
Definition closed_rules (d : dkind) (step : str) (req : list str) : list json :=
  map rule_require req ++ [rule_match_all d step; rule_disallow_all].

Lemma unpack_require : forall f, unpack_rule (rule_require f) = Ok (Generic Require f).
Proof. intro f. reflexivity. Qed.
Lemma unpack_match_all : forall d step, unpack_rule (rule_match_all d step) = Ok (Match S_star [] d [] step).
Proof. intros [] step; reflexivity. Qed.
Lemma unpack_disallow_all : unpack_rule rule_disallow_all = Ok (Generic Disallow S_star).
Proof. reflexivity. Qed.

Lemma star_supported : supported glob_match S_star.
Proof. intros a H. unfold S_star in H. rewrite star_matches_all in H. discriminate. Qed.

(** REQUIRE rules leave the queue alone and succeed iff every name is present *)
Lemma run_requires : forall side item ls queue req rest,
  run_rules glob_match side item ls queue (map rule_require req ++ rest) =
  if forallb (fun f => mem_str f queue) req then run_rules glob_match side item ls queue rest else Err ERule.
Proof.
  intros side item ls queue req rest. induction req as [|f req IH].
  - reflexivity.
  - cbn [map app run_rules forallb]. rewrite unpack_require. cbn [bind apply_rule].
    unfold require_rule. destruct (mem_str f queue); cbn [bind andb].
    + exact IH.
    + reflexivity.
Qed.

(** with pattern "*" and no prefixes the MATCH rule consumes exactly the artifacts that the
    referenced link records under the same path with an equal hash record *)
Lemma consumes_match_all_iff : forall side item ls d step a,
  consumes glob_match side item ls (Match S_star [] d [] step) a <->
  exists dl hs hd, lookup step ls = Some dl /\ lookup a (arts side item) = Some hs /\
                   lookup a (arts d dl) = Some hd /\ py_eqb hs hd = true.
Proof.
  intros side item ls d step a. unfold consumes, src_prefix, full_path. split.
  - intros (r & dl & hs & hd & Ha & _ & Hl & Hs & Hd & He). cbn [app] in Ha. subst r.
    exists dl, hs, hd. auto.
  - intros (dl & hs & hd & Hl & Hs & Hd & He). exists a, dl, hs, hd.
    repeat split; try assumption. unfold M, S_star. apply star_matches_all.
Qed.

Lemma classic_consumes : forall side item ls d step a,
  consumes glob_match side item ls (Match S_star [] d [] step) a \/
  ~ consumes glob_match side item ls (Match S_star [] d [] step) a.
Proof.
  intros side item ls d step a. rewrite consumes_match_all_iff.
  destruct (lookup step ls) as [dl|] eqn:El.
  2:{ right. intros (dl & hs & hd & H & _). discriminate. }
  destruct (lookup a (arts side item)) as [hs|] eqn:Es.
  2:{ right. intros (dl' & hs & hd & _ & H & _). discriminate. }
  destruct (lookup a (arts d dl)) as [hd|] eqn:Ed.
  2:{ right. intros (dl' & hs' & hd & H1 & _ & H3 & _). inversion H1; subst. rewrite Ed in H3. discriminate. }
  destruct (py_eqb hs hd) eqn:Ee.
  - left. exists dl, hs, hd. auto.
  - right. intros (dl' & hs' & hd' & H1 & H2 & H3 & H4). inversion H1; subst. inversion H2; subst.
    rewrite Ed in H3. inversion H3; subst. congruence.
Qed.

(** MATCH * ...; DISALLOW * succeeds iff every queued artifact is consumed by the MATCH rule *)
Lemma run_match_disallow : forall side item ls queue d step,
  (forall a, In a queue -> In a (keys (arts side item))) ->
  (exists q, run_rules glob_match side item ls queue [rule_match_all d step; rule_disallow_all] = Ok q) <->
  (forall a, In a queue -> consumes glob_match side item ls (Match S_star [] d [] step) a).
Proof.
  intros side item ls queue d step Hsub.
  cbn [run_rules]. rewrite unpack_match_all, unpack_disallow_all. cbn [bind].
  destruct (consume_total glob_match side item ls queue (Match S_star [] d [] step) I star_supported I Hsub) as [q' Hq'].
  rewrite Hq'. cbn [bind].
  pose proof (consume_exact glob_match side item ls queue (Match S_star [] d [] step) q' I star_supported I Hsub Hq') as Hex.
  destruct (disallow_spec glob_match side item ls q' S_star star_supported) as [Hfail Hok].
  split.
  - intros [q Hq] a Ha.
    destruct (apply_rule glob_match side item ls q' (Generic Disallow S_star)) as [q2|e] eqn:Ed; [|discriminate].
    assert (q2 = q') as ->.
    { cbn [apply_rule] in Ed. destruct (disallow_rule glob_match S_star q'); cbn [bind] in Ed; congruence. }
    destruct Hok as [Hok _]. specialize (Hok eq_refl).
    (* nothing may remain, since * matches every name *)
    destruct (classic_consumes side item ls d step a) as [Hc|Hn]; [exact Hc|].
    exfalso. assert (In a q') as Hin by (apply Hex; split; assumption).
    specialize (Hok a Hin). unfold S_star in Hok. rewrite star_matches_all in Hok. discriminate.
  - intro Hall. assert (q' = []) as ->.
    { destruct q' as [|x q'']; [reflexivity|]. exfalso.
      assert (In x (x :: q'')) as Hx by (left; reflexivity).
      apply Hex in Hx. destruct Hx as [Hq Hn]. apply Hn. apply Hall. exact Hq. }
    exists []. reflexivity.
Qed.

(** * The closed rule list as a whole *)

Lemma run_closed_rules : forall side item ls queue d step req,
  (forall a, In a queue -> In a (keys (arts side item))) ->
  (exists q, run_rules glob_match side item ls queue (closed_rules d step req) = Ok q) <->
  (forall f, In f req -> In f queue) /\
  (forall a, In a queue -> consumes glob_match side item ls (Match S_star [] d [] step) a).
Proof.
  intros side item ls queue d step req Hsub. unfold closed_rules. rewrite run_requires.
  destruct (forallb (fun f => mem_str f queue) req) eqn:Er.
  - rewrite (run_match_disallow side item ls queue d step Hsub).
    rewrite forallb_forall in Er. split.
    + intro H. split; [|exact H]. intros f Hf. apply mem_str_In. apply Er. exact Hf.
    + intros [_ H]. exact H.
  - split.
    + intros [q Hq]. discriminate.
    + intros [Hreq _]. exfalso.
      assert (forallb (fun f => mem_str f queue) req = true) as Ht.
      { apply forallb_forall. intros f Hf. apply mem_str_In. apply Hreq. exact Hf. }
      congruence.
Qed.

(** acceptance of a closed rule list for the whole artifact set of an item *)
Theorem closed_rules_iff : forall side item ls d step req pl,
  lookup step ls = Some pl ->
  ((exists q, run_rules glob_match side item ls (keys (arts side item)) (closed_rules d step req) = Ok q) <->
   (forall f, In f req -> In f (keys (arts side item))) /\
   (forall a hs, lookup a (arts side item) = Some hs ->
      exists hd, lookup a (arts d pl) = Some hd /\ py_eqb hs hd = true)).
Proof.
  intros side item ls d step req pl Hpl.
  rewrite (run_closed_rules side item ls (keys (arts side item)) d step req (fun a H => H)).
  split; intros [Hreq Hall]; (split; [exact Hreq|]).
  - intros a hs Hs.
    assert (In a (keys (arts side item))) as Hin by (apply keys_In_lookup; eauto).
    apply Hall in Hin. apply consumes_match_all_iff in Hin.
    destruct Hin as (dl & hs' & hd & Hl & Hs' & Hd & He).
    rewrite Hpl in Hl. inversion Hl; subst dl. rewrite Hs in Hs'. inversion Hs'; subst hs'.
    exists hd. auto.
  - intros a Hin. apply keys_In_lookup in Hin. destruct Hin as [hs Hs].
    destruct (Hall a hs Hs) as (hd & Hd & He).
    apply consumes_match_all_iff. exists pl, hs, hd. auto.
Qed.

(** requiring every artifact of the referenced link closes the other inclusion:
    the two maps are then equal as maps (C19's [same_artifacts]) *)
Theorem closed_rules_equal_maps : forall side item ls d step pl,
  lookup step ls = Some pl ->
  ((exists q, run_rules glob_match side item ls (keys (arts side item))
                        (closed_rules d step (keys (arts d pl))) = Ok q) <->
   same_artifacts (arts side item) (arts d pl)).
Proof.
  intros side item ls d step pl Hpl.
  rewrite (closed_rules_iff side item ls d step (keys (arts d pl)) pl Hpl). split.
  - intros [Hreq Hall] n.
    destruct (lookup n (arts side item)) as [x|] eqn:Ex.
    + destruct (Hall n x Ex) as (hd & Hd & He). rewrite Hd. exact He.
    + destruct (lookup n (arts d pl)) as [y|] eqn:Ey; [|exact I].
      assert (In n (keys (arts d pl))) as Hin by (apply keys_In_lookup; eauto).
      apply Hreq in Hin. apply keys_In_lookup in Hin. destruct Hin as [v Hv]. congruence.
  - intro Hsame. split.
    + intros f Hf. apply keys_In_lookup in Hf. destruct Hf as [y Hy].
      specialize (Hsame f). rewrite Hy in Hsame.
      destruct (lookup f (arts side item)) as [x|] eqn:Ex; [|contradiction].
      apply keys_In_lookup. eauto.
    + intros a hs Hs. specialize (Hsame a). rewrite Hs in Hsame.
      destruct (lookup a (arts d pl)) as [y|]; [|contradiction]. exists y. auto.
Qed.

(** any difference between the two maps is detected: the closed list fails, and with the rule error *)
Corollary closed_rules_detect : forall side item ls d step pl,
  lookup step ls = Some pl ->
  ~ same_artifacts (arts side item) (arts d pl) ->
  run_rules glob_match side item ls (keys (arts side item)) (closed_rules d step (keys (arts d pl))) = Err ERule.
Proof.
  intros side item ls d step pl Hpl Hdiff.
  destruct (run_rules glob_match side item ls (keys (arts side item))
                      (closed_rules d step (keys (arts d pl)))) as [q|e] eqn:Er.
  - exfalso. apply Hdiff. apply (closed_rules_equal_maps side item ls d step pl Hpl). eauto.
  - f_equal. revert Er. unfold closed_rules. rewrite run_requires.
    destruct (forallb _ _); [|congruence].
    cbn [run_rules]. rewrite unpack_match_all, unpack_disallow_all. cbn [bind].
    destruct (consume_total glob_match side item ls (keys (arts side item)) (Match S_star [] d [] step)
                I star_supported I (fun a H => H)) as [q' Hq'].
    rewrite Hq'. cbn [bind apply_rule]. unfold disallow_rule.
    destruct (fnfilter_supported glob_match q' S_star star_supported) as (f & Hf & _).
    rewrite Hf. cbn [bind]. destruct f; cbn [bind]; congruence.
Qed.

(** * The product rules of the derived layouts always pass on a link's own artifacts *)

Definition rule_create_all : json := JList [JStr (upper k_create); JStr S_star].
Definition rule_modify_all : json := JList [JStr (upper k_modify); JStr S_star].
(** [MATCH * WITH MATERIALS FROM self; CREATE *; MODIFY *; DISALLOW *] *)
Definition product_rules (self : str) : list json :=
  [rule_match_all Materials self; rule_create_all; rule_modify_all; rule_disallow_all].

Lemma unpack_create_all : unpack_rule rule_create_all = Ok (Generic Create S_star).
Proof. reflexivity. Qed.
Lemma unpack_modify_all : unpack_rule rule_modify_all = Ok (Generic Modify S_star).
Proof. reflexivity. Qed.

(** every product is unchanged, created or modified with respect to the link's own materials *)
Theorem product_rules_pass : forall item ls self,
  lookup self ls = Some item ->
  (forall a hm hp, lookup a (l_materials item) = Some hm -> lookup a (l_products item) = Some hp ->
                   py_eqb hp hm = py_eqb hm hp) ->
  run_rules glob_match Products item ls (keys (l_products item)) (product_rules self) = Ok [].
Proof.
  intros item ls self Hself Hsym. unfold product_rules. cbn [run_rules].
  rewrite unpack_match_all, unpack_create_all, unpack_modify_all, unpack_disallow_all. cbn [bind].
  set (q0 := keys (l_products item)).
  assert (forall a, In a q0 -> In a (keys (arts Products item))) as H0 by (intros a H; exact H).
  destruct (consume_total glob_match Products item ls q0 (Match S_star [] Materials [] self) I star_supported I H0) as [q1 Hq1].
  pose proof (consume_exact glob_match Products item ls q0 (Match S_star [] Materials [] self) q1 I star_supported I H0 Hq1) as E1.
  rewrite Hq1. cbn [bind].
  assert (forall a, In a q1 -> In a (keys (arts Products item))) as H1 by (intros a H; apply H0; apply E1; exact H).
  destruct (consume_total glob_match Products item ls q1 (Generic Create S_star) I star_supported I H1) as [q2 Hq2].
  pose proof (consume_exact glob_match Products item ls q1 (Generic Create S_star) q2 I star_supported I H1 Hq2) as E2.
  rewrite Hq2. cbn [bind].
  assert (forall a, In a q2 -> In a (keys (arts Products item))) as H2 by (intros a H; apply H1; apply E2; exact H).
  destruct (consume_total glob_match Products item ls q2 (Generic Modify S_star) I star_supported I H2) as [q3 Hq3].
  pose proof (consume_exact glob_match Products item ls q2 (Generic Modify S_star) q3 I star_supported I H2 Hq3) as E3.
  rewrite Hq3. cbn [bind].
  assert (q3 = []) as ->.
  { destruct q3 as [|a q3']; [reflexivity|]. exfalso.
    assert (In a (a :: q3')) as Ha by (left; reflexivity).
    apply E3 in Ha. destruct Ha as [Ha2 Hn3]. pose proof Ha2 as Ha2'.
    apply E2 in Ha2. destruct Ha2 as [Ha1 Hn2]. pose proof Ha1 as Ha1'.
    apply E1 in Ha1. destruct Ha1 as [Ha0 Hn1].
    unfold q0 in Ha0. apply keys_In_lookup in Ha0. destruct Ha0 as [hp Hp].
    assert (M glob_match S_star a) as HM by (unfold M, S_star; apply star_matches_all).
    destruct (lookup a (l_materials item)) as [hm|] eqn:Em.
    - destruct (py_eqb hp hm) eqn:Ee.
      + apply Hn1. apply consumes_match_all_iff. exists item, hp, hm. auto.
      + apply Hn3. cbn [consumes]. split; [exact HM|]. exists hm, hp. repeat split; try assumption.
        rewrite <- (Hsym a hm hp Em Hp). exact Ee.
    - apply Hn2. cbn [consumes]. split; [exact HM|]. split.
      + apply keys_In_lookup. eauto.
      + apply keys_In_lookup_none. exact Em. }
  cbn [apply_rule]. unfold disallow_rule. cbn [fnfilter bind]. reflexivity.
Qed.

(** the closed material rules pass whenever the two maps are equal (completeness direction of C04/C11) *)
Theorem closed_rules_pass : forall item ls prev pl,
  lookup prev ls = Some pl -> same_artifacts (l_materials item) (l_products pl) ->
  exists q, run_rules glob_match Materials item ls (keys (l_materials item))
                      (closed_rules Products prev (keys (l_products pl))) = Ok q.
Proof.
  intros item ls prev pl Hpl Hsame.
  apply (closed_rules_equal_maps Materials item ls Products prev pl Hpl). exact Hsame.
Qed.
