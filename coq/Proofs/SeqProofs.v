(** SeqProofs.v — C16 at the level of in_toto_verify: substitution happens after the signature
    stage; what happens to the caller's object; consecutive verifications of one object. *)
From InToto.Model Require Import Base Json Strs Utf8 Canon Rule Glob Rules Expiry Subst Meta Verify VerifySeq.
From InToto.Proofs Require Import VerifySpec GateBase VerifyGate SubstProofs.

Section Seq.
  Variable b64dec : str -> option (list N).
  Variable loads : list N -> option json.
  Variable sig_ok : str -> list N -> str -> bool.
  Variable now_s : Z.
  Variable now_us : Z.

  Notation vms := (verify_metadata_signatures sig_ok now_s).
  Notation gate := (gate sig_ok now_s now_us).
  Notation stage_pre := (stage_pre b64dec loads sig_ok now_s now_us).
  Notation md_after := (verify_md_after sig_ok now_s now_us).

  (* ---------------------------------------------------------------- *)
  (** * Late: the signature stage never sees parameters or substituted content *)

  (** the signature stage is a function of the caller's object and the keys alone ... *)
  Lemma sig_stage_params_free : forall md keys ps1 ps2 n1 n2,
    vms (a_md (mkArgs md keys ps1 n1)) (a_keys (mkArgs md keys ps1 n1)) =
    vms (a_md (mkArgs md keys ps2 n2)) (a_keys (mkArgs md keys ps2 n2)).
  Proof. reflexivity. Qed.

  (** ... so is the whole gate (signatures, payload extraction, expiry) ... *)
  Lemma gate_params_free : forall md keys ps1 ps2 n1 n2,
    gate (a_md (mkArgs md keys ps1 n1)) (a_keys (mkArgs md keys ps1 n1)) =
    gate (a_md (mkArgs md keys ps2 n2)) (a_keys (mkArgs md keys ps2 n2)).
  Proof. reflexivity. Qed.

  (** ... and when it fails nothing else is evaluated: same verdict whatever the parameters are,
      including malformed ones and ones with missing values *)
  Lemma sig_failure_before_substitution : forall exec md keys e,
    vms md keys = Err e ->
    forall d ps name, vfy b64dec loads sig_ok now_s now_us exec d (mkArgs md keys ps name) = (Err e, []).
  Proof.
    intros exec md keys e H d ps name. apply gate_Err_rejects. unfold VerifyGate.gate. cbn [a_md a_keys].
    rewrite H. reflexivity.
  Qed.

  (** the substituted layout is computed from the payload of the object whose signatures passed *)
  Lemma substitution_after_gate : forall files a l vm,
    stage_pre files a = Ok (l, vm) ->
    exists l0, gate (a_md a) (a_keys a) = Ok l0 /\
               get_payload (a_md a) = Ok (PLayout l0) /\
               layout_for l0 (a_params a) = Ok l.
  Proof.
    intros files a l vm H. rewrite stage_pre_gate in H.
    bind_inv H l0 Hg. bind_inv H l' Hl. bind_inv H vm' Hvm. inversion H; subst l' vm'.
    exists l0. split; [exact Hg|]. split; [|exact Hl].
    destruct (gate_Ok_inv _ _ _ _ _ _ Hg) as [ks [_ [_ [_ [Hp _]]]]]. exact Hp.
  Qed.

  (** a run that gets past the gate with parameters fails unless the parameter set is well-formed
      and every placeholder has a value *)
  Lemma bad_params_rejected : forall exec a ps l0 e,
    gate (a_md a) (a_keys a) = Ok l0 -> a_params a = Some ps -> check_params ps = Err e ->
    forall d, vfy b64dec loads sig_ok now_s now_us exec d a = (Err EFormat, []).
  Proof.
    intros exec a ps l0 e Hg Hp Hc [files subs]. rewrite verify_unfold. unfold VerifySpec.vbody.
    rewrite vbody_post, stage_pre_gate, Hg. cbn [bind]. unfold layout_for. rewrite Hp.
    rewrite (bad_params_substitute l0 ps e Hc). reflexivity.
  Qed.

  Lemma substitution_failure_rejected : forall exec a ps l0 e,
    gate (a_md a) (a_keys a) = Ok l0 -> a_params a = Some ps -> substitute_parameters l0 ps = Err e ->
    forall d, vfy b64dec loads sig_ok now_s now_us exec d a = (Err e, []).
  Proof.
    intros exec a ps l0 e Hg Hp Hs [files subs]. rewrite verify_unfold. unfold VerifySpec.vbody.
    rewrite vbody_post, stage_pre_gate, Hg. cbn [bind]. unfold layout_for. rewrite Hp, Hs. reflexivity.
  Qed.

  (** a placeholder without a value anywhere in a step's expected command *)
  Lemma missing_value_in_command : forall ps l s t n,
    In s (ly_steps l) -> In (JStr t) (st_cmd s) -> In (THole n) (tok_out t) -> lookup n ps = None ->
    forall params, check_params params = Ok ps -> exists e, substitute_parameters l params = Err e.
  Proof.
    intros ps l s t n Hs Ht Hn Hl params Hc.
    destruct (substitute_parameters l params) as [l'|e] eqn:E; [exfalso|exists e; reflexivity].
    destruct (substitute_everywhere _ _ _ E) as [ps' [Hc' [Hsteps _]]].
    rewrite Hc in Hc'. inversion Hc'; subst ps'. clear Hc'.
    assert (Hex : exists s', step_subst ps s s').
    { clear -Hs Hsteps. induction Hsteps as [|x y l1 l2 Hxy _ IH]; [destruct Hs|].
      destruct Hs as [->|Hs]; [exists y; exact Hxy|exact (IH Hs)]. }
    destruct Hex as [s' Hss]. pose proof (ss_cmd _ _ _ Hss) as Hcmd.
    assert (Hex : exists t', elem_subst ps (JStr t) t').
    { clear -Ht Hcmd. induction Hcmd as [|x y l1 l2 Hxy _ IH]; [destruct Ht|].
      destruct Ht as [->|Ht]; [exists y; exact Hxy|exact (IH Ht)]. }
    destruct Hex as [t' [s0 [s0' [E0 [_ Hr]]]]]. inversion E0; subst s0.
    destruct (render_Ok_holes _ _ _ _ Hr Hn) as [v Hv]. congruence.
  Qed.

  (* ---------------------------------------------------------------- *)
  (** * The caller's object *)

  Lemma subst_steps_mut_Ok : forall ps steps steps',
    mapM (subst_step ps) steps = Ok steps' -> subst_steps_mut ps steps = (steps', None).
  Proof.
    intros ps. induction steps as [|s steps IH]; intros steps' H; cbn [mapM] in H.
    - inversion H. reflexivity.
    - bind_inv H s' Hs. bind_inv H r Hr. inversion H; subst.
      cbn [subst_steps_mut]. rewrite Hs, (IH r Hr). reflexivity.
  Qed.

  Lemma subst_insps_mut_Ok : forall ps ins ins',
    mapM (subst_insp ps) ins = Ok ins' -> subst_insps_mut ps ins = (ins', None).
  Proof.
    intros ps. induction ins as [|i ins IH]; intros ins' H; cbn [mapM] in H.
    - inversion H. reflexivity.
    - bind_inv H i' Hi. bind_inv H r Hr. inversion H; subst.
      cbn [subst_insps_mut]. rewrite Hi, (IH r Hr). reflexivity.
  Qed.

  (** when substitution succeeds, the object the caller holds is the substituted layout *)
  Lemma layout_after_Ok : forall l params l',
    substitute_parameters l params = Ok l' -> layout_after l params = l'.
  Proof.
    intros l params l' H. unfold substitute_parameters in H. unfold layout_after.
    bind_inv H ps Hps. bind_inv H steps Hsteps. bind_inv H ins Hins. inversion H; subst.
    rewrite Hps, (subst_steps_mut_Ok _ _ _ Hsteps), (subst_insps_mut_Ok _ _ _ Hins). reflexivity.
  Qed.

  (** DSSE: get_payload parses the bytes afresh — the caller's object is never touched *)
  Lemma md_after_envelope : forall a pb pt sigs parsed,
    a_md a = Envelope pb pt sigs parsed -> md_after a = a_md a.
  Proof. intros a pb pt sigs parsed H. unfold verify_md_after. rewrite H. reflexivity. Qed.

  Lemma md_after_no_params : forall a, a_params a = None -> md_after a = a_md a.
  Proof.
    intros a H. unfold verify_md_after. destruct (a_md a) as [sigs p|]; [|reflexivity].
    rewrite H. destruct (vms (Metablock sigs p) (a_keys a)); [|reflexivity].
    destruct p; reflexivity.
  Qed.

  (** the only way the object changes: signatures and expiry passed and substitution rewrote a
      step or an inspection *)
  Lemma md_after_changed : forall a,
    md_after a <> a_md a ->
    exists sigs l0 ps u,
      a_md a = Metablock sigs (PLayout l0) /\ a_params a = Some ps /\
      vms (a_md a) (a_keys a) = Ok u /\ (now_us < ly_expires_us l0)%Z /\
      md_after a = Metablock sigs (PLayout (layout_after l0 ps)) /\ layout_after l0 ps <> l0.
  Proof.
    intros a H. unfold verify_md_after in *.
    destruct (a_md a) as [sigs p|pb pt sg pr] eqn:Emd; [|exfalso; apply H; reflexivity].
    destruct (vms (Metablock sigs p) (a_keys a)) as [u|e] eqn:Ev; [|exfalso; apply H; reflexivity].
    destruct p as [lk|l0]; [exfalso; apply H; reflexivity|].
    destruct (a_params a) as [ps|]; [|exfalso; apply H; reflexivity].
    destruct (check_expiry (ly_expires_us l0) now_us) as [u'|e] eqn:Ee; [|exfalso; apply H; reflexivity].
    exists sigs, l0, ps, u.
    split; [reflexivity|]. split; [reflexivity|]. split; [reflexivity|]. split.
    { unfold check_expiry in Ee. destruct (ly_expires_us l0 <=? now_us)%Z eqn:E; [discriminate Ee|].
      apply Z.leb_gt. exact E. }
    split; [reflexivity|].
    intro E. apply H. rewrite E. reflexivity.
  Qed.

  Lemma md_after_identity_subst : forall a sigs l0 ps,
    a_md a = Metablock sigs (PLayout l0) -> a_params a = Some ps -> layout_after l0 ps = l0 ->
    md_after a = a_md a.
  Proof.
    intros a sigs l0 ps Hmd Hp Hid. unfold verify_md_after. rewrite Hmd, Hp.
    destruct (vms (Metablock sigs (PLayout l0)) (a_keys a)); [|reflexivity].
    destruct (check_expiry (ly_expires_us l0) now_us); [|reflexivity].
    rewrite Hid. reflexivity.
  Qed.

  (* ---------------------------------------------------------------- *)
  (** * Consecutive verifications of one object *)

  Notation vseq := (verify_seq b64dec loads sig_ok now_s now_us).

  (** as long as no run changes the object, every run of the sequence is the independent
      verification of the original object with that run's parameters *)
  Theorem repeatable : forall d md keys sname runs,
    Forall (fun run => md_after (mkArgs md keys (snd run) sname) = md) runs ->
    vseq d md keys sname runs =
    map (fun run => (verify b64dec loads sig_ok now_s now_us (fst run) d (mkArgs md keys (snd run) sname), md)) runs.
  Proof.
    intros d md keys sname runs H. induction H as [|[ex ps] runs Hrun _ IH]; [reflexivity|].
    cbn [verify_seq map fst snd] in *. rewrite Hrun, IH. reflexivity.
  Qed.

  Corollary repeatable_envelope : forall d pb pt sigs parsed keys sname runs,
    let md := Envelope pb pt sigs parsed in
    vseq d md keys sname runs =
    map (fun run => (verify b64dec loads sig_ok now_s now_us (fst run) d (mkArgs md keys (snd run) sname), md)) runs.
  Proof.
    intros d pb pt sigs parsed keys sname runs md. apply repeatable.
    apply Forall_forall. intros run _. reflexivity.
  Qed.

  Corollary repeatable_no_params : forall d md keys sname runs,
    Forall (fun run => snd run = None) runs ->
    vseq d md keys sname runs =
    map (fun run => (verify b64dec loads sig_ok now_s now_us (fst run) d (mkArgs md keys (snd run) sname), md)) runs.
  Proof.
    intros d md keys sname runs H. apply repeatable.
    apply Forall_forall. intros run Hin. rewrite Forall_forall in H.
    apply md_after_no_params. cbn [a_params]. exact (H run Hin).
  Qed.
End Seq.
