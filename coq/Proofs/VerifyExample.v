(** VerifyExample.v — a small concrete supply chain (one step with one signed link, one
    inspection with a placeholder), in both metadata formats, with concrete boolean oracles.
    Used by the [Example]s of Props/C01.v, C07.v, C16.v to show that no theorem is vacuous and to
    witness the refuted statement of C16 by computation. *)
From Coq Require Import String Ascii.
From InToto.Model Require Import Base Json Strs Utf8 Canon Rule Glob Rules Expiry Subst Meta Verify VerifySeq.
From InToto.Proofs Require Import VerifySpec.
Local Open Scope string_scope.

Fixpoint s (x : string) : str :=
  match x with EmptyString => [] | String c r => N_of_ascii c :: s r end.

Definition js (x : string) : json := JStr (s x).
Definition jl (l : list string) : json := JList (map js l).
Definition jd (l : list (string * json)) : json := JDict (map (fun kv => (s (fst kv), snd kv)) l).

(** keys: the project owner's (a1...) and the functionary's (b2...) *)
Definition key (kid pub : string) : json :=
  jd [("keyid", js kid); ("keytype", js "ed25519"); ("scheme", js "ed25519");
      ("keyval", jd [("public", js pub)])].
Definition owner_key := key "a1" "pubA".
Definition other_key := key "c3" "pubC".
Definition func_key := key "b2" "pubB".

Definition expires_text := "2030-01-01T00:00:00Z".
Definition expires_us : Z := match parse_expires (s expires_text) with Ok t => t | Err _ => 0%Z end.

(** the layout as the JSON document the loader reads *)
Definition layout_json : json :=
  jd [("_type", js "layout");
      ("steps", JList [jd [("_type", js "step"); ("name", js "build");
                           ("expected_materials", JList []);
                           ("expected_products", JList [jl ["ALLOW"; "*"]]);
                           ("pubkeys", jl ["b2"]);
                           ("expected_command", jl ["make"; "{T}"]);
                           ("threshold", JInt 1)]]);
      ("inspect", JList [jd [("_type", js "inspection"); ("name", js "check");
                             ("expected_materials", JList []);
                             ("expected_products", JList []);
                             ("run", jl ["sh"; "-c"; "echo {T}"])];
                         jd [("_type", js "inspection"); ("name", js "check2");
                             ("expected_materials", JList []);
                             ("expected_products", JList []);
                             ("run", jl ["true"])]]);
      ("keys", jd [("b2", func_key)]);
      ("expires", js expires_text);
      ("readme", js "")].

Definition link_json : json :=
  jd [("_type", js "link"); ("name", js "build");
      ("materials", jd []);
      ("products", jd [("out", jd [("sha256", js "ab")])]);
      ("byproducts", jd []); ("command", jl ["make"; "all"]); ("environment", jd [])].

Definition sig (kid v : string) : json := jd [("keyid", js kid); ("sig", js v)].

Definition root_file : json := jd [("signed", layout_json); ("signatures", JList [sig "a1" "aa"])].
Definition link_file : json := jd [("signed", link_json); ("signatures", JList [sig "b2" "bb"])].

(** DSSE: the payload bytes are opaque; the json.loads oracle says what they parse to *)
Definition payload_bytes : list N := s "<layout bytes>".
Definition ex_loads (b : list N) : option json := if eqs b payload_bytes then Some layout_json else None.
Definition ex_b64 (x : str) : option (list N) := None.
Definition root_envelope : metadata :=
  Envelope payload_bytes S_envelope_payload_type [sig "a1" "cc"] (ex_loads payload_bytes).

Definition root_md : metadata :=
  match from_dict ex_b64 ex_loads root_file with Ok m => m | Err _ => Metablock [] (PLink (mkLink JNull [] [] JNull JNull JNull)) end.
Definition link_md : metadata :=
  match from_dict ex_b64 ex_loads link_file with Ok m => m | Err _ => root_md end.

Definition msg_of (m : metadata) : list N := match signed_message m with Ok b => b | Err _ => [] end.

(** a super-layout whose only step is delegated: the evidence for "sub" is the layout above
    (signed by the functionary a1), verified against the sub-directory "sub.a1" *)
Definition super_key := key "d4" "pubD".
Definition super_json : json :=
  jd [("_type", js "layout");
      ("steps", JList [jd [("_type", js "step"); ("name", js "sub");
                           ("expected_materials", JList []);
                           ("expected_products", JList [jl ["ALLOW"; "*"]]);
                           ("pubkeys", jl ["a1"]);
                           ("expected_command", JList []);
                           ("threshold", JInt 1)]]);
      ("inspect", JList [jd [("_type", js "inspection"); ("name", js "final");
                             ("expected_materials", JList []);
                             ("expected_products", JList []);
                             ("run", jl ["echo"; "super"])]]);
      ("keys", jd [("a1", owner_key)]);
      ("expires", js expires_text);
      ("readme", js "")].
Definition super_file : json := jd [("signed", super_json); ("signatures", JList [sig "d4" "dd"])].
Definition super_md : metadata :=
  match from_dict ex_b64 ex_loads super_file with Ok m => m | Err _ => root_md end.

(** signature oracle: each signature value validates exactly one message under one key *)
Definition ex_sig_ok (tok : str) (msg : list N) (v : str) : bool :=
  (eqs v (s "aa") && eqs tok (s "pubA") && eqs msg (msg_of root_md))
  || (eqs v (s "bb") && eqs tok (s "pubB") && eqs msg (msg_of link_md))
  || (eqs v (s "cc") && eqs tok (s "pubA") && eqs msg (msg_of root_envelope))
  || (eqs v (s "dd") && eqs tok (s "pubD") && eqs msg (msg_of super_md)).

Lemma ex_ideal : ideal_sigs ex_sig_ok.
Proof.
  intros tok m1 m2 v H1 H2. unfold ex_sig_ok in *.
  repeat match goal with
         | H : (_ || _)%bool = true |- _ => apply orb_true_iff in H; destruct H as [H|H]
         | H : (_ && _)%bool = true |- _ => apply andb_true_iff in H; destruct H as [H ?]
         end;
    repeat match goal with H : eqs _ _ = true |- _ => apply eqs_eq in H end;
    try congruence; subst; discriminate.
Qed.

(** every command succeeds / the second inspection fails / the first one times out *)
Definition ex_exec_ok (cmd : list json) : exec_result := ExDone (JInt 0) [] [].
Definition ex_exec_fail2 (cmd : list json) : exec_result :=
  if json_eqb (JList cmd) (jl ["true"]) then ExDone (JInt 1) [] [] else ExDone (JInt 0) [] [].
Definition ex_exec_timeout (cmd : list json) : exec_result :=
  if json_eqb (JList cmd) (jl ["true"]) then ExDone (JInt 0) [] [] else ExTimeout.

Definition link_dir : dirtree := Dir [(s "build.b2.link", FJson link_file)] [].
Definition empty_dir : dirtree := Dir [] [].
Definition super_dir : dirtree := Dir [(s "sub.a1.link", FJson root_file)] [(s "sub.a1", link_dir)].
Definition super_dir_no_sub : dirtree := Dir [(s "sub.a1.link", FJson root_file)] [].
Definition keys_super : json := jd [("d4", super_key)].
Definition cmd_super : ev := Exec [js "echo"; js "super"].

Definition keys1 : json := jd [("a1", owner_key)].
Definition keys2 : json := jd [("a1", owner_key); ("c3", other_key)].
Definition params : json := jd [("T", js "all")].
Definition params_braces : json := jd [("T", js "{T}{{")].

Definition ex_args (md : metadata) (keys : json) (ps : option json) : args := mkArgs md keys ps (JStr []).

Definition run (now : Z) (ex : list json -> exec_result) (d : dirtree) (a : args) : result :=
  verify ex_b64 ex_loads ex_sig_ok 0%Z now ex d a.

Definition now0 : Z := (expires_us - 1)%Z.   (* one microsecond before expiry *)

Definition cmd_echo (t : string) : ev := Exec [js "sh"; js "-c"; js ("echo " ++ t)].
Definition cmd_true : ev := Exec [js "true"].

(** the edited layout: one character of the readme changed, signatures kept *)
Definition edited_md : metadata :=
  match root_md with
  | Metablock sigs (PLayout l) =>
      Metablock sigs (PLayout (mkLayout (ly_steps l) (ly_inspect l) (ly_keys l) (ly_expires l) (ly_expires_us l) (s "x")))
  | m => m
  end.
Definition edited_envelope : metadata :=
  Envelope (s "<other bytes>") S_envelope_payload_type [sig "a1" "cc"] (Some layout_json).

Definition is_ok (r : result) : bool := match fst r with Ok _ => true | Err _ => false end.
Definition err_of (r : result) : option err := match fst r with Ok _ => None | Err e => Some e end.

(* sanity (kept: these are the facts the Examples of the property files rely on) *)
Example ex_root_loaded : exists sigs l, root_md = Metablock sigs (PLayout l).
Proof. vm_compute. eexists. eexists. reflexivity. Qed.
Example ex_accepts : is_ok (run now0 ex_exec_ok link_dir (ex_args root_md keys1 (Some params))) = true.
Proof. vm_compute. reflexivity. Qed.
Example ex_trace : snd (run now0 ex_exec_ok link_dir (ex_args root_md keys1 (Some params))) = [cmd_echo "all"; cmd_true].
Proof. vm_compute. reflexivity. Qed.
Example ex_accepts_dsse : is_ok (run now0 ex_exec_ok link_dir (ex_args root_envelope keys1 (Some params))) = true.
Proof. vm_compute. reflexivity. Qed.
Example ex_nested : run now0 ex_exec_ok super_dir (ex_args super_md keys_super None) =
  (fst (run now0 ex_exec_ok super_dir (ex_args super_md keys_super None)), [cmd_echo "{T}"; cmd_true; cmd_super]) /\
  is_ok (run now0 ex_exec_ok super_dir (ex_args super_md keys_super None)) = true.
Proof. vm_compute. split; reflexivity. Qed.
