(** CanonProofs.v — canonical JSON (securesystemslib encode_canonical) is total on float-free
    values, insensitive to dict entry order, and uniquely readable (injective up to entry order);
    DSSE PAE is injective. *)
From Coq Require Import List NArith ZArith Bool Lia Permutation Sorted RelationClasses.
From InToto.Model Require Import Base Json Utf8 Canon.
From InToto.Proofs Require Import Utf8Proofs.
Import ListNotations.
Local Open Scope N_scope.

(* ------------------------------------------------------------------ *)
(** * Generic insertion sort by a string key *)

Section GSort.
  Variable A : Type.
  Variable key : A -> str.

  Fixpoint gins (x : A) (l : list A) : list A :=
    match l with
    | [] => [x]
    | y :: l' => if lex_leb (key x) (key y) then x :: l else y :: gins x l'
    end.
  Fixpoint gsrt (l : list A) : list A :=
    match l with [] => [] | x :: l' => gins x (gsrt l') end.

  Definition kle (x y : A) : Prop := lex_leb (key x) (key y) = true.

  Lemma kle_trans : Transitive kle.
  Proof. intros x y z Hxy Hyz. unfold kle in *. eapply lex_leb_trans; eassumption. Qed.

  Lemma gins_perm : forall x l, Permutation (x :: l) (gins x l).
  Proof.
    intros x l. induction l as [|y l IH]; cbn [gins].
    - apply Permutation_refl.
    - destruct (lex_leb (key x) (key y)).
      + apply Permutation_refl.
      + eapply perm_trans; [apply perm_swap|]. apply perm_skip. exact IH.
  Qed.

  Lemma gsrt_perm : forall l, Permutation l (gsrt l).
  Proof.
    induction l as [|x l IH]; cbn [gsrt].
    - apply perm_nil.
    - eapply perm_trans; [apply perm_skip; exact IH|]. apply gins_perm.
  Qed.

  Lemma gins_sorted : forall x l, Sorted kle l -> Sorted kle (gins x l).
  Proof.
    intros x l Hs. induction Hs as [|y l Hs IH Hhd]; cbn [gins].
    - constructor; constructor.
    - destruct (lex_leb (key x) (key y)) eqn:E.
      + constructor; [constructor; assumption|]. constructor. exact E.
      + constructor; [exact IH|].
        apply lex_leb_total in E.
        destruct l as [|z l]; cbn [gins].
        * constructor. exact E.
        * destruct (lex_leb (key x) (key z)).
          -- constructor. exact E.
          -- constructor. inversion Hhd; subst. assumption.
  Qed.

  Lemma gsrt_sorted : forall l, Sorted kle (gsrt l).
  Proof.
    induction l as [|x l IH]; cbn [gsrt]; [constructor|]. apply gins_sorted. exact IH.
  Qed.

  Lemma gsrt_of_sorted : forall l, Sorted kle l -> gsrt l = l.
  Proof.
    intros l Hs. induction Hs as [|y l Hs IH Hhd]; cbn [gsrt]; [reflexivity|].
    rewrite IH. destruct Hhd as [|z l Hyz]; cbn [gins]; [reflexivity|].
    unfold kle in Hyz. rewrite Hyz. reflexivity.
  Qed.

  Lemma gsrt_idem : forall l, gsrt (gsrt l) = gsrt l.
  Proof. intro l. apply gsrt_of_sorted. apply gsrt_sorted. Qed.

  Lemma gins_Forall : forall (Q : A -> Prop) x l, Q x -> Forall Q l -> Forall Q (gins x l).
  Proof.
    intros Q x l Hx Hl. induction Hl as [|y l Hy Hl IH]; cbn [gins].
    - constructor; [exact Hx|constructor].
    - destruct (lex_leb (key x) (key y)).
      + constructor; [exact Hx|]. constructor; assumption.
      + constructor; assumption.
  Qed.

  Lemma gsrt_Forall : forall (Q : A -> Prop) l, Forall Q l -> Forall Q (gsrt l).
  Proof.
    intros Q l Hl. induction Hl as [|y l Hy Hl IH]; cbn [gsrt]; [constructor|].
    apply gins_Forall; assumption.
  Qed.

  (** strictly sorted lists with the same elements are equal *)
  Lemma sorted_perm_eq : forall l1 l2,
    StronglySorted kle l1 -> StronglySorted kle l2 ->
    NoDup (map key l1) -> Permutation l1 l2 -> l1 = l2.
  Proof.
    induction l1 as [|x l1 IH]; intros l2 S1 S2 ND HP.
    - apply Permutation_nil in HP. symmetry. exact HP.
    - destruct l2 as [|y l2].
      + apply Permutation_sym in HP. apply Permutation_nil in HP. discriminate.
      + inversion S1 as [|x' l1' S1' F1]; subst.
        inversion S2 as [|y' l2' S2' F2]; subst.
        inversion ND as [|k ks Hnin ND']; subst.
        assert (x = y) as Exy.
        { assert (In x (y :: l2)) as Hx by (eapply Permutation_in; [exact HP|left; reflexivity]).
          assert (In y (x :: l1)) as Hy
            by (eapply Permutation_in; [apply Permutation_sym; exact HP|left; reflexivity]).
          destruct Hx as [Hx|Hx]; [symmetry; exact Hx|].
          destruct Hy as [Hy|Hy]; [exact Hy|].
          rewrite Forall_forall in F1, F2.
          pose proof (F1 y Hy) as Lxy. pose proof (F2 x Hx) as Lyx.
          unfold kle in Lxy, Lyx.
          pose proof (lex_leb_antisym _ _ Lxy Lyx) as Ek.
          exfalso. apply Hnin. rewrite Ek. apply in_map. exact Hy. }
        subst y. f_equal. apply IH; try assumption.
        eapply Permutation_cons_inv. exact HP.
  Qed.

  Lemma gsrt_perm_eq : forall l l',
    NoDup (map key l) -> Permutation l l' -> gsrt l = gsrt l'.
  Proof.
    intros l l' ND HP.
    apply sorted_perm_eq.
    - apply Sorted_StronglySorted; [exact kle_trans | apply gsrt_sorted].
    - apply Sorted_StronglySorted; [exact kle_trans | apply gsrt_sorted].
    - eapply Permutation_NoDup; [|exact ND]. apply Permutation_map. apply gsrt_perm.
    - eapply perm_trans; [apply Permutation_sym; apply gsrt_perm|].
      eapply perm_trans; [exact HP|]. apply gsrt_perm.
  Qed.
End GSort.

Arguments gins {A} key x l.
Arguments gsrt {A} key l.

(** sorting commutes with key-preserving maps, and with key-preserving relations *)
Lemma gins_map : forall (A B : Type) (ka : A -> str) (kb : B -> str) (f : A -> B),
  (forall a, kb (f a) = ka a) ->
  forall x l, map f (gins ka x l) = gins kb (f x) (map f l).
Proof.
  intros A B ka kb f Hk x l. induction l as [|y l IH]; cbn [gins map]; [reflexivity|].
  rewrite !Hk. destruct (lex_leb (ka x) (ka y)); cbn [map]; [reflexivity|].
  rewrite IH. reflexivity.
Qed.

Lemma gsrt_map : forall (A B : Type) (ka : A -> str) (kb : B -> str) (f : A -> B),
  (forall a, kb (f a) = ka a) ->
  forall l, map f (gsrt ka l) = gsrt kb (map f l).
Proof.
  intros A B ka kb f Hk l. induction l as [|x l IH]; cbn [gsrt map]; [reflexivity|].
  rewrite (gins_map A B ka kb f Hk). rewrite IH. reflexivity.
Qed.

Lemma gins_Forall2 : forall (A B : Type) (ka : A -> str) (kb : B -> str) (R : A -> B -> Prop),
  (forall a b, R a b -> ka a = kb b) ->
  forall x y l m, R x y -> Forall2 R l m -> Forall2 R (gins ka x l) (gins kb y m).
Proof.
  intros A B ka kb R Hk x y l m Hxy Hlm.
  induction Hlm as [|a b l m Hab Hlm IH]; cbn [gins].
  - constructor; [exact Hxy|constructor].
  - rewrite (Hk _ _ Hxy), (Hk _ _ Hab).
    destruct (lex_leb (kb y) (kb b)).
    + constructor; [exact Hxy|]. constructor; assumption.
    + constructor; assumption.
Qed.

Lemma gsrt_Forall2 : forall (A B : Type) (ka : A -> str) (kb : B -> str) (R : A -> B -> Prop),
  (forall a b, R a b -> ka a = kb b) ->
  forall l m, Forall2 R l m -> Forall2 R (gsrt ka l) (gsrt kb m).
Proof.
  intros A B ka kb R Hk l m Hlm.
  induction Hlm as [|a b l m Hab Hlm IH]; cbn [gsrt]; [constructor|].
  apply (gins_Forall2 A B ka kb R Hk); assumption.
Qed.

(* ------------------------------------------------------------------ *)
(** * Named versions of the local fixpoints of the model, and unfolding equations *)

Fixpoint canon_list (l : list json) : res (list str) :=
  match l with
  | [] => Ok []
  | x :: l' => do a <- canon x; do r <- canon_list l'; Ok (a :: r)
  end.

Fixpoint canon_members (l : list (str * json)) : res (list (str * str)) :=
  match l with
  | [] => Ok []
  | (k, v) :: l' => do a <- canon v; do r <- canon_members l'; Ok ((k, a) :: r)
  end.

Definition member_str (ka : str * str) : str := canon_str (fst ka) ++ 58 :: snd ka.

Fixpoint norm_members (l : list (str * json)) : list (str * json) :=
  match l with [] => [] | (k, v) :: l' => (k, norm v) :: norm_members l' end.

Fixpoint wf_members (l : list (str * json)) : bool :=
  match l with [] => true | (_, v) :: l' => wf_json v && wf_members l' end.

Lemma sort_kv_gsrt : forall l, sort_kv l = gsrt fst l.
Proof. reflexivity. Qed.

Lemma canon_JList : forall l,
  canon (JList l) = do parts <- canon_list l; Ok (91 :: join_with 44 parts ++ [93]).
Proof. reflexivity. Qed.

Lemma canon_JDict : forall l,
  canon (JDict l) =
  do parts <- canon_members l;
  Ok (123 :: join_with 44 (map member_str (gsrt fst parts)) ++ [125]).
Proof. reflexivity. Qed.

Lemma norm_JList : forall l, norm (JList l) = JList (map norm l).
Proof. reflexivity. Qed.

Lemma norm_JDict : forall l, norm (JDict l) = JDict (gsrt fst (norm_members l)).
Proof. reflexivity. Qed.

Lemma wf_JList : forall l, wf_json (JList l) = forallb wf_json l.
Proof. reflexivity. Qed.

Lemma wf_JDict : forall l, wf_json (JDict l) = nodup_keys (map fst l) && wf_members l.
Proof. reflexivity. Qed.

Lemma norm_members_map : forall l, norm_members l = map (fun kv => (fst kv, norm (snd kv))) l.
Proof.
  induction l as [|[k v] l IH]; cbn [norm_members map fst snd]; [reflexivity|].
  rewrite IH. reflexivity.
Qed.

Lemma norm_members_sort : forall l, gsrt fst (norm_members l) = norm_members (gsrt fst l).
Proof.
  intro l. rewrite !norm_members_map. symmetry.
  apply (gsrt_map _ _ fst fst). intro a. reflexivity.
Qed.

(* ------------------------------------------------------------------ *)
(** * The result monad and the two traversals *)

Lemma bind_ok : forall (A B : Type) (r : res A) (f : A -> res B) b,
  bind r f = Ok b -> exists a, r = Ok a /\ f a = Ok b.
Proof.
  intros A B r f b H. destruct r as [a|e]; cbn [bind] in H; [|discriminate].
  exists a. split; [reflexivity|exact H].
Qed.

Definition canon_rel (j : json) (s : str) : Prop := canon j = Ok s.
Definition member_rel (kv : str * json) (ka : str * str) : Prop :=
  fst kv = fst ka /\ canon (snd kv) = Ok (snd ka).

Lemma canon_list_ok : forall l pa, canon_list l = Ok pa <-> Forall2 canon_rel l pa.
Proof.
  induction l as [|x l IH]; intros pa; cbn [canon_list].
  - split; intro H.
    + inversion H; subst. constructor.
    + inversion H; subst. reflexivity.
  - split; intro H.
    + apply bind_ok in H. destruct H as [a [Ha H]].
      apply bind_ok in H. destruct H as [r [Hr H]].
      inversion H; subst. constructor; [exact Ha|]. apply IH. exact Hr.
    + inversion H as [|x' a l' r Ha Hr]; subst.
      unfold canon_rel in Ha. rewrite Ha. cbn [bind].
      apply IH in Hr. rewrite Hr. reflexivity.
Qed.

Lemma canon_members_ok : forall l pa, canon_members l = Ok pa <-> Forall2 member_rel l pa.
Proof.
  induction l as [|[k v] l IH]; intros pa; cbn [canon_members].
  - split; intro H.
    + inversion H; subst. constructor.
    + inversion H; subst. reflexivity.
  - split; intro H.
    + apply bind_ok in H. destruct H as [a [Ha H]].
      apply bind_ok in H. destruct H as [r [Hr H]].
      inversion H; subst. constructor; [split; [reflexivity|exact Ha]|]. apply IH. exact Hr.
    + inversion H as [|x' [k' a] l' r [Hk Ha] Hr]; subst.
      cbn [fst snd] in Hk, Ha. subst k'. rewrite Ha. cbn [bind].
      apply IH in Hr. rewrite Hr. reflexivity.
Qed.

Lemma member_rel_key : forall kv ka, member_rel kv ka -> fst kv = fst ka.
Proof. intros kv ka [H _]. exact H. Qed.

Lemma canon_members_sort : forall l pa,
  canon_members l = Ok pa -> canon_members (gsrt fst l) = Ok (gsrt fst pa).
Proof.
  intros l pa H. apply canon_members_ok. apply canon_members_ok in H.
  apply (gsrt_Forall2 _ _ fst fst member_rel member_rel_key). exact H.
Qed.

(** the only failure is FormatError *)
Lemma canon_list_err : forall l e,
  Forall (fun j => forall e, canon j = Err e -> e = EFormat) l ->
  canon_list l = Err e -> e = EFormat.
Proof.
  intros l e HF. induction HF as [|x l Hx HF IH]; cbn [canon_list]; intro H; [discriminate|].
  destruct (canon x) as [a|e'] eqn:Ex; cbn [bind] in H.
  - destruct (canon_list l) as [r|e''] eqn:El; cbn [bind] in H; [discriminate|].
    inversion H; subst. apply IH. reflexivity.
  - inversion H; subst. apply Hx. reflexivity.
Qed.

Lemma canon_members_err : forall l e,
  Forall (fun kv => forall e, canon (snd kv) = Err e -> e = EFormat) l ->
  canon_members l = Err e -> e = EFormat.
Proof.
  intros l e HF. induction HF as [|[k v] l Hx HF IH]; cbn [canon_members]; intro H; [discriminate|].
  cbn [snd] in Hx.
  destruct (canon v) as [a|e'] eqn:Ex; cbn [bind] in H.
  - destruct (canon_members l) as [r|e''] eqn:El; cbn [bind] in H; [discriminate|].
    inversion H; subst. apply IH. reflexivity.
  - inversion H; subst. apply Hx. reflexivity.
Qed.

Lemma canon_err : forall j e, canon j = Err e -> e = EFormat.
Proof.
  induction j as [|b|z|r|s|l IH|l IH] using json_ind'; intros e H.
  - discriminate.
  - destruct b; discriminate.
  - discriminate.
  - cbn [canon] in H. inversion H. reflexivity.
  - discriminate.
  - rewrite canon_JList in H.
    destruct (canon_list l) as [pa|e'] eqn:El; cbn [bind] in H; [discriminate|].
    inversion H; subst. eapply canon_list_err; eassumption.
  - rewrite canon_JDict in H.
    destruct (canon_members l) as [pa|e'] eqn:El; cbn [bind] in H; [discriminate|].
    inversion H; subst. eapply canon_members_err; eassumption.
Qed.

Lemma canon_members_err' : forall l e, canon_members l = Err e -> e = EFormat.
Proof.
  intros l e. apply canon_members_err. apply Forall_forall. intros kv _ e'. apply canon_err.
Qed.

(** success of the member traversal is a property of the set of entries *)
Definition member_okP (kv : str * json) : Prop := exists s, canon (snd kv) = Ok s.

Lemma canon_members_ok_iff : forall l,
  (exists pa, canon_members l = Ok pa) <-> Forall member_okP l.
Proof.
  induction l as [|[k v] l IH]; cbn [canon_members].
  - split; intro H; [constructor | exists []; reflexivity].
  - split; intro H.
    + destruct H as [pa H].
      apply bind_ok in H. destruct H as [a [Ha H]].
      apply bind_ok in H. destruct H as [r [Hr H]].
      constructor; [exists a; exact Ha|]. apply IH. exists r. exact Hr.
    + inversion H as [|x l' [s Hs] Hl]; subst. cbn [snd] in Hs.
      apply IH in Hl. destruct Hl as [r Hr]. exists ((k, s) :: r).
      rewrite Hs, Hr. reflexivity.
Qed.

(* ------------------------------------------------------------------ *)
(** * canon_total *)

Lemma canon_list_total : forall l,
  Forall (fun j => wf_json j = true -> exists s, canon j = Ok s) l ->
  forallb wf_json l = true -> exists pa, canon_list l = Ok pa.
Proof.
  intros l HF. induction HF as [|x l Hx HF IH]; cbn [forallb canon_list]; intro Hwf.
  - exists []. reflexivity.
  - apply andb_true_iff in Hwf. destruct Hwf as [Hwx Hwl].
    destruct (Hx Hwx) as [s Hs]. destruct (IH Hwl) as [r Hr].
    exists (s :: r). rewrite Hs, Hr. reflexivity.
Qed.

Lemma canon_members_total : forall l,
  Forall (fun kv => wf_json (snd kv) = true -> exists s, canon (snd kv) = Ok s) l ->
  wf_members l = true -> exists pa, canon_members l = Ok pa.
Proof.
  intros l HF. induction HF as [|[k v] l Hx HF IH]; cbn [wf_members canon_members]; intro Hwf.
  - exists []. reflexivity.
  - cbn [snd] in Hx.
    apply andb_true_iff in Hwf. destruct Hwf as [Hwx Hwl].
    destruct (Hx Hwx) as [s Hs]. destruct (IH Hwl) as [r Hr].
    exists ((k, s) :: r). rewrite Hs, Hr. reflexivity.
Qed.

Theorem canon_total : forall j, wf_json j = true -> exists s, canon j = Ok s.
Proof.
  induction j as [|b|z|r|s|l IH|l IH] using json_ind'; intro Hwf.
  - eexists; reflexivity.
  - destruct b; eexists; reflexivity.
  - eexists; reflexivity.
  - discriminate.
  - eexists; reflexivity.
  - rewrite wf_JList in Hwf. destruct (canon_list_total l IH Hwf) as [pa Hpa].
    rewrite canon_JList, Hpa. eexists; reflexivity.
  - rewrite wf_JDict in Hwf. apply andb_true_iff in Hwf. destruct Hwf as [_ Hwf].
    destruct (canon_members_total l IH Hwf) as [pa Hpa].
    rewrite canon_JDict, Hpa. eexists; reflexivity.
Qed.

(* ------------------------------------------------------------------ *)
(** * canon_norm *)

Lemma canon_list_norm : forall l,
  Forall (fun j => canon (norm j) = canon j) l -> canon_list (map norm l) = canon_list l.
Proof.
  intros l HF. induction HF as [|x l Hx HF IH]; cbn [map canon_list]; [reflexivity|].
  rewrite Hx, IH. reflexivity.
Qed.

Lemma canon_members_norm : forall l,
  Forall (fun kv => canon (norm (snd kv)) = canon (snd kv)) l ->
  canon_members (norm_members l) = canon_members l.
Proof.
  intros l HF. induction HF as [|[k v] l Hx HF IH]; cbn [norm_members canon_members]; [reflexivity|].
  cbn [snd] in Hx. rewrite Hx, IH. reflexivity.
Qed.

(** sorting the entries first does not change the text *)
Lemma canon_JDict_sort : forall l, canon (JDict (gsrt fst l)) = canon (JDict l).
Proof.
  intro l. rewrite !canon_JDict.
  destruct (canon_members l) as [pa|e] eqn:El.
  - rewrite (canon_members_sort l pa El). cbn [bind]. rewrite gsrt_idem. reflexivity.
  - destruct (canon_members (gsrt fst l)) as [qa|e'] eqn:Es.
    + exfalso.
      assert (exists pa, canon_members l = Ok pa) as [pa Hpa].
      { apply canon_members_ok_iff.
        assert (Forall member_okP (gsrt fst l)) as HF
          by (apply canon_members_ok_iff; exists qa; exact Es).
        eapply Permutation_Forall; [apply Permutation_sym; apply gsrt_perm | exact HF]. }
      congruence.
    + cbn [bind]. apply canon_members_err' in El. apply canon_members_err' in Es.
      subst. reflexivity.
Qed.

Theorem canon_norm : forall j, canon (norm j) = canon j.
Proof.
  induction j as [|b|z|r|s|l IH|l IH] using json_ind'; try reflexivity.
  - rewrite norm_JList, !canon_JList, (canon_list_norm l IH). reflexivity.
  - rewrite norm_JDict, canon_JDict_sort, !canon_JDict, (canon_members_norm l IH). reflexivity.
Qed.

(* ------------------------------------------------------------------ *)
(** * norm_perm *)

Theorem norm_perm : forall l l',
  NoDup (map fst l) -> Permutation l l' -> norm (JDict l) = norm (JDict l').
Proof.
  intros l l' ND HP. rewrite !norm_JDict. f_equal.
  apply gsrt_perm_eq.
  - rewrite norm_members_map, map_map. cbn [fst]. exact ND.
  - rewrite !norm_members_map. apply Permutation_map. exact HP.
Qed.

(* ------------------------------------------------------------------ *)
(** * The decimal printer *)

Definition digitP (c : N) : Prop := 48 <= c <= 57.

Lemma cons_inv : forall (A : Type) (x y : A) l l', x :: l = y :: l' -> x = y /\ l = l'.
Proof. intros A x y l l' H. injection H as H1 H2. split; assumption. Qed.

(** fuel-indexed specification of the digits, most significant first *)
Fixpoint digs (f : nat) (n : N) : list N :=
  match f with
  | O => []
  | S f' => if N.ltb n 10 then [48 + n] else digs f' (n / 10) ++ [48 + n mod 10]
  end.

Lemma print_pos_digits_digs : forall f n acc, print_pos_digits f n acc = digs f n ++ acc.
Proof.
  induction f as [|f IH]; intros n acc; cbn [print_pos_digits digs]; [reflexivity|].
  destruct (N.ltb n 10); [reflexivity|].
  rewrite IH, <- app_assoc. reflexivity.
Qed.

Lemma print_N_digs : forall n, print_N n = digs (S (N.to_nat (N.size n))) n.
Proof. intro n. unfold print_N. rewrite print_pos_digits_digs, app_nil_r. reflexivity. Qed.

(** enough fuel *)
Fixpoint fits (f : nat) (n : N) : Prop :=
  match f with
  | O => False
  | S f' => n < 10 \/ fits f' (n / 10)
  end.

Lemma fits_pow2 : forall f n, n < 2 ^ N.of_nat f -> fits (S f) n.
Proof.
  induction f as [|f IH]; intros n H.
  - cbn [fits]. left. change (2 ^ N.of_nat 0) with 1 in H. lia.
  - cbn [fits] in *. destruct (N.ltb_spec n 10) as [L|L]; [left; exact L|right].
    apply IH. rewrite Nat2N.inj_succ, N.pow_succ_r' in H.
    apply N.div_lt_upper_bound; lia.
Qed.

Lemma fits_print_N : forall n, fits (S (N.to_nat (N.size n))) n.
Proof.
  intro n. apply fits_pow2. rewrite N2Nat.id. apply N.size_gt.
Qed.

Lemma digs_nonempty : forall f n, fits f n -> digs f n <> [].
Proof.
  intros [|f] n H; cbn [fits digs] in *; [contradiction|].
  destruct (N.ltb n 10); [discriminate|].
  intro E. apply app_eq_nil in E. destruct E as [_ E]. discriminate.
Qed.

Lemma digs_digits : forall f n, Forall digitP (digs f n).
Proof.
  induction f as [|f IH]; intros n; cbn [digs]; [constructor|].
  destruct (N.ltb_spec n 10) as [L|L].
  - constructor; [unfold digitP; lia|constructor].
  - apply Forall_app. split; [apply IH|].
    constructor; [|constructor]. unfold digitP.
    pose proof (N.mod_upper_bound n 10). lia.
Qed.

Lemma digs_inj : forall f n f' m, fits f n -> fits f' m -> digs f n = digs f' m -> n = m.
Proof.
  induction f as [|f IH]; intros n f' m Hn Hm E; [contradiction|].
  destruct f' as [|f']; [contradiction|].
  cbn [fits] in Hn, Hm. cbn [digs] in E.
  destruct (N.ltb_spec n 10) as [Ln|Ln]; destruct (N.ltb_spec m 10) as [Lm|Lm].
  - apply cons_inv in E. destruct E as [E1 _]. lia.
  - exfalso. destruct Hm as [Hm|Hm]; [lia|].
    destruct (digs f' (m / 10)) eqn:D; [eapply digs_nonempty; eassumption|].
    cbn [app] in E. apply cons_inv in E. destruct E as [E1 E2]. symmetry in E2.
    apply app_eq_nil in E2. destruct E2 as [_ E2]. discriminate.
  - exfalso. destruct Hn as [Hn|Hn]; [lia|].
    destruct (digs f (n / 10)) eqn:D; [eapply digs_nonempty; eassumption|].
    cbn [app] in E. apply cons_inv in E. destruct E as [E1 E2].
    apply app_eq_nil in E2. destruct E2 as [_ E2]. discriminate.
  - destruct Hn as [Hn|Hn]; [lia|]. destruct Hm as [Hm|Hm]; [lia|].
    apply app_inj_tail in E. destruct E as [E1 E2].
    pose proof (IH _ _ _ Hn Hm E1) as Ediv.
    rewrite (N.div_mod n 10), (N.div_mod m 10) by lia.
    assert (n mod 10 = m mod 10) as Emod by lia.
    rewrite Ediv, Emod. reflexivity.
Qed.

Lemma print_N_inj : forall n m, print_N n = print_N m -> n = m.
Proof.
  intros n m H. rewrite !print_N_digs in H.
  eapply digs_inj; [apply fits_print_N | apply fits_print_N | exact H].
Qed.

Lemma print_N_digits : forall n, Forall digitP (print_N n).
Proof. intro n. rewrite print_N_digs. apply digs_digits. Qed.

Lemma print_N_nonempty : forall n, print_N n <> [].
Proof. intro n. rewrite print_N_digs. apply digs_nonempty. apply fits_print_N. Qed.

Lemma print_N_head : forall n, exists c r, print_N n = c :: r /\ digitP c.
Proof.
  intro n. pose proof (print_N_digits n) as HF. pose proof (print_N_nonempty n) as HN.
  destruct (print_N n) as [|c r]; [congruence|].
  exists c, r. split; [reflexivity|]. inversion HF; assumption.
Qed.

(** a run of digits is delimited by the first non-digit *)
Definition nodig (x : list N) : Prop :=
  match x with [] => True | c :: _ => ~ digitP c end.

Lemma digits_delim : forall d1 d2 x y,
  Forall digitP d1 -> Forall digitP d2 -> nodig x -> nodig y ->
  d1 ++ x = d2 ++ y -> d1 = d2 /\ x = y.
Proof.
  induction d1 as [|c d1 IH]; intros d2 x y F1 F2 Nx Ny E.
  - destruct d2 as [|c2 d2]; [split; [reflexivity|exact E]|].
    exfalso. cbn [app] in E. subst x. cbn [nodig] in Nx. inversion F2; subst. contradiction.
  - destruct d2 as [|c2 d2].
    + exfalso. cbn [app] in E. subst y. cbn [nodig] in Ny. inversion F1; subst. contradiction.
    + cbn [app] in E. inversion E as [[Ec Er]]. subst c2.
      inversion F1; subst. inversion F2; subst.
      destruct (IH d2 x y) as [Ed Exy]; try assumption.
      subst. split; reflexivity.
Qed.

Lemma print_Z_delim : forall z w x y, nodig x -> nodig y ->
  print_Z z ++ x = print_Z w ++ y -> z = w /\ x = y.
Proof.
  intros z w x y Nx Ny E.
  assert (forall p, print_N (N.pos p) <> [48]) as Hpos.
  { intros p Hp. change [48] with (print_N 0) in Hp. apply print_N_inj in Hp. discriminate. }
  assert (forall p q x y, nodig x -> nodig y ->
            print_N (N.pos p) ++ x = print_N (N.pos q) ++ y -> p = q /\ x = y) as Hpp.
  { intros p q x0 y0 Nx0 Ny0 E0.
    destruct (digits_delim _ _ _ _ (print_N_digits _) (print_N_digits _) Nx0 Ny0 E0) as [Ed Exy].
    apply print_N_inj in Ed. inversion Ed. split; [reflexivity|exact Exy]. }
  assert (forall n r, print_N n <> 45 :: r) as Hneg.
  { intros n r Hn. destruct (print_N_head n) as [c [r' [Hc Hd]]].
    rewrite Hc in Hn. inversion Hn; subst. unfold digitP in Hd. lia. }
  assert (Forall digitP [48]) as F0 by (constructor; [unfold digitP; lia|constructor]).
  destruct z as [|p|p]; destruct w as [|q|q]; cbn [print_Z] in E.
  - cbn [app] in E. inversion E. split; reflexivity.
  - exfalso. destruct (digits_delim _ _ _ _ F0 (print_N_digits _) Nx Ny E) as [Ed _].
    symmetry in Ed. exact (Hpos _ Ed).
  - exfalso. cbn [app] in E. inversion E.
  - exfalso. destruct (digits_delim _ _ _ _ (print_N_digits _) F0 Nx Ny E) as [Ed _].
    exact (Hpos _ Ed).
  - destruct (Hpp _ _ _ _ Nx Ny E) as [Epq Exy]. subst. split; reflexivity.
  - exfalso. destruct (print_N_head (N.pos p)) as [c [r [Hc Hd]]].
    rewrite Hc in E. cbn [app] in E. inversion E; subst. unfold digitP in Hd. lia.
  - exfalso. cbn [app] in E. inversion E.
  - exfalso. destruct (print_N_head (N.pos q)) as [c [r [Hc Hd]]].
    rewrite Hc in E. cbn [app] in E. inversion E; subst. unfold digitP in Hd. lia.
  - cbn [app] in E. inversion E as [E'].
    destruct (Hpp _ _ _ _ Nx Ny E') as [Epq Exy]. subst. split; reflexivity.
Qed.

(* ------------------------------------------------------------------ *)
(** * Quoted strings are self-delimiting *)

Lemma canon_char_cases : forall c,
  (c = 92 /\ canon_char c = [92; 92]) \/
  (c = 34 /\ canon_char c = [92; 34]) \/
  (c <> 92 /\ c <> 34 /\ canon_char c = [c]).
Proof.
  intro c. unfold canon_char.
  destruct (N.eqb_spec c 92) as [E1|E1]; [left; split; [exact E1|reflexivity]|].
  destruct (N.eqb_spec c 34) as [E2|E2]; [right; left; split; [exact E2|reflexivity]|].
  right; right. repeat split; assumption.
Qed.

Lemma str_body_delim : forall s t x y,
  flat_map canon_char s ++ 34 :: x = flat_map canon_char t ++ 34 :: y -> s = t /\ x = y.
Proof.
  induction s as [|c s IH]; intros t x y E.
  - destruct t as [|d t]; cbn [flat_map app] in E.
    + apply cons_inv in E. destruct E as [_ E]. split; [reflexivity|exact E].
    + exfalso. rewrite <- app_assoc in E.
      destruct (canon_char_cases d) as [[Hd Hc]|[[Hd Hc]|[Hd1 [Hd2 Hc]]]];
        rewrite Hc in E; cbn [app] in E; apply cons_inv in E; destruct E as [E _].
      * discriminate E.
      * discriminate E.
      * congruence.
  - destruct t as [|d t]; cbn [flat_map app] in E.
    + exfalso. rewrite <- app_assoc in E.
      destruct (canon_char_cases c) as [[Hd Hc]|[[Hd Hc]|[Hd1 [Hd2 Hc]]]];
        rewrite Hc in E; cbn [app] in E; apply cons_inv in E; destruct E as [E _].
      * discriminate E.
      * discriminate E.
      * congruence.
    + rewrite <- !app_assoc in E.
      destruct (canon_char_cases c) as [[Hc Ec]|[[Hc Ec]|[Hc1 [Hc2 Ec]]]];
      destruct (canon_char_cases d) as [[Hd Ed]|[[Hd Ed]|[Hd1 [Hd2 Ed]]]];
        rewrite Ec, Ed in E; cbn [app] in E;
        apply cons_inv in E; destruct E as [E1 E2].
      * apply cons_inv in E2. destruct E2 as [_ E2].
        destruct (IH _ _ _ E2) as [Est Exy]. subst. split; reflexivity.
      * apply cons_inv in E2. destruct E2 as [E2 _]. discriminate E2.
      * congruence.
      * apply cons_inv in E2. destruct E2 as [E2 _]. discriminate E2.
      * apply cons_inv in E2. destruct E2 as [_ E2].
        destruct (IH _ _ _ E2) as [Est Exy]. subst. split; reflexivity.
      * congruence.
      * congruence.
      * congruence.
      * destruct (IH _ _ _ E2) as [Est Exy]. subst. split; reflexivity.
Qed.

Lemma canon_str_delim : forall s t x y,
  canon_str s ++ x = canon_str t ++ y -> s = t /\ x = y.
Proof.
  intros s t x y E. unfold canon_str in E. cbn [app] in E.
  apply cons_inv in E. destruct E as [_ E].
  rewrite <- !app_assoc in E. cbn [app] in E.
  apply str_body_delim in E. exact E.
Qed.

(* ------------------------------------------------------------------ *)
(** * The first character determines the kind of value *)

Definition head_class (c : N) : nat :=
  if N.eqb c 34 then 0%nat
  else if N.eqb c 116 || N.eqb c 102 then 1%nat
  else if N.eqb c 110 then 2%nat
  else if (N.leb 48 c && N.leb c 57) || N.eqb c 45 then 3%nat
  else if N.eqb c 91 then 4%nat
  else if N.eqb c 123 then 5%nat
  else 7%nat.

Definition jclass (j : json) : nat :=
  match j with
  | JStr _ => 0 | JBool _ => 1 | JNull => 2 | JInt _ => 3 | JList _ => 4 | JDict _ => 5 | JFloat _ => 6
  end%nat.

Lemma jclass_ne7 : forall j, jclass j <> 7%nat.
Proof. destruct j; discriminate. Qed.

Lemma head_class_digit : forall c, digitP c -> head_class c = 3%nat.
Proof.
  intros c [H1 H2]. unfold head_class.
  assert (N.eqb c 34 = false) as -> by (apply N.eqb_neq; lia).
  assert (N.eqb c 116 = false) as -> by (apply N.eqb_neq; lia).
  assert (N.eqb c 102 = false) as -> by (apply N.eqb_neq; lia).
  assert (N.eqb c 110 = false) as -> by (apply N.eqb_neq; lia).
  assert (N.leb 48 c = true) as -> by (apply N.leb_le; lia).
  assert (N.leb c 57 = true) as -> by (apply N.leb_le; lia).
  reflexivity.
Qed.

Lemma canon_head : forall j s, canon j = Ok s ->
  exists c r, s = c :: r /\ head_class c = jclass j.
Proof.
  intros j s H. destruct j as [|b|z|r|t|l|l].
  - inversion H; subst. eexists; eexists; split; reflexivity.
  - destruct b; inversion H; subst; eexists; eexists; split; reflexivity.
  - cbn [canon] in H. inversion H; subst. cbn [jclass].
    destruct z as [|p|p]; cbn [print_Z].
    + eexists; eexists; split; reflexivity.
    + destruct (print_N_head (N.pos p)) as [c [r [Hc Hd]]].
      exists c, r. split; [exact Hc|]. apply head_class_digit. exact Hd.
    + eexists; eexists; split; reflexivity.
  - discriminate H.
  - cbn [canon] in H. inversion H; subst. unfold canon_str.
    eexists; eexists; split; reflexivity.
  - rewrite canon_JList in H. apply bind_ok in H. destruct H as [pa [_ H]].
    inversion H; subst. eexists; eexists; split; reflexivity.
  - rewrite canon_JDict in H. apply bind_ok in H. destruct H as [pa [_ H]].
    inversion H; subst. eexists; eexists; split; reflexivity.
Qed.

Lemma canon_head_app : forall j s w c r, canon j = Ok s -> s ++ w = c :: r ->
  head_class c = jclass j.
Proof.
  intros j s w c r H E. destruct (canon_head j s H) as [c' [r' [Hs Hc]]].
  subst s. cbn [app] in E. apply cons_inv in E. destruct E as [E _]. subst c'. exact Hc.
Qed.

Lemma same_class : forall a b sa sb x y,
  canon a = Ok sa -> canon b = Ok sb -> sa ++ x = sb ++ y -> jclass a = jclass b.
Proof.
  intros a b sa sb x y Ha Hb E.
  destruct (canon_head a sa Ha) as [c [r [Hs Hc]]]. subst sa. cbn [app] in E.
  symmetry in E. rewrite <- Hc. eapply canon_head_app; eassumption.
Qed.

(* ------------------------------------------------------------------ *)
(** * Comma-separated sequences *)

Fixpoint jtail (l : list str) (z : str) : str :=
  match l with [] => z | s :: l' => 44 :: s ++ jtail l' z end.
Definition jbody (l : list str) (z : str) : str :=
  match l with [] => z | s :: l' => s ++ jtail l' z end.

Lemma join_jbody : forall l z, join_with 44 l ++ z = jbody l z.
Proof.
  induction l as [|s l IH]; intro z; [reflexivity|].
  destruct l as [|s' l].
  - reflexivity.
  - change (join_with 44 (s :: s' :: l)) with (s ++ 44 :: join_with 44 (s' :: l)).
    rewrite <- app_assoc. cbn [app]. rewrite IH. reflexivity.
Qed.

Lemma nodig_jtail : forall l c x, ~ digitP c -> nodig (jtail l (c :: x)).
Proof.
  intros [|s l] c x H; cbn [jtail nodig]; [exact H|]. unfold digitP. lia.
Qed.

Lemma not_digit_93 : ~ digitP 93. Proof. unfold digitP. lia. Qed.
Lemma not_digit_125 : ~ digitP 125. Proof. unfold digitP. lia. Qed.

Lemma canon_list_cons_inv : forall a l pa, canon_list (a :: l) = Ok pa ->
  exists sa pa', pa = sa :: pa' /\ canon a = Ok sa /\ canon_list l = Ok pa'.
Proof.
  intros a l pa H. cbn [canon_list] in H.
  apply bind_ok in H. destruct H as [sa [Ha H]].
  apply bind_ok in H. destruct H as [r [Hr H]].
  inversion H; subst. exists sa, r. repeat split; assumption.
Qed.

Lemma canon_members_cons_inv : forall k v l pa, canon_members ((k, v) :: l) = Ok pa ->
  exists sv pa', pa = (k, sv) :: pa' /\ canon v = Ok sv /\ canon_members l = Ok pa'.
Proof.
  intros k v l pa H. cbn [canon_members] in H.
  apply bind_ok in H. destruct H as [sa [Ha H]].
  apply bind_ok in H. destruct H as [r [Hr H]].
  inversion H; subst. exists sa, r. repeat split; assumption.
Qed.

Lemma canon_list_nil_inv : forall pa, canon_list [] = Ok pa -> pa = [].
Proof. intros pa H. inversion H. reflexivity. Qed.

Lemma canon_members_nil_inv : forall pa, canon_members [] = Ok pa -> pa = [].
Proof. intros pa H. inversion H. reflexivity. Qed.

(* ------------------------------------------------------------------ *)
(** * Unique readability *)

Definition URead (a : json) : Prop :=
  forall b sa sb x y, canon a = Ok sa -> canon b = Ok sb -> nodig x -> nodig y ->
    sa ++ x = sb ++ y -> norm a = norm b /\ x = y.

Lemma list_tail_delim : forall la, Forall URead la ->
  forall lb pa pb x y, canon_list la = Ok pa -> canon_list lb = Ok pb ->
    jtail pa (93 :: x) = jtail pb (93 :: y) -> map norm la = map norm lb /\ x = y.
Proof.
  intros la HF. induction HF as [|a la Ha HF IH]; intros lb pa pb x y Hpa Hpb E.
  - apply canon_list_nil_inv in Hpa. subst pa. destruct lb as [|b lb].
    + apply canon_list_nil_inv in Hpb. subst pb. cbn [jtail] in E.
      apply cons_inv in E. destruct E as [_ E]. split; [reflexivity|exact E].
    + exfalso. apply canon_list_cons_inv in Hpb. destruct Hpb as [sb [pb' [Epb _]]].
      subst pb. cbn [jtail] in E. apply cons_inv in E. destruct E as [E _]. discriminate E.
  - apply canon_list_cons_inv in Hpa. destruct Hpa as [sa [pa' [Epa [Hsa Hpa']]]]. subst pa.
    destruct lb as [|b lb].
    + exfalso. apply canon_list_nil_inv in Hpb. subst pb. cbn [jtail] in E.
      apply cons_inv in E. destruct E as [E _]. discriminate E.
    + apply canon_list_cons_inv in Hpb. destruct Hpb as [sb [pb' [Epb [Hsb Hpb']]]]. subst pb.
      cbn [jtail] in E. apply cons_inv in E. destruct E as [_ E].
      destruct (Ha b sa sb _ _ Hsa Hsb (nodig_jtail _ _ _ not_digit_93)
                  (nodig_jtail _ _ _ not_digit_93) E) as [Eab Et].
      destruct (IH lb pa' pb' x y Hpa' Hpb' Et) as [El Exy].
      cbn [map]. rewrite Eab, El. split; [reflexivity|exact Exy].
Qed.

Lemma list_body_delim : forall la, Forall URead la ->
  forall lb pa pb x y, canon_list la = Ok pa -> canon_list lb = Ok pb ->
    jbody pa (93 :: x) = jbody pb (93 :: y) -> map norm la = map norm lb /\ x = y.
Proof.
  intros la HF lb pa pb x y Hpa Hpb E.
  destruct la as [|a la]; destruct lb as [|b lb].
  - apply canon_list_nil_inv in Hpa. apply canon_list_nil_inv in Hpb. subst. cbn [jbody] in E.
    apply cons_inv in E. destruct E as [_ E]. split; [reflexivity|exact E].
  - exfalso. apply canon_list_nil_inv in Hpa. subst pa.
    apply canon_list_cons_inv in Hpb. destruct Hpb as [sb [pb' [Epb [Hsb _]]]]. subst pb.
    cbn [jbody] in E. symmetry in E.
    pose proof (canon_head_app _ _ _ _ _ Hsb E) as C.
    apply (jclass_ne7 b). rewrite <- C. reflexivity.
  - exfalso. apply canon_list_nil_inv in Hpb. subst pb.
    apply canon_list_cons_inv in Hpa. destruct Hpa as [sa [pa' [Epa [Hsa _]]]]. subst pa.
    cbn [jbody] in E.
    pose proof (canon_head_app _ _ _ _ _ Hsa E) as C.
    apply (jclass_ne7 a). rewrite <- C. reflexivity.
  - apply canon_list_cons_inv in Hpa. destruct Hpa as [sa [pa' [Epa [Hsa Hpa']]]]. subst pa.
    apply canon_list_cons_inv in Hpb. destruct Hpb as [sb [pb' [Epb [Hsb Hpb']]]]. subst pb.
    cbn [jbody] in E. inversion HF as [|a' la' Ha HF']; subst.
    destruct (Ha b sa sb _ _ Hsa Hsb (nodig_jtail _ _ _ not_digit_93)
                (nodig_jtail _ _ _ not_digit_93) E) as [Eab Et].
    destruct (list_tail_delim la HF' lb pa' pb' x y Hpa' Hpb' Et) as [El Exy].
    cbn [map]. rewrite Eab, El. split; [reflexivity|exact Exy].
Qed.

Definition URead_member (kv : str * json) : Prop := URead (snd kv).

Lemma member_step : forall k v k' v' sv sv' ta tb,
  URead v -> canon v = Ok sv -> canon v' = Ok sv' -> nodig ta -> nodig tb ->
  member_str (k, sv) ++ ta = member_str (k', sv') ++ tb ->
  k = k' /\ norm v = norm v' /\ ta = tb.
Proof.
  intros k v k' v' sv sv' ta tb Hv Hsv Hsv' Na Nb E.
  unfold member_str in E. cbn [fst snd] in E.
  rewrite <- !app_assoc in E. cbn [app] in E.
  apply canon_str_delim in E. destruct E as [Ek E].
  apply cons_inv in E. destruct E as [_ E].
  destruct (Hv v' sv sv' ta tb Hsv Hsv' Na Nb E) as [Ev Et].
  repeat split; assumption.
Qed.

Lemma dict_tail_delim : forall la, Forall URead_member la ->
  forall lb qa qb x y, canon_members la = Ok qa -> canon_members lb = Ok qb ->
    jtail (map member_str qa) (125 :: x) = jtail (map member_str qb) (125 :: y) ->
    norm_members la = norm_members lb /\ x = y.
Proof.
  intros la HF. induction HF as [|[k v] la Hv HF IH]; intros lb qa qb x y Hqa Hqb E.
  - apply canon_members_nil_inv in Hqa. subst qa. destruct lb as [|[k' v'] lb].
    + apply canon_members_nil_inv in Hqb. subst qb. cbn [map jtail] in E.
      apply cons_inv in E. destruct E as [_ E]. split; [reflexivity|exact E].
    + exfalso. apply canon_members_cons_inv in Hqb. destruct Hqb as [sb [qb' [Eqb _]]].
      subst qb. cbn [map jtail] in E. apply cons_inv in E. destruct E as [E _]. discriminate E.
  - apply canon_members_cons_inv in Hqa. destruct Hqa as [sv [qa' [Eqa [Hsv Hqa']]]]. subst qa.
    destruct lb as [|[k' v'] lb].
    + exfalso. apply canon_members_nil_inv in Hqb. subst qb. cbn [map jtail] in E.
      apply cons_inv in E. destruct E as [E _]. discriminate E.
    + apply canon_members_cons_inv in Hqb. destruct Hqb as [sv' [qb' [Eqb [Hsv' Hqb']]]]. subst qb.
      cbn [map jtail] in E. apply cons_inv in E. destruct E as [_ E].
      unfold URead_member in Hv. cbn [snd] in Hv.
      destruct (member_step _ _ _ _ _ _ _ _ Hv Hsv Hsv'
                  (nodig_jtail _ _ _ not_digit_125) (nodig_jtail _ _ _ not_digit_125) E)
        as [Ek [Ev Et]].
      destruct (IH lb qa' qb' x y Hqa' Hqb' Et) as [El Exy].
      cbn [norm_members]. rewrite Ek, Ev, El. split; [reflexivity|exact Exy].
Qed.

Lemma dict_body_delim : forall la, Forall URead_member la ->
  forall lb qa qb x y, canon_members la = Ok qa -> canon_members lb = Ok qb ->
    jbody (map member_str qa) (125 :: x) = jbody (map member_str qb) (125 :: y) ->
    norm_members la = norm_members lb /\ x = y.
Proof.
  intros la HF lb qa qb x y Hqa Hqb E.
  destruct la as [|[k v] la]; destruct lb as [|[k' v'] lb].
  - apply canon_members_nil_inv in Hqa. apply canon_members_nil_inv in Hqb. subst.
    cbn [map jbody] in E. apply cons_inv in E. destruct E as [_ E]. split; [reflexivity|exact E].
  - exfalso. apply canon_members_nil_inv in Hqa. subst qa.
    apply canon_members_cons_inv in Hqb. destruct Hqb as [sb [qb' [Eqb _]]]. subst qb.
    cbn [map jbody] in E. unfold member_str, canon_str in E. cbn [fst app] in E.
    apply cons_inv in E. destruct E as [E _]. discriminate E.
  - exfalso. apply canon_members_nil_inv in Hqb. subst qb.
    apply canon_members_cons_inv in Hqa. destruct Hqa as [sa [qa' [Eqa _]]]. subst qa.
    cbn [map jbody] in E. unfold member_str, canon_str in E. cbn [fst app] in E.
    apply cons_inv in E. destruct E as [E _]. discriminate E.
  - apply canon_members_cons_inv in Hqa. destruct Hqa as [sv [qa' [Eqa [Hsv Hqa']]]]. subst qa.
    apply canon_members_cons_inv in Hqb. destruct Hqb as [sv' [qb' [Eqb [Hsv' Hqb']]]]. subst qb.
    cbn [map jbody] in E. inversion HF as [|kv' la' Hv HF']; subst.
    unfold URead_member in Hv. cbn [snd] in Hv.
    destruct (member_step _ _ _ _ _ _ _ _ Hv Hsv Hsv'
                (nodig_jtail _ _ _ not_digit_125) (nodig_jtail _ _ _ not_digit_125) E)
      as [Ek [Ev Et]].
    destruct (dict_tail_delim la HF' lb qa' qb' x y Hqa' Hqb' Et) as [El Exy].
    cbn [norm_members]. rewrite Ek, Ev, El. split; [reflexivity|exact Exy].
Qed.

Theorem uread : forall a, URead a.
Proof.
  induction a as [|b0|z|r|s|la IH|la IH] using json_ind';
    intros b sa sb x y Ha Hb Nx Ny E;
    pose proof (same_class _ _ _ _ _ _ Ha Hb E) as C;
    destruct b as [|b1|z1|r1|s1|lb|lb]; cbn [jclass] in C; try discriminate C; clear C.
  - inversion Ha; inversion Hb; subst. apply app_inv_head in E. split; [reflexivity|exact E].
  - destruct b0, b1; inversion Ha; inversion Hb; subst; cbn [app] in E.
    + repeat (apply cons_inv in E; destruct E as [_ E]). split; [reflexivity|exact E].
    + exfalso. apply cons_inv in E. destruct E as [E _]. discriminate E.
    + exfalso. apply cons_inv in E. destruct E as [E _]. discriminate E.
    + repeat (apply cons_inv in E; destruct E as [_ E]). split; [reflexivity|exact E].
  - cbn [canon] in Ha, Hb. inversion Ha; inversion Hb; subst.
    destruct (print_Z_delim _ _ _ _ Nx Ny E) as [Ez Exy]. subst. split; reflexivity.
  - discriminate Ha.
  - cbn [canon] in Ha, Hb. inversion Ha; inversion Hb; subst.
    destruct (canon_str_delim _ _ _ _ E) as [Es Exy]. subst. split; reflexivity.
  - rewrite canon_JList in Ha, Hb.
    apply bind_ok in Ha. destruct Ha as [pa [Hpa Ha]].
    apply bind_ok in Hb. destruct Hb as [pb [Hpb Hb]].
    inversion Ha; inversion Hb; subst. cbn [app] in E.
    apply cons_inv in E. destruct E as [_ E].
    rewrite <- !app_assoc in E. cbn [app] in E. rewrite !join_jbody in E.
    destruct (list_body_delim la IH lb pa pb x y Hpa Hpb E) as [El Exy].
    rewrite !norm_JList, El. split; [reflexivity|exact Exy].
  - rewrite canon_JDict in Ha, Hb.
    apply bind_ok in Ha. destruct Ha as [pa [Hpa Ha]].
    apply bind_ok in Hb. destruct Hb as [pb [Hpb Hb]].
    inversion Ha; inversion Hb; subst. cbn [app] in E.
    apply cons_inv in E. destruct E as [_ E].
    rewrite <- !app_assoc in E. cbn [app] in E. rewrite !join_jbody in E.
    apply canon_members_sort in Hpa. apply canon_members_sort in Hpb.
    assert (Forall URead_member (gsrt fst la)) as HF by (apply gsrt_Forall; exact IH).
    destruct (dict_body_delim _ HF _ _ _ x y Hpa Hpb E) as [El Exy].
    rewrite !norm_JDict, !norm_members_sort, El. split; [reflexivity|exact Exy].
Qed.

Theorem canon_inj : forall a b s, wf_json a = true -> wf_json b = true ->
  canon a = Ok s -> canon b = Ok s -> norm a = norm b.
Proof.
  intros a b s _ _ Ha Hb.
  destruct (uread a b s s [] [] Ha Hb I I eq_refl) as [H _]. exact H.
Qed.

(* ------------------------------------------------------------------ *)
(** * Signable bytes *)

Lemma signable_bytes_ok : forall a s, signable_bytes a = Ok s ->
  exists t, canon a = Ok t /\ s = utf8 t.
Proof.
  intros a s H. unfold signable_bytes in H.
  apply bind_ok in H. destruct H as [t [Ht H]].
  destruct (encodable t); [|discriminate H].
  inversion H; subst. exists t. split; [exact Ht|reflexivity].
Qed.

Theorem signable_bytes_inj : forall a b s, wf_json a = true -> wf_json b = true ->
  signable_bytes a = Ok s -> signable_bytes b = Ok s -> norm a = norm b.
Proof.
  intros a b s Wa Wb Ha Hb.
  apply signable_bytes_ok in Ha. destruct Ha as [ta [Hta Ea]].
  apply signable_bytes_ok in Hb. destruct Hb as [tb [Htb Eb]].
  assert (ta = tb) as Et by (apply utf8_inj_gen; congruence).
  subst tb. exact (canon_inj a b ta Wa Wb Hta Htb).
Qed.

(* ------------------------------------------------------------------ *)
(** * DSSE pre-authentication encoding *)

Lemma app_length_inv : forall (A : Type) (a b x y : list A),
  length a = length b -> a ++ x = b ++ y -> a = b /\ x = y.
Proof.
  intros A. induction a as [|c a IH]; intros [|d b] x y HL E; cbn [length] in HL; try discriminate HL.
  - split; [reflexivity|exact E].
  - cbn [app] in E. apply cons_inv in E. destruct E as [Ec E].
    injection HL as HL. destruct (IH b x y HL E) as [Eab Exy].
    subst. split; reflexivity.
Qed.

Lemma nodig_32 : forall x, nodig (32 :: x).
Proof. intro x. cbn [nodig]. unfold digitP. lia. Qed.

Lemma len_field_delim : forall n m x y,
  print_N (N.of_nat n) ++ 32 :: x = print_N (N.of_nat m) ++ 32 :: y -> n = m /\ x = y.
Proof.
  intros n m x y E.
  destruct (digits_delim _ _ _ _ (print_N_digits _) (print_N_digits _)
              (nodig_32 x) (nodig_32 y) E) as [Ed Exy].
  apply print_N_inj in Ed. apply Nat2N.inj in Ed.
  apply cons_inv in Exy. destruct Exy as [_ Exy]. split; assumption.
Qed.

Theorem pae_inj : forall t p t' p', pae t p = pae t' p' -> t = t' /\ p = p'.
Proof.
  intros t p t' p' E. unfold pae in E.
  apply app_inv_head in E. apply cons_inv in E. destruct E as [_ E].
  apply len_field_delim in E. destruct E as [HL E].
  apply (app_length_inv _ _ _ _ _ HL) in E. destruct E as [Et E]. subst t'.
  apply cons_inv in E. destruct E as [_ E].
  apply len_field_delim in E. destruct E as [_ E].
  split; [reflexivity|exact E].
Qed.
