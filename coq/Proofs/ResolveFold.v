(** ResolveFold.v — the dictionary the file resolver builds from the enumerated files:
    mangling, overwriting, the collision check; and the lift to hash_uris. *)
From InToto.Model Require Import Base Fs Resolve.
From InToto.Proofs Require Import FsProofs ResolveSpec ResolveProofs.
Local Arguments N.eqb : simpl never.

(* ------------------------------------------------------------------ *)
(** * dict_set / lookup / keys *)
Lemma lookup_dict_set : forall {A} k k' (v : A) d,
  lookup k (dict_set k' v d) = if eqs k k' then Some v else lookup k d.
Proof.
  induction d as [|[k0 v0] d IH]; simpl; [reflexivity|].
  destruct (eqs k' k0) eqn:E; simpl.
  - apply eqs_eq in E. subst k0. destruct (eqs k k'); reflexivity.
  - destruct (eqs k k0) eqn:E2.
    + apply eqs_eq in E2. subst k0. rewrite eqs_sym, E. reflexivity.
    + apply IH.
Qed.

Lemma keys_dict_set : forall {A} x k (v : A) d, In x (keys (dict_set k v d)) <-> x = k \/ In x (keys d).
Proof.
  unfold keys. induction d as [|[k0 v0] d IH]; simpl.
  - split; [intros [E|[]]; auto | intros [E|[]]; auto].
  - destruct (eqs k k0) eqn:E; simpl.
    + apply eqs_eq in E. subst k0. split; [intros [E|E]; auto | intros [E|[E|E]]; auto].
    + rewrite IH. split; [intros [E1|[E1|E1]]; auto | intros [E1|[E1|E1]]; auto].
Qed.

Lemma dict_set_new : forall {A} k (v : A) d, ~ In k (keys d) -> dict_set k v d = d ++ [(k, v)].
Proof.
  unfold keys. induction d as [|[k0 v0] d IH]; intro H; simpl in *; [reflexivity|].
  destruct (eqs k k0) eqn:E.
  - apply eqs_eq in E. subst. exfalso. apply H. left. reflexivity.
  - rewrite IH; [reflexivity | intro; apply H; right; assumption].
Qed.

Lemma dict_set_keys_in : forall {A} k (v : A) d, In k (keys d) -> keys (dict_set k v d) = keys d.
Proof.
  unfold keys. induction d as [|[k0 v0] d IH]; intro H; simpl in *; [contradiction|].
  destruct (eqs k k0) eqn:E; simpl; [reflexivity|].
  rewrite IH; [reflexivity|]. destruct H as [H|H]; [|assumption]. subst. rewrite eqs_refl in E. discriminate.
Qed.

Lemma NoDup_snoc : forall {A} (l : list A) x, NoDup l -> ~ In x l -> NoDup (l ++ [x]).
Proof.
  induction l as [|y l IH]; intros x N I; simpl.
  - constructor; [intros []|constructor].
  - inversion N; subst. constructor.
    + rewrite in_app_iff. intros [H|[H|[]]]; [contradiction | subst; apply I; left; reflexivity].
    + apply IH; [assumption | intro; apply I; right; assumption].
Qed.

Lemma dict_set_nodup : forall {A} k (v : A) d, NoDup (keys d) -> NoDup (keys (dict_set k v d)).
Proof.
  intros A k v d N. destruct (in_dec str_eq_dec k (keys d)) as [I|I].
  - rewrite dict_set_keys_in by assumption. assumption.
  - rewrite dict_set_new by assumption. unfold keys in *. rewrite map_app. simpl.
    apply NoDup_snoc; assumption.
Qed.

Lemma dict_update_fresh : forall (d acc : dict),
  NoDup (keys d) -> (forall k, In k (keys d) -> ~ In k (keys acc)) -> dict_update acc d = acc ++ d.
Proof.
  unfold dict_update. induction d as [|[k v] d IH]; intros acc N F; simpl.
  - rewrite app_nil_r. reflexivity.
  - unfold keys in *. simpl in *. inversion N; subst.
    rewrite dict_set_new by (apply F; left; reflexivity).
    rewrite IH.
    + rewrite <- app_assoc. reflexivity.
    + assumption.
    + intros k' Hk'. unfold keys. rewrite map_app, in_app_iff. simpl. intros [A|[A|[]]].
      * apply (F k'); [right; assumption | assumption].
      * subst. contradiction.
Qed.

Lemma NoDup_map_inj : forall {A B} (g : A -> B) l x y,
  NoDup (map g l) -> In x l -> In y l -> g x = g y -> x = y.
Proof.
  induction l as [|a l IH]; intros x y N Hx Hy E; simpl in *; [contradiction|].
  inversion N; subst. destruct Hx as [->|Hx], Hy as [->|Hy].
  - reflexivity.
  - exfalso. apply H1. rewrite E. apply in_map. assumption.
  - exfalso. apply H1. rewrite <- E. apply in_map. assumption.
  - apply IH; assumption.
Qed.

(* ------------------------------------------------------------------ *)
Section Fold.
  Variable H : list N -> str.
  Variable o : fopts.

  Definition elem := (str * str * list N)%type.        (* scheme prefix, path, content *)
  Definition nm (x : elem) : str := mangled_name (o_lstrip o) (snd (fst x)) (fst (fst x)).
  Definition hv (x : elem) : str := hash_content H (o_normalize o) (snd x).

  Fixpoint add_flat (L : list elem) (acc : dict) : res dict :=
    match L with
    | [] => Ok acc
    | x :: r =>
        do name <- mangle (o_lstrip o) (snd (fst x)) (keys acc) (fst (fst x));
        add_flat r (dict_set name (hv x) acc)
    end.

  Lemma add_flat_cons : forall x r acc d,
    add_flat (x :: r) acc = Ok d ->
    (negb (is_nil (o_lstrip o)) && mem_str (nm x) (keys acc) = false) /\
    add_flat r (dict_set (nm x) (hv x) acc) = Ok d.
  Proof.
    intros x r acc d Hd. simpl in Hd. unfold mangle in Hd. fold (nm x) in Hd.
    destruct (negb (is_nil (o_lstrip o)) && mem_str (nm x) (keys acc)); [discriminate|]. simpl in Hd. auto.
  Qed.

  Lemma add_flat_err : forall L acc e, add_flat L acc = Err e -> e = EPrefix.
  Proof.
    induction L as [|x r IH]; intros acc e Hd; simpl in Hd; [discriminate|].
    unfold mangle in Hd. destruct (negb (is_nil (o_lstrip o)) && mem_str _ (keys acc)); simpl in Hd.
    - congruence.
    - eapply IH; eauto.
  Qed.

  Lemma add_flat_app : forall a b acc,
    add_flat (a ++ b) acc = (do acc' <- add_flat a acc; add_flat b acc').
  Proof.
    induction a as [|x a IH]; intros b acc; simpl; [reflexivity|].
    destruct (mangle (o_lstrip o) (snd (fst x)) (keys acc) (fst (fst x))); simpl; [apply IH | reflexivity].
  Qed.

  (** nothing invented *)
  Lemma add_flat_sound : forall L acc d k h,
    add_flat L acc = Ok d -> lookup k d = Some h ->
    lookup k acc = Some h \/ exists x, In x L /\ nm x = k /\ hv x = h.
  Proof.
    induction L as [|x r IH]; intros acc d k h Hd Hl.
    - simpl in Hd. inversion Hd; subst. auto.
    - apply add_flat_cons in Hd. destruct Hd as [_ Hd].
      destruct (IH _ _ _ _ Hd Hl) as [A|[y [A B]]].
      + rewrite lookup_dict_set in A. destruct (eqs k (nm x)) eqn:E.
        * apply eqs_eq in E. inversion A; subst. right. exists x. simpl. auto.
        * auto.
      + right. exists y. simpl. tauto.
  Qed.

  Lemma add_flat_keep : forall r acc d k h,
    add_flat r acc = Ok d -> lookup k acc = Some h ->
    (forall y, In y r -> nm y = k -> hv y = h) -> lookup k d = Some h.
  Proof.
    induction r as [|x r IH]; intros acc d k h Hd Hl Hu.
    - simpl in Hd. inversion Hd; subst. assumption.
    - apply add_flat_cons in Hd. destruct Hd as [_ Hd].
      apply (IH _ _ _ _ Hd); [|intros; apply Hu; simpl; auto].
      rewrite lookup_dict_set. destruct (eqs k (nm x)) eqn:E; [|assumption].
      apply eqs_eq in E. f_equal. apply Hu; simpl; auto.
  Qed.

  (** nothing missed: the name of every enumerated file is a key; its value is exact when the
      files that share the name share the value *)
  Lemma add_flat_complete : forall L acc d x,
    add_flat L acc = Ok d -> In x L ->
    (forall y, In y L -> nm y = nm x -> hv y = hv x) -> lookup (nm x) d = Some (hv x).
  Proof.
    induction L as [|y r IH]; intros acc d x Hd Hin Hu; [contradiction|].
    apply add_flat_cons in Hd. destruct Hd as [_ Hd]. destruct Hin as [->|Hin].
    - apply (add_flat_keep _ _ _ _ _ Hd); [rewrite lookup_dict_set, eqs_refl; reflexivity|].
      intros; apply Hu; simpl; auto.
    - apply (IH _ _ _ Hd Hin). intros; apply Hu; simpl; auto.
  Qed.

  Lemma add_flat_haskey : forall r acc d k h,
    add_flat r acc = Ok d -> lookup k acc = Some h -> exists h', lookup k d = Some h'.
  Proof.
    induction r as [|x r IH]; intros acc d k h Hd Hl.
    - simpl in Hd. inversion Hd; subst. eauto.
    - apply add_flat_cons in Hd. destruct Hd as [_ Hd].
      destruct (eqs k (nm x)) eqn:E.
      + apply (IH _ _ k (hv x) Hd). rewrite lookup_dict_set, E. reflexivity.
      + apply (IH _ _ k h Hd). rewrite lookup_dict_set, E. assumption.
  Qed.

  (** never silently dropped: the name of every enumerated file is a key of the result *)
  Lemma add_flat_key : forall L acc d x,
    add_flat L acc = Ok d -> In x L -> exists h, lookup (nm x) d = Some h.
  Proof.
    induction L as [|y r IH]; intros acc d x Hd Hin; [contradiction|].
    apply add_flat_cons in Hd. destruct Hd as [_ Hd]. destruct Hin as [->|Hin]; [|eauto].
    apply (add_flat_haskey _ _ _ _ (hv x) Hd). rewrite lookup_dict_set, eqs_refl. reflexivity.
  Qed.

  (** with a prefix list every name is used once *)
  Lemma add_flat_prefix_nodup : forall L acc d,
    o_lstrip o <> [] -> add_flat L acc = Ok d ->
    NoDup (map nm L) /\ forall x, In x L -> ~ In (nm x) (keys acc).
  Proof.
    induction L as [|x r IH]; intros acc d Hls Hd.
    - split; [constructor | intros ? []].
    - apply add_flat_cons in Hd. destruct Hd as [Hm Hd].
      apply is_nil_false in Hls. rewrite Hls in Hm. simpl in Hm. apply mem_str_false in Hm.
      destruct (IH _ _ (proj1 (is_nil_false _) Hls) Hd) as [N F]. split.
      + simpl. constructor; [|assumption]. intro I. apply in_map_iff in I. destruct I as [y [E Hy]].
        apply (F y Hy). apply keys_dict_set. left. assumption.
      + intros y [->|Hy]; [assumption|]. intro I. apply (F y Hy). apply keys_dict_set. right. assumption.
  Qed.

  Lemma add_flat_nodup_keys : forall L acc d, add_flat L acc = Ok d -> NoDup (keys acc) -> NoDup (keys d).
  Proof.
    induction L as [|x r IH]; intros acc d Hd N.
    - simpl in Hd. inversion Hd; subst. assumption.
    - apply add_flat_cons in Hd. destruct Hd as [_ Hd]. apply (IH _ _ Hd). apply dict_set_nodup. assumption.
  Qed.

  (** a name used twice under a prefix list is fatal *)
  Lemma add_flat_collision : forall L acc,
    o_lstrip o <> [] -> ~ NoDup (map nm L) -> add_flat L acc = Err EPrefix.
  Proof.
    intros L acc Hls ND. destruct (add_flat L acc) as [d|e] eqn:E.
    - exfalso. apply ND. eapply add_flat_prefix_nodup; eauto.
    - f_equal. eapply add_flat_err; eauto.
  Qed.

  Lemma add_all_flat : forall pre cs acc,
    add_all H o pre cs acc = add_flat (map (fun x => (pre, fst x, snd x)) cs) acc.
  Proof.
    induction cs as [|[p c] cs IH]; intro acc; simpl; [reflexivity|].
    destruct (mangle (o_lstrip o) p (keys acc) pre); simpl; [apply IH | reflexivity].
  Qed.
End Fold.

(* ------------------------------------------------------------------ *)
Section Uris.
  Variable H : list N -> str.
  Variable excl : str -> bool.
  Variable root : entries.
  Variable fuel : nat.
  Variable o : fopts.
  Variable cwd : list str.
  Hypothesis WF : wf_tree root.

  Notation reach := (reachable root excl (o_follow o) cwd).

  Fixpoint all_cands (uris : list str) : res (list elem) :=
    match uris with
    | [] => Ok []
    | u :: us =>
        do pc <- uri_cands excl root fuel (o_follow o) cwd u;
        do r <- all_cands us;
        Ok (map (fun x => (fst pc, fst x, snd x)) (snd pc) ++ r)
    end.

  Lemma hash_uris_cands : forall uris acc d,
    hash_uris H excl root fuel o cwd uris acc = Ok d -> exists L, all_cands uris = Ok L.
  Proof.
    induction uris as [|u us IH]; intros acc d Hd; simpl in *; [eauto|].
    apply bind_ok in Hd. destruct Hd as [pc [Hpc Hd]]. apply bind_ok in Hd. destruct Hd as [acc' [_ Hd]].
    destruct (IH _ _ Hd) as [L HL]. rewrite Hpc, HL. simpl. eauto.
  Qed.

  Lemma hash_uris_flat : forall uris L acc,
    all_cands uris = Ok L -> hash_uris H excl root fuel o cwd uris acc = add_flat H o L acc.
  Proof.
    induction uris as [|u us IH]; intros L acc HL; simpl in *.
    - inversion HL; subst. reflexivity.
    - apply bind_ok in HL. destruct HL as [pc [Hpc HL]]. apply bind_ok in HL. destruct HL as [r [Hr HL]].
      inversion HL; subst. rewrite Hpc. simpl. rewrite add_flat_app, add_all_flat.
      destruct (add_flat H o _ acc); simpl; [apply IH; assumption | reflexivity].
  Qed.

  Lemma all_cands_spec : forall uris L,
    all_cands uris = Ok L ->
    forall x, In x L <-> exists u, In u uris /\ fst (fst x) = snd (strip_scheme_prefix u)
                                   /\ reach u (snd (fst x)) (snd x).
  Proof.
    induction uris as [|u us IH]; intros L HL x; simpl in HL.
    - inversion HL; subst. split; [intros [] | intros [? [[] _]]].
    - apply bind_ok in HL. destruct HL as [[pre cs] [Hpc HL]]. apply bind_ok in HL. destruct HL as [r [Hr HL]].
      inversion HL; subst. clear HL. simpl fst. simpl snd.
      destruct (uri_cands_spec excl root fuel (o_follow o) WF cwd u pre cs Hpc) as [Epre Hcs].
      rewrite in_app_iff, (IH _ Hr x), in_map_iff. split.
      + intros [[[p c] [E I]]|[u' [I R]]].
        * subst x. simpl. exists u. split; [left; reflexivity|]. split; [assumption|]. apply Hcs. assumption.
        * exists u'. simpl. tauto.
      + intros [u' [[->|I] [E R]]].
        * left. destruct x as [[pre' p] c]. simpl in *. exists (p, c). split; [subst; reflexivity|]. apply Hcs. assumption.
        * right. exists u'. tauto.
  Qed.
End Uris.
