(** RecordIso.v — isolation of (step, key) pairs (C12): which names a call looks at and touches,
    and when the name sets of two pairs are disjoint. *)
From InToto.Model Require Import Base Json Strs Utf8 Canon Glob Rules Meta Record.
From InToto.Proofs Require Import RecordFs RecordGlob RecordProofs.
From Coq Require Import Permutation.

Arguments dset : simpl never.
Arguments dget : simpl never.
Arguments drem : simpl never.

(* ------------------------------------------------------------------ *)
(** * Names                                                              *)

Lemma has_c_app : forall c a b, has_c c (a ++ b) = has_c c a || has_c c b.
Proof. intros. unfold has_c. apply existsb_app. Qed.

Lemma last_dot : forall a b x y,
  a ++ 46%N :: x = b ++ 46%N :: y -> has_c 46 x = false -> has_c 46 y = false -> a = b /\ x = y.
Proof.
  induction a as [|c a IH]; intros b x y E Hx Hy.
  - destruct b as [|c' b]; simpl in E.
    + inversion E. auto.
    + inversion E; subst. rewrite has_c_app in Hx. simpl in Hx. rewrite orb_true_r in Hx. discriminate.
  - destruct b as [|c' b]; simpl in E.
    + inversion E; subst. rewrite has_c_app in Hy. simpl in Hy. rewrite orb_true_r in Hy. discriminate.
    + inversion E; subst. destruct (IH b x y H1 Hx Hy) as [-> ->]. auto.
Qed.

Lemma plain_kid_dot : forall k, plain_kid k = true -> has_c 46 k = false.
Proof. intros k H. unfold plain_kid in H. apply negb_true_iff in H. apply orb_false_iff in H. apply H. Qed.

Lemma unfinished_name_inj : forall s k s' k',
  unfinished_name s k = unfinished_name s' k' -> plain_kid (kid8 k) = true -> plain_kid (kid8 k') = true ->
  s = s' /\ kid8 k = kid8 k'.
Proof.
  intros s k s' k' E P P'. unfold unfinished_name in E. inversion E as [E'].
  replace (s ++ 46%N :: kid8 k ++ S_dot_link_unfinished) with ((s ++ 46%N :: kid8 k) ++ S_dot_link_unfinished) in E'
    by (rewrite <- app_assoc; reflexivity).
  replace (s' ++ 46%N :: kid8 k' ++ S_dot_link_unfinished) with ((s' ++ 46%N :: kid8 k') ++ S_dot_link_unfinished) in E'
    by (rewrite <- app_assoc; reflexivity).
  apply app_inv_tail in E'. apply last_dot in E'; auto using plain_kid_dot.
Qed.

Lemma final_name_inj : forall s k s' k',
  final_name s k = final_name s' k' -> plain_kid (kid8 k) = true -> plain_kid (kid8 k') = true ->
  s = s' /\ kid8 k = kid8 k'.
Proof.
  intros s k s' k' E P P'. unfold final_name in E.
  replace (s ++ 46%N :: kid8 k ++ S_dot_link) with ((s ++ 46%N :: kid8 k) ++ S_dot_link) in E
    by (rewrite <- app_assoc; reflexivity).
  replace (s' ++ 46%N :: kid8 k' ++ S_dot_link) with ((s' ++ 46%N :: kid8 k') ++ S_dot_link) in E
    by (rewrite <- app_assoc; reflexivity).
  apply app_inv_tail in E. apply last_dot in E; auto using plain_kid_dot.
Qed.

(** os.path.join(dir, name) for a name that does not start with '/' *)
Definition join_prefix (a : str) : str :=
  match a with [] => [] | _ => if ends_with_c 47 a then a else a ++ [47%N] end.

Lemma posix_join_rel : forall a b, match b with 47%N :: _ => False | _ => True end ->
  posix_join a b = join_prefix a ++ b.
Proof.
  intros a b H. unfold posix_join, join_prefix.
  assert (G : match a with [] => b | _ :: _ => if ends_with_c 47 a then a ++ b else a ++ 47%N :: b end
              = match a with [] => [] | _ :: _ => if ends_with_c 47 a then a else a ++ [47%N] end ++ b).
  { destruct a as [|y a]; [reflexivity|]. destruct (ends_with_c 47 (y :: a)); [reflexivity|].
    rewrite <- app_assoc. reflexivity. }
  destruct b as [|c b]; [exact G|]. destruct c as [|p]; [exact G|].
  do 6 (try (destruct p as [p|p|]; try exact G)). contradiction.
Qed.

Lemma final_name_rel : forall s k, plain_step s = true -> match final_name s k with 47%N :: _ => False | _ => True end.
Proof.
  intros s k P. unfold final_name. destruct s as [|c s]; simpl; [exact I|].
  unfold plain_step, has_sep, has_c in P. simpl in P. apply negb_true_iff in P. apply orb_false_iff in P. destruct P as [P _].
  destruct c as [|p]; [exact I|]. do 6 (try (destruct p as [p|p|]; try exact I)). discriminate P.
Qed.

Lemma final_path_inj : forall a k a' k',
  sa_mdir a = sa_mdir a' -> plain_step (sa_step a) = true -> plain_step (sa_step a') = true ->
  plain_kid (kid8 k) = true -> plain_kid (kid8 k') = true ->
  final_path a k = final_path a' k' -> sa_step a = sa_step a' /\ kid8 k = kid8 k'.
Proof.
  intros a k a' k' M P P' K K' E. unfold final_path in E. rewrite <- M in E.
  destruct (sa_mdir a) as [dir|].
  - rewrite !posix_join_rel in E by (apply final_name_rel; assumption).
    apply app_inv_head in E. apply final_name_inj; assumption.
  - apply final_name_inj; assumption.
Qed.

Lemma unfinished_ne_final : forall s k a k', unfinished_name s k <> final_path a k'.
Proof.
  intros s k a k' E. pose proof (unfinished_name_last s k) as L. rewrite E in L.
  unfold final_path in L. destruct (sa_mdir a).
  - rewrite posix_join_last in L by apply final_name_ne. rewrite final_name_last in L. discriminate.
  - rewrite final_name_last in L. discriminate.
Qed.

Lemma unf_pred_final : forall step a k, unf_pred step (final_path a k) = false.
Proof.
  intros step a k. destruct (unf_pred step (final_path a k)) eqn:E; [|reflexivity].
  apply unf_pred_last in E. unfold final_path in E. destruct (sa_mdir a).
  - rewrite posix_join_last in E by apply final_name_ne. rewrite final_name_last in E. discriminate.
  - rewrite final_name_last in E. discriminate.
Qed.

(** the gpg lookup for step [step] accepts the preliminary file of (s', k') only if s' = step *)
Lemma unf_pred_other_step : forall step s' k',
  unf_pred step (unfinished_name s' k') = true -> plain_kid (kid8 k') = true -> s' = step.
Proof.
  intros step s' k' H P. destruct (unf_pred_shape _ _ H) as [mid [E D]].
  unfold unfinished_name in E. inversion E as [E'].
  replace (s' ++ 46%N :: kid8 k' ++ S_dot_link_unfinished) with ((s' ++ 46%N :: kid8 k') ++ S_dot_link_unfinished) in E'
    by (rewrite <- app_assoc; reflexivity).
  replace (step ++ 46%N :: mid ++ S_dot_link_unfinished) with ((step ++ 46%N :: mid) ++ S_dot_link_unfinished) in E'
    by (rewrite <- app_assoc; reflexivity).
  apply app_inv_tail in E'. apply last_dot in E'; auto using plain_kid_dot. apply E'.
Qed.

(* ------------------------------------------------------------------ *)
(** * The concrete calls are confined                                    *)

Section WithOracles.
  Variable sign : str -> list N -> res (list N).
  Variable gpg_sign : option str -> list N -> res json.
  Variable export_pubkey : str -> res json.
  Variable sig_ok : str -> list N -> str -> bool.
  Variable dumps : bool -> json -> list N.
  Variable loads : list N -> option json.
  Variable b64enc : list N -> str.
  Variable b64dec : str -> option (list N).
  Variable now_s : Z.

  Notation stop := (record_stop sign gpg_sign export_pubkey sig_ok dumps loads b64enc b64dec now_s).
  Notation compute := (stop_compute sign gpg_sign export_pubkey sig_ok dumps loads b64enc b64dec now_s).
  Notation start := (record_start sign gpg_sign dumps loads b64enc).

  Definition stop_call (prods : res amap) (a : stop_args) : call := fun d => snd (stop prods d a).
  Definition start_call (mats : res amap) (cwd : str) (a : start_args) : call := fun _ => snd (start mats cwd a).

  Definition sel (a : stop_args) := select_branch (sa_signer a) (sa_signing_key a) (sa_gpg_keyid a) (sa_gpg_default a).

  (** the names a stop looks at or touches: with a key argument its own two files; with a gpg
      argument every name the lookup accepts for this STEP NAME, and its final link *)
  Definition stop_set (a : stop_args) (g : fname) : Prop :=
    match sel a with
    | Ok (BSigner k) | Ok (BSigningKey k) =>
        exists kid, key_id k = Ok kid /\ (g = unfinished_name (sa_step a) kid \/ g = final_path a kid)
    | Ok _ => unf_pred (sa_step a) g = true \/ exists kid, g = final_path a kid
    | Err _ => False
    end.

  Definition start_set (mats : res amap) (cwd : str) (a : start_args) (g : fname) : Prop :=
    match fst (start mats cwd a) with Ok w => g = w_unfinished w | Err _ => False end.

  Lemma prepare_inv : forall d a br u, stop_prepare d a = Ok (br, u) ->
    sel a = Ok br /\
    match br with
    | BSigner k | BSigningKey k => exists kid, key_id k = Ok kid /\ u = unfinished_name (sa_step a) kid
    | _ => unf_pred (sa_step a) u = true
    end.
  Proof.
    intros d a br u H. pose proof H as H0. unfold stop_prepare in H. fold (sel a) in H.
    inv_bind H. inv_bind H. inv_bind H.
    destruct x as [p|key|kid|].
    - inv_bind H. inversion H; subst. split; [assumption|]. exists x. auto.
    - inv_bind H. inversion H; subst. split; [assumption|]. exists x. auto.
    - assert (B : br = BGpgKeyid kid).
      { inv_bind H. destruct x as [|v [|v' t]]; try discriminate. inversion H. reflexivity. }
      subst br. split; [assumption|]. apply (prepare_unf_pred d a _ u H0). reflexivity.
    - assert (B : br = BGpgDefault).
      { inv_bind H. destruct x as [|v [|v' t]]; try discriminate. inversion H. reflexivity. }
      subst br. split; [assumption|]. apply (prepare_unf_pred d a _ u H0). reflexivity.
  Qed.

  Lemma prepare_u_in_set : forall d a br u, stop_prepare d a = Ok (br, u) -> stop_set a u.
  Proof.
    intros d a br u H. destruct (prepare_inv _ _ _ _ H) as [S B]. unfold stop_set. rewrite S.
    destruct br as [p|key|gk|]; [destruct B as [kid [K ->]]; exists kid; auto | destruct B as [kid [K ->]]; exists kid; auto | left; assumption | left; assumption].
  Qed.

  Lemma stop_confined : forall prods a, confined (stop_set a) (stop_call prods a).
  Proof.
    intros prods a. split.
    - intro d. unfold stop_call, touches_only.
      destruct (stop prods d a) as [r ops] eqn:H. simpl. pose proof H as H0. apply stop_inv in H.
      destruct H as [(e & _ & [->|[u ->]])|(w & br & st & Hw & -> & HP & HG & HC)].
      + constructor.
      + constructor; [|constructor]. simpl.
        unfold record_stop in H0. destruct (stop_prepare d a) as [[br u']|e'] eqn:HP; [|inversion H0].
        assert (u' = u).
        { destruct (dget d u'); [destruct (compute prods a br u' (fbytes f)); inversion H0; reflexivity | inversion H0; reflexivity]. }
        subst u'. eapply prepare_u_in_set; eassumption.
      + pose proof (prepare_u_in_set _ _ _ _ HP) as U.
        assert (F : stop_set a (w_final w)).
        { destruct (stop_compute_inv _ _ _ _ _ _ _ _ _ _ _ _ _ _ _ HC) as (data & md & vkey & kid & l & pr & sg & md' & j & k' & _ & _ & HK & _ & _ & _ & _ & _ & Ew).
          destruct (prepare_inv _ _ _ _ HP) as [S B]. unfold stop_set. rewrite S. rewrite Ew. simpl.
          destruct br as [p|key|gk|]; simpl in HK.
          - inv_bind HK. inversion HK; subst. exists kid. auto.
          - inv_bind HK. inversion HK; subst. exists kid. auto.
          - right. exists kid. reflexivity.
          - right. exists kid. reflexivity. }
        unfold stop_ops. repeat constructor; simpl; assumption.
    - intros d d' A. unfold stop_call. f_equal. symmetry. apply stop_agree.
      + unfold stop_set in A. destruct (sel a) as [br|e] eqn:S.
        * destruct br as [p|key|gk|].
          -- unfold stop_prepare. fold (sel a). rewrite S. reflexivity.
          -- unfold stop_prepare. fold (sel a). rewrite S. reflexivity.
          -- apply prepare_view. intros g P. rewrite (A g (or_introl P)). tauto.
          -- apply prepare_view. intros g P. rewrite (A g (or_introl P)). tauto.
        * unfold stop_prepare. fold (sel a). rewrite S. reflexivity.
      + intros br u HP. symmetry. apply A. eapply prepare_u_in_set; eassumption.
  Qed.

  Lemma start_confined : forall mats cwd a, confined (start_set mats cwd a) (start_call mats cwd a).
  Proof.
    intros mats cwd a. split; [|reflexivity].
    intro d. unfold start_call, start_set, touches_only. unfold record_start.
    match goal with |- context [match ?r with Err e => (Err e, []) | Ok w => _ end] => destruct r as [w|e] end; simpl.
    - repeat constructor.
    - constructor.
  Qed.

  (** a start writes the file named after the step and the key id of the signature it made *)
  Lemma start_name : forall mats cwd a w ops, start mats cwd a = (Ok w, ops) ->
    exists kid, w_unfinished w = unfinished_name (ta_step a) kid /\ w_final w = w_unfinished w /\
                ops = [OpenTrunc (w_unfinished w); Write (w_unfinished w) (w_bytes w); Close (w_unfinished w)].
  Proof.
    intros mats cwd a w ops H. unfold record_start in H.
    match type of H with context [match ?r with Err e => (Err e, []) | Ok w => _ end] => destruct r as [w0|e] eqn:R end;
      [|discriminate H].
    inversion H; subst w0 ops; clear H.
    inv_bind R. inv_bind R. inv_bind R. inv_bind R. inv_bind R. inv_bind R.
    destruct x4 as [[md j] skid]. inversion R; subst w. simpl. exists skid. auto.
  Qed.

  (* ---------------------------------------------------------------- *)
  (** * Isolation for schedules of complete start / stop calls          *)

  Inductive rcall :=
  | RStart (mats : res amap) (cwd : str) (a : start_args)
  | RStop (prods : res amap) (a : stop_args).

  Definition call_of (c : rcall) : call :=
    match c with RStart m cwd a => start_call m cwd a | RStop p a => stop_call p a end.
  Definition call_set (c : rcall) : fname -> Prop :=
    match c with RStart m cwd a => start_set m cwd a | RStop p a => stop_set a end.

  Lemma call_confined : forall c, confined (call_set c) (call_of c).
  Proof. intros [m cwd a|p a]; [apply start_confined | apply stop_confined]. Qed.

  Lemma isolation : forall (mine : rcall -> bool) (S : fname -> Prop) (cs : list rcall),
    (forall c, In c cs -> if mine c then (forall g, call_set c g -> S g) else (forall g, call_set c g -> ~ S g)) ->
    forall d d', agree S d d' ->
    let tagged := map (fun c => (mine c, call_of c)) cs in
    agree S (fst (run_calls d tagged)) (fst (run_calls d' (filter fst tagged))) /\
    snd (run_calls d tagged) = snd (run_calls d' (filter fst tagged)).
  Proof.
    intros mine S cs H d d' A tagged. apply isolation_abstract; [|assumption].
    intros b c I. unfold tagged in I. apply in_map_iff in I. destruct I as [rc [E I]]. inversion E; subst.
    exists (call_set rc). split; [apply call_confined | apply H; assumption].
  Qed.

  (** two stops with key arguments of distinct (step name, 8-character key-id prefix), written to
      the same metadata directory, have disjoint name sets *)
  Lemma key_pairs_disjoint : forall a a' k k' kid kid',
    sel a = Ok (BSigner k) \/ sel a = Ok (BSigningKey k) ->
    sel a' = Ok (BSigner k') \/ sel a' = Ok (BSigningKey k') ->
    key_id k = Ok kid -> key_id k' = Ok kid' ->
    sa_mdir a = sa_mdir a' -> plain_step (sa_step a) = true -> plain_step (sa_step a') = true ->
    plain_kid (kid8 kid) = true -> plain_kid (kid8 kid') = true ->
    (sa_step a, kid8 kid) <> (sa_step a', kid8 kid') ->
    forall g, stop_set a g -> ~ stop_set a' g.
  Proof.
    intros a a' k k' kid kid' S S' K K' M P P' Q Q' N g G G'.
    unfold stop_set in G, G'.
    assert (G1 : exists x, key_id k = Ok x /\ (g = unfinished_name (sa_step a) x \/ g = final_path a x))
      by (destruct S as [S|S]; rewrite S in G; exact G).
    assert (G2 : exists x, key_id k' = Ok x /\ (g = unfinished_name (sa_step a') x \/ g = final_path a' x))
      by (destruct S' as [S'|S']; rewrite S' in G'; exact G').
    destruct G1 as (x & Kx & G1). destruct G2 as (x' & Kx' & G2).
    rewrite K in Kx. inversion Kx; subst x. rewrite K' in Kx'. inversion Kx'; subst x'.
    destruct G1 as [->| ->]; destruct G2 as [E|E].
    - apply unfinished_name_inj in E; [|assumption|assumption]. destruct E as [E1 E2]. apply N. congruence.
    - apply (unfinished_ne_final _ _ _ _ E).
    - symmetry in E. apply (unfinished_ne_final _ _ _ _ E).
    - apply final_path_inj in E; try assumption. destruct E as [E1 E2]. apply N. congruence.
  Qed.

  (** a gpg stop of step [s] does not look at or touch the files of a key pair (s', kid') with s' <> s *)
  Lemma gpg_pair_disjoint : forall a a' k' kid' gb,
    sel a = Ok gb -> is_gpg_branch gb = true ->
    sel a' = Ok (BSigner k') \/ sel a' = Ok (BSigningKey k') -> key_id k' = Ok kid' ->
    sa_mdir a = sa_mdir a' -> plain_step (sa_step a) = true -> plain_step (sa_step a') = true ->
    plain_kid (kid8 kid') = true ->
    (forall kid, plain_kid (kid8 kid) = true) ->     (* key ids exported by gpg are hexadecimal *)
    sa_step a <> sa_step a' ->
    forall g, stop_set a g -> ~ stop_set a' g.
  Proof.
    intros a a' k' kid' gb S GB S' K' M P P' Q' HK N g G G'.
    unfold stop_set in G, G'. rewrite S in G.
    assert (G1 : unf_pred (sa_step a) g = true \/ exists kid, g = final_path a kid)
      by (destruct gb; try discriminate GB; exact G).
    assert (G2 : exists x, key_id k' = Ok x /\ (g = unfinished_name (sa_step a') x \/ g = final_path a' x))
      by (destruct S' as [S'|S']; rewrite S' in G'; exact G').
    destruct G2 as (x' & Kx' & G2). rewrite K' in Kx'. inversion Kx'; subst x'.
    destruct G1 as [U|[kid ->]]; destruct G2 as [E|E].
    - subst g. apply unf_pred_other_step in U; [|assumption]. congruence.
    - subst g. rewrite unf_pred_final in U. discriminate.
    - symmetry in E. apply (unfinished_ne_final _ _ _ _ E).
    - apply final_path_inj in E; try assumption; [|apply HK]. destruct E as [E1 E2]. congruence.
  Qed.
End WithOracles.
