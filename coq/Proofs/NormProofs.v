(** NormProofs.v — securesystemslib's chunk-wise line-ending normalisation equals the whole-file
    normalisation: chunk boundaries do not matter (a chunk never ends between CR and LF). *)
From InToto.Model Require Import Base Fs Resolve.
From InToto.Proofs Require Import FsProofs.
Local Arguments N.eqb : simpl never.

Lemma replace_crlf_cons : forall c r,
  replace_crlf (c :: r) =
  if N.eqb c 13 then
    match r with
    | d :: r' => if N.eqb d 10 then 10%N :: replace_crlf r' else c :: replace_crlf r
    | [] => [c]
    end
  else c :: replace_crlf r.
Proof. reflexivity. Qed.

Lemma ends_with_cons2 : forall c x y l, ends_with_c c (x :: y :: l) = ends_with_c c (y :: l).
Proof. reflexivity. Qed.

Lemma replace_crlf_app_le : forall n a b,
  length a <= n -> ends_with_c 13 a = false -> replace_crlf (a ++ b) = replace_crlf a ++ replace_crlf b.
Proof.
  induction n as [|n IH]; intros a b L E.
  - destruct a; [reflexivity | simpl in L; lia].
  - destruct a as [|x a]; [reflexivity|]. change ((x :: a) ++ b) with (x :: (a ++ b)).
    rewrite (replace_crlf_cons x (a ++ b)), (replace_crlf_cons x a).
    destruct (N.eqb x 13) eqn:X.
    + destruct a as [|y a].
      * simpl in E. congruence.
      * change ((y :: a) ++ b) with (y :: (a ++ b)). cbv iota. rewrite ends_with_cons2 in E. simpl in L. destruct (N.eqb y 10) eqn:Y.
        -- change ((10%N :: replace_crlf a) ++ replace_crlf b) with (10%N :: (replace_crlf a ++ replace_crlf b)).
           f_equal. destruct a as [|z a]; [reflexivity|]. apply IH; [simpl in *; lia|].
           rewrite ends_with_cons2 in E. assumption.
        -- change ((x :: replace_crlf (y :: a)) ++ replace_crlf b) with (x :: (replace_crlf (y :: a) ++ replace_crlf b)).
           f_equal. change (y :: a ++ b) with ((y :: a) ++ b). apply IH; [simpl in *; lia | assumption].
    + change ((x :: replace_crlf a) ++ replace_crlf b) with (x :: (replace_crlf a ++ replace_crlf b)).
      f_equal. destruct a as [|y a]; [reflexivity|]. apply IH; [simpl in *; lia|].
      rewrite ends_with_cons2 in E. assumption.
Qed.

Lemma norm_le_app : forall a b, ends_with_c 13 a = false \/ b = [] -> norm_le (a ++ b) = norm_le a ++ norm_le b.
Proof.
  intros a b [E| ->].
  - unfold norm_le, replace_c. rewrite (replace_crlf_app_le (length a)) by (auto || lia). apply map_app.
  - rewrite app_nil_r. change (norm_le []) with (@nil N). rewrite app_nil_r. reflexivity.
Qed.

Lemma extend_cr_spec : forall r x,
  fst (extend_cr (N.eqb x 13) r) ++ snd (extend_cr (N.eqb x 13) r) = r /\
  (ends_with_c 13 (x :: fst (extend_cr (N.eqb x 13) r)) = false \/ snd (extend_cr (N.eqb x 13) r) = []).
Proof.
  induction r as [|c r IH]; intro x.
  - simpl. auto.
  - simpl extend_cr. destruct (N.eqb x 13) eqn:X.
    + destruct (IH c) as [A B]. simpl fst. simpl snd. split; [simpl; f_equal; assumption|].
      rewrite ends_with_cons2. assumption.
    + simpl. split; [reflexivity|]. left. assumption.
Qed.

Lemma ends_with_last : forall c a x, ends_with_c c (a ++ [x]) = N.eqb x c.
Proof. intros. rewrite ends_with_app. reflexivity. Qed.

Theorem norm_chunked_whole : forall fuel n data,
  (1 <= n)%nat -> (length data < fuel)%nat -> norm_chunked fuel n data = norm_le data.
Proof.
  induction fuel as [|f IH]; intros n data Hn L; [lia|].
  destruct data as [|d0 data']; [reflexivity|].
  cbn [norm_chunked]. set (data := d0 :: data') in *.
  assert (Ha : firstn n data <> []) by (destruct n; [lia | discriminate]).
  destruct (exists_last Ha) as [a0 [x Ea]].
  rewrite Ea. rewrite ends_with_last. destruct (extend_cr_spec (skipn n data) x) as [S1 S2].
  set (p := extend_cr (N.eqb x 13) (skipn n data)) in *.
  rewrite IH.
  - rewrite <- norm_le_app.
    + rewrite <- app_assoc, S1, <- Ea, firstn_skipn. reflexivity.
    + rewrite <- app_assoc. simpl app. rewrite ends_with_app. assumption.
  - assumption.
  - assert (length (fst p ++ snd p) = length (skipn n data)) by (rewrite S1; reflexivity).
    rewrite app_length in H. rewrite skipn_length in H. unfold data in *. simpl length in *. lia.
Qed.

Theorem normalized_content_whole : forall c, normalized_content c = norm_le c.
Proof. intro c. unfold normalized_content. apply norm_chunked_whole; [unfold chunk_size; lia | lia]. Qed.

From InToto.Proofs Require Import ResolveSpec.
(** the recorded value is the spec's value: SHA-256 of the (whole-file normalised) content *)
Theorem hash_content_value : forall (H : list N -> str) n c, hash_content H n c = value_of H n c.
Proof. intros H n c. unfold hash_content, value_of. rewrite normalized_content_whole. reflexivity. Qed.
