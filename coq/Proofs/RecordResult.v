(** RecordResult.v — the content half of C12: what the final link written by a successful stop
    holds (round trip through dump / load, signature). *)
From InToto.Model Require Import Base Json Strs Utf8 Canon Glob Rules Meta Record.
From InToto.Proofs Require Import RecordFs RecordGlob RecordProofs.

Arguments dset : simpl never.
Arguments dget : simpl never.
Arguments drem : simpl never.

(* ------------------------------------------------------------------ *)
(** * Link <-> dict                                                      *)

Lemma validate_link_inv : forall l, validate_link l = Ok tt ->
  exists b c e, l_byproducts l = JDict b /\ l_command l = JList c /\ l_environment l = JDict e /\
    (exists x, mapM (fun kv => check_hash_dict (snd kv)) (l_materials l) = Ok x) /\
    (exists y, mapM (fun kv => check_hash_dict (snd kv)) (l_products l) = Ok y).
Proof.
  intros l H. unfold validate_link in H.
  destruct (l_byproducts l) as [| | | | |?|b]; try discriminate H.
  destruct (l_command l) as [| | | | |c|?]; try discriminate H.
  destruct (l_environment l) as [| | | | |?|e]; try discriminate H.
  inv_bind H. inv_bind H. exists b, c, e. repeat split; eauto.
Qed.

Lemma read_link_asdict : forall l, validate_link l = Ok tt -> read_link (link_asdict l) = Ok l.
Proof.
  intros l H. destruct (validate_link_inv l H) as (b & c & e & Hb & Hc & He & [x Hx] & [y Hy]).
  destruct l as [name m p bp cmd env]. simpl in *. subst bp cmd env.
  unfold read_link, link_asdict.
  change (jget_default S_materials (JDict []) _) with (JDict m).
  change (jget_default S_products (JDict []) _) with (JDict p).
  change (jget_default S_byproducts (JDict []) _) with (JDict b).
  change (jget_default S_command (JList []) _) with (JList c).
  change (jget_default S_environment (JDict []) _) with (JDict e).
  change (jget_default S_name JNull _) with name.
  cbv iota. rewrite Hx. simpl. rewrite Hy. reflexivity.
Qed.

Lemma read_link_valid : forall data l, read_link data = Ok l -> validate_link l = Ok tt.
Proof.
  intros data l H. unfold read_link in H. destruct data as [| | | | | |dl]; try discriminate H.
  destruct (jget_default S_materials (JDict []) (JDict dl)) as [| | | | | |m]; try discriminate H.
  destruct (jget_default S_products (JDict []) (JDict dl)) as [| | | | | |p]; try discriminate H.
  destruct (jget_default S_byproducts (JDict []) (JDict dl)) as [| | | | | |b]; try discriminate H.
  destruct (jget_default S_command (JList []) (JDict dl)) as [| | | | |c|]; try discriminate H.
  destruct (jget_default S_environment (JDict []) (JDict dl)) as [| | | | | |e]; try discriminate H.
  inv_bind H. inv_bind H. inversion H; subst l. unfold validate_link. simpl. rewrite E, E0. reflexivity.
Qed.

Lemma finish_valid : forall l pr a,
  validate_link l = Ok tt -> stop_args_wf a = true ->
  (exists y, mapM (fun kv => check_hash_dict (snd kv)) pr = Ok y) ->
  validate_link (finish_link l pr a) = Ok tt.
Proof.
  intros l pr a H W [y Hy]. destruct (validate_link_inv l H) as (b & c & e & Hb & Hc & He & [x Hx] & _).
  unfold stop_args_wf in W. apply andb_true_iff in W. destruct W as [W W3]. apply andb_true_iff in W. destruct W as [W1 W2].
  unfold finish_link, validate_link. simpl. rewrite Hb, Hc, He, Hx, Hy.
  destruct (sa_byproducts a) as [|[]|z|?|[|? ?]|[|? ?]|[|? ?]]; simpl in *; try discriminate W2;
  destruct (sa_command a) as [|[]|z'|?|[|? ?]|[|? ?]|[|? ?]]; simpl in *; try discriminate W1;
  destruct (sa_environment a) as [|[]|z''|?|[|? ?]|[|? ?]|[|? ?]]; simpl in *; try discriminate W3;
  try reflexivity;
  repeat match goal with |- context [Z.eqb ?q 0] => destruct (Z.eqb q 0); simpl in *; try discriminate end;
  try reflexivity.
Qed.

Section WithOracles.
  Variable sign : str -> list N -> res (list N).
  Variable gpg_sign : option str -> list N -> res json.
  Variable export_pubkey : str -> res json.
  Variable sig_ok : str -> list N -> str -> bool.
  Variable dumps : bool -> json -> list N.
  Variable loads : list N -> option json.
  Variable b64enc : list N -> str.
  Variable b64dec : str -> option (list N).
  Variable now_s : Z.

  Notation stop := (record_stop sign gpg_sign export_pubkey sig_ok dumps loads b64enc b64dec now_s).
  Notation compute := (stop_compute sign gpg_sign export_pubkey sig_ok dumps loads b64enc b64dec now_s).
  Notation build := (build_signed sign gpg_sign dumps loads b64enc).
  Notation load := (load_link loads b64dec).

  (** the text layer and base64 are inverse on what was written *)
  Hypothesis loads_dumps : forall p j, loads (dumps p j) = Some j.
  Hypothesis b64_roundtrip : forall b, b64dec (b64enc b) = Some b.
  (** gpg hands back a signature dict of the gpg shape *)
  Hypothesis gpg_sig_shape : forall kid m sj, gpg_sign kid m = Ok sj -> exists sh, check_signature sj = Ok sh.

  (** dump then load gives back the object that was built, and its link *)
  Lemma build_roundtrip : forall dsse l sg md j k,
    build dsse l sg = Ok (md, j, k) -> validate_link l = Ok tt ->
    load (dump_bytes dumps md j) = Ok (md, l) /\ is_dsse md = dsse.
  Proof.
    intros dsse l sg md j k H V. unfold build_signed in H. destruct dsse.
    - destruct sg as [kid tok|gk]; [|discriminate H]. inv_bind H. inversion H; subst md j k; clear H.
      split; [|reflexivity]. unfold load_link, dump_bytes. rewrite loads_dumps. simpl.
      rewrite !b64_roundtrip. simpl. rewrite loads_dumps.
      change (read_payload (link_asdict l)) with (do l0 <- read_link (link_asdict l); Ok (PLink l0)).
      rewrite (read_link_asdict l V). reflexivity.
    - inv_bind H. inv_bind H. inv_bind H. destruct x1 as [sj sk]. inversion H; subst md j k; clear H. simpl fst.
      split; [|reflexivity]. unfold load_link, dump_bytes. rewrite loads_dumps. cbn [bind].
      assert (CS : exists sh, check_signature sj = Ok sh).
      { destruct sg as [kid tok|gk].
        - inv_bind E1. inversion E1; subst. exists SSslib. reflexivity.
        - inv_bind E1. destruct (jget S_keyid x1) as [[| | | |s| |]|]; try discriminate E1. inversion E1; subst.
          eapply gpg_sig_shape; eassumption. }
      destruct CS as [sh CS].
      unfold from_dict.
      change (has S_payload _) with false. cbv iota.
      change (has S_signed _) with true. cbv iota.
      match goal with |- context [jget_default S_signatures (JList []) ?D] =>
        change (jget_default S_signatures (JList []) D) with (JList [sj]);
        change (jget_default S_signed (JDict []) D) with (link_asdict l) end.
      unfold link_asdict at 1. cbv iota. fold (link_asdict l).
      change (jget S__type (link_asdict l)) with (Some (JStr S_link)). cbv iota.
      change (eqs S_link S_link) with true. cbv iota. rewrite (read_link_asdict l V). cbn [bind].
      cbn [mapM]. rewrite CS. cbn [bind]. reflexivity.
  Qed.

  Lemma build_valid : forall l sg r, build false l sg = Ok r -> validate_link l = Ok tt.
  Proof. intros l sg r H. unfold build_signed in H. inv_bind H. destruct x. assumption. Qed.

  (** payload of a loaded envelope is a validated link *)
  Lemma envelope_payload_valid : forall pb pt sigs parsed l,
    get_payload (Envelope pb pt sigs parsed) = Ok (PLink l) -> validate_link l = Ok tt.
  Proof.
    intros pb pt sigs parsed l H. unfold get_payload in H. destruct parsed as [data|]; [|discriminate H].
    destruct data as [| | | | | |dl]; try discriminate H. unfold read_payload in H.
    destruct (jget S__type (JDict dl)) as [[| | | |t| |]|]; try discriminate H.
    destruct (eqs t S_link).
    - inv_bind H. inversion H; subst. eapply read_link_valid; eassumption.
    - destruct (eqs t S_layout); [inv_bind H|]; discriminate H.
  Qed.

  (** C12_result, content half *)
  Lemma stop_result : forall prods d a w ops,
    stop prods d a = (Ok w, ops) ->
    stop_args_wf a = true ->
    (forall pr, prods = Ok pr -> exists y, mapM (fun kv => check_hash_dict (snd kv)) pr = Ok y) ->
    exists st mdpre lpre pr vkey kid br,
      dget d (w_unfinished w) = Some st /\
      load (fbytes st) = Ok (mdpre, lpre) /\ prods = Ok pr /\
      stop_prepare d a = Ok (br, w_unfinished w) /\ stop_key export_pubkey br mdpre = Ok (vkey, kid) /\
      verify_signature sig_ok now_s mdpre vkey = Ok tt /\
      w_final w = final_path a kid /\
      load (w_bytes w) = Ok (w_md w, finish_link lpre pr a) /\
      is_dsse (w_md w) = is_dsse mdpre /\
      dget (apply d ops) (w_final w) = Some (Complete (w_bytes w)) /\
      dget (apply d ops) (w_unfinished w) = None /\
      (forall g, g <> w_unfinished w -> g <> w_final w -> dget (apply d ops) g = dget d g).
  Proof.
    intros prods d a w ops H W HP. pose proof (stop_names_differ _ _ _ _ _ _ _ _ _ _ _ _ _ _ H) as N.
    pose proof (stop_ok_ops _ _ _ _ _ _ _ _ _ _ _ _ _ _ H) as Eo.
    pose proof H as H'. apply stop_inv in H'. destruct H' as [(e & H' & _)|(w' & br & st & Hw & _ & HPr & HG & HC)]; [discriminate|].
    inversion Hw; subst w'.
    destruct (stop_compute_inv _ _ _ _ _ _ _ _ _ _ _ _ _ _ _ HC) as (data & md & vkey & kid & l & pr & sg & md' & j & k' & H1 & H2 & H3 & H4 & H5 & H6 & H7 & H8 & Ew).
    assert (V : validate_link (finish_link l pr a) = Ok tt).
    { destruct md as [sigs p|pb pt sigs parsed].
      - simpl in H8. eapply build_valid; eassumption.
      - apply finish_valid; [eapply envelope_payload_valid; eassumption | assumption | apply HP; assumption]. }
    destruct (build_roundtrip _ _ _ _ _ _ H8 V) as [R1 R2].
    destruct (full_run (w_unfinished w) (w_final w) (w_bytes w) N d) as (F1 & F2 & F3).
    rewrite <- Eo in F1, F2, F3.
    exists st, md, l, pr, vkey, kid, br.
    split; [assumption|]. split; [unfold load_link; rewrite H1; simpl; rewrite H2; simpl; rewrite H5; reflexivity|].
    split; [assumption|]. split; [assumption|]. split; [assumption|]. split; [assumption|].
    split; [rewrite Ew; reflexivity|].
    split; [rewrite Ew; simpl; assumption|].
    split; [rewrite Ew; simpl; assumption|].
    split; [assumption|]. split; [assumption|]. assumption.
  Qed.

  (* ---------------------------------------------------------------- *)
  (** * The new signature verifies (key-argument branches)              *)

  (** a fresh raw signature is valid for the key that made it, and is a byte string *)
  Hypothesis sign_valid : forall tok m sb, sign tok m = Ok sb -> sig_ok tok m (bytes_to_hex sb) = true.
  Hypothesis sign_bytes : forall tok m sb, sign tok m = Ok sb -> hex_even (bytes_to_hex sb) = true.

  Lemma build_verifies : forall dsse l kid tok md j k key,
    build dsse l (SgSslib kid tok) = Ok (md, j, k) ->
    check_public_key key = Ok KSslib -> key_id key = Ok kid -> key_token key = Ok tok ->
    verify_signature sig_ok now_s md key = Ok tt.
  Proof.
    intros dsse l kid tok md j k key H CK KI KT.
    unfold key_id in KI. destruct (jget S_keyid key) as [[| | | |s| |]|] eqn:EK; try discriminate KI. inversion KI; subst s.
    unfold key_token in KT. destruct (jget S_keyval key) as [kv|] eqn:EV; [|discriminate KT].
    destruct (jget S_public kv) as [[| | | |pp| |]|] eqn:EP; try discriminate KT. inversion KT; subst pp.
    unfold build_signed in H. destruct dsse.
    - inv_bind H. inversion H; subst md j k; clear H.
      unfold verify_signature. rewrite EK, CK. cbn [bind].
      cbn [existsb]. unfold sslib_sig_json at 1. 
      change (jstr_of (jget S_keyid (JDict [(S_keyid, JStr kid); (S_sig, JStr (bytes_to_hex x))]))) with (Some kid).
      cbv iota. rewrite eqs_refl. cbn [andb].
      unfold sslib_verify.
      change (jstr_of (jget S_keyid (sslib_sig_json kid x))) with (Some kid).
      change (jstr_of (jget S_sig (sslib_sig_json kid x))) with (Some (bytes_to_hex x)).
      unfold jstr_of at 1. rewrite EK. cbv iota. rewrite eqs_refl. cbn [negb].
      rewrite (sign_bytes _ _ _ E). cbn [negb]. rewrite EV. unfold jstr_of. rewrite EP.
      rewrite (sign_valid _ _ _ E). reflexivity.
    - inv_bind H. inv_bind H. inv_bind H. inv_bind E1. inversion E1; subst x1; clear E1.
      inversion H; subst md j k; clear H. cbn [fst].
      unfold verify_signature. rewrite CK. cbn [bind]. unfold jstr_of at 1. rewrite EK.
      cbn [find]. unfold sslib_sig_json at 1.
      change (jstr_of (jget S_keyid (JDict [(S_keyid, JStr kid); (S_sig, JStr (bytes_to_hex x2))]))) with (Some kid).
      cbv iota. rewrite eqs_refl. cbn [orb].
      unfold signed_bytes_mb, payload_asdict. rewrite E0. cbn [bind].
      change (has S_signature (sslib_sig_json kid x2)) with false. cbn [andb].
      change (has S_sig (sslib_sig_json kid x2)) with true. cbv iota.
      unfold sslib_verify.
      change (jstr_of (jget S_keyid (sslib_sig_json kid x2))) with (Some kid).
      change (jstr_of (jget S_sig (sslib_sig_json kid x2))) with (Some (bytes_to_hex x2)).
      unfold jstr_of at 1. rewrite EK. cbv iota. rewrite eqs_refl. cbn [negb].
      rewrite (sign_bytes _ _ _ E2). cbn [negb]. rewrite EV. unfold jstr_of. rewrite EP.
      rewrite (sign_valid _ _ _ E2). reflexivity.
  Qed.

  (** with a signer / signing key argument the final link verifies under the finishing key *)
  Lemma stop_result_verifies : forall prods d a w ops br u k,
    stop prods d a = (Ok w, ops) -> stop_prepare d a = Ok (br, u) ->
    br = BSigner k \/ br = BSigningKey k -> check_public_key k = Ok KSslib ->
    verify_signature sig_ok now_s (w_md w) k = Ok tt.
  Proof.
    intros prods d a w ops br u k H HP B CK.
    pose proof H as H'. apply stop_inv in H'. destruct H' as [(e & H' & _)|(w' & br' & st & Hw & _ & HPr & HG & HC)]; [discriminate|].
    inversion Hw; subst w'. rewrite HP in HPr. inversion HPr; subst br' u.
    destruct (stop_compute_inv _ _ _ _ _ _ _ _ _ _ _ _ _ _ _ HC) as (data & md & vkey & kid & l & pr & sg & md' & j & k' & H1 & H2 & H3 & H4 & H5 & H6 & H7 & H8 & Ew).
    assert (VK : vkey = k /\ key_id k = Ok kid).
    { destruct B as [-> | ->]; simpl in H3; inv_bind H3; inversion H3; subst; auto. }
    destruct VK as [-> KI].
    assert (SG : exists tok, key_token k = Ok tok /\ sg = SgSslib kid tok).
    { destruct B as [-> | ->]; simpl in H7; inv_bind H7; inversion H7; subst; eauto. }
    destruct SG as (tok & KT & ->).
    rewrite Ew. simpl. eapply build_verifies; eassumption.
  Qed.
End WithOracles.
