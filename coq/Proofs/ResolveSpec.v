(** ResolveSpec.v — the DECLARATIVE reading of property C10, written from the property text:

    "Recording a list of paths yields exactly one entry per regular file reachable from them —
     descending into directories, following symlinks to files, following symlinked directories
     when asked, skipping dangling links — minus files matched by the exclude patterns, keyed by
     the normalised path relative to the base directory with any configured prefix stripped, and
     valued by the SHA-256 of the file's content (after line-ending normalisation if requested)."

    What a path *denotes* is the kernel's business (Fs.resolve, "terminates with answer r" — no
    fuel appears in the spec); what is *reachable* and how it is *named* is defined here without
    reference to the recorder's code. *)
From InToto.Model Require Import Base Fs Resolve.
From InToto.Proofs Require Import FsProofs.

Section Spec.
  Variable root : entries.          (* the file tree *)
  Variable excl : str -> bool.      (* pathspec verdict for the run's pattern list *)
  Variable follow : bool.           (* follow_symlink_dirs *)

  (** resolution of the components [cs] from the directory at [loc] terminates with [r] *)
  Definition denotes (loc : list str) (cs : list str) (r : rres) : Prop :=
    r <> RDiverge /\ exists fuel, resolve root fuel loc cs = r.
  (** the same for a path string relative to the current directory *)
  Definition path_denotes (cwd : list str) (p : str) (r : rres) : Prop :=
    r <> RDiverge /\ exists fuel, stat_path root fuel cwd p = r.

  (** [node] is the entry named [n] of the directory at [loc] *)
  Definition entry_at (loc : list str) (n : str) (node : fsnode) : Prop :=
    exists es, get_dir root loc = Some es /\ lookup n es = Some node.

  Definition is_link (n : fsnode) : bool := match n with Symlink _ => true | _ => false end.

  (** [below p loc f c]: under the directory at [loc], whose normalised path is [p], the
      normalised path [f] leads to a regular file with content [c]:
      - an entry that is (or links, through any chain, to) a regular file, not excluded;
      - or an entry that is a directory — or links to one and links are followed — not
        excluded, and [f] is below it.
      Entries that denote nothing (dangling links) lead nowhere. *)
  Inductive below : str -> list str -> str -> list N -> Prop :=
  | below_file : forall p loc n node c,
      entry_at loc n node ->
      denotes loc [n] (RFile c) ->
      excl (child p n) = false ->
      below p loc (child p n) c
  | below_dir : forall p loc n node loc' f c,
      entry_at loc n node ->
      denotes loc [n] (RDir loc') ->
      (is_link node = false \/ follow = true) ->
      excl (child p n) = false ->
      below (child p n) loc' f c ->
      below p loc f c.

  (** the start path as the recorder understands it: scheme removed, normalised *)
  Definition start_path (start : str) : str := normpath (fst (strip_scheme_prefix start)).

  (** [reachable cwd start f c]: the start path is '.' or is not excluded, and either is itself (a link to)
      a regular file, or is (a link to) a directory with [f] below it. *)
  Definition reachable (cwd : list str) (start f : str) (c : list N) : Prop :=
    excl_start excl (start_path start) = false /\
    ((path_denotes cwd (start_path start) (RFile c) /\ f = start_path start) \/
     (exists loc, path_denotes cwd (start_path start) (RDir loc) /\ below (start_path start) loc f c)).
End Spec.

(** the key: slashes normalised, the FIRST configured prefix that matches removed, the start
    path's scheme put back *)
Definition strip_prefix (ps : list str) (q : str) : str :=
  match find (fun p => starts_with p q) ps with
  | Some p => skipn (length p) q
  | None => q
  end.
Definition name_of (lstrip : list str) (start f : str) : str :=
  snd (strip_scheme_prefix start) ++ strip_prefix lstrip (replace_c c_bslash c_slash f).

(** the recorded value: SHA-256 of the content, of the whole-file normalisation if requested *)
Definition value_of (H : list N -> str) (normalize : bool) (c : list N) : str :=
  H (if normalize then norm_le c else c).

(** a path the recorder can key without ambiguity when there is no prefix list *)
Definition clean (f : str) : Prop := ~ In c_bslash f /\ starts_with s_file_colon f = false.
