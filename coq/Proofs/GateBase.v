(** GateBase.v — shared lemmas of the C01 / C07 / C16 proofs: the result monad, [mapM],
    the nested induction principle of [dirtree], unfolding of [verify]. *)
From InToto.Model Require Import Base Json Strs Utf8 Canon Rule Glob Rules Expiry Subst Meta Verify.
From InToto.Proofs Require Import VerifySpec.

(* ------------------------------------------------------------------ *)
(** * result monad *)

Lemma bind_Ok : forall (A B : Type) (r : res A) (f : A -> res B) b,
  bind r f = Ok b -> exists a, r = Ok a /\ f a = Ok b.
Proof.
  intros A B r f b H. destruct r as [a|e]; cbn [bind] in H; [|discriminate].
  exists a. split; [reflexivity|exact H].
Qed.

Lemma bind_Err : forall (A B : Type) (r : res A) (f : A -> res B) e,
  bind r f = Err e -> r = Err e \/ exists a, r = Ok a /\ f a = Err e.
Proof.
  intros A B r f e H. destruct r as [a|e']; cbn [bind] in H.
  - right. exists a. split; [reflexivity|exact H].
  - left. inversion H. reflexivity.
Qed.

(** invert [H : bind r f = Ok b] into [x] and [Hx : r = Ok x], leaving [H : f x = Ok b] *)
Ltac bind_inv H x Hx :=
  apply bind_Ok in H; destruct H as [x [Hx H]].

Lemma mapM_Ok_Forall2 : forall (A B : Type) (f : A -> res B) l l',
  mapM f l = Ok l' <-> Forall2 (fun x y => f x = Ok y) l l'.
Proof.
  intros A B f. induction l as [|x l IH]; intros l'; cbn [mapM]; split; intro H.
  - inversion H; subst. constructor.
  - inversion H; subst. reflexivity.
  - bind_inv H y Hy. bind_inv H ys Hys. inversion H; subst.
    constructor; [exact Hy | apply IH; exact Hys].
  - inversion H as [|x0 y l0 ys Hy Hys]; subst. rewrite Hy. cbn [bind].
    apply IH in Hys. rewrite Hys. reflexivity.
Qed.

Lemma mapM_Ok_In : forall (A B : Type) (f : A -> res B) l l' x,
  mapM f l = Ok l' -> In x l -> exists y, f x = Ok y /\ In y l'.
Proof.
  intros A B f l l' x H. apply mapM_Ok_Forall2 in H.
  induction H as [|a b l l' Hab HF IH]; intro Hin; [destruct Hin|].
  destruct Hin as [->|Hin].
  - exists b. split; [exact Hab | left; reflexivity].
  - destruct (IH Hin) as [y [Hy Hin']]. exists y. split; [exact Hy | right; exact Hin'].
Qed.

Lemma mapM_Err_In : forall (A B : Type) (f : A -> res B) l x e,
  In x l -> f x = Err e -> exists e', mapM f l = Err e'.
Proof.
  intros A B f. induction l as [|a l IH]; intros x e Hin Hx; [destruct Hin|].
  cbn [mapM]. destruct Hin as [->|Hin].
  - rewrite Hx. exists e. reflexivity.
  - destruct (f a) as [b|e0]; cbn [bind]; [|exists e0; reflexivity].
    destruct (IH x e Hin Hx) as [e' He']. rewrite He'. exists e'. reflexivity.
Qed.

Lemma mapM_length : forall (A B : Type) (f : A -> res B) l l',
  mapM f l = Ok l' -> length l' = length l.
Proof.
  intros A B f l l' H. apply mapM_Ok_Forall2 in H.
  induction H; cbn [length]; [reflexivity | f_equal; assumption].
Qed.

Lemma mapM_ext_in : forall (A B : Type) (f g : A -> res B) l,
  (forall x, In x l -> f x = g x) -> mapM f l = mapM g l.
Proof.
  intros A B f g. induction l as [|a l IH]; intro H; cbn [mapM]; [reflexivity|].
  rewrite (H a (or_introl eq_refl)). rewrite IH; [reflexivity|].
  intros x Hx. apply H. right. exact Hx.
Qed.

(* ------------------------------------------------------------------ *)
(** * association lists *)

Lemma lookup_map_snd : forall (A B : Type) (g : A -> B) k (l : list (str * A)),
  lookup k (map (fun kv => (fst kv, g (snd kv))) l) = option_map g (lookup k l).
Proof.
  intros A B g k. induction l as [|[k' v] l IH]; cbn [map lookup fst snd option_map]; [reflexivity|].
  destruct (eqs k k'); [reflexivity | exact IH].
Qed.

Lemma lookup_In : forall (A : Type) k (l : list (str * A)) v, lookup k l = Some v -> In (k, v) l.
Proof.
  intros A k. induction l as [|[k' v'] l IH]; intros v H; cbn [lookup] in H; [discriminate|].
  destruct (eqs k k') eqn:E.
  - apply eqs_eq in E. inversion H; subst. left. reflexivity.
  - right. apply IH. exact H.
Qed.

(* ------------------------------------------------------------------ *)
(** * prefixes *)

Lemma is_prefix_nil : forall (A : Type) (l : list A), is_prefix [] l.
Proof. intros A l. exists l. reflexivity. Qed.

Lemma is_prefix_refl : forall (A : Type) (l : list A), is_prefix l l.
Proof. intros A l. exists []. symmetry. apply app_nil_r. Qed.

Lemma is_prefix_cons : forall (A : Type) (x : A) p l, is_prefix p l -> is_prefix (x :: p) (x :: l).
Proof. intros A x p l [r ->]. exists r. reflexivity. Qed.

Lemma is_prefix_app : forall (A : Type) (a p l : list A), is_prefix p l -> is_prefix (a ++ p) (a ++ l).
Proof. intros A a p l [r ->]. exists r. rewrite app_assoc. reflexivity. Qed.

Lemma is_prefix_app_r : forall (A : Type) (p l r : list A), is_prefix p l -> is_prefix p (l ++ r).
Proof. intros A p l r [q ->]. exists (q ++ r). rewrite app_assoc. reflexivity. Qed.

Lemma is_prefix_In : forall (A : Type) (p l : list A) x, is_prefix p l -> In x p -> In x l.
Proof. intros A p l x [r ->] H. apply in_or_app. left. exact H. Qed.

(* ------------------------------------------------------------------ *)
(** * the link-directory tree *)

Section DirInd.
  Variable P : dirtree -> Prop.
  Hypothesis step : forall files subs, Forall (fun nt => P (snd nt)) subs -> P (Dir files subs).

  Fixpoint dirtree_nested_ind (d : dirtree) : P d :=
    match d with
    | Dir files subs =>
        step files subs
          ((fix go (l : list (str * dirtree)) : Forall (fun nt => P (snd nt)) l :=
              match l with
              | [] => Forall_nil _
              | nt :: l' => Forall_cons nt (dirtree_nested_ind (snd nt)) (go l')
              end) subs)
    end.
End DirInd.

(** the directory a sublayout is verified against; a missing one behaves like an empty one *)
Definition subdir (subs : list (str * dirtree)) (name : str) : dirtree :=
  match lookup name subs with Some t => t | None => Dir [] [] end.

Section Unfold.
  Variable b64dec : str -> option (list N).
  Variable loads : list N -> option json.
  Variable sig_ok : str -> list N -> str -> bool.
  Variable now_s : Z.
  Variable now_us : Z.
  Variable exec : list json -> exec_result.

  Notation vfy := (vfy b64dec loads sig_ok now_s now_us exec).
  Notation vbody := (vbody b64dec loads sig_ok now_s now_us exec).
  Notation recs_of := (recs_of b64dec loads sig_ok now_s now_us exec).
  Notation vmissing := (vmissing b64dec loads sig_ok now_s now_us exec).

  Lemma verify_unfold : forall files subs,
    vfy (Dir files subs) = vbody files (recs_of subs) vmissing.
  Proof.
    intros files subs. unfold vfy, vbody, recs_of, vmissing. cbn [verify].
    f_equal. induction subs as [|[n t] subs IH]; cbn [map fst snd]; [reflexivity|].
    rewrite IH. reflexivity.
  Qed.

  Lemma lookup_recs_of : forall subs name,
    lookup name (recs_of subs) = option_map vfy (lookup name subs).
  Proof.
    intros subs name. unfold recs_of.
    exact (lookup_map_snd _ _ vfy name subs).
  Qed.
End Unfold.
