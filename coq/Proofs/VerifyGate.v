(** VerifyGate.v — C01: the signature / expiry gate of in_toto_verify.
    Everything an accepted run implies about stage one, independence of the link directory,
    rejection of edited content under ideal signatures. *)
From InToto.Model Require Import Base Json Strs Utf8 Canon Rule Glob Rules Expiry Subst Meta Verify.
From InToto.Proofs Require Import Utf8Proofs CanonProofs VerifySpec GateBase.

Section Gate.
  Variable b64dec : str -> option (list N).
  Variable loads : list N -> option json.
  Variable sig_ok : str -> list N -> str -> bool.
  Variable now_s : Z.
  Variable now_us : Z.
  Variable exec : list json -> exec_result.

  Notation vfy := (vfy b64dec loads sig_ok now_s now_us exec).
  Notation vbody := (vbody b64dec loads sig_ok now_s now_us exec).
  Notation recs_of := (recs_of b64dec loads sig_ok now_s now_us exec).
  Notation vmissing := (vmissing b64dec loads sig_ok now_s now_us exec).
  Notation vms := (verify_metadata_signatures sig_ok now_s).
  Notation vsig := (verify_signature sig_ok now_s).
  Notation stage_pre := (stage_pre b64dec loads sig_ok now_s now_us).
  Notation carries_valid_sig := (carries_valid_sig sig_ok now_s).

  (* ---------------------------------------------------------------- *)
  (** * Stage one and what follows it *)

  (** signatures of every supplied key, payload extraction, expiry: no link directory involved *)
  Definition gate (md : metadata) (keys : json) : res layout :=
    do _ <- vms md keys;
    do p <- get_payload md;
    do l0 <- match p with PLayout l => Ok l | PLink _ => Err EAttribute end;
    do _ <- check_expiry (ly_expires_us l0) now_us;
    Ok l0.

  Definition layout_for (l0 : layout) (params : option json) : res layout :=
    match params with Some ps => substitute_parameters l0 ps | None => Ok l0 end.

  Definition links_for (files : list (str * file)) (l : layout)
    : res (list (str * list (str * metadata))) :=
    do sm <- load_links_for_layout b64dec loads files l;
    verify_link_signature_thresholds sig_ok now_s l sm.

  (** everything after stage_pre, as a function of the layout it produced *)
  Definition verify_post (recs : list (str * (args -> result))) (missing : args -> result)
             (l : layout) (vm : list (str * list (str * metadata))) (name : json) : result :=
    match subs_steps recs missing l vm [] with
    | (Err e, tr) => (Err e, tr)
    | (Ok chain, tr) =>
        match stage_mid l chain with
        | Err e => (Err e, tr)
        | Ok reduced => stage_final exec l reduced name tr
        end
    end.

  Lemma stage_pre_gate : forall files a,
    stage_pre files a =
      (do l0 <- gate (a_md a) (a_keys a);
       do l <- layout_for l0 (a_params a);
       do vm <- links_for files l;
       Ok (l, vm)).
  Proof.
    intros files a. unfold Verify.stage_pre, gate, layout_for, links_for.
    destruct (vms (a_md a) (a_keys a)) as [u|e]; cbn [bind]; [|reflexivity].
    destruct (get_payload (a_md a)) as [p|e]; cbn [bind]; [|reflexivity].
    destruct p as [lk|l0]; cbn [bind]; [reflexivity|].
    destruct (check_expiry (ly_expires_us l0) now_us) as [u'|e]; cbn [bind]; [|reflexivity].
    destruct (a_params a) as [ps|].
    - destruct (substitute_parameters l0 ps) as [l|e]; cbn [bind]; [|reflexivity].
      destruct (load_links_for_layout b64dec loads files l) as [sm|e]; cbn [bind]; reflexivity.
    - cbn [bind].
      destruct (load_links_for_layout b64dec loads files l0) as [sm|e]; cbn [bind]; reflexivity.
  Qed.

  Lemma vbody_post : forall files recs missing a,
    verify_body b64dec loads sig_ok now_s now_us exec files recs missing a =
      match stage_pre files a with
      | Err e => (Err e, [])
      | Ok (l, vm) => verify_post recs missing l vm (a_step_name a)
      end.
  Proof. intros. reflexivity. Qed.

  Lemma gate_Err_rejects : forall a e,
    gate (a_md a) (a_keys a) = Err e -> forall d, vfy d a = (Err e, []).
  Proof.
    intros a e H [files subs]. rewrite verify_unfold. unfold VerifySpec.vbody.
    rewrite vbody_post, stage_pre_gate, H. reflexivity.
  Qed.

  (* ---------------------------------------------------------------- *)
  (** * verify_metadata_signatures *)

  Lemma check_public_keys_Ok : forall keys ks, check_public_keys keys = Ok ks -> keys = JDict ks.
  Proof.
    intros keys ks H. destruct keys; cbn [check_public_keys] in H; try discriminate H.
    bind_inv H u Hu. inversion H; subst. reflexivity.
  Qed.

  Lemma vms_Ok_inv : forall md keys u,
    vms md keys = Ok u ->
    exists ks, keys = JDict ks /\ ks <> [] /\ check_public_keys keys = Ok ks /\
               forall kid k, In (kid, k) ks -> vsig md k = Ok tt.
  Proof.
    intros md keys u H. unfold verify_metadata_signatures in H.
    bind_inv H ks Hks. exists ks.
    destruct ks as [|kv ks]; [discriminate H|].
    bind_inv H us Hus.
    split; [apply check_public_keys_Ok; exact Hks|].
    split; [discriminate|]. split; [exact Hks|].
    intros kid k Hin.
    destruct (mapM_Ok_In _ _ _ _ _ (kid, k) Hus Hin) as [[] [Hy _]]. exact Hy.
  Qed.

  Lemma vms_empty : forall md keys,
    check_public_keys keys = Ok [] -> vms md keys = Err ESignature.
  Proof. intros md keys H. unfold verify_metadata_signatures. rewrite H. reflexivity. Qed.

  Lemma vms_key_fails : forall md keys ks kid k e,
    check_public_keys keys = Ok ks -> In (kid, k) ks -> vsig md k = Err e ->
    exists e', vms md keys = Err e'.
  Proof.
    intros md keys ks kid k e Hks Hin He. unfold verify_metadata_signatures.
    rewrite Hks. cbn [bind]. destruct ks as [|kv ks]; [destruct Hin|].
    destruct (mapM_Err_In _ _ (fun kv0 : str * json => vsig md (snd kv0)) (kv :: ks) (kid, k) e Hin He)
      as [e' He'].
    rewrite He'. exists e'. reflexivity.
  Qed.

  (* ---------------------------------------------------------------- *)
  (** * One key: verify_signature = Ok means a listed signature by that key that the oracle
        accepts over exactly the signed message *)

  (** the value the oracle is asked about: the sslib "sig" field, or for OpenPGP signatures the
      pair [gpg_sig_value signature other_headers] (both are covered by the cryptographic check) *)
  Definition sig_value_of (sig : json) (sval : str) : Prop :=
    jstr_of (jget S_sig sig) = Some sval \/
    exists sv hdr, jstr_of (jget S_signature sig) = Some sv /\
                   jstr_of (jget S_other_headers sig) = Some hdr /\ sval = gpg_sig_value sv hdr.

  (** the oracle itself said yes, for a listed signature, over the signed message *)
  Definition oracle_accepts (md : metadata) (key : json) : Prop :=
    exists sig msg tok sval,
      In sig (md_signatures md) /\ signed_message md = Ok msg /\
      sig_value_of sig sval /\ sig_ok tok msg sval = true.

  Lemma sslib_verify_true : forall sig key msg,
    sslib_verify sig_ok sig key msg = Ok true ->
    exists kid pub sval,
      jstr_of (jget S_keyid sig) = Some kid /\ jstr_of (jget S_keyid key) = Some kid /\
      jstr_of (jget S_sig sig) = Some sval /\ sig_ok pub msg sval = true.
  Proof.
    intros sig key msg H. unfold sslib_verify in H.
    destruct (jstr_of (jget S_keyid sig)) as [skid|] eqn:E1; [|discriminate H].
    destruct (jstr_of (jget S_keyid key)) as [kid|] eqn:E2; [|discriminate H].
    destruct (jstr_of (jget S_sig sig)) as [sval|] eqn:E3; [|discriminate H].
    destruct (eqs skid kid) eqn:Ek; cbn [negb] in H; [|discriminate H].
    apply eqs_eq in Ek. subst skid.
    destruct (hex_even sval); cbn [negb] in H; [|discriminate H].
    destruct (jget S_keyval key) as [kv|]; [|discriminate H].
    destruct (jstr_of (jget S_public kv)) as [pub|]; [|discriminate H].
    inversion H as [Hs]. exists kid, pub, sval. repeat split; assumption.
  Qed.

  Lemma gpg_schema_headers : forall sig,
    gpg_sig_schema_ok sig = true -> exists oh, jget S_other_headers sig = Some (JStr oh).
  Proof.
    intros sig H. unfold gpg_sig_schema_ok in H.
    destruct (jget S_keyid sig) as [[| | | |k| |]|]; try discriminate H.
    destruct (jget S_signature sig) as [[| | | |v| |]|]; try discriminate H.
    destruct (jget S_other_headers sig) as [[| | | |oh| |]|]; try discriminate H.
    exists oh. reflexivity.
  Qed.

  (** a successful OpenPGP check: token, signature value pair, and the verdict on any other message *)
  Lemma gpg_verify_other_msg : forall sig key m,
    gpg_verify sig_ok now_s sig key m = Ok true ->
    exists tok sv hdr,
      jstr_of (jget S_signature sig) = Some sv /\ jstr_of (jget S_other_headers sig) = Some hdr /\
      sig_ok tok m (gpg_sig_value sv hdr) = true /\
      forall m', gpg_verify sig_ok now_s sig key m' = Ok (sig_ok tok m' (gpg_sig_value sv hdr)).
  Proof.
    intros sig key m H. unfold gpg_verify in *.
    destruct (jstr_of (jget S_keyid sig)) as [skid|]; [|discriminate H].
    destruct (jstr_of (jget S_keyid key)) as [mkid|]; [|discriminate H].
    destruct (jstr_of (jget S_signature sig)) as [sv|]; [|discriminate H].
    destruct (gpg_sig_schema_ok sig) eqn:Hschema; cbn [negb] in *; [|discriminate H].
    destruct (gpg_schema_headers sig Hschema) as [oh Hoh]. rewrite Hoh in *.
    match type of H with context [sig_ok (fst ?x) _ _] => set (sel := x) in * end.
    exists (fst sel), sv, oh. split; [reflexivity|]. split; [unfold jstr_of; reflexivity|].
    destruct (Nat.even (length oh)).
    - destruct (jget S_creation_time (snd sel)) as [[| |c| | | |]|];
        try (injection H as Hv; split; [exact Hv|intro m'; reflexivity]).
      destruct (jget S_validity_period (snd sel)) as [[| |v| | | |]|];
        try (injection H as Hv; split; [exact Hv|intro m'; reflexivity]).
      match type of H with (if ?c then _ else _) = _ => destruct c end; [discriminate H|].
      injection H as Hv. split; [exact Hv|intro m'; reflexivity].
    - exfalso.
      destruct (jget S_creation_time (snd sel)) as [[| |c| | | |]|]; try discriminate H.
      destruct (jget S_validity_period (snd sel)) as [[| |v| | | |]|]; try discriminate H.
      match type of H with (if ?c then _ else _) = _ => destruct c end; discriminate H.
  Qed.

  Lemma gpg_verify_true : forall sig key msg,
    gpg_verify sig_ok now_s sig key msg = Ok true ->
    exists tok sv hdr, jstr_of (jget S_signature sig) = Some sv /\
                       jstr_of (jget S_other_headers sig) = Some hdr /\
                       sig_ok tok msg (gpg_sig_value sv hdr) = true.
  Proof.
    intros sig key msg H. destruct (gpg_verify_other_msg _ _ _ H) as [tok [sv [hdr [H1 [H2 [H3 _]]]]]].
    exists tok, sv, hdr. repeat split; assumption.
  Qed.

  Lemma vsig_carries : forall md key, vsig md key = Ok tt -> carries_valid_sig md key.
  Proof.
    intros md key H. destruct md as [sigs p|pbytes pt sigs parsed]; cbn [verify_signature] in H.
    - (* Metablock *)
      bind_inv H shape Hshape.
      destruct (jstr_of (jget S_keyid key)) as [kid|] eqn:Ekid; [|discriminate H].
      match type of H with context [find ?f sigs] => destruct (find f sigs) as [sig|] eqn:Ef end.
      2:{ match type of H with (if ?c then _ else _) = _ => destruct c end; discriminate H. }
      apply find_some in Ef. destruct Ef as [Hin Hm].
      destruct (jstr_of (jget S_keyid sig)) as [k|] eqn:Ek; [|discriminate Hm].
      bind_inv H msg Hmsg.
      assert (Hmatch : sig_keyid_matches key sig).
      { exists kid, k. split; [exact Ekid|]. split; [exact Ek|].
        apply orb_true_iff in Hm. destruct Hm as [Hm|Hm].
        - left. apply eqs_eq. exact Hm.
        - right. apply mem_str_In. exact Hm. }
      exists sig, msg. split; [exact Hin|]. split; [exact Hmatch|].
      split; [exact Hmsg|].
      destruct (has S_signature sig && has S_other_headers sig).
      + destruct shape; [|discriminate H].
        bind_inv H ok Hok. destruct ok; [|discriminate H]. right. exact Hok.
      + destruct shape; [discriminate H|].
        destruct (has S_sig sig); [|discriminate H].
        bind_inv H ok Hok. destruct ok; [|discriminate H]. left. exact Hok.
    - (* Envelope *)
      destruct (jget S_keyid key) as [[| | | |kid| |]|] eqn:Ekid; try discriminate H.
      bind_inv H shape Hshape. destruct shape; [discriminate H|].
      match type of H with (if existsb ?f sigs then _ else _) = _ =>
        destruct (existsb f sigs) eqn:Ex; [|discriminate H] end.
      apply existsb_exists in Ex. destruct Ex as [s [Hin Hs]].
      destruct (jstr_of (jget S_keyid s)) as [k|] eqn:Ek; [|discriminate Hs].
      apply andb_true_iff in Hs. destruct Hs as [Hk Hv].
      apply eqs_eq in Hk. subst k.
      exists s, (pae (utf8 pt) pbytes). split; [exact Hin|]. split.
      + exists kid, kid. unfold jstr_of at 1. rewrite Ekid. repeat split; try assumption.
        left. reflexivity.
      + split; [reflexivity|]. left.
        destruct (sslib_verify sig_ok s key (pae (utf8 pt) pbytes)) as [[]|]; try discriminate Hv.
        reflexivity.
  Qed.

  Lemma carries_oracle : forall md key, carries_valid_sig md key -> oracle_accepts md key.
  Proof.
    intros md key [sig [msg [Hin [_ [Hmsg [H|H]]]]]].
    - apply sslib_verify_true in H. destruct H as [kid [pub [sval [_ [_ [Hs Hok]]]]]].
      exists sig, msg, pub, sval. repeat split; try assumption. left. exact Hs.
    - apply gpg_verify_true in H. destruct H as [tok [sv [hdr [Hs [Hh Hok]]]]].
      exists sig, msg, tok, (gpg_sig_value sv hdr). repeat split; try assumption.
      right. exists sv, hdr. repeat split; assumption.
  Qed.

  (* ---------------------------------------------------------------- *)
  (** * The gate theorem *)

  Lemma gate_Ok_inv : forall md keys l0,
    gate md keys = Ok l0 ->
    exists ks, keys = JDict ks /\ ks <> [] /\
      (forall kid k, In (kid, k) ks -> vsig md k = Ok tt) /\
      get_payload md = Ok (PLayout l0) /\ (now_us < ly_expires_us l0)%Z.
  Proof.
    intros md keys l0 H. unfold gate in H.
    bind_inv H u Hu. bind_inv H p Hp. bind_inv H l Hl. bind_inv H u' Hexp.
    inversion H; subst l.
    destruct (vms_Ok_inv _ _ _ Hu) as [ks [Hk [Hne [_ Hall]]]].
    exists ks. split; [exact Hk|]. split; [exact Hne|]. split; [exact Hall|].
    destruct p as [lk|l]; [discriminate Hl|]. inversion Hl; subst l.
    split; [exact Hp|].
    unfold check_expiry in Hexp.
    destruct (ly_expires_us l0 <=? now_us)%Z eqn:E; [discriminate Hexp|].
    apply Z.leb_gt in E. exact E.
  Qed.

  Lemma accepted_stage_pre : forall files subs a lk tr,
    vfy (Dir files subs) a = (Ok lk, tr) ->
    exists l vm, stage_pre files a = Ok (l, vm) /\
                 vfy (Dir files subs) a = verify_post (recs_of subs) vmissing l vm (a_step_name a).
  Proof.
    intros files subs a lk tr H. rewrite verify_unfold in *. unfold VerifySpec.vbody in *.
    rewrite vbody_post in *.
    destruct (stage_pre files a) as [[l vm]|e]; [|discriminate H].
    exists l, vm. split; reflexivity.
  Qed.

  Theorem gate_theorem : forall d a lk tr,
    vfy d a = (Ok lk, tr) ->
    exists ks l0,
      a_keys a = JDict ks /\ ks <> [] /\
      (forall kid k, In (kid, k) ks ->
         vsig (a_md a) k = Ok tt /\ carries_valid_sig (a_md a) k /\ oracle_accepts (a_md a) k) /\
      get_payload (a_md a) = Ok (PLayout l0) /\
      (now_us < ly_expires_us l0)%Z /\
      exists l vm,
        layout_for l0 (a_params a) = Ok l /\
        match d with
        | Dir files subs =>
            links_for files l = Ok vm /\
            vfy d a = verify_post (recs_of subs) vmissing l vm (a_step_name a)
        end.
  Proof.
    intros [files subs] a lk tr H.
    destruct (accepted_stage_pre _ _ _ _ _ H) as [l [vm [Hpre Hpost]]].
    rewrite stage_pre_gate in Hpre.
    bind_inv Hpre l0 Hgate. bind_inv Hpre l' Hl. bind_inv Hpre vm' Hvm.
    inversion Hpre; subst l' vm'.
    destruct (gate_Ok_inv _ _ _ Hgate) as [ks [Hk [Hne [Hall [Hp Hexp]]]]].
    exists ks, l0. split; [exact Hk|]. split; [exact Hne|]. split.
    - intros kid k Hin. pose proof (Hall kid k Hin) as Hv.
      split; [exact Hv|]. pose proof (vsig_carries _ _ Hv) as Hc.
      split; [exact Hc | apply carries_oracle; exact Hc].
    - split; [exact Hp|]. split; [exact Hexp|].
      exists l, vm. split; [exact Hl|]. split; [exact Hvm | exact Hpost].
  Qed.

  (** accepted runs went through the gate *)
  Lemma accepted_gate : forall d a lk tr,
    vfy d a = (Ok lk, tr) -> exists l0, gate (a_md a) (a_keys a) = Ok l0.
  Proof.
    intros d a lk tr H. destruct (gate (a_md a) (a_keys a)) as [l0|e] eqn:E; [exists l0; reflexivity|].
    rewrite (gate_Err_rejects a e E d) in H. discriminate H.
  Qed.

  (** the parse the DSSE payload is evaluated from is the parse of the signed bytes *)
  Definition md_consistent (md : metadata) : Prop :=
    match md with
    | Metablock _ _ => True
    | Envelope pbytes _ _ parsed => parsed = loads pbytes
    end.

  Lemma from_dict_consistent : forall j md, from_dict b64dec loads j = Ok md -> md_consistent md.
  Proof.
    intros j md H. destruct md as [sigs p|pbytes pt sigs parsed]; [exact I|].
    cbn [md_consistent]. unfold from_dict in H.
    destruct j; try discriminate H.
    destruct (has S_payload (JDict l)).
    - destruct (jget S_payloadType (JDict l)) as [[| | | |pt'| |]|]; try discriminate H.
      destruct (eqs pt' S_envelope_payload_type); [|discriminate H].
      destruct (jget S_payload (JDict l)) as [[| | | |p64| |]|]; try discriminate H.
      destruct (jget S_signatures (JDict l)) as [[| | | | |sl|]|]; try discriminate H.
      destruct (b64dec p64) as [pb|]; [|discriminate H].
      bind_inv H sigs' Hs. inversion H; subst. reflexivity.
    - destruct (has S_signed (JDict l)); [|discriminate H].
      destruct (jget_default S_signed (JDict []) (JDict l)); try discriminate H.
      bind_inv H p Hp.
      destruct (jget_default S_signatures (JList []) (JDict l)); try discriminate H.
      bind_inv H u Hu. discriminate H.
  Qed.

  Lemma envelope_payload_of_signed_bytes : forall pbytes pt sigs parsed p,
    md_consistent (Envelope pbytes pt sigs parsed) ->
    get_payload (Envelope pbytes pt sigs parsed) = Ok p ->
    signed_message (Envelope pbytes pt sigs parsed) = Ok (pae (utf8 pt) pbytes) /\
    exists data, loads pbytes = Some data /\ read_payload data = Ok p.
  Proof.
    intros pbytes pt sigs parsed p Hc Hp. cbn [md_consistent] in Hc. subst parsed.
    split; [reflexivity|]. cbn [get_payload] in Hp.
    destruct (loads pbytes) as [data|]; [|discriminate Hp].
    exists data. split; [reflexivity|]. destruct data; try discriminate Hp. exact Hp.
  Qed.

  (* ---------------------------------------------------------------- *)
  (** * Rejections that no link directory can repair *)

  Lemma no_keys_rejected : forall a,
    check_public_keys (a_keys a) = Ok [] -> forall d, vfy d a = (Err ESignature, []).
  Proof.
    intros a H d. apply gate_Err_rejects. unfold gate. rewrite (vms_empty _ _ H). reflexivity.
  Qed.

  Lemma bad_keys_rejected : forall a e,
    check_public_keys (a_keys a) = Err e -> forall d, vfy d a = (Err e, []).
  Proof.
    intros a e H d. apply gate_Err_rejects. unfold gate, verify_metadata_signatures.
    rewrite H. reflexivity.
  Qed.

  Lemma key_without_valid_sig_rejected : forall a ks kid k e,
    check_public_keys (a_keys a) = Ok ks -> In (kid, k) ks -> vsig (a_md a) k = Err e ->
    exists e', forall d, vfy d a = (Err e', []).
  Proof.
    intros a ks kid k e Hks Hin He.
    destruct (vms_key_fails (a_md a) _ _ _ _ _ Hks Hin He) as [e' He'].
    exists e'. intro d. apply gate_Err_rejects. unfold gate. rewrite He'. reflexivity.
  Qed.

  Lemma expired_rejected : forall a l0 u,
    vms (a_md a) (a_keys a) = Ok u -> get_payload (a_md a) = Ok (PLayout l0) ->
    (ly_expires_us l0 <= now_us)%Z -> forall d, vfy d a = (Err EExpired, []).
  Proof.
    intros a l0 u Hs Hp Hexp d. apply gate_Err_rejects. unfold gate.
    rewrite Hs, Hp. cbn [bind]. unfold check_expiry.
    apply Z.leb_le in Hexp. rewrite Hexp. reflexivity.
  Qed.

  Lemma not_expired_passes : forall l0,
    (now_us < ly_expires_us l0)%Z -> check_expiry (ly_expires_us l0) now_us = Ok tt.
  Proof.
    intros l0 H. unfold check_expiry. apply Z.leb_gt in H. rewrite H. reflexivity.
  Qed.

  Lemma expiry_boundary : forall a l0 u,
    vms (a_md a) (a_keys a) = Ok u -> get_payload (a_md a) = Ok (PLayout l0) ->
    ((ly_expires_us l0 <= now_us)%Z -> forall d, vfy d a = (Err EExpired, [])) /\
    ((now_us < ly_expires_us l0)%Z -> gate (a_md a) (a_keys a) = Ok l0).
  Proof.
    intros a l0 u Hs Hp. split; [exact (expired_rejected a l0 u Hs Hp)|].
    intro H. unfold gate. rewrite Hs, Hp. cbn [bind]. rewrite (not_expired_passes l0 H). reflexivity.
  Qed.

  (* ---------------------------------------------------------------- *)
  (** * Edited content under ideal signatures *)

  Notation ideal_sigs := (ideal_sigs sig_ok).

  (** the verdict of a signature check on another message: same key token, same signature value *)
  Lemma sslib_verify_other_msg : forall sig key m,
    sslib_verify sig_ok sig key m = Ok true ->
    exists tok sval, sig_ok tok m sval = true /\
                     forall m', sslib_verify sig_ok sig key m' = Ok (sig_ok tok m' sval).
  Proof.
    intros sig key m H. unfold sslib_verify in *.
    destruct (jstr_of (jget S_keyid sig)) as [skid|]; [|discriminate H].
    destruct (jstr_of (jget S_keyid key)) as [kid|]; [|discriminate H].
    destruct (jstr_of (jget S_sig sig)) as [sval|]; [|discriminate H].
    destruct (negb (eqs skid kid)); [discriminate H|].
    destruct (negb (hex_even sval)); [discriminate H|].
    destruct (jget S_keyval key) as [kv|]; [|discriminate H].
    destruct (jstr_of (jget S_public kv)) as [pub|]; [|discriminate H].
    injection H as Hv. exists pub, sval. split; [exact Hv|]. intro m'. reflexivity.
  Qed.

  Lemma vsig_metablock_edit : forall sigs p p' key,
    ideal_sigs ->
    wf_json (payload_asdict p) = true -> wf_json (payload_asdict p') = true ->
    norm (payload_asdict p') <> norm (payload_asdict p) ->
    vsig (Metablock sigs p) key = Ok tt ->
    exists e, vsig (Metablock sigs p') key = Err e.
  Proof.
    intros sigs p p' key Hideal Wp Wp' Hne H.
    cbn [verify_signature] in *.
    destruct (check_public_key key) as [shape|e0]; cbn [bind] in *; [|discriminate H].
    destruct (jstr_of (jget S_keyid key)) as [kid|]; [|discriminate H].
    match type of H with context [find ?f sigs] => destruct (find f sigs) as [sig|] end.
    2:{ match goal with |- exists e, (if ?c then _ else _) = _ => destruct c end; eexists; reflexivity. }
    bind_inv H msg Hmsg. unfold signed_bytes_mb in *.
    destruct (signable_bytes (payload_asdict p')) as [msg'|e'] eqn:Hmsg'; cbn [bind];
      [|eexists; reflexivity].
    assert (Hdiff : msg' <> msg).
    { intro E. subst msg'. apply Hne. exact (signable_bytes_inj _ _ _ Wp' Wp Hmsg' Hmsg). }
    destruct (has S_signature sig && has S_other_headers sig).
    - destruct shape; [|discriminate H].
      bind_inv H ok Hok. destruct ok; [|discriminate H].
      destruct (gpg_verify_other_msg _ _ _ Hok) as [tok [sv [hdr [_ [_ [Hv Hother]]]]]].
      rewrite (Hother msg'). cbn [bind].
      destruct (sig_ok tok msg' (gpg_sig_value sv hdr)) eqn:Hv'; [|eexists; reflexivity].
      exfalso. apply Hdiff. exact (Hideal _ _ _ _ Hv' Hv).
    - destruct shape; [discriminate H|].
      destruct (has S_sig sig); [|eexists; reflexivity].
      bind_inv H ok Hok. destruct ok; [|discriminate H].
      destruct (sslib_verify_other_msg _ _ _ Hok) as [tok [sval [Hv Hother]]].
      rewrite (Hother msg'). cbn [bind].
      destruct (sig_ok tok msg' sval) eqn:Hv'; [|eexists; reflexivity].
      exfalso. apply Hdiff. exact (Hideal _ _ _ _ Hv' Hv).
  Qed.

  (** at most one signature per key id in a signature list *)
  Definition sig_kid (s : json) : option str := jstr_of (jget S_keyid s).
  Fixpoint unique_sig_keyids (sigs : list json) : Prop :=
    match sigs with
    | [] => True
    | s :: r => (forall s', In s' r -> sig_kid s = None \/ sig_kid s' <> sig_kid s) /\ unique_sig_keyids r
    end.

  Lemma unique_same_kid : forall sigs s1 s2 k,
    unique_sig_keyids sigs -> In s1 sigs -> In s2 sigs ->
    sig_kid s1 = Some k -> sig_kid s2 = Some k -> s1 = s2.
  Proof.
    induction sigs as [|s r IH]; intros s1 s2 k Hu H1 H2 K1 K2; [destruct H1|].
    cbn [unique_sig_keyids] in Hu. destruct Hu as [Hhd Htl].
    destruct H1 as [->|H1]; destruct H2 as [->|H2].
    - reflexivity.
    - destruct (Hhd s2 H2) as [Hn|Hn]; congruence.
    - destruct (Hhd s1 H1) as [Hn|Hn]; congruence.
    - exact (IH s1 s2 k Htl H1 H2 K1 K2).
  Qed.

  Lemma vsig_envelope_edit : forall pbytes pbytes' pt sigs parsed parsed' key,
    ideal_sigs -> unique_sig_keyids sigs -> pbytes' <> pbytes ->
    vsig (Envelope pbytes pt sigs parsed) key = Ok tt ->
    exists e, vsig (Envelope pbytes' pt sigs parsed') key = Err e.
  Proof.
    intros pbytes pbytes' pt sigs parsed parsed' key Hideal Huniq Hne H.
    cbn [verify_signature] in *.
    destruct (jget S_keyid key) as [[| | | |kid| |]|]; try discriminate H.
    destruct (check_public_key key) as [shape|e]; cbn [bind] in *; [|discriminate H].
    destruct shape; [discriminate H|].
    match type of H with (if existsb ?f sigs then _ else _) = _ =>
      destruct (existsb f sigs) eqn:Ex; [|discriminate H] end.
    match goal with |- exists e, (if existsb ?f sigs then _ else _) = _ =>
      destruct (existsb f sigs) eqn:Ex'; [|eexists; reflexivity] end.
    exfalso.
    apply existsb_exists in Ex. destruct Ex as [s [Hin Hs]].
    apply existsb_exists in Ex'. destruct Ex' as [s' [Hin' Hs']].
    destruct (jstr_of (jget S_keyid s)) as [k|] eqn:Ek; [|discriminate Hs].
    destruct (jstr_of (jget S_keyid s')) as [k'|] eqn:Ek'; [|discriminate Hs'].
    apply andb_true_iff in Hs. destruct Hs as [Hk Hv].
    apply andb_true_iff in Hs'. destruct Hs' as [Hk' Hv'].
    apply eqs_eq in Hk. apply eqs_eq in Hk'. subst k k'.
    assert (s = s') as <- by (apply (unique_same_kid sigs s s' kid Huniq Hin Hin' Ek Ek')).
    destruct (sslib_verify sig_ok s key (pae (utf8 pt) pbytes)) as [[]|] eqn:V; try discriminate Hv.
    destruct (sslib_verify sig_ok s key (pae (utf8 pt) pbytes')) as [[]|] eqn:V'; try discriminate Hv'.
    unfold sslib_verify in V, V'.
    destruct (jstr_of (jget S_keyid s)) as [skid|]; [|discriminate V].
    destruct (jstr_of (jget S_keyid key)) as [kid'|]; [|discriminate V].
    destruct (jstr_of (jget S_sig s)) as [sval|]; [|discriminate V].
    destruct (negb (eqs skid kid')); [discriminate V|].
    destruct (negb (hex_even sval)); [discriminate V|].
    destruct (jget S_keyval key) as [kv|]; [|discriminate V].
    destruct (jstr_of (jget S_public kv)) as [pub|]; [|discriminate V].
    inversion V as [V1]. inversion V' as [V2].
    pose proof (Hideal _ _ _ _ V1 V2) as Em.
    apply pae_inj in Em. destruct Em as [_ Em]. apply Hne. symmetry. exact Em.
  Qed.

  (** the two formats, same conclusion: every key set that accepted the original rejects the
      edited document, against every link directory, with any parameters *)
  Theorem edit_rejected_metablock : forall sigs p p' d a lk tr,
    ideal_sigs ->
    a_md a = Metablock sigs p ->
    vfy d a = (Ok lk, tr) ->
    wf_json (payload_asdict p) = true -> wf_json (payload_asdict p') = true ->
    norm (payload_asdict p') <> norm (payload_asdict p) ->
    forall d' params name, exists e,
      vfy d' (mkArgs (Metablock sigs p') (a_keys a) params name) = (Err e, []).
  Proof.
    intros sigs p p' d a lk tr Hideal Hmd Hacc Wp Wp' Hne d' params name.
    destruct (accepted_gate _ _ _ _ Hacc) as [l0 Hg].
    unfold gate in Hg. bind_inv Hg u Hu.
    destruct (vms_Ok_inv _ _ _ Hu) as [ks [Hk [Hnil [Hcpk Hall]]]].
    destruct ks as [|[kid k] ks]; [congruence|].
    assert (Hin : In (kid, k) ((kid, k) :: ks)) by (left; reflexivity).
    pose proof (Hall kid k Hin) as Hv. rewrite Hmd in Hv.
    destruct (vsig_metablock_edit sigs p p' k Hideal Wp Wp' Hne Hv) as [e He].
    destruct (key_without_valid_sig_rejected
                (mkArgs (Metablock sigs p') (a_keys a) params name) _ kid k e Hcpk Hin He) as [e' He'].
    exists e'. apply He'.
  Qed.

  Theorem edit_rejected_envelope : forall pbytes pbytes' pt sigs parsed parsed' d a lk tr,
    ideal_sigs -> unique_sig_keyids sigs ->
    a_md a = Envelope pbytes pt sigs parsed ->
    vfy d a = (Ok lk, tr) ->
    pbytes' <> pbytes ->
    forall d' params name, exists e,
      vfy d' (mkArgs (Envelope pbytes' pt sigs parsed') (a_keys a) params name) = (Err e, []).
  Proof.
    intros pbytes pbytes' pt sigs parsed parsed' d a lk tr Hideal Huniq Hmd Hacc Hne d' params name.
    destruct (accepted_gate _ _ _ _ Hacc) as [l0 Hg].
    unfold gate in Hg. bind_inv Hg u Hu.
    destruct (vms_Ok_inv _ _ _ Hu) as [ks [Hk [Hnil [Hcpk Hall]]]].
    destruct ks as [|[kid k] ks]; [congruence|].
    assert (Hin : In (kid, k) ((kid, k) :: ks)) by (left; reflexivity).
    pose proof (Hall kid k Hin) as Hv. rewrite Hmd in Hv.
    destruct (vsig_envelope_edit pbytes pbytes' pt sigs parsed parsed' k Hideal Huniq Hne Hv) as [e He].
    destruct (key_without_valid_sig_rejected
                (mkArgs (Envelope pbytes' pt sigs parsed') (a_keys a) params name) _ kid k e Hcpk Hin He)
      as [e' He'].
    exists e'. apply He'.
  Qed.
End Gate.
