(** PyLibFacts2.v — facts relating the PyLib set/dict operations on embedded strings and hash
    records to the list operations of the model (used by Tie/C03.v and Tie/C19.v). *)
From InToto.Model Require Import Base Json PyLib Glob PyLibGlob Rule Rules.

Definition res_map2 {A B} (f : A -> B) (r : res A) : res B :=
  match r with Ok a => Ok (f a) | Err e => Err e end.

Lemma pv_mem_vstr : forall x l, pv_mem pv_eqb (VStr x) (map VStr l) = mem_str x l.
Proof. induction l as [|y l IH]; cbn; [reflexivity | rewrite IH; reflexivity]. Qed.

Lemma pv_dedup_vstr : forall l, pv_dedup (map VStr l) = map VStr (dedup l).
Proof.
  induction l as [|x l IH]; cbn [map pv_dedup dedup]; [reflexivity|].
  rewrite pv_mem_vstr, IH. destruct (mem_str x l); reflexivity.
Qed.

Lemma filter_mem_vstr : forall a b,
  filter (fun e => pv_mem pv_eqb e (map VStr b)) (map VStr a) = map VStr (filter (fun x => mem_str x b) a).
Proof.
  induction a as [|x a IH]; intro b; cbn [map filter]; [reflexivity|].
  rewrite pv_mem_vstr, IH. destruct (mem_str x b); reflexivity.
Qed.

Lemma filter_notmem_vstr : forall a b,
  filter (fun e => negb (pv_mem pv_eqb e (map VStr b))) (map VStr a) =
  map VStr (filter (fun x => negb (mem_str x b)) a).
Proof.
  induction a as [|x a IH]; intro b; cbn [map filter]; [reflexivity|].
  rewrite pv_mem_vstr, IH. destruct (mem_str x b); reflexivity.
Qed.

(** fnmatch.filter on embedded strings is the model's filter *)
Lemma fn_go_vstr : forall l pat,
  fn_go (map VStr l) pat = res_map2 (map VStr) (fnfilter glob_match l pat).
Proof.
  induction l as [|x l IH]; intro pat; [reflexivity|].
  cbn [map fn_go]. unfold fnfilter in *. cbn [map].
  destruct (glob_match pat x) as [b|]; [|reflexivity].
  rewrite IH. destruct ((fix go (l0 : list str) : res (list str) := _) l) as [r|e]; [|reflexivity].
  cbn. destruct b; reflexivity.
Qed.

Lemma fnmatch_filter_list : forall l pat,
  py_fnmatch_filter (vstrs l) (VStr pat) = res_map2 vstrs (fnfilter glob_match l pat).
Proof.
  intros l pat. unfold py_fnmatch_filter, vstrs. cbn [py_iter bind]. rewrite fn_go_vstr.
  destruct (fnfilter glob_match l pat); reflexivity.
Qed.
Lemma fnmatch_filter_set : forall l pat,
  py_fnmatch_filter (vsset l) (VStr pat) = res_map2 vstrs (fnfilter glob_match l pat).
Proof.
  intros l pat. unfold py_fnmatch_filter, vsset, vstrs. cbn [py_iter bind]. rewrite fn_go_vstr.
  destruct (fnfilter glob_match l pat); reflexivity.
Qed.

(** hash records: a dict whose values are strings (formats._check_hash_dict) *)
Definition hashrec (j : json) : bool :=
  match j with
  | JDict l => forallb (fun kv => match snd kv with JStr _ => true | _ => false end) l
  | _ => false
  end.

Definition inj_amap (m : amap) : pyval := VDict (map (fun kv => (VStr (fst kv), inj (snd kv))) m).

Lemma pv_assoc_inj : forall k (m : amap),
  pv_assoc pv_eqb (VStr k) (map (fun kv => (VStr (fst kv), inj (snd kv))) m) = option_map inj (lookup k m).
Proof.
  induction m as [|[k' v] m IH]; cbn; [reflexivity|]. destruct (eqs k k'); [reflexivity | exact IH].
Qed.

Lemma find_inj_str : forall k (y : list (str * json)) a,
  forallb (fun kv => match snd kv with JStr _ => true | _ => false end) y = true ->
  (fix find (y0 : list (pyval * pyval)) : bool :=
     match y0 with
     | [] => false
     | (kb, b) :: y' => if pv_eqb (VStr k) kb then pv_eqb (VStr a) b else find y'
     end) (map (fun kv => (VStr (fst kv), inj (snd kv))) y) =
  match lookup k y with Some b => py_eqb (JStr a) b | None => false end.
Proof.
  induction y as [|[kb b] y IH]; intros a Hy; [reflexivity|].
  cbn [map fst snd lookup]. cbn [forallb snd] in Hy. apply andb_true_iff in Hy. destruct Hy as [Hb Hy].
  cbn [pv_eqb]. destruct (eqs k kb).
  - destruct b; try discriminate. reflexivity.
  - apply IH. exact Hy.
Qed.

(** Python == on two embedded hash records is the model's py_eqb *)
Lemma pv_eqb_hashrec : forall a b, hashrec a = true -> hashrec b = true -> pv_eqb (inj a) (inj b) = py_eqb a b.
Proof.
  intros a b Ha Hb. destruct a as [| | | | |?|x]; try discriminate. destruct b as [| | | | |?|y]; try discriminate.
  cbn [hashrec] in Ha, Hb. cbn [inj pv_eqb py_eqb]. rewrite !map_length. f_equal.
  induction x as [|[ka va] x IH]; [reflexivity|].
  cbn [forallb snd] in Ha. apply andb_true_iff in Ha. destruct Ha as [Hva Hx].
  cbn [map fst snd]. destruct va; try discriminate. cbn [inj].
  rewrite (find_inj_str ka y s Hb). rewrite (IH Hx). reflexivity.
Qed.

Definition amap_hashrecs (m : amap) : bool := forallb (fun kv => hashrec (snd kv)) m.

Lemma lookup_hashrec : forall k (m : amap) v, amap_hashrecs m = true -> lookup k m = Some v -> hashrec v = true.
Proof.
  induction m as [|[k' v'] m IH]; intros v Hm H; [discriminate|].
  cbn [amap_hashrecs forallb snd] in Hm. apply andb_true_iff in Hm. destruct Hm as [Hv Hm].
  cbn [lookup] in H. destruct (eqs k k'); [inversion H; subst; exact Hv | exact (IH v Hm H)].
Qed.

Lemma keys_inj_amap : forall m, py_keys (inj_amap m) = Ok (vsset (keys m)).
Proof. intro m. unfold py_keys, inj_amap, vsset, keys. rewrite !map_map. reflexivity. Qed.
