(** ThresholdSpec.v — vocabulary for C02 / C05 / C08 (definitions only): who may count
    for a step (written from the property text), the verified predicate on loaded files,
    "bad but well-formed" files, agreement of links, shape of an accepted run. *)
From InToto.Model Require Import Base Json Strs Utf8 Canon Rule Glob Rules Expiry Subst Meta Verify.
From InToto.Proofs Require Import VerifySpec.

(* ------------------------------------------------------------------ *)
(** * C02: who may count                                                 *)

(** the key store of a layout: an entry that is present and not empty *)
Definition store (l : layout) (a : str) : option json :=
  match lookup a (ly_keys l) with
  | Some k => if jtruthy k then Some k else None
  | None => None
  end.

(** [counts l s kid vk mainid]: a link file named after key id [kid], presented for step [s],
    is to be verified with key [vk] and then counts for functionary [mainid].
    Written from the property text:
    - an authorised key present in the key store verifies with itself and counts as itself;
    - a subkey of an authorised master key in the store is verified with the master entry
      (which selects that subkey) and counts as the master;
    - a subkey authorised on its own (not in the store under its own id, but a subkey of some
      store entry [m]) is verified with THAT SUBKEY'S ENTRY ALONE — neither the master nor a
      sibling can produce a signature this key accepts — and counts for its master. *)
Inductive counts (l : layout) (s : step) (kid : str) (vk : json) (mainid : json) : Prop :=
| C_key a :
    In a (st_pubkeys s) -> store l a = Some vk -> kid = a ->
    jget S_keyid vk = Some mainid -> counts l s kid vk mainid
| C_sub_of_master a :
    In a (st_pubkeys s) -> store l a = Some vk -> In kid (subkey_ids vk) ->
    jget S_keyid vk = Some mainid -> counts l s kid vk mainid
| C_sub_alone a mid m :
    In a (st_pubkeys s) -> store l a = None -> In (mid, m) (ly_keys l) ->
    subkey_entry m a = Some vk -> kid = a ->
    jget S_keyid m = Some mainid -> counts l s kid vk mainid.

Section TSpec.
  Variable b64dec : str -> option (list N).
  Variable loads : list N -> option json.
  Variable sig_ok : str -> list N -> str -> bool.
  Variable now_s : Z.
  Variable now_us : Z.
  Variable exec : list json -> exec_result.

  Notation vsig := (verify_signature sig_ok now_s).

  (** the verified predicate on one loaded file [(kid, md)] of step [s]: authorised name,
      signature accepted, names the step.  ([mk] = main_keys_for_subkeys l) *)
  Definition link_ok (l : layout) (mk : list (str * json)) (s : step) (kv : str * metadata) : bool :=
    match verification_key l mk s (fst kv) with
    | Some (Ok (vk, JStr _)) =>
        match vsig (snd kv) vk with
        | Ok _ => match names_step (snd kv) s with Ok true => true | _ => false end
        | Err _ => false
        end
    | _ => false
    end.

  (** the functionary (main key id) a verified file counts for *)
  Definition main_of (l : layout) (mk : list (str * json)) (s : step) (kv : str * metadata) : str :=
    match verification_key l mk s (fst kv) with
    | Some (Ok (_, JStr m)) => m
    | _ => []
    end.

  (** [verified_file files l s kid md mainid]: the file <step>.<kid8>.link exists in this
      directory, [md] is its loaded content, the declarative relation lets it count for
      functionary [mainid] when verified with [vk], the signature check with [vk] succeeds —
      hence [md] lists a signature by [vk] that the oracle accepts over exactly
      [signed_message md] — and [md] names the step (C08) *)
  Definition verified_file (files : list (str * file)) (l : layout) (s : step)
             (kid : str) (md : metadata) (mainid : str) : Prop :=
    exists j vk,
      lookup (link_filename (st_name s) kid) files = Some (FJson j) /\
      from_dict b64dec loads j = Ok md /\
      counts l s kid vk (JStr mainid) /\
      vsig md vk = Ok tt /\
      carries_valid_sig sig_ok now_s md vk /\
      names_step md s = Ok true.

  (** what acceptance guarantees for one step; [good] is the verified set handed on *)
  Definition step_evidence (files : list (str * file)) (l : layout) (s : step)
             (good : list (str * metadata)) : Prop :=
    exists F : list str,
      NoDup F /\ (st_threshold s <= Z.of_nat (length F))%Z /\
      forall f, In f F -> exists kid md, In (kid, md) good /\ verified_file files l s kid md f.

  (** a loaded file that is skipped without any other effect: file name under a key id that is
      not authorised for the step, no valid signature by the verification key (unsigned,
      signature or content edited, signed by someone else), expired gpg key, or a valid link
      recorded for another step *)
  Definition link_skipped (l : layout) (mk : list (str * json)) (s : step) (kv : str * metadata) : bool :=
    match verification_key l mk s (fst kv) with
    | None => true
    | Some (Err _) => false
    | Some (Ok (vk, _)) =>
        match vsig (snd kv) vk with
        | Err ESignature | Err EKeyExpired => true
        | Err _ => false
        | Ok _ => match names_step (snd kv) s with Ok false => true | _ => false end
        end
    end.

  (** metadata [md], were it the content of a file called [fn], is bad-but-well-formed for
      layout [l]: under every (step, tried key id) whose link file name is [fn] it is skipped.
      Decidable.  Excluded on purpose (finding D2b): files on which the signature check
      raises (signature of the other key family, ...). *)
  Definition bad_file_b (l : layout) (fn : str) (md : metadata) : bool :=
    forallb (fun s =>
               forallb (fun kid => negb (eqs (link_filename (st_name s) kid) fn) ||
                                   link_skipped l (main_keys_for_subkeys l) s (kid, md))
                       (flat_map (keyids_to_try l) (st_pubkeys s)))
            (ly_steps l).

  (** [files'] is [files] plus one file [fn] that was absent (at any position of the listing) *)
  Definition file_added (fn : str) (f : file) (files files' : list (str * file)) : Prop :=
    lookup fn files = None /\
    forall n, lookup n files' = if eqs n fn then Some f else lookup n files.

  (** the signature check raises instead of answering: the other-family cases *)
  Definition sig_is_gpg_format (sg : json) : bool := has S_signature sg && has S_other_headers sg.

  (* ---------------------------------------------------------------- *)
  (** * shape of a run                                                  *)

  (** stages 1-4 of in_toto_verify: what is evaluated, independent of the link directory *)
  Definition pre_layout (a : args) : res layout :=
    do _ <- verify_metadata_signatures sig_ok now_s (a_md a) (a_keys a);
    do p <- get_payload (a_md a);
    do l0 <- match p with PLayout l => Ok l | PLink _ => Err EAttribute end;
    do _ <- check_expiry (ly_expires_us l0) now_us;
    match a_params a with Some ps => substitute_parameters l0 ps | None => Ok l0 end.

  (** an accepting run of verify_body, stage by stage: [l] the (substituted) layout,
      [sm] the loaded files per step, [vm] the verified set per step, [chain] the links after
      sublayout summarisation, [reduced] one representative per step — the only links that
      step rules, inspection rules and the summary link see *)
  Record accepted_run (files : list (str * file)) (recs : list (str * (args -> result)))
         (missing : args -> result) (a : args) (sum : link) (tr : list ev)
         (l : layout) (sm vm : list (str * list (str * metadata)))
         (chain : list (str * list (str * link))) (reduced : links) : Prop := {
    ar_layout : pre_layout a = Ok l;
    ar_loaded : load_links_for_layout b64dec loads files l = Ok sm;
    ar_verified : verify_link_signature_thresholds sig_ok now_s l sm = Ok vm;
    ar_chain : exists tr1, subs_steps recs missing l vm [] = (Ok chain, tr1) /\
                 stage_final exec l reduced (a_step_name a) tr1 = (Ok sum, tr);
    ar_agree : verify_threshold_constraints l chain = Ok tt;
    ar_reduced : reduce_chain_links chain = Ok reduced;
    ar_step_rules : verify_all_item_rules glob_match (step_items l) reduced = Ok tt
  }.

  (** how a chain entry arises from an entry of the verified set: a link file contributes its
      payload; a sublayout file contributes the summary link of its own accepted verification
      (in sub-directory <step>.<kid8>, with the functionary's key only) *)
  Definition chain_link_of (recs : list (str * (args -> result))) (missing : args -> result)
             (l : layout) (sname : str) (km : str * metadata) (kl : str * link) : Prop :=
    fst kl = fst km /\
    (get_payload (snd km) = Ok (PLink (snd kl)) \/
     exists sub, get_payload (snd km) = Ok (PLayout sub) /\
       exists tr, match lookup (sublayout_dirname sname (fst km)) recs with
                  | Some f => f | None => missing end
                    (mkArgs (snd km)
                            (JDict [(fst km, match lookup (fst km) (ly_keys l) with Some k => k | None => JNull end)])
                            None (JStr sname)) = (Ok (snd kl), tr)).

  (* ---------------------------------------------------------------- *)
  (** * C05: agreement                                                  *)

  (** the comparison the code makes: same materials and same products, as maps *)
  Definition agrees (ref lk : link) : bool :=
    amap_eqb (l_materials ref) (l_materials lk) && amap_eqb (l_products ref) (l_products lk).

  (** a well-formed artifact map: distinct paths, every value a hash record with distinct
      algorithm names and string digests (what Link validation + json.loads guarantee) *)
  Definition wf_hashrec (v : json) : Prop :=
    exists h, v = JDict h /\ NoDup (keys h) /\ Forall (fun kv => exists d, snd kv = JStr d) h.
  Definition wf_amap (a : amap) : Prop :=
    NoDup (keys a) /\ Forall (fun kv => wf_hashrec (snd kv)) a.
  Definition wf_link (lk : link) : Prop := wf_amap (l_materials lk) /\ wf_amap (l_products lk).

  (** declarative equality of artifact maps: the same paths, and for each path the same
      algorithm -> digest record, whatever the storage order *)
  Definition same_hashrec (v w : json) : Prop :=
    match v, w with
    | JDict h1, JDict h2 => forall alg, lookup alg h1 = lookup alg h2
    | _, _ => False
    end.
  Definition same_artifacts (a b : amap) : Prop :=
    forall p, match lookup p a, lookup p b with
              | Some v, Some w => same_hashrec v w
              | None, None => True
              | _, _ => False
              end.

  (** the per-step check of verify_threshold_constraints *)
  Definition step_agreement (s : step) (kl : list (str * link)) : res unit :=
    if (st_threshold s <=? 1)%Z then Ok tt else
    if (Z.of_nat (length kl) <? st_threshold s)%Z then Err EThreshold else
    match kl with
    | [] => Err EIndexError
    | (_, ref) :: _ => if forallb (fun kv => agrees ref (snd kv)) kl then Ok tt else Err EThreshold
    end.
End TSpec.
