(** FormatEquiv.v — property C14: in_toto_verify looks at a metadata object (the root layout and
    every link / sublayout file) only through [get_payload] and through the results of
    [verify_signature] FOR THE KEYS IT IS CHECKED WITH; consequently a scenario re-materialised in
    the other format (any subset of its files) gives the same verdict, summary link and trace at
    every nesting depth.  [K] is any class of keys that contains every key the run can use (the
    verifier's key dict, the keys of every layout in the tree); two containers need to agree on
    [verify_signature] only for keys in [K] (a Metablock and an Envelope never agree on ALL
    conceivable key arguments: malformed or gpg-shaped keys make them fail differently). *)
From InToto.Model Require Import Base Json Strs Utf8 Canon Rule Glob Rules Expiry Subst Meta Verify.
From InToto.Proofs Require Import VerifySpec VerifyRec.

(** relational lifting to results *)
Definition rres {A} (R : A -> A -> Prop) (r r' : res A) : Prop :=
  match r, r' with
  | Ok a, Ok a' => R a a'
  | Err e, Err e' => e = e'
  | _, _ => False
  end.

Lemma rres_eq : forall A (r r' : res A), rres eq r r' <-> r = r'.
Proof.
  intros A [a|e] [a'|e']; simpl; split; intro H; try congruence; try contradiction; try discriminate.
Qed.

Lemma rres_bind : forall A B (R : A -> A -> Prop) (Q : B -> B -> Prop) r r' f f',
  rres R r r' -> (forall a a', R a a' -> rres Q (f a) (f' a')) -> rres Q (bind r f) (bind r' f').
Proof.
  intros A B R Q [a|e] [a'|e'] f f' H Hf; simpl in *; try contradiction; auto.
Qed.

Lemma rres_mapM : forall A B (R : B -> B -> Prop) (f g : A -> res B) l,
  (forall x, In x l -> rres R (f x) (g x)) -> rres (Forall2 R) (mapM f l) (mapM g l).
Proof.
  intros A B R f g. induction l as [|x l IH]; intro H; simpl; [constructor|].
  eapply rres_bind; [apply H; left; reflexivity|]. intros y y' Hy.
  eapply rres_bind; [apply IH; intros; apply H; right; assumption|]. intros ys ys' Hys.
  simpl. constructor; assumption.
Qed.

Lemma rres_mapM2 : forall A B (P : A -> A -> Prop) (R : B -> B -> Prop) (f g : A -> res B) l l',
  Forall2 P l l' -> (forall x x', P x x' -> rres R (f x) (g x')) -> rres (Forall2 R) (mapM f l) (mapM g l').
Proof.
  intros A B P R f g l l' H Hf. induction H as [|x x' l l' Hx _ IH]; simpl; [constructor|].
  eapply rres_bind; [apply Hf; assumption|]. intros y y' Hy.
  eapply rres_bind; [exact IH|]. intros ys ys' Hys. simpl. constructor; assumption.
Qed.

Section Equiv.
  Variable b64dec : str -> option (list N).
  Variable loads : list N -> option json.
  Variable sig_ok : str -> list N -> str -> bool.
  Variable now_s : Z.
  Variable now_us : Z.
  Variable exec : list json -> exec_result.
  Variable K : json -> Prop.

  Local Notation vfy := (vfy b64dec loads sig_ok now_s now_us exec).
  Local Notation vbody := (vbody b64dec loads sig_ok now_s now_us exec).
  Local Notation recs_of := (recs_of b64dec loads sig_ok now_s now_us exec).
  Local Notation vmissing := (vmissing b64dec loads sig_ok now_s now_us exec).
  Local Notation vsig := (verify_signature sig_ok now_s).
  Local Notation stage_pre := (stage_pre b64dec loads sig_ok now_s now_us).
  Local Notation load_links_for_layout := (load_links_for_layout b64dec loads).
  Local Notation load_step := (load_step b64dec loads).
  Local Notation load_keyids := (load_keyids b64dec loads).
  Local Notation load_file := (load_file b64dec loads).
  Local Notation from_dict := (from_dict b64dec loads).
  Local Notation vlst := (verify_link_signature_thresholds sig_ok now_s).
  Local Notation verify_step_links := (verify_step_links sig_ok now_s).
  Local Notation verify_metadata_signatures := (verify_metadata_signatures sig_ok now_s).

  (** ** "the same content": equal payload reading, equal signature verdict for every key in [K] *)
  Definition md_rel (m m' : metadata) : Prop :=
    get_payload m = get_payload m' /\ forall key, K key -> vsig m key = vsig m' key.

  Lemma md_rel_refl : forall m, md_rel m m.
  Proof. intro m. split; reflexivity. Qed.
  Lemma md_rel_sym : forall m m', md_rel m m' -> md_rel m' m.
  Proof. intros m m' [H1 H2]. split; [symmetry; assumption | intros k Hk; symmetry; apply H2; exact Hk]. Qed.
  Lemma md_rel_trans : forall m1 m2 m3, md_rel m1 m2 -> md_rel m2 m3 -> md_rel m1 m3.
  Proof.
    intros m1 m2 m3 [H1 H2] [H3 H4]. split; [congruence | intros k Hk; rewrite (H2 k Hk); apply H4; exact Hk].
  Qed.

  (** ** the keys a run can use are in [K] *)
  (** a key dict handed to verify_metadata_signatures *)
  Definition keys_in_K (keys : json) : Prop :=
    forall ks, check_public_keys keys = Ok ks -> Forall (fun kv => K (snd kv)) ks.
  (** the keys of a layout: whatever key a link of one of its steps is verified with, and the key
      dict handed to the verification of a sublayout *)
  Definition keyset_ok (keys : list (str * json)) : Prop :=
    forall l, ly_keys l = keys ->
      (forall s kid vk mainid,
         verification_key l (main_keys_for_subkeys l) s kid = Some (Ok (vk, mainid)) -> K vk) /\
      (forall kid, keys_in_K (JDict [(kid, match lookup kid (ly_keys l) with Some k => k | None => JNull end)])).
  (** a metadata object whose payload, if a layout, uses keys in [K] only *)
  Definition md_ok (m : metadata) : Prop :=
    forall ly, get_payload m = Ok (PLayout ly) -> keyset_ok (ly_keys ly).
  Definition mdo_rel (m m' : metadata) : Prop := md_rel m m' /\ md_ok m.

  Lemma md_ok_rel : forall m m', md_rel m m' -> md_ok m -> md_ok m'.
  Proof. intros m m' [Hp _] H ly Hl. apply H. rewrite Hp. exact Hl. Qed.

  Lemma substitute_parameters_keys : forall l ps l', substitute_parameters l ps = Ok l' -> ly_keys l' = ly_keys l.
  Proof.
    intros l ps l' H. unfold substitute_parameters in H.
    apply bind_Ok in H. destruct H as [x [_ H]]. apply bind_Ok in H. destruct H as [y [_ H]].
    apply bind_Ok in H. destruct H as [z [_ H]]. inversion H. reflexivity.
  Qed.

  (** files: as the loader sees them *)
  Definition file_rel (f f' : file) : Prop :=
    match f, f' with
    | FMalformed, FMalformed => True
    | FJson j, FJson j' => rres mdo_rel (from_dict j) (from_dict j')
    | _, _ => False
    end.

  Definition opt_rel {A} (R : A -> A -> Prop) (o o' : option A) : Prop :=
    match o, o' with Some a, Some a' => R a a' | None, None => True | _, _ => False end.

  (** same file names, related contents (by name: order and shadowed duplicates do not matter) *)
  Definition files_rel (fs fs' : list (str * file)) : Prop :=
    forall name, opt_rel file_rel (lookup name fs) (lookup name fs').

  Lemma files_rel_Forall2 : forall fs fs',
    Forall2 (fun x y => fst x = fst y /\ file_rel (snd x) (snd y)) fs fs' -> files_rel fs fs'.
  Proof.
    intros fs fs' H name. induction H as [|[n f] [n' f'] fs fs' [Hn Hf] _ IH]; simpl; [exact I|].
    simpl in Hn, Hf. subst n'. destruct (eqs name n); [exact Hf | exact IH].
  Qed.

  Inductive dir_rel : dirtree -> dirtree -> Prop :=
  | dir_rel_intro : forall files files' subs subs',
      files_rel files files' ->
      Forall2 (fun s s' => fst s = fst s' /\ dir_rel (snd s) (snd s')) subs subs' ->
      dir_rel (Dir files subs) (Dir files' subs').

  Definition args_rel (a a' : args) : Prop :=
    mdo_rel (a_md a) (a_md a') /\ keys_in_K (a_keys a) /\
    a_keys a = a_keys a' /\ a_params a = a_params a' /\ a_step_name a = a_step_name a'.

  Definition kms_rel : list (str * metadata) -> list (str * metadata) -> Prop :=
    Forall2 (fun x y => fst x = fst y /\ mdo_rel (snd x) (snd y)).
  Definition sm_rel : list (str * list (str * metadata)) -> list (str * list (str * metadata)) -> Prop :=
    Forall2 (fun x y => fst x = fst y /\ kms_rel (snd x) (snd y)).

  Lemma kms_rel_length : forall k k', kms_rel k k' -> length k = length k'.
  Proof. intros k k' H. induction H; simpl; congruence. Qed.

  Lemma dict_set_rel : forall k m m' acc acc',
    mdo_rel m m' -> kms_rel acc acc' -> kms_rel (dict_set k m acc) (dict_set k m' acc').
  Proof.
    intros k m m' acc acc' Hm H. induction H as [|[k1 m1] [k2 m2] acc acc' [Hk Hr] Ht IH]; simpl.
    - constructor; [split; [reflexivity | exact Hm] | constructor].
    - simpl in Hk, Hr. subst k2. destruct (eqs k k1).
      + constructor; [split; [reflexivity | exact Hm] | exact Ht].
      + constructor; [split; [reflexivity | exact Hr] | exact IH].
  Qed.

  Lemma lookup_sm_rel : forall n sm sm',
    sm_rel sm sm' ->
    kms_rel (match lookup n sm with Some f => f | None => [] end)
            (match lookup n sm' with Some f => f | None => [] end).
  Proof.
    intros n sm sm' H. induction H as [|[k1 v1] [k2 v2] sm sm' [Hk Hr] _ IH]; simpl; [constructor|].
    simpl in Hk, Hr. subst k2. destruct (eqs n k1); [exact Hr | exact IH].
  Qed.

  (** ** loading *)
  Lemma load_file_rel : forall fs fs' name,
    files_rel fs fs' -> rres (opt_rel mdo_rel) (load_file fs name) (load_file fs' name).
  Proof.
    intros fs fs' name H. specialize (H name). unfold Verify.load_file.
    destruct (lookup name fs) as [[|j]|], (lookup name fs') as [[|j']|]; simpl in *; try contradiction; auto.
    destruct (from_dict j) as [m|e], (from_dict j') as [m'|e']; simpl in *; try contradiction; auto.
  Qed.

  Lemma load_keyids_rel : forall fs fs' sname kids acc acc',
    files_rel fs fs' -> kms_rel acc acc' ->
    rres kms_rel (load_keyids fs sname kids acc) (load_keyids fs' sname kids acc').
  Proof.
    intros fs fs' sname kids. induction kids as [|kid kids IH]; intros acc acc' Hf Ha; simpl; [exact Ha|].
    eapply rres_bind; [apply load_file_rel; exact Hf|].
    intros [m|] [m'|] Hm; simpl in Hm; try contradiction.
    - apply IH; [assumption | apply dict_set_rel; assumption].
    - apply IH; assumption.
  Qed.

  Lemma load_step_rel : forall fs fs' l s,
    files_rel fs fs' -> rres kms_rel (load_step fs l s) (load_step fs' l s).
  Proof.
    intros fs fs' l s Hf. unfold Verify.load_step. destruct (negb (name_ok (st_name s))); [reflexivity|].
    eapply rres_bind; [apply load_keyids_rel; [exact Hf | constructor]|].
    intros f f' Hr. rewrite (kms_rel_length _ _ Hr).
    destruct (Z.of_nat (length f') <? st_threshold s)%Z; simpl; [reflexivity | exact Hr].
  Qed.

  Lemma load_links_rel : forall fs fs' l,
    files_rel fs fs' -> rres sm_rel (load_links_for_layout fs l) (load_links_for_layout fs' l).
  Proof.
    intros fs fs' l Hf. unfold Verify.load_links_for_layout. apply rres_mapM. intros s _.
    eapply rres_bind; [apply load_step_rel; exact Hf|]. intros f f' Hr. simpl. split; [reflexivity | exact Hr].
  Qed.

  (** ** link signatures and thresholds *)
  Lemma names_step_rel : forall m m' s, md_rel m m' -> names_step m s = names_step m' s.
  Proof. intros m m' s [Hp _]. unfold names_step. rewrite Hp. reflexivity. Qed.

  Lemma verify_step_links_rel : forall l mk s found found' used acc acc',
    (forall kid vk mainid, verification_key l mk s kid = Some (Ok (vk, mainid)) -> K vk) ->
    kms_rel found found' -> kms_rel acc acc' ->
    rres (fun x y => fst x = fst y /\ kms_rel (snd x) (snd y))
         (verify_step_links l mk s found used acc) (verify_step_links l mk s found' used acc').
  Proof.
    intros l mk s found found' used acc acc' HK H. revert used acc acc'.
    induction H as [|[kid m] [kid' m'] found found' [Hk Hm] _ IH]; intros used acc acc' Ha.
    - simpl. split; [reflexivity | exact Ha].
    - simpl in Hk, Hm. subst kid'. cbn [Verify.verify_step_links].
      destruct (verification_key l mk s kid) as [[[vk mainid]|e]|] eqn:Evk; [| reflexivity | apply IH; exact Ha].
      pose proof Hm as [[Hp Hs] Hok]. rewrite <- (Hs vk (HK _ _ _ Evk)).
      destruct (vsig m vk) as [u|e].
      + rewrite (names_step_rel m m' s (conj Hp Hs)).
        destruct (names_step m' s) as [same|e]; [|reflexivity]. cbn [bind].
        destruct (negb same); [apply IH; exact Ha|].
        destruct mainid; try reflexivity.
        apply IH. apply dict_set_rel; [exact Hm | exact Ha].
      + destruct e; try reflexivity; apply IH; exact Ha.
  Qed.

  Lemma vlst_rel : forall l sm sm',
    (forall s kid vk mainid, verification_key l (main_keys_for_subkeys l) s kid = Some (Ok (vk, mainid)) -> K vk) ->
    sm_rel sm sm' -> rres sm_rel (vlst l sm) (vlst l sm').
  Proof.
    intros l sm sm' HK H. unfold Verify.verify_link_signature_thresholds. apply rres_mapM. intros s _.
    eapply rres_bind; [apply verify_step_links_rel; [apply HK | apply lookup_sm_rel; exact H | constructor]|].
    intros [used good] [used' good'] [Hu Hg]. simpl in Hu, Hg. subst used'.
    destruct (Z.of_nat (length (dedup used)) <? st_threshold s)%Z; simpl; [reflexivity|].
    split; [reflexivity | exact Hg].
  Qed.

  Lemma vms_rel : forall m m' keys, md_rel m m' -> keys_in_K keys ->
    verify_metadata_signatures m keys = verify_metadata_signatures m' keys.
  Proof.
    intros m m' keys [_ Hs] HK. unfold Verify.verify_metadata_signatures. unfold keys_in_K in HK.
    destruct (check_public_keys keys) as [ks|e]; [|reflexivity]. cbn [bind].
    specialize (HK ks eq_refl).
    destruct ks as [|k ks]; [reflexivity|].
    rewrite (mapM_ext_in _ _ (fun kv => vsig m (snd kv)) (fun kv => vsig m' (snd kv))); [reflexivity|].
    intros x Hx. apply Hs. rewrite Forall_forall in HK. exact (HK x Hx).
  Qed.

  Lemma stage_pre_rel : forall fs fs' a a',
    files_rel fs fs' -> args_rel a a' ->
    rres (fun x y => fst x = fst y /\ sm_rel (snd x) (snd y) /\ keyset_ok (ly_keys (fst x)))
         (stage_pre fs a) (stage_pre fs' a').
  Proof.
    intros fs fs' a a' Hf [[Hm Hok] [HK [Hk [Hp Hn]]]]. unfold Verify.stage_pre.
    rewrite (vms_rel _ _ (a_keys a) Hm HK), Hk. pose proof (md_ok_rel _ _ Hm Hok) as Hok'.
    destruct Hm as [Hpl Hs]. rewrite Hpl, Hp.
    destruct (verify_metadata_signatures (a_md a') (a_keys a')) as [u|e]; [|reflexivity]. cbn [bind].
    destruct (get_payload (a_md a')) as [p|e] eqn:Epl; [|reflexivity]. cbn [bind].
    destruct p as [lk|l0]; [reflexivity|]. cbn [bind].
    destruct (check_expiry (ly_expires_us l0) now_us) as [u2|e]; [|reflexivity]. cbn [bind].
    destruct (match a_params a' with Some ps => substitute_parameters l0 ps | None => Ok l0 end) as [l|e] eqn:Esub;
      [|reflexivity]. cbn [bind].
    assert (Hkeys : ly_keys l = ly_keys l0).
    { destruct (a_params a') as [ps|]; [eapply substitute_parameters_keys; exact Esub | inversion Esub; reflexivity]. }
    assert (Hks : keyset_ok (ly_keys l)) by (rewrite Hkeys; apply Hok'; exact Epl).
    eapply rres_bind; [apply load_links_rel; exact Hf|]. intros sm sm' Hsm.
    eapply rres_bind; [apply vlst_rel; [apply (Hks l eq_refl) | exact Hsm]|]. intros vm vm' Hvm.
    simpl. split; [reflexivity | split; [exact Hvm | exact Hks]].
  Qed.

  (** ** sublayouts *)
  Definition sel (recs : list (str * (args -> result))) (m : args -> result) (name : str) : args -> result :=
    match lookup name recs with Some f => f | None => m end.

  Definition subv_rel recs m recs' m' : Prop :=
    forall name a a', args_rel a a' -> sel recs m name a = sel recs' m' name a'.

  Lemma subs_links_rel : forall recs m recs' m' l s kms kms' tr,
    keyset_ok (ly_keys l) ->
    subv_rel recs m recs' m' -> kms_rel kms kms' ->
    subs_links recs m l s kms tr = subs_links recs' m' l s kms' tr.
  Proof.
    intros recs m recs' m' l s kms kms' tr Hks Hsub H. revert tr.
    induction H as [|[kid md] [kid' md'] kms kms' [Hk Hm] _ IH]; intro tr; [reflexivity|].
    simpl in Hk, Hm. subst kid'. cbn [subs_links].
    pose proof Hm as [[Hp _] _]. rewrite <- Hp.
    destruct (get_payload md) as [[lk|ly]|e]; [| |reflexivity].
    - rewrite IH. reflexivity.
    - assert (Hcall : sel recs m (sublayout_dirname s kid)
                          (mkArgs md (JDict [(kid, match lookup kid (ly_keys l) with Some k => k | None => JNull end)]) None (JStr s)) =
                      sel recs' m' (sublayout_dirname s kid)
                          (mkArgs md' (JDict [(kid, match lookup kid (ly_keys l) with Some k => k | None => JNull end)]) None (JStr s))).
      { apply Hsub. split; [exact Hm|]. simpl. split; [apply (Hks l eq_refl) | auto]. }
      unfold sel in Hcall.
      replace (match lookup (sublayout_dirname s kid) recs with Some f => f _ | None => m _ end)
        with (match lookup (sublayout_dirname s kid) recs with Some f => f | None => m end
                (mkArgs md (JDict [(kid, match lookup kid (ly_keys l) with Some k => k | None => JNull end)]) None (JStr s)))
        by (destruct (lookup (sublayout_dirname s kid) recs); reflexivity).
      replace (match lookup (sublayout_dirname s kid) recs' with Some f => f _ | None => m' _ end)
        with (match lookup (sublayout_dirname s kid) recs' with Some f => f | None => m' end
                (mkArgs md' (JDict [(kid, match lookup kid (ly_keys l) with Some k => k | None => JNull end)]) None (JStr s)))
        by (destruct (lookup (sublayout_dirname s kid) recs'); reflexivity).
      rewrite Hcall.
      destruct (match lookup (sublayout_dirname s kid) recs' with Some f => f | None => m' end _) as [[sm|e] str];
        [|reflexivity].
      rewrite IH. reflexivity.
  Qed.

  Lemma subs_steps_rel : forall recs m recs' m' l vm vm' tr,
    keyset_ok (ly_keys l) ->
    subv_rel recs m recs' m' -> sm_rel vm vm' ->
    subs_steps recs m l vm tr = subs_steps recs' m' l vm' tr.
  Proof.
    intros recs m recs' m' l vm vm' tr Hks Hsub H. revert tr.
    induction H as [|[s kms] [s' kms'] vm vm' [Hs Hk] _ IH]; intro tr; [reflexivity|].
    simpl in Hs, Hk. subst s'. cbn [subs_steps].
    rewrite (subs_links_rel recs m recs' m' l s kms kms' tr Hks Hsub Hk).
    destruct (subs_links recs' m' l s kms' tr) as [[kl|e] tr1]; [|reflexivity].
    rewrite IH. reflexivity.
  Qed.

  (** ** one layout *)
  Lemma verify_body_rel : forall fs fs' recs m recs' m' a a',
    files_rel fs fs' -> subv_rel recs m recs' m' -> args_rel a a' ->
    verify_body b64dec loads sig_ok now_s now_us exec fs recs m a =
    verify_body b64dec loads sig_ok now_s now_us exec fs' recs' m' a'.
  Proof.
    intros fs fs' recs m recs' m' a a' Hf Hsub Ha. unfold verify_body.
    pose proof (stage_pre_rel fs fs' a a' Hf Ha) as Hp.
    destruct Ha as [_ [_ [_ [_ Hn]]]].
    destruct (stage_pre fs a) as [[l vm]|e], (stage_pre fs' a') as [[l' vm']|e']; simpl in Hp; try contradiction.
    - destruct Hp as [Hl [Hvm Hks]]. simpl in Hl, Hvm, Hks. subst l'.
      rewrite (subs_steps_rel recs m recs' m' l vm vm' [] Hks Hsub Hvm). rewrite Hn. reflexivity.
    - subst e'. reflexivity.
  Qed.

  Lemma files_rel_nil : files_rel [] [].
  Proof. intro name. exact I. Qed.

  Lemma vmissing_rel : forall a a', args_rel a a' -> vmissing a = vmissing a'.
  Proof.
    intros a a' Ha. unfold VerifySpec.vmissing, verify_in_missing_dir.
    apply verify_body_rel; [apply files_rel_nil | | exact Ha].
    intros name x x' _. reflexivity.
  Qed.

  (** ** every depth *)
  Theorem verify_rel : forall d d' a a', dir_rel d d' -> args_rel a a' -> vfy d a = vfy d' a'.
  Proof.
    induction d as [files subs IH] using dirtree_nested_ind. intros d' a a' Hd Ha.
    inversion Hd as [f f' s s' Hf Hs]; subst.
    rewrite !verify_unfold. unfold VerifySpec.vbody.
    apply verify_body_rel; [exact Hf | | exact Ha].
    intros name x x' Hx. unfold sel. rewrite !lookup_recs_of.
    clear -IH Hs Hx. induction Hs as [|[n t] [n' t'] s s' [Hn Ht] _ IHs]; simpl.
    - apply vmissing_rel. exact Hx.
    - simpl in Hn, Ht. subst n'. inversion IH as [|? ? IHt IHrest]; subst.
      destruct (eqs name n); simpl.
      + apply IHt; assumption.
      + apply IHs. exact IHrest.
  Qed.
End Equiv.
